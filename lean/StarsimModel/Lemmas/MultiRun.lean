/-
Helper lemmas for C18 (Model/MultiRun.lean): the pool invariant under an arbitrary schedule, and
permutation invariance of sums / sorting / quantiles.  Core Lean only.
-/
import StarsimModel.Model.MultiRun

namespace StarsimModel.MultiRun

/-! ### Except / mapM -/

theorem mapM_ok {α β : Type} (f : α → Except Err β) (g : α → β) (l : List α)
    (h : ∀ a ∈ l, f a = .ok (g a)) : l.mapM f = .ok (l.map g) := by
  induction l with
  | nil => rfl
  | cons a l ih =>
      have ha := h a (List.mem_cons_self ..)
      have hl := ih (fun x hx => h x (List.mem_cons_of_mem _ hx))
      simp [List.mapM_cons, ha, hl, bind, Except.bind, pure, Except.pure]

theorem mapM_eq_ok {α β : Type} (f : α → Except Err β) :
    ∀ (l : List α) (out : List β), l.mapM f = .ok out →
      out.length = l.length ∧ ∀ i (h : i < l.length), ∃ b, out[i]? = some b ∧ f l[i] = .ok b := by
  intro l
  induction l with
  | nil =>
      intro out h
      have : out = [] := by
        simp [List.mapM_nil, pure, Except.pure] at h
        first | exact h | exact h.symm
      subst this
      exact ⟨rfl, fun i hi => absurd hi (Nat.not_lt_zero _)⟩
  | cons a l ih =>
      intro out h
      rw [List.mapM_cons] at h
      cases hfa : f a with
      | error e => simp [hfa, bind, Except.bind] at h
      | ok b =>
          cases hl : l.mapM f with
          | error e => simp [hfa, hl, bind, Except.bind] at h
          | ok bs =>
              simp [hfa, hl, bind, Except.bind, pure, Except.pure] at h
              subst h
              obtain ⟨hlen, hall⟩ := ih bs hl
              refine ⟨by simp [hlen], ?_⟩
              intro i hi
              cases i with
              | zero => exact ⟨b, by simp, by simpa using hfa⟩
              | succ j =>
                  have hj : j < l.length := by simpa using hi
                  obtain ⟨b', hb', hf'⟩ := hall j hj
                  exact ⟨b', by simpa using hb', by simpa using hf'⟩

theorem mapM_ok_of_getElem {α β : Type} (f : α → Except Err β) :
    ∀ (l : List α) (out : List β), out.length = l.length →
      (∀ i (h : i < l.length), ∃ b, out[i]? = some b ∧ f l[i] = .ok b) → l.mapM f = .ok out := by
  intro l
  induction l with
  | nil =>
      intro out hlen _
      have : out = [] := List.length_eq_zero_iff.mp (by simpa using hlen)
      subst this; rfl
  | cons a l ih =>
      intro out hlen hall
      cases out with
      | nil => simp at hlen
      | cons b bs =>
          obtain ⟨b', hb', hfa⟩ := hall 0 (by simp)
          have hbb : b' = b := by simpa using hb'.symm
          subst hbb
          have htl := ih bs (by simpa using hlen) (fun i hi => by
            obtain ⟨x, hx, hfx⟩ := hall (i + 1) (by simpa using hi)
            exact ⟨x, by simpa using hx, by simpa using hfx⟩)
          have hfa' : f a = .ok b' := by simpa using hfa
          simp [List.mapM_cons, hfa', htl, bind, Except.bind, pure, Except.pure]

theorem mapM_error_of {α β : Type} (f : α → Except Err β) :
    ∀ (l : List α) (e : Err), l.mapM f = .error e → ∃ a ∈ l, ∃ e', f a = .error e' := by
  intro l
  induction l with
  | nil => intro e h; simp [List.mapM_nil, pure, Except.pure] at h
  | cons a l ih =>
      intro e h
      rw [List.mapM_cons] at h
      cases hfa : f a with
      | error e' => exact ⟨a, List.mem_cons_self .., e', hfa⟩
      | ok b =>
          cases hl : l.mapM f with
          | error e' =>
              obtain ⟨x, hx, e'', hfx⟩ := ih e' hl
              exact ⟨x, List.mem_cons_of_mem _ hx, e'', hfx⟩
          | ok bs => simp [hfa, hl, bind, Except.bind, pure, Except.pure] at h

/-! ### The pool invariant -/

section Pool
variable {κ ρ : Type} (simulate : κ → Int → ρ)

/-- task `i` run alone (on its own private copy) -/
def runAt (tasks : List (Task κ ρ)) (i : Nat) : Except Err (Sim κ ρ) :=
  match tasks[i]? with
  | none => .error .valueErr
  | some t => runAlone simulate t

/-- After the tasks in `done` have run (each on its private copy): their copies hold exactly the result of
    running them alone, the other copies do not exist yet. -/
def PoolInv (tasks : List (Task κ ρ)) (share : Nat → Nat) (done : List Nat) (p : Pool κ ρ) : Prop :=
  ∀ i, i < tasks.length →
    (i ∈ done → ∃ s, runAt simulate tasks i = .ok s ∧ p.copies (share i) = some s) ∧
    (i ∉ done → p.copies (share i) = none)

def Private (n : Nat) (share : Nat → Nat) : Prop :=
  ∀ i j, i < n → j < n → share i = share j → i = j

theorem stepEvent_ok (tasks : List (Task κ ρ)) (share : Nat → Nat) (done : List Nat) (p : Pool κ ρ)
    (e : Nat × Nat) (s : Sim κ ρ)
    (hinv : PoolInv simulate tasks share done p) (hpriv : Private tasks.length share)
    (hlt : e.2 < tasks.length) (hnd : e.2 ∉ done) (hrun : runAt simulate tasks e.2 = .ok s) :
    ∃ p', stepEvent simulate tasks share p e = .ok p' ∧ PoolInv simulate tasks share (e.2 :: done) p' := by
  have hnone := (hinv e.2 hlt).2 hnd
  have hget : tasks[e.2]? = some tasks[e.2] := List.getElem?_eq_getElem hlt
  have hrun' : singleRun simulate tasks[e.2].sim tasks[e.2] = .ok s := by
    simpa [runAt, hget, runAlone] using hrun
  refine ⟨_, by simp only [stepEvent, hget, hnone, Option.getD_none, hrun']; rfl, ?_⟩
  intro i hi
  by_cases hie : i = e.2
  · subst hie
    refine ⟨fun _ => ⟨s, hrun, by simp⟩, fun h => absurd (List.mem_cons_self ..) h⟩
  · have hsh : share i ≠ share e.2 := fun h => hie (hpriv i e.2 hi hlt h)
    constructor
    · intro hmem
      have hmem' : i ∈ done := by
        rcases List.mem_cons.mp hmem with h | h
        · exact absurd h hie
        · exact h
      obtain ⟨s', hs', hc'⟩ := (hinv i hi).1 hmem'
      exact ⟨s', hs', by simp [hsh, hc']⟩
    · intro hnm
      have hnm' : i ∉ done := fun h => hnm (List.mem_cons_of_mem _ h)
      simp [hsh, (hinv i hi).2 hnm']

theorem stepEvent_error (tasks : List (Task κ ρ)) (share : Nat → Nat) (done : List Nat) (p : Pool κ ρ)
    (e : Nat × Nat) (er : Err)
    (hinv : PoolInv simulate tasks share done p)
    (hlt : e.2 < tasks.length) (hnd : e.2 ∉ done) (hrun : runAt simulate tasks e.2 = .error er) :
    stepEvent simulate tasks share p e = .error er := by
  have hnone := (hinv e.2 hlt).2 hnd
  have hget : tasks[e.2]? = some tasks[e.2] := List.getElem?_eq_getElem hlt
  have hrun' : singleRun simulate tasks[e.2].sim tasks[e.2] = .error er := by
    simpa [runAt, hget, runAlone] using hrun
  simp only [stepEvent, hget, hnone, Option.getD_none, hrun']

/-- All scheduled tasks succeed alone ⇒ the schedule succeeds and every scheduled copy holds the stand-alone result. -/
theorem runSchedule_ok (tasks : List (Task κ ρ)) (share : Nat → Nat) (hpriv : Private tasks.length share) :
    ∀ (es : List (Nat × Nat)) (done : List Nat) (p : Pool κ ρ),
      PoolInv simulate tasks share done p →
      (∀ e ∈ es, e.2 < tasks.length) → (es.map (·.2)).Nodup → (∀ e ∈ es, e.2 ∉ done) →
      (∀ e ∈ es, ∃ s, runAt simulate tasks e.2 = .ok s) →
      ∃ p', runSchedule simulate tasks share es p = .ok p' ∧
        PoolInv simulate tasks share ((es.map (·.2)).reverse ++ done) p' := by
  intro es
  induction es with
  | nil => intro done p hinv _ _ _ _; exact ⟨p, rfl, by simpa using hinv⟩
  | cons e es ih =>
      intro done p hinv hlt hnd hdone hall
      obtain ⟨s, hs⟩ := hall e (List.mem_cons_self ..)
      obtain ⟨p1, hp1, hinv1⟩ := stepEvent_ok simulate tasks share done p e s hinv hpriv
        (hlt e (List.mem_cons_self ..)) (hdone e (List.mem_cons_self ..)) hs
      have hnd' : (es.map (·.2)).Nodup := (List.nodup_cons.mp (by simpa using hnd)).2
      have hnotin : e.2 ∉ es.map (·.2) := (List.nodup_cons.mp (by simpa using hnd)).1
      obtain ⟨p', hp', hinv'⟩ := ih (e.2 :: done) p1 hinv1
        (fun x hx => hlt x (List.mem_cons_of_mem _ hx)) hnd'
        (fun x hx hmem => by
          rcases List.mem_cons.mp hmem with h | h
          · exact hnotin (h ▸ List.mem_map_of_mem hx)
          · exact hdone x (List.mem_cons_of_mem _ hx) h)
        (fun x hx => hall x (List.mem_cons_of_mem _ hx))
      refine ⟨p', ?_, ?_⟩
      · simp only [runSchedule, List.foldlM_cons, hp1, bind, Except.bind]
        exact hp'
      · simpa [List.append_assoc] using hinv'

/-- Some scheduled task fails alone ⇒ the schedule fails. -/
theorem runSchedule_error (tasks : List (Task κ ρ)) (share : Nat → Nat) (hpriv : Private tasks.length share) :
    ∀ (es : List (Nat × Nat)) (done : List Nat) (p : Pool κ ρ),
      PoolInv simulate tasks share done p →
      (∀ e ∈ es, e.2 < tasks.length) → (es.map (·.2)).Nodup → (∀ e ∈ es, e.2 ∉ done) →
      (∃ e ∈ es, ∃ er, runAt simulate tasks e.2 = .error er) →
      ∃ er, runSchedule simulate tasks share es p = .error er := by
  intro es
  induction es with
  | nil =>
      intro done p _ _ _ _ h
      rcases h with ⟨e, he, _⟩
      exact absurd he List.not_mem_nil
  | cons e es ih =>
      intro done p hinv hlt hnd hdone hex
      cases hrun : runAt simulate tasks e.2 with
      | error er =>
          have := stepEvent_error simulate tasks share done p e er hinv (hlt e (List.mem_cons_self ..))
            (hdone e (List.mem_cons_self ..)) hrun
          exact ⟨er, by simp only [runSchedule, List.foldlM_cons, this, bind, Except.bind]⟩
      | ok s =>
          obtain ⟨p1, hp1, hinv1⟩ := stepEvent_ok simulate tasks share done p e s hinv hpriv
            (hlt e (List.mem_cons_self ..)) (hdone e (List.mem_cons_self ..)) hrun
          have hnd' : (es.map (·.2)).Nodup := (List.nodup_cons.mp (by simpa using hnd)).2
          have hnotin : e.2 ∉ es.map (·.2) := (List.nodup_cons.mp (by simpa using hnd)).1
          have hex' : ∃ x ∈ es, ∃ er, runAt simulate tasks x.2 = .error er := by
            obtain ⟨x, hx, er, hxe⟩ := hex
            rcases List.mem_cons.mp hx with h | h
            · subst h; rw [hrun] at hxe; cases hxe
            · exact ⟨x, h, er, hxe⟩
          obtain ⟨er, her⟩ := ih (e.2 :: done) p1 hinv1
            (fun x hx => hlt x (List.mem_cons_of_mem _ hx)) hnd'
            (fun x hx hmem => by
              rcases List.mem_cons.mp hmem with h | h
              · exact hnotin (h ▸ List.mem_map_of_mem hx)
              · exact hdone x (List.mem_cons_of_mem _ hx) h)
            hex'
          exact ⟨er, by simp only [runSchedule, List.foldlM_cons, hp1, bind, Except.bind]; exact her⟩

theorem poolInv_empty (tasks : List (Task κ ρ)) (share : Nat → Nat) :
    PoolInv simulate tasks share [] (Pool.empty : Pool κ ρ) := by
  intro i _; exact ⟨fun h => absurd h List.not_mem_nil, fun _ => rfl⟩

end Pool

/-! ### Runs that read the hosting process's global generators refine the pure model -/

section HostState
variable {κ ρ : Type} (env : GEnv κ ρ)

/-- a sim whose run (if any) starts with `Sim.init`: not yet initialised, or already complete (then it cannot run) -/
def Safe (s : Sim κ ρ) : Prop := s.initSeed = none ∨ s.results.isSome = true

theorem initSeedsGlobalFirst_true : Gen.initSeedsGlobalFirst = true := by decide
theorem initResetsProcessState_true : initResetsProcessState = true := by decide
theorem doRunFalseSkipsInit_true : Gen.doRunFalseSkipsInit = true := by decide

/-- One `single_run` of a `Safe` object, from ANY state of the hosting process: same error, or the same sim as the
    pure model (the results are those of the configuration run alone with its seed), again `Safe`. -/
theorem singleRunG_refines (obj : Sim κ ρ) (t : Task κ ρ) (g : GState) (hs : Safe obj) :
    (∃ er, singleRunG env obj t g = .error er ∧ singleRun env.pure obj t = .error er) ∨
    (∃ r g', singleRunG env obj t g = .ok (r, g') ∧ singleRun env.pure obj t = .ok r ∧ Safe r) := by
  unfold singleRunG singleRun
  simp only [initGlobal, initResetsProcessState_true, doRunFalseSkipsInit_true, if_true]
  by_cases hd : t.doRun = true
  · simp only [hd, if_true]
    by_cases hr : obj.results.isSome = true
    · left; exact ⟨.alreadyRun, by simp [hr], by simp [hr]⟩
    · have hi : obj.initSeed = none := by
        rcases hs with h | h
        · exact h
        · exact absurd h hr
      right
      simp only [hr, hi, Option.getD_none]
      exact ⟨_, _, rfl, rfl, Or.inr rfl⟩
  · have hd' : t.doRun = false := by simpa using hd
    right
    simp only [hd']
    refine ⟨_, _, rfl, rfl, ?_⟩
    rcases hs with h | h
    · exact Or.inl h
    · exact Or.inr h

/-- pools of the two models hold the same copies, all `Safe` -/
def PoolRel (pg : PoolG κ ρ) (p : Pool κ ρ) : Prop :=
  pg.copies = p.copies ∧ ∀ k s, p.copies k = some s → Safe s

/-- outcomes agree: the same error, or related pools -/
def OutRel : Except Err (PoolG κ ρ) → Except Err (Pool κ ρ) → Prop
  | .error e, .error e' => e = e'
  | .ok a, .ok b => PoolRel a b
  | _, _ => False

theorem stepEventG_refines (tasks : List (Task κ ρ)) (share : Nat → Nat) (hsafe : ∀ t ∈ tasks, Safe t.sim)
    (pg : PoolG κ ρ) (p : Pool κ ρ) (hrel : PoolRel pg p) (e : Nat × Nat) :
    OutRel (stepEventG env tasks share pg e) (stepEvent env.pure tasks share p e) := by
  unfold stepEventG stepEvent
  cases hget : tasks[e.2]? with
  | none => simp [OutRel]
  | some t =>
      have htm : t ∈ tasks := List.mem_of_getElem? hget
      obtain ⟨hc, hall⟩ := hrel
      have hobj : Safe ((p.copies (share e.2)).getD t.sim) := by
        cases hk : p.copies (share e.2) with
        | none => simpa using hsafe t htm
        | some s => simpa using hall _ s hk
      simp only [hc]
      rcases singleRunG_refines env ((p.copies (share e.2)).getD t.sim) t (pg.wstate e.1) hobj with
        ⟨er, h1, h2⟩ | ⟨r, g', h1, h2, h3⟩
      · simp only [h1, h2, OutRel]
      · simp only [h1, h2, OutRel]
        refine ⟨rfl, ?_⟩
        intro k s hk
        by_cases hkk : k = share e.2
        · simp only [hkk, if_true, Option.some.injEq] at hk
          exact hk ▸ h3
        · simp only [hkk, if_false] at hk
          exact hall k s hk

theorem runScheduleG_refines (tasks : List (Task κ ρ)) (share : Nat → Nat) (hsafe : ∀ t ∈ tasks, Safe t.sim) :
    ∀ (sched : List (Nat × Nat)) (pg : PoolG κ ρ) (p : Pool κ ρ), PoolRel pg p →
      OutRel (runScheduleG env tasks share sched pg) (runSchedule env.pure tasks share sched p) := by
  intro sched
  induction sched with
  | nil => intro pg p h; simpa [runScheduleG, runSchedule, OutRel, pure, Except.pure] using h
  | cons e es ih =>
      intro pg p h
      have hstep := stepEventG_refines env tasks share hsafe pg p h e
      simp only [runScheduleG, runSchedule, List.foldlM_cons, bind, Except.bind] at *
      cases h1 : stepEventG env tasks share pg e with
      | error er =>
          cases h2 : stepEvent env.pure tasks share p e with
          | error er' => simp only [h1, h2, OutRel] at hstep ⊢; exact hstep
          | ok b => simp [h1, h2, OutRel] at hstep
      | ok a =>
          cases h2 : stepEvent env.pure tasks share p e with
          | error er' => simp [h1, h2, OutRel] at hstep
          | ok b =>
              simp only [h1, h2, OutRel] at hstep
              exact ih a b hstep

theorem collectG_eq (n : Nat) (share : Nat → Nat) (pg : PoolG κ ρ) (p : Pool κ ρ) (h : pg.copies = p.copies) :
    collectG n share pg = collect n share p := by
  simp only [collectG, collect, h]

/-- **Refinement, parallel.** Whatever states the workers start from and whatever runs leave behind, under every
    schedule and every copy policy the run that reads the hosting process's generators returns exactly what the pure
    model returns (members of which none is initialised-but-not-run). -/
theorem execParG_eq_execPar (tasks : List (Task κ ρ)) (share : Nat → Nat) (sched : List (Nat × Nat)) (w0 : Nat → GState)
    (hsafe : ∀ t ∈ tasks, Safe t.sim) :
    execParG env tasks share sched w0 = execPar env.pure tasks share sched := by
  have h := runScheduleG_refines env tasks share hsafe sched ⟨fun _ => none, w0⟩ Pool.empty
    ⟨rfl, fun k s hk => by simp [Pool.empty] at hk⟩
  unfold execParG execPar
  cases h1 : runScheduleG env tasks share sched ⟨fun _ => none, w0⟩ with
  | error er =>
      cases h2 : runSchedule env.pure tasks share sched Pool.empty with
      | error er' => simp only [h1, h2, OutRel] at h; simp [h, bind, Except.bind]
      | ok b => simp [h1, h2, OutRel] at h
  | ok a =>
      cases h2 : runSchedule env.pure tasks share sched Pool.empty with
      | error er' => simp [h1, h2, OutRel] at h
      | ok b =>
          simp only [h1, h2, OutRel] at h
          simp only [bind, Except.bind]
          exact collectG_eq _ _ a b h.1

/-- **Refinement, serial loop** (one process, the state handed from member to member). -/
theorem execSerialG_eq_execSerial : ∀ (tasks : List (Task κ ρ)) (g : GState), (∀ t ∈ tasks, Safe t.sim) →
    (execSerialG env tasks g).map Prod.fst = execSerial env.pure tasks := by
  intro tasks
  induction tasks with
  | nil => intro g _; simp [execSerialG, execSerial, Except.map, pure, Except.pure]
  | cons t ts ih =>
      intro g hsafe
      have ht : Safe t.sim := hsafe t (List.mem_cons_self ..)
      have hts : ∀ x ∈ ts, Safe x.sim := fun x hx => hsafe x (List.mem_cons_of_mem _ hx)
      rcases singleRunG_refines env t.sim t g ht with ⟨er, h1, h2⟩ | ⟨r, g', h1, h2, _⟩
      · simp [execSerialG, execSerial, runAlone, h1, h2, Except.map, bind, Except.bind]
      · have ih' := ih g' hts
        simp only [execSerial] at ih'
        simp only [execSerialG, execSerial, List.mapM_cons, runAlone, h1, h2, bind, Except.bind]
        cases h3 : execSerialG env ts g' with
        | error e =>
            rw [h3] at ih'
            simp only [Except.map] at ih'
            simp [← ih', Except.map]
        | ok pr =>
            rw [h3] at ih'
            simp only [Except.map] at ih'
            simp [← ih', Except.map, pure, Except.pure]

end HostState

/-! ### Statistics -/

theorem sum_perm {l₁ l₂ : List Rat} (h : l₁.Perm l₂) : sum l₁ = sum l₂ := by
  induction h with
  | nil => rfl
  | cons x _ ih => simp only [sum, List.foldr_cons] at *; rw [ih]
  | swap x y l => simp only [sum, List.foldr_cons]; grind
  | trans _ _ ih₁ ih₂ => exact ih₁.trans ih₂

theorem mean_perm {l₁ l₂ : List Rat} (h : l₁.Perm l₂) : mean l₁ = mean l₂ := by
  simp only [mean, sum_perm h, h.length_eq]

theorem variance_perm (d : Nat) {l₁ l₂ : List Rat} (h : l₁.Perm l₂) : variance d l₁ = variance d l₂ := by
  simp only [variance, mean_perm h, h.length_eq]
  rw [sum_perm (h.map _)]

theorem leB_trans (a b c : Rat) : leB a b = true → leB b c = true → leB a c = true := by
  simp only [leB, decide_eq_true_eq]; exact Rat.le_trans

theorem leB_total (a b : Rat) : (leB a b || leB b a) = true := by
  simp only [leB, Bool.or_eq_true, decide_eq_true_eq]; exact Rat.le_total

theorem sorted_pairwise (l : List Rat) : (sorted l).Pairwise (fun a b => a ≤ b) := by
  have := List.pairwise_mergeSort leB_trans leB_total l
  simpa [leB, sorted] using this

theorem sorted_perm_self (l : List Rat) : (sorted l).Perm l := List.mergeSort_perm l leB

theorem sorted_perm {l₁ l₂ : List Rat} (h : l₁.Perm l₂) : sorted l₁ = sorted l₂ := by
  apply List.Perm.eq_of_pairwise (le := fun a b => a ≤ b)
  · intro a b _ _ hab hba; exact Rat.le_antisymm hab hba
  · exact sorted_pairwise l₁
  · exact sorted_pairwise l₂
  · exact (sorted_perm_self l₁).trans (h.trans (sorted_perm_self l₂).symm)

/-- the sorted list is the unique ascending permutation (used to evaluate concrete examples: `mergeSort`
    is defined by well-founded recursion and does not reduce in the kernel) -/
theorem sorted_eq_of {l s : List Rat} (hp : s.Perm l) (hs : s.Pairwise (fun a b => a ≤ b)) : sorted l = s := by
  apply List.Perm.eq_of_pairwise (le := fun a b => a ≤ b)
  · intro a b _ _ hab hba; exact Rat.le_antisymm hab hba
  · exact sorted_pairwise l
  · exact hs
  · exact (sorted_perm_self l).trans hp.symm

theorem sorted_length (l : List Rat) : (sorted l).length = l.length := (sorted_perm_self l).length_eq

theorem quantile_perm (q : Rat) {l₁ l₂ : List Rat} (h : l₁.Perm l₂) : quantile q l₁ = quantile q l₂ := by
  simp only [quantile, sorted_perm h]

theorem evalStat_perm (sqrtF : Rat → Rat) (k qlo qhi : Rat) (e : Gen.StatExpr) {l₁ l₂ : List Rat}
    (h : l₁.Perm l₂) : evalStat sqrtF k qlo qhi e l₁ = evalStat sqrtF k qlo qhi e l₂ := by
  induction e with
  | mean => simp only [evalStat, mean_perm h]
  | std d => simp only [evalStat, variance_perm d h]
  | quantile q => simp only [evalStat, quantile_perm q h]
  | qLow => simp only [evalStat, quantile_perm qlo h]
  | qHigh => simp only [evalStat, quantile_perm qhi h]
  | minusK a b iha ihb => simp only [evalStat, iha, ihb]
  | plusK a b iha ihb => simp only [evalStat, iha, ihb]


/-! ### NumPy's linear-interpolation quantile at 0, 1/2, 1 -/

theorem floor_natCast (k : Nat) : Rat.floor (k : Rat) = (k : Int) := by
  have : (k : Rat) = ((k : Int) : Rat) := by norm_cast
  rw [this, Rat.floor_intCast]

theorem floor_zero : Rat.floor 0 = 0 := by
  have := floor_natCast 0
  simpa using this

/-- `quantile 0` is the minimum (first element of the sorted members). -/
theorem quantile_zero (l : List Rat) : quantile 0 l = (sorted l).getD 0 0 := by
  simp [quantile, floor_zero]
  grind

/-- `quantile 1` is the maximum (last element of the sorted members). -/
theorem quantile_one (l : List Rat) : quantile 1 l = (sorted l).getD ((sorted l).length - 1) 0 := by
  simp [quantile, floor_natCast]
  grind

/-- floor of `m + 1/2` -/
theorem floor_half (m : Nat) : Rat.floor ((m : Rat) + 1/2) = (m : Int) := by
  have h1 : (m : Int) ≤ Rat.floor ((m : Rat) + 1/2) := by
    rw [Rat.le_floor_iff]
    have : ((m : Int) : Rat) = (m : Rat) := by norm_cast
    rw [this]; grind
  have h2 : Rat.floor ((m : Rat) + 1/2) < (m : Int) + 1 := by
    have hle := Rat.floor_le ((m : Rat) + 1/2)
    have hlt : ((Rat.floor ((m : Rat) + 1/2) : Int) : Rat) < (((m : Int) + 1 : Int) : Rat) := by
      have : (((m : Int) + 1 : Int) : Rat) = (m : Rat) + 1 := by norm_cast
      rw [this]; grind
    exact Rat.intCast_lt_intCast.mp hlt
  omega

/-- odd number of members: the median is the middle element of the sorted members -/
theorem median_odd (l : List Rat) (m : Nat) (h : l.length = 2 * m + 1) : median l = (sorted l).getD m 0 := by
  have hs : (sorted l).length = 2 * m + 1 := by rw [sorted_length, h]
  have hidx : (1 / 2 : Rat) * ((2 * m + 1 - 1 : Nat) : Rat) = (m : Rat) := by
    have : (2 * m + 1 - 1 : Nat) = 2 * m := by omega
    rw [this, Rat.natCast_mul]; grind
  simp only [median, quantile, hs, hidx, floor_natCast]
  simp
  grind

/-- even number of members: the median is the mean of the two middle elements -/
theorem median_even (l : List Rat) (m : Nat) (h : l.length = 2 * m + 2) :
    median l = ((sorted l).getD m 0 + (sorted l).getD (m + 1) 0) / 2 := by
  have hs : (sorted l).length = 2 * m + 2 := by rw [sorted_length, h]
  have hidx : (1 / 2 : Rat) * ((2 * m + 2 - 1 : Nat) : Rat) = (m : Rat) + 1/2 := by
    have : (2 * m + 2 - 1 : Nat) = 2 * m + 1 := by omega
    rw [this, Rat.natCast_add, Rat.natCast_mul]; grind
  simp only [median, quantile, hs, hidx, floor_half]
  simp
  grind

/-! ### Monotonicity of the quantile in its level -/

/-- linear interpolation of an ascending list at the virtual index `x` (what `quantile` evaluates) -/
def interp (s : List Rat) (x : Rat) : Rat :=
  let lo := x.floor.toNat
  let hi := min (lo + 1) (s.length - 1)
  s.getD lo 0 + (s.getD hi 0 - s.getD lo 0) * (x - (lo : Rat))

theorem quantile_eq_interp (q : Rat) (l : List Rat) :
    quantile q l = interp (sorted l) (q * (((sorted l).length - 1 : Nat) : Rat)) := rfl

theorem getD_mono {s : List Rat} (hs : s.Pairwise (fun a b => a ≤ b)) {i j : Nat} (hij : i ≤ j) (hj : j < s.length) :
    s.getD i 0 ≤ s.getD j 0 := by
  have hi : i < s.length := by omega
  simp only [List.getD_eq_getElem?_getD, List.getElem?_eq_getElem hi, List.getElem?_eq_getElem hj, Option.getD_some]
  rcases Nat.lt_or_ge i j with h | h
  · exact (List.pairwise_iff_getElem.mp hs) i j hi hj h
  · have : i = j := by omega
    subst this; exact Rat.le_refl

theorem floorNat_le {x : Rat} (hx : 0 ≤ x) : ((x.floor.toNat : Nat) : Rat) ≤ x := by
  have h0 : 0 ≤ x.floor := Rat.le_floor_iff.mpr (by simpa using hx)
  have : ((x.floor.toNat : Nat) : Rat) = ((x.floor : Int) : Rat) := by
    rw [← Rat.intCast_natCast, Int.toNat_of_nonneg h0]
  rw [this]; exact Rat.floor_le x

theorem lt_floorNat_add_one {x : Rat} (hx : 0 ≤ x) : x < ((x.floor.toNat : Nat) : Rat) + 1 := by
  have h0 : 0 ≤ x.floor := Rat.le_floor_iff.mpr (by simpa using hx)
  have : ((x.floor.toNat : Nat) : Rat) = ((x.floor : Int) : Rat) := by
    rw [← Rat.intCast_natCast, Int.toNat_of_nonneg h0]
  rw [this]
  have := Rat.lt_floor_add_one x
  have h2 : ((x.floor + 1 : Int) : Rat) = ((x.floor : Int) : Rat) + 1 := by norm_cast
  rwa [h2] at this

theorem floorNat_mono {x y : Rat} (hx : 0 ≤ x) (hxy : x ≤ y) : x.floor.toNat ≤ y.floor.toNat := by
  have h : x.floor ≤ y.floor := Rat.le_floor_iff.mpr (Rat.le_trans (Rat.floor_le x) hxy)
  have h0 : 0 ≤ x.floor := Rat.le_floor_iff.mpr (by simpa using hx)
  omega

theorem floorNat_le_of_le_natCast {x : Rat} (hx : 0 ≤ x) {m : Nat} (h : x ≤ (m : Rat)) : x.floor.toNat ≤ m := by
  have : ((x.floor.toNat : Nat) : Rat) ≤ (m : Rat) := Rat.le_trans (floorNat_le hx) h
  exact Rat.natCast_le_natCast.mp this

/-- the interpolant is monotone in the virtual index on `[0, n-1]` -/
theorem interp_mono {s : List Rat} (hs : s.Pairwise (fun a b => a ≤ b)) (hne : s ≠ []) {x y : Rat}
    (hx : 0 ≤ x) (hxy : x ≤ y) (hy : y ≤ ((s.length - 1 : Nat) : Rat)) : interp s x ≤ interp s y := by
  have hn : 0 < s.length := List.length_pos_iff.mpr hne
  have hy0 : 0 ≤ y := Rat.le_trans hx hxy
  have hi := floorNat_le_of_le_natCast hx (Rat.le_trans hxy hy)
  have hj := floorNat_le_of_le_natCast hy0 hy
  have hij := floorNat_mono hx hxy
  have hgx0 := floorNat_le hx
  have hgx1 := lt_floorNat_add_one hx
  have hgy0 := floorNat_le hy0
  simp only [interp]
  generalize hI : x.floor.toNat = i at *
  generalize hJ : y.floor.toNat = j at *
  have hai_bi : s.getD i 0 ≤ s.getD (min (i + 1) (s.length - 1)) 0 := getD_mono hs (by omega) (by omega)
  have haj_bj : s.getD j 0 ≤ s.getD (min (j + 1) (s.length - 1)) 0 := getD_mono hs (by omega) (by omega)
  rcases Nat.lt_or_ge i j with hlt | hge
  · -- different cells: f x ≤ b_i ≤ a_j ≤ f y
    have h1 : s.getD i 0 + (s.getD (min (i + 1) (s.length - 1)) 0 - s.getD i 0) * (x - (i : Rat)) ≤
        s.getD (min (i + 1) (s.length - 1)) 0 := by
      have : (s.getD (min (i + 1) (s.length - 1)) 0 - s.getD i 0) * (x - (i : Rat)) ≤
          (s.getD (min (i + 1) (s.length - 1)) 0 - s.getD i 0) * 1 :=
        Rat.mul_le_mul_of_nonneg_left (by grind) (by grind)
      grind
    have h2 : s.getD (min (i + 1) (s.length - 1)) 0 ≤ s.getD j 0 := getD_mono hs (by omega) (by omega)
    have h3 : s.getD j 0 ≤ s.getD j 0 + (s.getD (min (j + 1) (s.length - 1)) 0 - s.getD j 0) * (y - (j : Rat)) := by
      have : 0 ≤ (s.getD (min (j + 1) (s.length - 1)) 0 - s.getD j 0) * (y - (j : Rat)) :=
        Rat.mul_nonneg (by grind) (by grind)
      grind
    exact Rat.le_trans h1 (Rat.le_trans h2 h3)
  · have : i = j := by omega
    subst this
    have : (s.getD (min (i + 1) (s.length - 1)) 0 - s.getD i 0) * (x - (i : Rat)) ≤
        (s.getD (min (i + 1) (s.length - 1)) 0 - s.getD i 0) * (y - (i : Rat)) :=
      Rat.mul_le_mul_of_nonneg_left (by grind) (by grind)
    grind

/-- **Quantiles are monotone in the level** on `[0, 1]`. -/
theorem quantile_mono (l : List Rat) {q₁ q₂ : Rat} (h0 : 0 ≤ q₁) (h12 : q₁ ≤ q₂) (h1 : q₂ ≤ 1) :
    quantile q₁ l ≤ quantile q₂ l := by
  by_cases hne : sorted l = []
  · simp [quantile, hne]
  · rw [quantile_eq_interp, quantile_eq_interp]
    have hc : (0 : Rat) ≤ (((sorted l).length - 1 : Nat) : Rat) := Rat.natCast_nonneg
    apply interp_mono (sorted_pairwise l) hne
    · exact Rat.mul_nonneg h0 hc
    · exact Rat.mul_le_mul_of_nonneg_right h12 hc
    · have := Rat.mul_le_mul_of_nonneg_right h1 hc
      simpa using this

end StarsimModel.MultiRun
