/-
Helper lemmas about Model/TimePar.lean over `Rat` (field reasoning needs Mathlib's `Field ℚ` + ring/field_simp).
Used by Props/C06.lean and Props/C16.lean.
-/
import StarsimModel.Model.TimePar
import Mathlib.Algebra.Order.Field.Rat
import Mathlib.Tactic.FieldSimp
import Mathlib.Tactic.Ring
import Mathlib.Tactic.Linarith

namespace StarsimModel.TimePar

/-! ### The regenerated tables -/

/-- obligation on `Generated/TimeUnits.lean`: every unit has a positive length -/
theorem table_lengths_positive : ∀ r ∈ Gen.timeUnits, 0 < r.2 := by decide +kernel

/-- obligation on the two regenerated tables: no unit with a length is a "unitless" alias -/
theorem table_units_not_unitless : ∀ r ∈ Gen.timeUnits, isUnitless (some r.1) = false := by decide +kernel

theorem lookup_mem {β : Type} (u : String) : ∀ (l : List (String × β)) (v : β), l.lookup u = some v → (u, v) ∈ l := by
  intro l
  induction l with
  | nil => intro v h; simp [List.lookup] at h
  | cons hd tl ih =>
      intro v h
      obtain ⟨k, w⟩ := hd
      by_cases hk : u = k
      · subst hk
        simp [List.lookup] at h
        simp [h]
      · have : (u == k) = false := by simpa using hk
        simp [List.lookup, this] at h
        exact List.mem_cons_of_mem _ (ih v h)

theorem unitLen_pos {u : String} {l : Rat} (h : unitLen u = some l) : 0 < l :=
  table_lengths_positive (u, l) (lookup_mem u _ l h)

theorem unitLen_not_unitless {u : String} {l : Rat} (h : unitLen u = some l) : isUnitless (some u) = false :=
  table_units_not_unitless (u, l) (lookup_mem u _ l h)

/-! ### `time_ratio` -/

theorem dtRatio_some {a b : Rat} (hb : b ≠ 0) : dtRatio (some a) (some b) = .ok (a / b) := by
  unfold dtRatio
  by_cases h : a = b
  · subst h; simp [div_self hb]
  · simp [h, hb]

theorem unitRatio_known {a b : String} {x y : Rat} (ha : unitLen a = some x) (hb : unitLen b = some y) :
    unitRatio (some a) (some b) = .ok (x / y) := by
  have hy : y ≠ 0 := ne_of_gt (unitLen_pos hb)
  unfold unitRatio
  by_cases h : a = b
  · subst h
    have : x = y := by rw [ha] at hb; exact Option.some.inj hb
    subst this; simp [div_self hy]
  · simp [h, unitLen_not_unitless ha, unitLen_not_unitless hb, ha, hb, hy]

/-- closed form: for units of the table and a non-zero denominator dt, the factor is
    `(dt1/dt2) * (len u1 / len u2)` — the short-cuts of the code agree with the general formula -/
theorem timeRatio_known {a b : String} {x y d1 d2 : Rat} (ha : unitLen a = some x) (hb : unitLen b = some y) (h2 : d2 ≠ 0) :
    timeRatio (some a) (some d1) (some b) (some d2) = .ok ((d1 / d2) * (x / y)) := by
  simp [timeRatio, dtRatio_some h2, unitRatio_known ha hb]

theorem dtRatio_trans {d1 d2 d3 : Option Rat} {r s : Rat} (h12 : dtRatio d1 d2 = .ok r) (h23 : dtRatio d2 d3 = .ok s) :
    dtRatio d1 d3 = .ok (r * s) := by
  unfold dtRatio at *
  by_cases e12 : d1 = d2
  · subst e12
    simp at h12; subst h12
    simpa using h23
  · by_cases e23 : d2 = d3
    · subst e23
      simp at h23; subst h23
      simpa [e12] using h12
    · rcases d1 with _ | a <;> rcases d2 with _ | b <;> rcases d3 with _ | c <;> simp_all
      by_cases hb : b = 0
      · simp [hb] at h12
      · by_cases hc : c = 0
        · simp [hc] at h23
        · simp [hb] at h12; simp [hc] at h23
          subst h12; subst h23
          by_cases hac : a = c
          · subst hac
            have ha : a ≠ 0 := hc
            simp; field_simp
          · simp [hac, hc]; field_simp

theorem unitRatio_ok_cases {u1 u2 : UnitT} {r : Rat} (h : unitRatio u1 u2 = .ok r) :
    (u1 = u2 ∧ r = 1) ∨ (u1 ≠ u2 ∧ ∃ a b x y, u1 = some a ∧ u2 = some b ∧ unitLen a = some x ∧ unitLen b = some y ∧ r = x / y) := by
  unfold unitRatio at h
  by_cases e : u1 = u2
  · left; simp [e] at h; exact ⟨e, h.symm⟩
  · right
    refine ⟨e, ?_⟩
    simp only [e, if_false] at h
    by_cases hu : (isUnitless u1 || isUnitless u2) = true
    · simp [hu] at h
    · simp only [hu] at h
      rcases u1 with _ | a <;> rcases u2 with _ | b <;> simp at h
      cases hx : unitLen a with
      | none => simp [hx] at h
      | some x =>
        cases hy : unitLen b with
        | none => simp [hx, hy] at h
        | some y =>
          simp only [hx, hy] at h
          by_cases y0 : y = 0
          · simp [y0] at h
          · simp [y0] at h
            exact ⟨a, b, x, y, rfl, rfl, hx, hy, h.symm⟩

theorem unitRatio_trans {u1 u2 u3 : UnitT} {r s : Rat} (h12 : unitRatio u1 u2 = .ok r) (h23 : unitRatio u2 u3 = .ok s) :
    unitRatio u1 u3 = .ok (r * s) := by
  rcases unitRatio_ok_cases h12 with ⟨e, hr⟩ | ⟨ne12, a, b, x, y, rfl, rfl, hx, hy, hr⟩
  · subst e; subst hr; simpa using h23
  · rcases unitRatio_ok_cases h23 with ⟨e, hs⟩ | ⟨ne23, b', c, y', z, hb', rfl, hy', hz, hs⟩
    · subst e; subst hs; simpa using h12
    · have : b = b' := Option.some.inj hb'
      subst this
      have : y = y' := by rw [hy] at hy'; exact Option.some.inj hy'
      subst this
      have y0 : y ≠ 0 := ne_of_gt (unitLen_pos hy)
      have z0 : z ≠ 0 := ne_of_gt (unitLen_pos hz)
      rw [unitRatio_known hx hz, hr, hs]
      congr 1
      field_simp

/-- transitivity for EVERY input the code accepts (all units incl. `None`/unitless/equal unknown names, all dt incl. `None`) -/
theorem timeRatio_trans {u1 u2 u3 : UnitT} {d1 d2 d3 : Option Rat} {r s : Rat}
    (h12 : timeRatio u1 d1 u2 d2 = .ok r) (h23 : timeRatio u2 d2 u3 d3 = .ok s) :
    timeRatio u1 d1 u3 d3 = .ok (r * s) := by
  unfold timeRatio at *
  cases hd12 : dtRatio d1 d2 with
  | error e => simp [hd12] at h12
  | ok a =>
    cases hu12 : unitRatio u1 u2 with
    | error e => simp [hd12, hu12] at h12
    | ok b =>
      cases hd23 : dtRatio d2 d3 with
      | error e => simp [hd23] at h23
      | ok c =>
        cases hu23 : unitRatio u2 u3 with
        | error e => simp [hd23, hu23] at h23
        | ok d =>
          simp [hd12, hu12] at h12
          simp [hd23, hu23] at h23
          subst h12; subst h23
          simp [dtRatio_trans hd12 hd23, unitRatio_trans hu12 hu23]
          ring

theorem timeRatio_self (u : UnitT) (d : Option Rat) : timeRatio u d u d = .ok 1 := by
  simp [timeRatio, dtRatio, unitRatio]

/-! ### Values -/

theorem Val.map_map {α : Type} (f g : α → α) (v : Val α) : (v.map f).map g = v.map (g ∘ f) := by
  cases v <;> simp [Val.map]

theorem Val.map_id' {α : Type} (f : α → α) (h : ∀ x, f x = x) (v : Val α) : v.map f = v := by
  cases v with
  | scalar a => simp [Val.map, h]
  | array l =>
      have : l.map f = l := by
        induction l with
        | nil => rfl
        | cons a t ih => simp [h, ih]
      simp [Val.map, this]

/-- `dur`/`rate` never reach `exp`/`log`: their conversion is the same for any two carriers' transcendental parts -/
theorem convScalar_algebraic_indep (o : NumOps Rat) (e l : Rat → Rat) (k : Kind) (hk : k = .dur ∨ k = .rate) (f v : Rat) :
    convScalar { o with exp := e, log := l } k f v = convScalar o k f v := by
  rcases hk with rfl | rfl <;> rfl

@[simp] theorem ratOps_zero : ratOps.zero = 0 := rfl
@[simp] theorem ratOps_one : ratOps.one = 1 := rfl

theorem convScalar_dur (f v : Rat) : convScalar ratOps .dur f v = .ok (v * f) := rfl

theorem convScalar_rate {f : Rat} (hf : f ≠ 0) (v : Rat) : convScalar ratOps .rate f v = .ok (v / f) := by
  simp [convScalar, ratOps, NumOps.zero, hf]

/-- the algebraic kinds on a whole value (scalar or array) -/
theorem convVal_dur (f : Rat) (v : Val Rat) : convVal ratOps .dur f v = (some (v.map (· * f)), .ok ()) := by
  cases v with
  | scalar a => simp [convVal, convScalar_dur, Val.map]
  | array l =>
      simp [convVal, Val.map, invalidElem, convElem, ratOps]

theorem convVal_rate {f : Rat} (hf : f ≠ 0) (v : Val Rat) : convVal ratOps .rate f v = (some (v.map (· / f)), .ok ()) := by
  cases v with
  | scalar a => simp [convVal, convScalar_rate hf, Val.map]
  | array l =>
      simp [convVal, Val.map, invalidElem, convElem, ratOps, NumOps.zero, hf]

/-! ### `orElse`, `to`, `update_cached`, `validate_units` -/

@[simp] theorem orElse_some {β : Type} (x : β) (b : Option β) : orElse (some x) b = some x := rfl
@[simp] theorem orElse_none {β : Type} (b : Option β) : orElse none b = b := rfl
@[simp] theorem ratOps_ofRat (q : Rat) : ratOps.ofRat q = q := rfl

theorem convVal_never_none_ok {α : Type} (o : NumOps α) (k : Kind) (f : α) (v : Val α) : convVal o k f v ≠ (none, .ok ()) := by
  cases v with
  | scalar a =>
      simp only [convVal]
      cases convScalar o k f a <;> simp
  | array l =>
      simp only [convVal]
      split <;> simp

theorem convertTo_ok {α : Type} {o : NumOps α} {t y : TP α} {u : UnitT} {d : Option Rat} (h : convertTo o t u d = .ok y) :
    ∃ f vals, timeRatio t.unit t.selfDt (tgtUnit t u) (tgtDt d) = .ok f ∧
      convVal o t.kind (o.ofRat f) t.v = (some vals, .ok ()) ∧ y = rebuilt t (tgtUnit t u) (tgtDt d) vals := by
  unfold convertTo at h
  cases hf : timeRatio t.unit t.selfDt (tgtUnit t u) (tgtDt d) with
  | error e => rw [hf] at h; simp at h
  | ok f =>
    rw [hf] at h
    simp only at h
    rcases hc : convVal o t.kind (o.ofRat f) t.v with ⟨_ | vals, _ | _⟩
    · rw [hc] at h; simp at h
    · rw [hc] at h; simp at h
    · rw [hc] at h; simp at h
    · rw [hc] at h
      simp only [Except.ok.injEq] at h
      exact ⟨f, vals, rfl, hc, h.symm⟩

theorem convertTo_of {α : Type} {o : NumOps α} {t : TP α} {u : UnitT} {d : Option Rat} {f : Rat} {vals : Val α}
    (hf : timeRatio t.unit t.selfDt (tgtUnit t u) (tgtDt d) = .ok f)
    (hc : convVal o t.kind (o.ofRat f) t.v = (some vals, .ok ())) :
    convertTo o t u d = .ok (rebuilt t (tgtUnit t u) (tgtDt d) vals) := by
  unfold convertTo
  rw [hf]; simp only; rw [hc]

/-- `update_cached` only writes `factor` and `values` -/
theorem updateCached_frame {α : Type} (o : NumOps α) (a : TP α) (uv die : Bool) :
    (updateCached o a uv die).1.v = a.v ∧ (updateCached o a uv die).1.kind = a.kind ∧
    (updateCached o a uv die).1.selfDt = a.selfDt ∧ (updateCached o a uv die).1.parentDt = a.parentDt ∧
    (updateCached o a uv die).1.unit = a.unit ∧ (updateCached o a uv die).1.parentUnit = a.parentUnit ∧
    (updateCached o a uv die).1.initialized = a.initialized := by
  unfold updateCached
  cases updateFactor a with
  | error e => simp
  | ok f =>
    cases uv with
    | false => simp
    | true =>
      simp only [if_true]
      rcases convVal o a.kind (o.ofRat f) a.v with ⟨_ | vals, r⟩ <;> simp

/-- `validate_units` succeeds exactly when both units are in the alias table, and only rewrites those two fields -/
theorem validateUnits_ok {α : Type} {a b : TP α} (h : validateUnits a = (b, .ok ())) :
    canonUnit a.unit = .ok b.unit ∧ canonUnit a.parentUnit = .ok b.parentUnit ∧ b.v = a.v ∧ b.kind = a.kind ∧
    b.selfDt = a.selfDt ∧ b.parentDt = a.parentDt ∧ b.values = a.values ∧ b.factor = a.factor ∧ b.initialized = a.initialized := by
  unfold validateUnits at h
  cases h1 : canonUnit a.unit with
  | error e => rw [h1] at h; simp at h
  | ok u1 =>
    rw [h1] at h
    simp only at h
    cases h2 : canonUnit a.parentUnit with
    | error e => rw [h2] at h; simp at h
    | ok u2 =>
      rw [h2] at h
      simp only [Prod.mk.injEq, and_true] at h
      subst h
      simp

theorem validateUnits_of {α : Type} {a : TP α} {u pu : UnitT} (h1 : canonUnit a.unit = .ok u) (h2 : canonUnit a.parentUnit = .ok pu) :
    validateUnits a = ({ a with unit := u, parentUnit := pu }, .ok ()) := by
  unfold validateUnits
  rw [h1]; simp only; rw [h2]

/-! ### `update_cached` for the algebraic kinds -/

/-- what `update_cached` stores for an algebraic kind with known units -/
theorem updateCached_dur (t : TP Rat) (hk : t.kind = .dur) {u pu : String} {lu lpu s p : Rat}
    (hu : t.unit = some u) (hpu : t.parentUnit = some pu) (hs : t.selfDt = some s) (hp : t.parentDt = some p)
    (hlu : unitLen u = some lu) (hlpu : unitLen pu = some lpu) (hp0 : p ≠ 0) (die : Bool) :
    updateCached ratOps t true die =
      ({ t with factor := some ((s / p) * (lu / lpu)), values := some (t.v.map (· * ((s / p) * (lu / lpu)))) }, .ok ()) := by
  have hf : updateFactor t = .ok ((s / p) * (lu / lpu)) := by
    simp [updateFactor, hu, hpu, hs, hp, timeRatio_known hlu hlpu hp0]
  unfold updateCached
  rw [hf]
  simp only [if_true, hk, ratOps_ofRat, convVal_dur]
  cases die <;> rfl

theorem updateCached_rate (t : TP Rat) (hk : t.kind = .rate) {u pu : String} {lu lpu s p : Rat}
    (hu : t.unit = some u) (hpu : t.parentUnit = some pu) (hs : t.selfDt = some s) (hp : t.parentDt = some p)
    (hlu : unitLen u = some lu) (hlpu : unitLen pu = some lpu) (hp0 : p ≠ 0) (hs0 : s ≠ 0) (die : Bool) :
    updateCached ratOps t true die =
      ({ t with factor := some ((s / p) * (lu / lpu)), values := some (t.v.map (· / ((s / p) * (lu / lpu)))) }, .ok ()) := by
  have hf : updateFactor t = .ok ((s / p) * (lu / lpu)) := by
    simp [updateFactor, hu, hpu, hs, hp, timeRatio_known hlu hlpu hp0]
  have hne : (s / p) * (lu / lpu) ≠ 0 :=
    mul_ne_zero (div_ne_zero hs0 hp0) (div_ne_zero (ne_of_gt (unitLen_pos hlu)) (ne_of_gt (unitLen_pos hlpu)))
  unfold updateCached
  rw [hf]
  simp only [if_true, hk, ratOps_ofRat, convVal_rate hne]
  cases die <;> rfl

/-! ### Lawful comparisons (for the branch-structure theorems, valid for `Rat` and `ℝ`) -/

structure LawfulOrd {α : Type} (o : NumOps α) : Prop where
  beq_iff : ∀ a b, o.beq a b = true ↔ a = b
  le_iff_not_lt : ∀ a b, o.le a b = true ↔ ¬ o.lt b a = true
  lt_iff : ∀ a b, o.lt a b = true ↔ (o.le a b = true ∧ a ≠ b)
  zero_lt_one : o.lt o.zero o.one = true

theorem ratOps_lawful : LawfulOrd ratOps where
  beq_iff := by intro a b; simp [ratOps]
  le_iff_not_lt := by intro a b; simp [ratOps]
  lt_iff := by intro a b; simp [ratOps]; exact lt_iff_le_and_ne
  zero_lt_one := by simp [ratOps, NumOps.zero, NumOps.one]

end StarsimModel.TimePar
