/-
Invariants of the composed step model (Model/SimCore.lean) over whole runs — for every initial population, every event
history (births, background deaths, `set_prognoses` calls) and every number of steps.

`Good`: between steps every ACTIVE agent is alive and in exactly one of S, I, R.
`Mid`:  when results are recorded (after deaths are resolved, before dead agents are removed) every active agent is
        either alive and in exactly one compartment, or dead and in none.
The per-agent facts about the SIR functions are `decide`d over the functions regenerated from `starsim/diseases/sir.py`;
the order of the phases is the one regenerated from `starsim/loop.py` (`simStep_eq` is proved by unfolding
`Gen.collectFuncs`: a schedule in another order does not satisfy it).
-/
import StarsimModel.Model.SimCore
import StarsimModel.Model.Compartments

namespace StarsimModel.SimCore
open Gen.Sir StarsimModel.Compartments

/-- The slicing conventions of the two cumulative results, as regenerated from `People.update_results` and
    `Infection.update_results`: deaths exclude the current step, infections include it. -/
theorem cum_conventions :
    cumInclusive "People" "cum_deaths" = some false ∧ cumInclusive "Infection" "cum_infections" = some true := by decide

/-- The step, phase by phase, in the order `Loop.collect_funcs` schedules them (unfolds the regenerated list). -/
theorem simStep_eq (s : Sim) (ev : Events) :
    simStep s ev = tickPhase (removeDeadPhase (diseaseResultsPhase (peopleResultsPhase (diePhase
      (infectPhase ev (stepStatePhase (demographicsPhase ev s))))))) := rfl

def Good (a : Agent) : Prop := a.present = true → a.alive = true ∧ Sir.partition a.fl = true

def Mid (a : Agent) : Prop :=
  a.present = true → (a.alive = true ∧ Sir.partition a.fl = true) ∨ (a.alive = false ∧ Sir.cleared a.fl = true)

/-- the state invariant (vacuous once an inadmissible infection has been applied: `bad`) -/
def Inv (s : Sim) : Prop := s.bad = false → ∀ a ∈ s.pop, Good a

/-! ### Per-agent facts about the regenerated SIR functions -/

theorem stepState_partition : ∀ (s : Flags) (g : StepStateG), Sir.partition s = true → Sir.partition (stepState s g) = true := by
  decide
theorem setPrognoses_partition : ∀ (s : Flags), Sir.partition s = true → s.susceptible = true →
    Sir.partition (setPrognoses s ⟨true⟩) = true := by decide
theorem setPrognoses_untargeted : ∀ (s : Flags), setPrognoses s ⟨false⟩ = s := by decide
theorem stepDie_cleared : ∀ (s : Flags), Sir.cleared (stepDie s ⟨true⟩) = true := by decide
theorem newborn_good : Good newborn := by intro _; decide

/-! ### Phase by phase -/

theorem good_requestDeath (ti : Nat) (a : Agent) (h : Good a) : Good (requestDeath ti a) := h

theorem demographics_good (ev : Events) (s : Sim) (h : ∀ a ∈ s.pop, Good a) :
    ∀ a ∈ (demographicsPhase ev s).pop, Good a := by
  intro a ha
  simp only [demographicsPhase] at ha
  rw [List.mem_mapIdx] at ha
  obtain ⟨i, hi, rfl⟩ := ha
  have hmem : (s.pop ++ List.replicate ev.births newborn)[i] ∈ s.pop ++ List.replicate ev.births newborn :=
    List.getElem_mem _
  have hg : Good (s.pop ++ List.replicate ev.births newborn)[i] := by
    rcases List.mem_append.mp hmem with h1 | h1
    · exact h _ h1
    · rw [(List.mem_replicate.mp h1).2]; exact newborn_good
  by_cases hb : i ∈ ev.background
  · simp only [hb, if_true]; exact good_requestDeath _ _ hg
  · simp only [hb, if_false]; exact hg

theorem demographics_bad (ev : Events) (s : Sim) : (demographicsPhase ev s).bad = s.bad := rfl
theorem demographics_ti (ev : Events) (s : Sim) : (demographicsPhase ev s).ti = s.ti := rfl

theorem good_stepStateAgent (ti : Nat) (a : Agent) (h : Good a) : Good (stepStateAgent ti a) := by
  intro hp
  unfold stepStateAgent at hp ⊢
  by_cases hd : due a.tm.ti_dead ti = true
  · simp only [hd, if_true, requestDeath] at hp ⊢
    obtain ⟨h1, h2⟩ := h hp
    exact ⟨h1, stepState_partition _ _ h2⟩
  · simp only [hd] at hp ⊢
    obtain ⟨h1, h2⟩ := h hp
    exact ⟨h1, stepState_partition _ _ h2⟩

theorem mapActive_good (f : Agent → Agent) (hf : ∀ a, Good a → Good (f a)) (pop : List Agent)
    (h : ∀ a ∈ pop, Good a) : ∀ a ∈ mapActive f pop, Good a := by
  intro a ha
  simp only [mapActive, List.mem_map] at ha
  obtain ⟨b, hb, rfl⟩ := ha
  by_cases hp : b.present = true
  · simp only [hp, if_true]; exact hf b (h b hb)
  · simp only [hp]; exact h b hb

theorem stepState_good (s : Sim) (h : ∀ a ∈ s.pop, Good a) : ∀ a ∈ (stepStatePhase s).pop, Good a :=
  mapActive_good _ (good_stepStateAgent s.ti) _ h

/-- an entry found for index `i` names `i` and belongs to the call -/
theorem findInf_spec {call : List Inf} {i : Nat} {e : Inf} (h : findInf call i = some e) : e.uid = i ∧ e ∈ call := by
  unfold findInf at h
  have h1 := List.find?_some h
  have h2 := List.mem_of_find?_eq_some h
  exact ⟨by simpa using h1, List.mem_reverse.mp h2⟩

theorem infectCall_good (ti : Nat) (pop : List Agent) (call : List Inf) (hadm : callAdmissible pop call = true)
    (h : ∀ a ∈ pop, Good a) : ∀ a ∈ pop.mapIdx (infectAgent ti call), Good a := by
  intro a ha
  rw [List.mem_mapIdx] at ha
  obtain ⟨i, hi, rfl⟩ := ha
  have hg : Good pop[i] := h _ (List.getElem_mem _)
  unfold infectAgent
  cases hf : findInf call i with
  | none =>
      simp only []
      intro hp
      obtain ⟨h1, h2⟩ := hg hp
      exact ⟨h1, by rw [setPrognoses_untargeted]; exact h2⟩
  | some e =>
      simp only []
      obtain ⟨hu, hm⟩ := findInf_spec hf
      have := List.all_eq_true.mp hadm e hm
      rw [hu, List.getElem?_eq_getElem hi] at this
      simp only [Bool.and_eq_true] at this
      intro hp
      obtain ⟨h1, h2⟩ := hg this.1
      exact ⟨h1, setPrognoses_partition _ h2 this.2⟩

theorem infectFold_spec (ti : Nat) (calls : List (List Inf)) : ∀ (pop : List Agent) (bad : Bool),
    (calls.foldl (infectCall ti) (pop, bad)).2 = false →
    bad = false ∧ ((∀ a ∈ pop, Good a) → ∀ a ∈ (calls.foldl (infectCall ti) (pop, bad)).1, Good a) := by
  induction calls with
  | nil => intro pop bad h; exact ⟨h, fun hg => hg⟩
  | cons c cs ih =>
      intro pop bad h
      simp only [List.foldl_cons, infectCall] at h ⊢
      obtain ⟨hb, hrest⟩ := ih _ _ h
      simp only [Bool.or_eq_false_iff, Bool.not_eq_eq_eq_not, Bool.not_false] at hb
      exact ⟨hb.1, fun hg => hrest (infectCall_good ti pop c hb.2 hg)⟩

theorem infect_spec (ev : Events) (s : Sim) (hb : (infectPhase ev s).bad = false) :
    s.bad = false ∧ ((∀ a ∈ s.pop, Good a) → ∀ a ∈ (infectPhase ev s).pop, Good a) :=
  infectFold_spec s.ti ev.infections s.pop s.bad hb

theorem mid_dieAgent (ti : Nat) (a : Agent) (h : Good a) : Mid (dieAgent ti a) := by
  intro hp
  unfold dieAgent at hp ⊢
  by_cases hd : due a.pDead ti = true
  · rw [if_pos hd]
    exact Or.inr ⟨rfl, stepDie_cleared _⟩
  · rw [if_neg hd] at hp ⊢
    exact Or.inl (h hp)

theorem die_mid (s : Sim) (h : ∀ a ∈ s.pop, Good a) : ∀ a ∈ (diePhase s).pop, Mid a := by
  intro a ha
  simp only [diePhase, mapActive, List.mem_map] at ha
  obtain ⟨b, hb, rfl⟩ := ha
  by_cases hp : b.present = true
  · simp only [hp, if_true]; exact mid_dieAgent _ _ (h b hb)
  · simp only [hp]; intro hp'; exact absurd hp' hp

theorem removeDead_good (s : Sim) (h : ∀ a ∈ s.pop, Mid a) : ∀ a ∈ (removeDeadPhase s).pop, Good a := by
  intro a ha
  simp only [removeDeadPhase, List.mem_map] at ha
  obtain ⟨b, hb, rfl⟩ := ha
  intro hp
  simp only [Bool.and_eq_true] at hp
  rcases h b hb hp.1 with h1 | h1
  · exact h1
  · rw [h1.1] at hp; exact absurd hp.2 (by decide)

theorem peopleResults_pop (s : Sim) : (peopleResultsPhase s).pop = s.pop := rfl
theorem diseaseResults_pop (s : Sim) : (diseaseResultsPhase s).pop = s.pop := by
  unfold diseaseResultsPhase; cases s.rows.getLast? <;> rfl
theorem diseaseResults_bad (s : Sim) : (diseaseResultsPhase s).bad = s.bad := by
  unfold diseaseResultsPhase; cases s.rows.getLast? <;> rfl
theorem diseaseResults_ti (s : Sim) : (diseaseResultsPhase s).ti = s.ti := by
  unfold diseaseResultsPhase; cases s.rows.getLast? <;> rfl
theorem simStep_ti (s : Sim) (ev : Events) : (simStep s ev).ti = s.ti + 1 := by
  rw [simStep_eq]
  show (diseaseResultsPhase _).ti + 1 = _
  rw [diseaseResults_ti]; rfl

/-- `bad` is only ever set by the transmission phase, and never cleared. -/
theorem simStep_bad (s : Sim) (ev : Events) :
    (simStep s ev).bad = (infectPhase ev (stepStatePhase (demographicsPhase ev s))).bad := by
  rw [simStep_eq]
  show (diseaseResultsPhase _).bad = _
  rw [diseaseResults_bad]; rfl

theorem simStep_bad_mono (s : Sim) (ev : Events) (h : (simStep s ev).bad = false) : s.bad = false := by
  rw [simStep_bad] at h
  exact (infect_spec ev _ h).1

/-- the population when the results of the step are recorded -/
def midPop (s : Sim) (ev : Events) : List Agent :=
  (diePhase (infectPhase ev (stepStatePhase (demographicsPhase ev s)))).pop

theorem midPop_mid (s : Sim) (ev : Events) (hinv : Inv s) (hb : (simStep s ev).bad = false) :
    ∀ a ∈ midPop s ev, Mid a := by
  have hb' := hb; rw [simStep_bad] at hb'
  obtain ⟨hs, hgood⟩ := infect_spec ev _ hb'
  have h0 : s.bad = false := hs
  exact die_mid _ (hgood (stepState_good _ (demographics_good ev s (hinv h0))))

theorem simStep_pop (s : Sim) (ev : Events) :
    (simStep s ev).pop = (midPop s ev).map fun a => { a with present := a.present && a.alive } := by
  rw [simStep_eq]
  show (removeDeadPhase _).pop = _
  simp only [removeDeadPhase, diseaseResults_pop, peopleResults_pop, midPop]

/-- **One step keeps the invariant.** -/
theorem simStep_inv (s : Sim) (ev : Events) (hinv : Inv s) : Inv (simStep s ev) := by
  intro hb a ha
  rw [simStep_pop] at ha
  have hm := midPop_mid s ev hinv hb
  obtain ⟨b, hbm, rfl⟩ := List.mem_map.mp ha
  intro hp
  simp only [Bool.and_eq_true] at hp
  rcases hm b hbm hp.1 with h1 | h1
  · exact h1
  · rw [h1.1] at hp; exact absurd hp.2 (by decide)

/-- **Whole runs keep the invariant** — any number of steps, any events. -/
theorem run_inv (evs : List Events) : ∀ s : Sim, Inv s → Inv (run s evs) := by
  induction evs with
  | nil => intro s h; exact h
  | cons e es ih => intro s h; exact ih _ (simStep_inv s e h)

theorem run_bad_mono (evs : List Events) : ∀ s : Sim, (run s evs).bad = false → s.bad = false := by
  induction evs with
  | nil => intro s h; exact h
  | cons e es ih => intro s h; exact simStep_bad_mono s e (ih _ h)

/-! ### The recorded rows -/

theorem countActive_cons (p : Agent → Bool) (a : Agent) (l : List Agent) :
    countActive p (a :: l) = (if (a.present && p a) = true then 1 else 0) + countActive p l := by
  unfold countActive
  by_cases h : (a.present && p a) = true
  · simp [h]; omega
  · simp [h]

/-- one agent's contribution: in exactly one compartment iff counted alive -/
theorem agent_balance : ∀ (al pr s i r : Bool),
    (pr = true → (al = true ∧ Sir.partition ⟨s, i, r⟩ = true) ∨ (al = false ∧ Sir.cleared ⟨s, i, r⟩ = true)) →
    (if (pr && s) = true then 1 else 0) + (if (pr && i) = true then 1 else 0) + (if (pr && r) = true then 1 else 0)
      = (if (pr && al) = true then 1 else 0) := by decide

/-- **Compartment counts add up to the number alive** over any population in the mid-step state. -/
theorem count_balance (pop : List Agent) (h : ∀ a ∈ pop, Mid a) :
    countActive (·.fl.susceptible) pop + countActive (·.fl.infected) pop + countActive (·.fl.recovered) pop
      = countActive (·.alive) pop := by
  induction pop with
  | nil => rfl
  | cons a l ih =>
      have hl := ih (fun b hb => h b (List.mem_cons_of_mem _ hb))
      have ha := h a (List.mem_cons_self ..)
      rw [countActive_cons, countActive_cons, countActive_cons, countActive_cons]
      have := agent_balance a.alive a.present a.fl.susceptible a.fl.infected a.fl.recovered (by
        intro hp; exact ha hp)
      omega

/-- the balance a row must satisfy -/
def Row.balanced (r : Row) : Prop := r.nS + r.nI + r.nR = r.nAlive ∧ r.prevNum = r.nI ∧ r.prevDen = r.nAlive

/-- the row a step records, in terms of the mid-step population -/
theorem simStep_rows (s : Sim) (ev : Events) :
    ∃ r : Row, (simStep s ev).rows = s.rows ++ [r] ∧ r.ti = s.ti ∧
      r.nAlive = countActive (·.alive) (midPop s ev) ∧
      r.nS = countActive (·.fl.susceptible) (midPop s ev) ∧ r.nI = countActive (·.fl.infected) (midPop s ev) ∧
      r.nR = countActive (·.fl.recovered) (midPop s ev) ∧
      r.newDeaths = countActive (fun a => isNow a.pDead s.ti) (midPop s ev) ∧
      r.cumDeaths = sumNat (s.rows.map (·.newDeaths)) ∧
      r.newInf = countActive (fun a => isNow a.tm.ti_infected s.ti) (midPop s ev) ∧
      r.cumInf = sumNat (s.rows.map (·.newInf)) + r.newInf ∧
      r.prevNum = r.nI ∧ r.prevDen = r.nAlive := by
  rw [simStep_eq]
  simp only [tickPhase, removeDeadPhase, diseaseResultsPhase, peopleResultsPhase, List.getLast?_append, List.getLast?_singleton,
    Option.some_or, List.dropLast_concat]
  exact ⟨_, rfl, rfl, rfl, rfl, rfl, rfl, rfl, rfl, rfl, rfl, rfl, rfl⟩

/-- **Every step records a balanced row.** -/
theorem simStep_row_balanced (s : Sim) (ev : Events) (hinv : Inv s) (hb : (simStep s ev).bad = false) :
    ∃ r : Row, (simStep s ev).rows = s.rows ++ [r] ∧ r.ti = s.ti ∧ r.balanced := by
  obtain ⟨r, hr, hti, ha, hS, hI, hR, _, _, _, _, hpn, hpd⟩ := simStep_rows s ev
  refine ⟨r, hr, hti, ?_, hpn, hpd⟩
  rw [ha, hS, hI, hR]
  exact count_balance _ (midPop_mid s ev hinv hb)

/-- **Every row of every run is balanced.** -/
theorem run_rows_balanced (evs : List Events) : ∀ s : Sim, Inv s → (∀ r ∈ s.rows, r.balanced) →
    (run s evs).bad = false → ∀ r ∈ (run s evs).rows, r.balanced := by
  induction evs with
  | nil => intro s _ hr _; exact hr
  | cons e es ih =>
      intro s hinv hr hb
      have hb1 : (simStep s e).bad = false := run_bad_mono es _ hb
      obtain ⟨r, hrows, _, hbal⟩ := simStep_row_balanced s e hinv hb1
      refine ih (simStep s e) (simStep_inv s e hinv) ?_ hb
      intro r' hr'
      rw [hrows, List.mem_append, List.mem_singleton] at hr'
      rcases hr' with h | h
      · exact hr r' h
      · rw [h]; exact hbal

/-- one row per step, stamped with consecutive indices -/
theorem run_rows_length (evs : List Events) : ∀ s : Sim,
    (run s evs).rows.length = s.rows.length + evs.length ∧ (run s evs).ti = s.ti + evs.length := by
  induction evs with
  | nil => intro s; exact ⟨rfl, rfl⟩
  | cons e es ih =>
      intro s
      obtain ⟨r, hrows, _⟩ := simStep_rows s e
      obtain ⟨h1, h2⟩ := ih (simStep s e)
      have hti : (simStep s e).ti = s.ti + 1 := simStep_ti s e
      have hlen : (simStep s e).rows.length = s.rows.length + 1 := by rw [hrows]; simp
      show (run (simStep s e) es).rows.length = _ ∧ (run (simStep s e) es).ti = _
      rw [h1, h2, hlen, hti, List.length_cons]
      omega

/-! ### Population flow: who is active, alive, and counted dead -/

/-- between steps: every active agent is alive with no death pending -/
def Clean (a : Agent) : Prop := a.present = true → a.alive = true ∧ a.pDead = none
/-- inside step `ti`, before deaths are resolved: every active agent is alive; a pending death was requested in this step -/
def Fresh (ti : Nat) (a : Agent) : Prop :=
  a.present = true → a.alive = true ∧ (a.pDead = none ∨ a.pDead = some (ti : Rat))

def nPresent (pop : List Agent) : Nat := countActive (fun _ => true) pop

theorem countActive_map (f : Agent → Agent) (p p' : Agent → Bool)
    (h : ∀ a, ((f a).present && p (f a)) = (a.present && p' a)) (l : List Agent) :
    countActive p (l.map f) = countActive p' l := by
  induction l with
  | nil => rfl
  | cons a l ih => rw [List.map_cons, countActive_cons, countActive_cons, ih, h]

theorem countActive_mapIdx (p p' : Agent → Bool) (l : List Agent) : ∀ (f : Nat → Agent → Agent),
    (∀ i a, ((f i a).present && p (f i a)) = (a.present && p' a)) →
    countActive p (l.mapIdx f) = countActive p' l := by
  induction l with
  | nil => intro f _; rfl
  | cons a l ih =>
      intro f h
      rw [List.mapIdx_cons, countActive_cons, countActive_cons, ih (fun i => f (i + 1)) (fun i a => h (i + 1) a), h]

theorem nPresent_append_newborns (l : List Agent) (n : Nat) :
    nPresent (l ++ List.replicate n newborn) = nPresent l + n := by
  induction l with
  | nil =>
      induction n with
      | zero => rfl
      | succ k ih =>
          simp only [List.nil_append] at ih ⊢
          rw [List.replicate_succ]
          unfold nPresent at ih ⊢
          rw [countActive_cons, ih]
          simp [newborn]; omega
  | cons a l ih =>
      unfold nPresent at ih ⊢
      rw [List.cons_append, countActive_cons, countActive_cons, ih]; omega

theorem due_self (ti : Nat) : due (some (ti : Rat)) ti = true := by simp [due]
theorem isNow_self (ti : Nat) : isNow (some (ti : Rat)) ti = true := by simp [isNow]

/-- demographics: births join, death requests are stamped with this step -/
theorem demographics_fresh (ev : Events) (s : Sim) (h : ∀ a ∈ s.pop, Clean a) :
    (∀ a ∈ (demographicsPhase ev s).pop, Fresh s.ti a) ∧
    nPresent (demographicsPhase ev s).pop = nPresent s.pop + ev.births := by
  constructor
  · intro a ha
    simp only [demographicsPhase] at ha
    rw [List.mem_mapIdx] at ha
    obtain ⟨i, hi, rfl⟩ := ha
    have hmem : (s.pop ++ List.replicate ev.births newborn)[i] ∈ s.pop ++ List.replicate ev.births newborn :=
      List.getElem_mem _
    have hc : Clean (s.pop ++ List.replicate ev.births newborn)[i] := by
      rcases List.mem_append.mp hmem with h1 | h1
      · exact h _ h1
      · rw [(List.mem_replicate.mp h1).2]; intro _; exact ⟨rfl, rfl⟩
    by_cases hb : i ∈ ev.background
    · simp only [hb, if_true]; intro hp; exact ⟨(hc hp).1, Or.inr rfl⟩
    · simp only [hb, if_false]; intro hp; exact ⟨(hc hp).1, Or.inl (hc hp).2⟩
  · simp only [demographicsPhase, nPresent]
    rw [countActive_mapIdx (fun _ => true) (fun _ => true)]
    · exact nPresent_append_newborns _ _
    · intro i a; by_cases hb : i ∈ ev.background <;> simp [hb, requestDeath]

theorem stepStateAgent_core (ti : Nat) (a : Agent) :
    (stepStateAgent ti a).present = a.present ∧ (stepStateAgent ti a).alive = a.alive ∧
    ((stepStateAgent ti a).pDead = a.pDead ∨ (stepStateAgent ti a).pDead = some (ti : Rat)) := by
  unfold stepStateAgent
  by_cases hd : due a.tm.ti_dead ti = true
  · simp [hd, requestDeath]
  · simp [hd]

theorem stepState_fresh (s : Sim) (h : ∀ a ∈ s.pop, Fresh s.ti a) :
    (∀ a ∈ (stepStatePhase s).pop, Fresh s.ti a) ∧ nPresent (stepStatePhase s).pop = nPresent s.pop := by
  constructor
  · intro a ha
    simp only [stepStatePhase, mapActive, List.mem_map] at ha
    obtain ⟨b, hb, rfl⟩ := ha
    by_cases hp : b.present = true
    · simp only [hp, if_true]
      obtain ⟨h1, h2, h3⟩ := stepStateAgent_core s.ti b
      intro hp'
      rw [h1] at hp'
      obtain ⟨ha, hd⟩ := h b hb hp'
      refine ⟨by rw [h2]; exact ha, ?_⟩
      rcases h3 with h3 | h3
      · rw [h3]; exact hd
      · exact Or.inr h3
    · simp only [hp]; exact h b hb
  · simp only [stepStatePhase, mapActive, nPresent]
    apply countActive_map
    intro a
    by_cases hp : a.present = true
    · simp only [hp, if_true, (stepStateAgent_core s.ti a).1]
    · simp [hp]

theorem infectAgent_core (ti : Nat) (call : List Inf) (i : Nat) (a : Agent) :
    (infectAgent ti call i a).present = a.present ∧ (infectAgent ti call i a).alive = a.alive ∧
    (infectAgent ti call i a).pDead = a.pDead := by
  unfold infectAgent; cases findInf call i <;> exact ⟨rfl, rfl, rfl⟩

theorem infectFold_fresh (ti t : Nat) (calls : List (List Inf)) : ∀ (pop : List Agent) (bad : Bool),
    (∀ a ∈ pop, Fresh t a) →
    (∀ a ∈ (calls.foldl (infectCall ti) (pop, bad)).1, Fresh t a) ∧
    nPresent (calls.foldl (infectCall ti) (pop, bad)).1 = nPresent pop := by
  induction calls with
  | nil => intro pop bad h; exact ⟨h, rfl⟩
  | cons c cs ih =>
      intro pop bad h
      simp only [List.foldl_cons, infectCall]
      have hf : ∀ a ∈ pop.mapIdx (infectAgent ti c), Fresh t a := by
        intro a ha
        rw [List.mem_mapIdx] at ha
        obtain ⟨i, hi, rfl⟩ := ha
        obtain ⟨h1, h2, h3⟩ := infectAgent_core ti c i pop[i]
        intro hp; rw [h1] at hp
        have := h _ (List.getElem_mem hi) hp
        rw [h2, h3]; exact this
      obtain ⟨r1, r2⟩ := ih (pop.mapIdx (infectAgent ti c)) (bad || !callAdmissible pop c) hf
      refine ⟨r1, ?_⟩
      rw [r2]
      unfold nPresent
      apply countActive_mapIdx
      intro i a; rw [(infectAgent_core ti c i a).1]

theorem infect_fresh (ev : Events) (s : Sim) (h : ∀ a ∈ s.pop, Fresh s.ti a) :
    (∀ a ∈ (infectPhase ev s).pop, Fresh s.ti a) ∧ nPresent (infectPhase ev s).pop = nPresent s.pop :=
  infectFold_fresh s.ti s.ti ev.infections s.pop s.bad h

/-- resolving deaths: alive + counted dead = active -/
theorem die_account (ti : Nat) (pop : List Agent) (h : ∀ a ∈ pop, Fresh ti a) :
    countActive (·.alive) (mapActive (dieAgent ti) pop) + countActive (fun a => isNow a.pDead ti) (mapActive (dieAgent ti) pop)
      = nPresent pop := by
  induction pop with
  | nil => rfl
  | cons a l ih =>
      have hl := ih (fun b hb => h b (List.mem_cons_of_mem _ hb))
      have ha := h a (List.mem_cons_self ..)
      unfold nPresent at hl ⊢
      simp only [mapActive, List.map_cons] at hl ⊢
      rw [countActive_cons, countActive_cons, countActive_cons]
      by_cases hp : a.present = true
      · obtain ⟨hal, hd⟩ := ha hp
        simp only [hp, if_true]
        rcases hd with hd | hd
        · have h0 : dieAgent ti a = a := by unfold dieAgent; simp [hd, due]
          have h4 : isNow a.pDead ti = false := by rw [hd]; rfl
          rw [h0, hp, hal, h4]
          simp only [Bool.and_self, Bool.and_false, if_true, Bool.false_eq_true, if_false]
          omega
        · have h1 : (dieAgent ti a).alive = false := by unfold dieAgent; simp [hd, due_self]
          have h2 : isNow (dieAgent ti a).pDead ti = true := by unfold dieAgent; simp [hd, due_self, isNow_self]
          have h3 : (dieAgent ti a).present = true := by unfold dieAgent; simp [hd, due_self, hp]
          rw [h1, h2, h3]
          simp only [Bool.and_self, Bool.and_false, if_true, Bool.false_eq_true, if_false]
          omega
      · have hp' : a.present = false := by cases h : a.present <;> simp_all
        simp only [hp', Bool.false_eq_true, if_false, Bool.false_and]
        omega

/-- what the transmission phase hands to death resolution -/
def prePop (s : Sim) (ev : Events) : List Agent := (infectPhase ev (stepStatePhase (demographicsPhase ev s))).pop

theorem midPop_eq (s : Sim) (ev : Events) : midPop s ev = mapActive (dieAgent s.ti) (prePop s ev) := rfl

theorem prePop_fresh (s : Sim) (ev : Events) (h : ∀ a ∈ s.pop, Clean a) :
    (∀ a ∈ prePop s ev, Fresh s.ti a) ∧ nPresent (prePop s ev) = nPresent s.pop + ev.births := by
  obtain ⟨d1, d2⟩ := demographics_fresh ev s h
  obtain ⟨s1, s2⟩ := stepState_fresh (demographicsPhase ev s) d1
  obtain ⟨i1, i2⟩ := infect_fresh ev (stepStatePhase (demographicsPhase ev s)) s1
  exact ⟨i1, by rw [prePop, i2, s2, d2]⟩

/-- **Population flow of one step.** If between steps every active agent is alive with no death pending, then the row
    recorded in the step satisfies `n_alive + new_deaths = active before + births`, the number of active agents after
    the step is the recorded `n_alive`, and the condition holds again afterwards. -/
theorem simStep_flow (s : Sim) (ev : Events) (h : ∀ a ∈ s.pop, Clean a) :
    ∃ r : Row, (simStep s ev).rows = s.rows ++ [r] ∧
      r.nAlive + r.newDeaths = nPresent s.pop + ev.births ∧
      nPresent (simStep s ev).pop = r.nAlive ∧
      ∀ a ∈ (simStep s ev).pop, Clean a := by
  obtain ⟨r, hr, _, hA, _, _, _, hD, _⟩ := simStep_rows s ev
  obtain ⟨hf, hn⟩ := prePop_fresh s ev h
  refine ⟨r, hr, ?_, ?_, ?_⟩
  · rw [hA, hD, midPop_eq, die_account s.ti _ hf, hn]
  · rw [simStep_pop, hA]
    unfold nPresent
    apply countActive_map
    intro a; simp
  · intro a ha
    rw [simStep_pop, midPop_eq] at ha
    obtain ⟨b, hb, rfl⟩ := List.mem_map.mp ha
    simp only [mapActive, List.mem_map] at hb
    obtain ⟨c, hc, rfl⟩ := hb
    intro hp
    simp only [Bool.and_eq_true] at hp
    by_cases hcp : c.present = true
    · simp only [hcp, if_true] at hp ⊢
      obtain ⟨hal, hd⟩ := hf c hc hcp
      rcases hd with hd | hd
      · have h0 : dieAgent s.ti c = c := by unfold dieAgent; simp [hd, due]
        rw [h0]; exact ⟨hal, hd⟩
      · have h1 : (dieAgent s.ti c).alive = false := by unfold dieAgent; simp [hd, due_self]
        rw [h1] at hp; exact absurd hp.2 (by decide)
    · simp only [hcp] at hp
      exact absurd hp.1 hcp

/-- **Population flow over whole runs**: the recorded `n_alive` and `new_deaths` of consecutive rows are linked by the
    births of the step, for every event history and run length:
    `n_alive[t] + new_deaths[t] = n_alive[t-1] + births[t]` (with the initial number of active agents before the first). -/
def flowOK : Nat → List Row → List Events → Prop
  | _, [], [] => True
  | prev, r :: rs, e :: es => r.nAlive + r.newDeaths = prev + e.births ∧ flowOK r.nAlive rs es
  | _, _, _ => False

theorem run_flow (evs : List Events) : ∀ (s : Sim), (∀ a ∈ s.pop, Clean a) →
    ∃ rs : List Row, (run s evs).rows = s.rows ++ rs ∧ flowOK (nPresent s.pop) rs evs ∧
      (∀ a ∈ (run s evs).pop, Clean a) := by
  induction evs with
  | nil => intro s h; exact ⟨[], by simp [run], trivial, h⟩
  | cons e es ih =>
      intro s h
      obtain ⟨r, hr, hflow, hn, hc⟩ := simStep_flow s e h
      obtain ⟨rs, hrs, hfl, hcl⟩ := ih (simStep s e) hc
      refine ⟨r :: rs, ?_, ⟨hflow, by rw [← hn]; exact hfl⟩, hcl⟩
      show (run (simStep s e) es).rows = _
      rw [hrs, hr, List.append_assoc]; rfl


/-! ### Allowed moves over whole runs: an agent only ever moves S → I → R → (dead, no compartment) -/

/-- position of a flag valuation on the line S < I < R < cleared (anything else counts as 0) -/
def rank (f : Flags) : Nat :=
  match f.susceptible, f.infected, f.recovered with
  | true, false, false => 0
  | false, true, false => 1
  | false, false, true => 2
  | false, false, false => 3
  | _, _, _ => 0

theorem rank_stepState : ∀ (s : Flags) (g : StepStateG), Sir.partition s = true → rank s ≤ rank (stepState s g) := by decide
theorem rank_setPrognoses : ∀ (s : Flags), Sir.partition s = true → s.susceptible = true → rank s ≤ rank (setPrognoses s ⟨true⟩) := by decide
theorem rank_stepDie : ∀ (s : Flags), rank s ≤ rank (stepDie s ⟨true⟩) := by decide

/-- what one step does to the agent at index `i` -/
theorem demographics_get (ev : Events) (s : Sim) (i : Nat) (a : Agent) (h : s.pop[i]? = some a) :
    ∃ a', (demographicsPhase ev s).pop[i]? = some a' ∧ a'.fl = a.fl ∧ a'.present = a.present ∧ a'.alive = a.alive := by
  have hi : i < s.pop.length := (List.getElem?_eq_some_iff.mp h).1
  have ha : s.pop[i] = a := (List.getElem?_eq_some_iff.mp h).2
  simp only [demographicsPhase, List.getElem?_mapIdx]
  rw [List.getElem?_append_left hi, h]
  by_cases hb : i ∈ ev.background
  · exact ⟨requestDeath s.ti a, by simp [hb], rfl, rfl, rfl⟩
  · exact ⟨a, by simp [hb], rfl, rfl, rfl⟩

theorem stepState_get (s : Sim) (i : Nat) (a : Agent) (h : s.pop[i]? = some a) (hg : Good a) :
    ∃ a', (stepStatePhase s).pop[i]? = some a' ∧ rank a.fl ≤ rank a'.fl ∧ a'.present = a.present ∧ a'.alive = a.alive ∧
      (a.present = false → a'.fl = a.fl) := by
  simp only [stepStatePhase, mapActive, List.getElem?_map, h, Option.map_some]
  by_cases hp : a.present = true
  · refine ⟨stepStateAgent s.ti a, by simp [hp], ?_, (stepStateAgent_core s.ti a).1, (stepStateAgent_core s.ti a).2.1, ?_⟩
    · have hpart := (hg hp).2
      unfold stepStateAgent
      by_cases hd : due a.tm.ti_dead s.ti = true
      · simp only [hd, if_true, requestDeath]; exact rank_stepState _ _ hpart
      · simp only [hd]; exact rank_stepState _ _ hpart
    · intro hf; rw [hf] at hp; cases hp
  · exact ⟨a, by simp [hp], Nat.le_refl _, rfl, rfl, fun _ => rfl⟩

theorem infectAgent_rank (ti : Nat) (pop : List Agent) (call : List Inf) (hadm : callAdmissible pop call = true)
    (i : Nat) (a : Agent) (h : pop[i]? = some a) (hg : Good a) :
    rank a.fl ≤ rank (infectAgent ti call i a).fl ∧ (a.present = false → (infectAgent ti call i a).fl = a.fl) := by
  unfold infectAgent
  cases hf : findInf call i with
  | none => simp only []; rw [setPrognoses_untargeted]; exact ⟨Nat.le_refl _, fun _ => rfl⟩
  | some e =>
      simp only []
      obtain ⟨hu, hm⟩ := findInf_spec hf
      have := List.all_eq_true.mp hadm e hm
      rw [hu, h] at this
      simp only [Bool.and_eq_true] at this
      refine ⟨rank_setPrognoses _ (hg this.1).2 this.2, ?_⟩
      intro hf'; rw [hf'] at this; cases this.1

theorem infectFold_get (ti : Nat) (calls : List (List Inf)) : ∀ (pop : List Agent) (bad : Bool) (i : Nat) (a : Agent),
    (calls.foldl (infectCall ti) (pop, bad)).2 = false → (∀ b ∈ pop, Good b) → pop[i]? = some a →
    ∃ a', (calls.foldl (infectCall ti) (pop, bad)).1[i]? = some a' ∧ rank a.fl ≤ rank a'.fl ∧
      a'.present = a.present ∧ a'.alive = a.alive ∧ (a.present = false → a'.fl = a.fl) := by
  induction calls with
  | nil => intro pop bad i a _ _ h; exact ⟨a, h, Nat.le_refl _, rfl, rfl, fun _ => rfl⟩
  | cons c cs ih =>
      intro pop bad i a hb hgood h
      simp only [List.foldl_cons, infectCall] at hb ⊢
      obtain ⟨hb0, _⟩ := infectFold_spec ti cs _ _ hb
      simp only [Bool.or_eq_false_iff, Bool.not_eq_eq_eq_not, Bool.not_false] at hb0
      have hadm := hb0.2
      have hga : Good a := hgood a (List.mem_of_getElem? h)
      have hget : (pop.mapIdx (infectAgent ti c))[i]? = some (infectAgent ti c i a) := by
        simp [List.getElem?_mapIdx, h]
      obtain ⟨a', h1, h2, h3, h4, h5⟩ := ih (pop.mapIdx (infectAgent ti c)) _ i (infectAgent ti c i a) hb
        (infectCall_good ti pop c hadm hgood) hget
      obtain ⟨r1, r2⟩ := infectAgent_rank ti pop c hadm i a h hga
      obtain ⟨c1, c2, _⟩ := infectAgent_core ti c i a
      refine ⟨a', h1, Nat.le_trans r1 h2, by rw [h3, c1], by rw [h4, c2], ?_⟩
      intro hf
      rw [h5 (by rw [c1]; exact hf), r2 hf]

theorem die_get (s : Sim) (i : Nat) (a : Agent) (h : s.pop[i]? = some a) :
    ∃ a', (diePhase s).pop[i]? = some a' ∧ rank a.fl ≤ rank a'.fl ∧ a'.present = a.present ∧
      (a.present = false → a'.fl = a.fl ∧ a'.alive = a.alive) := by
  simp only [diePhase, mapActive, List.getElem?_map, h, Option.map_some]
  by_cases hp : a.present = true
  · refine ⟨dieAgent s.ti a, by simp [hp], ?_, ?_, ?_⟩
    · unfold dieAgent; by_cases hd : due a.pDead s.ti = true
      · rw [if_pos hd]; exact rank_stepDie _
      · rw [if_neg hd]; exact Nat.le_refl _
    · unfold dieAgent; by_cases hd : due a.pDead s.ti = true
      · rw [if_pos hd]
      · rw [if_neg hd]
    · intro hf; rw [hf] at hp; cases hp
  · exact ⟨a, by simp [hp], Nat.le_refl _, rfl, fun _ => ⟨rfl, rfl⟩⟩

/-- **Allowed moves, one step.** The agent at any index moves forward on S → I → R → (no compartment) or stays; an agent
    that is no longer active is not touched at all. -/
theorem simStep_monotone (s : Sim) (ev : Events) (hinv : ∀ a ∈ s.pop, Good a) (hb : (simStep s ev).bad = false)
    (i : Nat) (a : Agent) (h : s.pop[i]? = some a) :
    ∃ a', (simStep s ev).pop[i]? = some a' ∧ rank a.fl ≤ rank a'.fl ∧
      (a.present = false → a'.fl = a.fl ∧ a'.present = false) := by
  have hb3 : (infectPhase ev (stepStatePhase (demographicsPhase ev s))).bad = false := by rw [← simStep_bad]; exact hb
  obtain ⟨a1, g1, f1, p1, _⟩ := demographics_get ev s i a h
  have good1 := demographics_good ev s hinv
  obtain ⟨a2, g2, r2, p2, _, z2⟩ := stepState_get (demographicsPhase ev s) i a1 g1 (good1 a1 (List.mem_of_getElem? g1))
  have good2 := stepState_good _ good1
  obtain ⟨a3, g3, r3, p3, _, z3⟩ := infectFold_get (stepStatePhase (demographicsPhase ev s)).ti ev.infections
    (stepStatePhase (demographicsPhase ev s)).pop (stepStatePhase (demographicsPhase ev s)).bad i a2 hb3 good2 g2
  obtain ⟨a4, g4, r4, p4, z4⟩ := die_get (infectPhase ev (stepStatePhase (demographicsPhase ev s))) i a3 g3
  refine ⟨{ a4 with present := a4.present && a4.alive }, ?_, ?_, ?_⟩
  · rw [simStep_pop, List.getElem?_map]
    have : (midPop s ev)[i]? = some a4 := g4
    rw [this]; rfl
  · show rank a.fl ≤ rank a4.fl
    rw [← f1]; exact Nat.le_trans r2 (Nat.le_trans r3 r4)
  · intro hf
    have h1 : a1.present = false := by rw [p1]; exact hf
    have h2 : a2.present = false := by rw [p2]; exact h1
    have h3 : a3.present = false := by rw [p3]; exact h2
    have h4 : a4.present = false := by rw [p4]; exact h3
    refine ⟨?_, by simp [h4]⟩
    show a4.fl = a.fl
    rw [(z4 h3).1, z3 h2, z2 h1, f1]

/-- **Allowed moves over whole runs.** Along any run, for any events, every agent's position on
    S → I → R → (no compartment) never decreases — nobody returns to susceptible, nobody leaves recovered except by
    dying, the dead never regain a compartment — unless an inadmissible `set_prognoses` call is reported. -/
theorem run_monotone (evs : List Events) : ∀ (s : Sim), (∀ a ∈ s.pop, Good a) → (run s evs).bad = false →
    ∀ (i : Nat) (a : Agent), s.pop[i]? = some a →
      ∃ a', (run s evs).pop[i]? = some a' ∧ rank a.fl ≤ rank a'.fl := by
  induction evs with
  | nil => intro s _ _ i a h; exact ⟨a, h, Nat.le_refl _⟩
  | cons e es ih =>
      intro s hinv hb i a h
      have hb1 : (simStep s e).bad = false := run_bad_mono es _ hb
      obtain ⟨a1, g1, r1, _⟩ := simStep_monotone s e hinv hb1 i a h
      have hinv1 : ∀ b ∈ (simStep s e).pop, Good b := simStep_inv s e (fun _ => hinv) hb1
      obtain ⟨a', g', r'⟩ := ih (simStep s e) hinv1 hb i a1 g1
      exact ⟨a', g', Nat.le_trans r1 r'⟩

/-! ### Cumulative series over whole runs -/

theorem sumNat_foldl (l : List Nat) : ∀ a, l.foldl (· + ·) a = a + sumNat l := by
  induction l with
  | nil => intro a; simp [sumNat]
  | cons x xs ih => intro a; simp only [sumNat, List.foldl_cons]; rw [ih, ih (0 + x)]; omega

theorem sumNat_append (l : List Nat) (x : Nat) : sumNat (l ++ [x]) = sumNat l + x := by
  unfold sumNat; rw [List.foldl_append]; simp

/-- every recorded row carries: cumulative infections = all infections recorded up to AND INCLUDING its step; cumulative
    deaths = all deaths recorded BEFORE its step (the source's `sum[:ti+1]` and `sum[:ti]`) -/
def CumOK (rows : List Row) : Prop :=
  ∀ (k : Nat) (r : Row), rows[k]? = some r →
    r.cumInf = sumNat ((rows.take (k + 1)).map (·.newInf)) ∧ r.cumDeaths = sumNat ((rows.take k).map (·.newDeaths))

theorem simStep_cum (s : Sim) (ev : Events) (h : CumOK s.rows) : CumOK (simStep s ev).rows := by
  obtain ⟨r, hr, _, _, _, _, _, _, hcd, _, hci, _, _⟩ := simStep_rows s ev
  rw [hr]
  intro k r' hk
  by_cases hlt : k < s.rows.length
  · rw [List.getElem?_append_left hlt] at hk
    obtain ⟨h1, h2⟩ := h k r' hk
    have t1 : (s.rows ++ [r]).take (k + 1) = s.rows.take (k + 1) := List.take_append_of_le_length (by omega)
    have t2 : (s.rows ++ [r]).take k = s.rows.take k := List.take_append_of_le_length (by omega)
    rw [t1, t2]; exact ⟨h1, h2⟩
  · have hge : s.rows.length ≤ k := Nat.le_of_not_lt hlt
    rw [List.getElem?_append_right hge] at hk
    have hk0 : k - s.rows.length = 0 := by
      cases hkk : k - s.rows.length with
      | zero => rfl
      | succ n => rw [hkk] at hk; simp at hk
    rw [hk0] at hk
    simp only [List.getElem?_cons_zero, Option.some.injEq] at hk
    subst hk
    have hkeq : k = s.rows.length := by omega
    subst hkeq
    have t1 : (s.rows ++ [r]).take (s.rows.length + 1) = s.rows ++ [r] := by
      apply List.take_of_length_le; simp
    have t2 : (s.rows ++ [r]).take s.rows.length = s.rows := by
      rw [List.take_append_of_le_length (Nat.le_refl _), List.take_length]
    rw [t1, t2, List.map_append, List.map_singleton, sumNat_append]
    exact ⟨hci, hcd⟩

/-- **Cumulative results over whole runs** (any events, any length): `cum_infections[t] = Σ_{u ≤ t} new_infections[u]`,
    while `cum_deaths[t] = Σ_{u < t} new_deaths[u]` — the recorded one-step lag of `cum_deaths`, as a theorem about the
    composed model following the regenerated slicing conventions. -/
theorem run_cum (evs : List Events) : ∀ s : Sim, CumOK s.rows → CumOK (run s evs).rows := by
  induction evs with
  | nil => intro s h; exact h
  | cons e es ih => intro s h; exact ih _ (simStep_cum s e h)

theorem cumOK_nil : CumOK [] := by intro k r h; simp at h

end StarsimModel.SimCore
