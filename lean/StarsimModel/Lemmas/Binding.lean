/-
Lemmas about Model/Binding.lean: frame property of a well-bound object, copies of well-bound objects.
-/
import StarsimModel.Model.Binding

namespace StarsimModel.Binding

variable {σ : Type}

theorem updSt_get_ne (w : World σ) (i j : Nat) (f : σ → σ) (h : j ≠ i) : (updSt w i f)[j]? = w[j]? := by
  unfold updSt
  cases hw : w[i]? with
  | none => rfl
  | some o => simp [List.getElem?_set, Ne.symm h]

theorem updSt_get_self (w : World σ) (i : Nat) (f : σ → σ) (o : Obj σ) (hw : w[i]? = some o) :
    (updSt w i f)[i]? = some { o with st := f o.st } := by
  unfold updSt
  have hlt : i < w.length := by
    rcases Nat.lt_or_ge i w.length with h | h
    · exact h
    · rw [List.getElem?_eq_none h] at hw; cases hw
  have he : w[i] = o := by
    have := List.getElem?_eq_getElem hlt
    rw [this] at hw; exact Option.some.inj hw
  simp [hw, List.getElem?_set, hlt]
  simp [he]

theorem bumpIdx_get_ne (w : World σ) (i j : Nat) (h : j ≠ i) : (bumpIdx w i)[j]? = w[j]? := by
  unfold bumpIdx
  cases hw : w[i]? with
  | none => rfl
  | some o => simp [List.getElem?_set, Ne.symm h]

theorem bumpIdx_get_self (w : World σ) (i : Nat) (o : Obj σ) (hw : w[i]? = some o) :
    (bumpIdx w i)[i]? = some { o with index := o.index + 1 } := by
  unfold bumpIdx
  have hlt : i < w.length := by
    rcases Nat.lt_or_ge i w.length with h | h
    · exact h
    · rw [List.getElem?_eq_none h] at hw; cases hw
  have he : w[i] = o := by
    have := List.getElem?_eq_getElem hlt
    rw [this] at hw; exact Option.some.inj hw
  simp [hw, List.getElem?_set, hlt]
  simp [he]

/-- one function of a well-bound object leaves every other object alone -/
theorem execOne_frame (step : σ → Nat → σ) (w : World σ) (i j : Nat) (o : Obj σ) (hw : w[i]? = some o)
    (hb : wellBound i o) (h : j ≠ i) : (execOne step w i)[j]? = w[j]? := by
  unfold execOne
  simp only [hw]
  cases hs : o.plan[o.index]? with
  | none => rfl
  | some sl =>
      have hr : sl.recv = i := hb sl (List.mem_of_getElem? hs)
      simp only []
      rw [hr, bumpIdx_get_ne _ _ _ h, updSt_get_ne _ _ _ _ h]

/-- …and acts on the object itself -/
theorem execOne_self (step : σ → Nat → σ) (w : World σ) (i : Nat) (o : Obj σ) (hw : w[i]? = some o)
    (hb : wellBound i o) (hlt : o.index < o.plan.length) :
    (execOne step w i)[i]? = some { o with st := step o.st o.index, index := o.index + 1 } := by
  unfold execOne
  have hs : o.plan[o.index]? = some o.plan[o.index] := List.getElem?_eq_getElem hlt
  have hr : (o.plan[o.index]).recv = i := hb _ (List.getElem_mem hlt)
  simp only [hw, hs, hr]
  rw [bumpIdx_get_self _ _ _ (updSt_get_self w i _ o hw)]

/-- `n` functions of a well-bound object: it advances exactly as if it were alone, nothing else moves -/
theorem runN_spec (step : σ → Nat → σ) (n : Nat) : ∀ (w : World σ) (i : Nat) (o : Obj σ), w[i]? = some o → wellBound i o →
    o.index + n ≤ o.plan.length →
    (runN step w i n)[i]? = some { o with st := foldFrom step o.st o.index n, index := o.index + n } ∧
    ∀ j, j ≠ i → (runN step w i n)[j]? = w[j]? := by
  induction n with
  | zero => intro w i o hw _ _; exact ⟨by simpa [runN, foldFrom] using hw, fun _ _ => rfl⟩
  | succ n ih =>
      intro w i o hw hb hle
      have hlt : o.index < o.plan.length := by omega
      have h1 := execOne_self step w i o hw hb hlt
      have hb' : wellBound i { o with st := step o.st o.index, index := o.index + 1 } := hb
      obtain ⟨g1, g2⟩ := ih (execOne step w i) i _ h1 hb' (by simp only; omega)
      refine ⟨?_, ?_⟩
      · simp only [runN, foldFrom]
        rw [g1]
        simp only [Nat.add_assoc, Nat.add_comm 1 n]
      · intro j hj
        simp only [runN]
        rw [g2 j hj, execOne_frame step w i j o hw hb hj]

theorem get_lt_of_some (w : World σ) (i : Nat) (o : Obj σ) (hw : w[i]? = some o) : i < w.length := by
  rcases Nat.lt_or_ge i w.length with h | h
  · exact h
  · rw [List.getElem?_eq_none h] at hw; cases hw

/-- a deep copy of a well-bound object none of whose scheduled functions is a closure is a well-bound object with the same
    state, cursor and plan length; the existing objects are untouched -/
theorem deepcopy_spec (w : World σ) (i : Nat) (o : Obj σ) (hw : w[i]? = some o) (hb : wellBound i o) (hm : allMethod o) :
    (∃ o', (deepcopy w i)[w.length]? = some o' ∧ wellBound w.length o' ∧ allMethod o' ∧ o'.st = o.st ∧ o'.index = o.index ∧
      o'.plan.length = o.plan.length) ∧
    ∀ j, j < w.length → (deepcopy w i)[j]? = w[j]? := by
  unfold deepcopy
  simp only [hw]
  refine ⟨⟨{ o with plan := o.plan.map (rebindDeep i w.length) }, by simp, ?_, ?_, rfl, rfl, by simp⟩, ?_⟩
  · intro sl hsl
    simp only [List.mem_map] at hsl
    obtain ⟨a, ha, rfl⟩ := hsl
    simp [rebindDeep, hm a ha, hb a ha]
  · intro sl hsl
    simp only [List.mem_map] at hsl
    obtain ⟨a, ha, rfl⟩ := hsl
    simp [rebindDeep, hm a ha, hb a ha]
  · intro j hj
    simp [List.getElem?_append_left hj]

/-- a by-value copy (pickle, dill) of a well-bound object is well bound whatever its scheduled functions are -/
theorem byValue_spec (w : World σ) (i : Nat) (o : Obj σ) (hw : w[i]? = some o) (hb : wellBound i o) :
    (∃ o', (byValue w i)[w.length]? = some o' ∧ wellBound w.length o' ∧ o'.st = o.st ∧ o'.index = o.index ∧
      o'.plan.length = o.plan.length) ∧
    ∀ j, j < w.length → (byValue w i)[j]? = w[j]? := by
  unfold byValue
  simp only [hw]
  refine ⟨⟨{ o with plan := o.plan.map (rebindValue i w.length) }, by simp, ?_, rfl, rfl, by simp⟩, ?_⟩
  · intro sl hsl
    simp only [List.mem_map] at hsl
    obtain ⟨a, ha, rfl⟩ := hsl
    simp [rebindValue, hb a ha]
  · intro j hj
    simp [List.getElem?_append_left hj]

end StarsimModel.Binding
