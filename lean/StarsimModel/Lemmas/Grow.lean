import StarsimModel.Model.Grow
/-
Soundness of the symbolic run of `People.grow`'s operation list: if it says that the requested slots are written before
the state defaults are drawn (once each), every new agent's default is the stream value of ITS slot.
-/
namespace StarsimModel.Grow

theorem draw_by_slot (stream : Nat → Nat) (xs ns : List Nat) :
    (List.range ns.length).map (fun i => stream ((xs ++ ns)[xs.length + i]?.getD (xs.length + i))) = ns.map stream := by
  apply List.ext_getElem
  · simp
  · intro i h1 h2
    simp only [List.length_map, List.length_range] at h1
    simp only [List.getElem_map, List.getElem_range]
    congr 1
    rw [List.getElem?_append_right (by omega)]
    simp [h1]

/-- what the symbolic state claims about the concrete one -/
def Inv (stream : Nat → Nat) (p0 : P) (newSlots : List Nat) (st : SlotSt × ValSt) (p : P) : Prop :=
  (match st.1 with
    | .notGrown => p.slots = p0.slots
    | .grownDefault => p.slots = p0.slots ++ (List.range newSlots.length).map (p0.slots.length + ·)
    | .grownGiven => p.slots = p0.slots ++ newSlots
    | .broken => True) ∧
  (match st.2 with
    | .notDrawn => p.vals = p0.vals
    | .drawnBySlot => p.vals = p0.vals ++ newSlots.map stream
    | .bad => True)

theorem inv_step (stream : Nat → Nat) (p0 : P) (newSlots : List Nat) (st : SlotSt × ValSt) (p : P) (op : GOp)
    (h : Inv stream p0 newSlots st p) :
    Inv stream p0 newSlots (symStep st op) (runOp stream p0.slots.length newSlots p op) := by
  obtain ⟨s, v⟩ := st
  obtain ⟨hs, hv⟩ := h
  cases op <;> cases s <;> cases v <;>
    simp_all [Inv, symStep, runOp, List.take_left', draw_by_slot]

theorem inv_run (stream : Nat → Nat) (p0 : P) (newSlots : List Nat) :
    ∀ (ops : List GOp) (st : SlotSt × ValSt) (p : P), Inv stream p0 newSlots st p →
      Inv stream p0 newSlots (ops.foldl symStep st) (ops.foldl (runOp stream p0.slots.length newSlots) p) := by
  intro ops
  induction ops with
  | nil => intro st p h; exact h
  | cons op ops ih => intro st p h; exact ih _ _ (inv_step stream p0 newSlots st p op h)

/-- **Soundness.** -/
theorem grow_by_slot (ops : List GOp) (hok : slotsBeforeDefaults ops = true) (stream : Nat → Nat) (p0 : P) (newSlots : List Nat) :
    (grow ops stream p0 newSlots).slots = p0.slots ++ newSlots ∧
    (grow ops stream p0 newSlots).vals = p0.vals ++ newSlots.map stream := by
  have h0 : Inv stream p0 newSlots (.notGrown, .notDrawn) p0 := ⟨rfl, rfl⟩
  have h := inv_run stream p0 newSlots ops _ _ h0
  unfold slotsBeforeDefaults at hok
  have he : ops.foldl symStep (.notGrown, .notDrawn) = (.grownGiven, .drawnBySlot) := by simpa using hok
  rw [he] at h
  exact h

end StarsimModel.Grow
