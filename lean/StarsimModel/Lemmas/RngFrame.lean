/-
Stream-level frame for several distributions in one simulation (`Rng.runMany`): what one distribution does — its
final state and the positions its draws start from — is a function of ITS OWN operation history only, whatever the
other distributions of the simulation are asked to do in between, in any interleaving and at any length.
Used by C01 (determinism of every stream), C02 (independent components) and C04.
-/
import StarsimModel.Model.Rng

namespace StarsimModel.Rng

/-- The operations addressed to distribution `i`, in order. -/
def opsOf (i : Nat) (ops : List (Nat × Op)) : List Op :=
  (ops.filter (fun o => o.1 = i)).map (·.2)

/-- The draws logged for distribution `i`, in order. -/
def logOf (i : Nat) (log : List (Nat × Pos)) : List Pos :=
  (log.filter (fun e => e.1 = i)).map (·.2)

@[simp] theorem opsOf_nil (i : Nat) : opsOf i [] = [] := rfl

theorem opsOf_cons_self (i : Nat) (op : Op) (ops : List (Nat × Op)) :
    opsOf i ((i, op) :: ops) = op :: opsOf i ops := by
  simp [opsOf]

theorem opsOf_cons_ne {i j : Nat} (h : j ≠ i) (op : Op) (ops : List (Nat × Op)) :
    opsOf i ((j, op) :: ops) = opsOf i ops := by
  simp [opsOf, h]

theorem logOf_cons_self (i : Nat) (p : Pos) (log : List (Nat × Pos)) :
    logOf i ((i, p) :: log) = p :: logOf i log := by
  simp [logOf]

theorem logOf_cons_ne {i j : Nat} (h : j ≠ i) (p : Pos) (log : List (Nat × Pos)) :
    logOf i ((j, p) :: log) = logOf i log := by
  simp [logOf, h]

/-- **Projection.** In a run over any number of distributions, distribution `i` ends in the state, and logs the draw
    positions, that it would reach if only its own operations had been issued. -/
theorem runMany_project (ops : List (Nat × Op)) : ∀ (ds : List Dist) (i : Nat) (d : Dist), ds[i]? = some d →
    (runMany ds ops).1[i]? = some (run d (opsOf i ops)).1 ∧
    logOf i (runMany ds ops).2 = (run d (opsOf i ops)).2 := by
  induction ops with
  | nil => intro ds i d h; simp [runMany, run, logOf, h]
  | cons o ops ih =>
      intro ds i d h
      obtain ⟨j, op⟩ := o
      simp only [runMany]
      cases hj : ds[j]? with
      | none =>
          have hne : j ≠ i := by intro e; rw [e, h] at hj; cases hj
          simp only []
          rw [opsOf_cons_ne hne]
          exact ih ds i d h
      | some dj =>
          simp only []
          have hjl : j < ds.length := by
            rcases List.getElem?_eq_some_iff.mp hj with ⟨hl, _⟩; exact hl
          by_cases hji : j = i
          · subst hji
            have hdd : dj = d := by rw [h] at hj; exact (Option.some.inj hj).symm
            subst hdd
            have hset : (ds.set j (step dj op).1)[j]? = some (step dj op).1 := List.getElem?_set_self hjl
            obtain ⟨ih1, ih2⟩ := ih (ds.set j (step dj op).1) j (step dj op).1 hset
            rw [opsOf_cons_self]
            simp only [run]
            cases hst : (step dj op).2.start with
            | none => simp only []; exact ⟨ih1, ih2⟩
            | some p => simp only []; exact ⟨ih1, by rw [logOf_cons_self, ih2]⟩
          · have hset : (ds.set j (step dj op).1)[i]? = some d := by
              rw [List.getElem?_set_ne hji]; exact h
            obtain ⟨ih1, ih2⟩ := ih (ds.set j (step dj op).1) i d hset
            rw [opsOf_cons_ne hji]
            cases hst : (step dj op).2.start with
            | none => simp only []; exact ⟨ih1, ih2⟩
            | some p => simp only []; exact ⟨ih1, by rw [logOf_cons_ne hji, ih2]⟩

/-- **Frame.** Two runs — over different sets of distributions, with different interleavings — in which distribution
    `i` of the first and `k` of the second start equal and receive the same operations: they log the same draw
    positions and end in the same state. -/
theorem runMany_frame (ds ds' : List Dist) (ops ops' : List (Nat × Op)) (i k : Nat) (d : Dist)
    (h : ds[i]? = some d) (h' : ds'[k]? = some d) (hops : opsOf i ops = opsOf k ops') :
    logOf i (runMany ds ops).2 = logOf k (runMany ds' ops').2 ∧
    (runMany ds ops).1[i]? = (runMany ds' ops').1[k]? := by
  obtain ⟨a1, a2⟩ := runMany_project ops ds i d h
  obtain ⟨b1, b2⟩ := runMany_project ops' ds' k d h'
  rw [a1, a2, b1, b2, hops]; exact ⟨rfl, rfl⟩

end StarsimModel.Rng
