/-
C17 (round 3) — helper lemmas for Model/ParsRefs.lean (name-keyed beta, ownership of spec dicts).  Core Lean only.
-/
import StarsimModel.Model.ParsRefs

namespace StarsimModel.ParsRefs
open StarsimModel.Pars

variable {α : Type}

def keysOfItems (f : String → String) (items : List (String × Entry α)) : List String := items.map (fun it => f it.1)

theorem betaLookup_none (f : String → String) (items : List (String × Entry α)) (n : String)
    (h : n ∉ keysOfItems f items) : betaLookup f items n = none := by
  induction items with
  | nil => rfl
  | cons it rest ih =>
      obtain ⟨k, e⟩ := it
      simp only [keysOfItems, List.map_cons, List.mem_cons, not_or] at h
      have := ih (by simpa [keysOfItems] using h.2)
      simp only [betaLookup, this]
      have hne : f k ≠ n := fun hh => h.1 hh.symm
      simp [hne]

theorem betaLookup_isSome (f : String → String) (items : List (String × Entry α)) (n : String)
    (h : n ∈ keysOfItems f items) : (betaLookup f items n).isSome = true := by
  induction items with
  | nil => simp [keysOfItems] at h
  | cons it rest ih =>
      obtain ⟨k, e⟩ := it
      simp only [betaLookup]
      cases hr : betaLookup f rest n with
      | some r => simp
      | none =>
          simp only [keysOfItems, List.map_cons, List.mem_cons] at h
          rcases h with h | h
          · simp [h]
          · have := ih (by simpa [keysOfItems] using h)
            simp [hr] at this

/-- with pairwise distinct standardized keys every supplied entry is what the lookup of its key returns -/
theorem betaLookup_mem (f : String → String) (items : List (String × Entry α))
    (hnd : (keysOfItems f items).Nodup) (k : String) (e : Entry α) (hm : (k, e) ∈ items) :
    betaLookup f items (f k) = some e.eff := by
  induction items with
  | nil => simp at hm
  | cons it rest ih =>
      obtain ⟨k0, e0⟩ := it
      simp only [keysOfItems, List.map_cons, List.nodup_cons] at hnd
      simp only [List.mem_cons] at hm
      rcases hm with hm | hm
      · have hk : k = k0 := congrArg Prod.fst hm
        have he : e = e0 := congrArg Prod.snd hm
        subst hk; subst he
        have := betaLookup_none f rest (f k) (by simpa [keysOfItems] using hnd.1)
        simp [betaLookup, this]
      · have := ih (by simpa [keysOfItems] using hnd.2) hm
        simp [betaLookup, this]

/-- if every entry has the same effective pair, so has every lookup that succeeds -/
theorem betaLookup_const (f : String → String) (items : List (String × Entry α)) (p : α × α)
    (hall : ∀ it ∈ items, it.2.eff = p) (n : String) (hn : n ∈ keysOfItems f items) :
    betaLookup f items n = some p := by
  induction items with
  | nil => simp [keysOfItems] at hn
  | cons it rest ih =>
      obtain ⟨k, e⟩ := it
      simp only [betaLookup]
      by_cases hr : n ∈ keysOfItems f rest
      · have := ih (fun it hi => hall it (List.mem_cons_of_mem _ hi)) hr
        simp [this]
      · have hnone := betaLookup_none f rest n hr
        simp only [keysOfItems, List.map_cons, List.mem_cons] at hn
        rcases hn with hn | hn
        · have he : e.eff = p := hall (k, e) (List.mem_cons_self ..)
          subst hn
          simp [hnone, he]
        · exact absurd (by simpa [keysOfItems] using hn) hr

/-- the lookup sees the supplied keys only through the standardization -/
theorem betaLookup_std (f : String → String) (items : List (String × Entry α)) (n : String) :
    betaLookup f items n = betaLookup id (items.map (fun it => (f it.1, it.2))) n := by
  induction items with
  | nil => rfl
  | cons it rest ih =>
      obtain ⟨k, e⟩ := it
      simp [betaLookup, ih]

theorem keys_std (f : String → String) (items : List (String × Entry α)) :
    items.map (fun it => f it.1) = (items.map (fun it => (f it.1, it.2))).map (fun it => it.1) := by
  simp [List.map_map, Function.comp_def]

/-- `resolve` written over the standardized items -/
theorem resolve_dict_std (f : String → String) (chk : KeyCheck) (bt : Err) (nets : List String)
    (items : List (String × Entry α)) :
    resolve f chk bt nets (.dict items) =
      (let sitems := items.map (fun it => (f it.1, it.2))
       let keys := sitems.map (fun it => it.1)
       let nk := nets.map f
       if chk.missing && nk.any (fun n => !keys.contains n) then .error .value
       else if chk.extra && keys.any (fun k => !nk.contains k) then .error .value
       else .ok (nk.map (fun n => (n, betaLookup id sitems n)))) := by
  simp only [resolve, keys_std f items]
  have : (fun n => (n, betaLookup f items n)) = (fun n => (n, betaLookup id (items.map (fun it => (f it.1, it.2))) n)) := by
    funext n; rw [betaLookup_std]
  rw [this]

theorem eraseKey_findKey_none (k : String) (l : List (String × Nat)) : findKey k (eraseKey k l) = none := by
  induction l with
  | nil => rfl
  | cons it rest ih =>
      obtain ⟨k', v⟩ := it
      by_cases h : k' = k <;> simp [eraseKey, findKey, h, ih]

end StarsimModel.ParsRefs
