/-
Helper lemmas for the round-2 part of C17 (Model/ParsDeep.lean): dict merging, the generic update loop, and the
depth-indexed nested update.  Core Lean only.
-/
import StarsimModel.Lemmas.Pars
import StarsimModel.Model.ParsDeep

namespace StarsimModel.Pars

/-! ### merging -/

theorem lookup_append {β} (k : String) : ∀ (a b : List (String × β)),
    lookup k (a ++ b) = (match lookup k a with | some v => some v | none => lookup k b)
  | [], b => by simp [lookup]
  | (k', v') :: rest, b => by
      by_cases hk : k' = k
      · simp [lookup, hk]
      · simp [lookup, hk, lookup_append k rest b]

theorem lookup_map_override (k : String) (b : List Item) : ∀ (a : List Item),
    lookup k (a.map (overrideBy b)) =
      (match lookup k a with
       | none => none
       | some v => (match lookup k b with | some w => some w | none => some v))
  | [] => by simp [lookup]
  | (k', v') :: rest => by
      by_cases hk : k' = k
      · subst hk
        cases hb : lookup k' b <;> simp [lookup, hb, overrideBy]
      · have ih := lookup_map_override k b rest
        cases hb : lookup k' b <;> simp [lookup, hb, hk, ih, overrideBy]

theorem lookup_filter_absent (k : String) (a : List Item) : ∀ (b : List Item),
    lookup k (b.filter (absentIn a)) =
      (match lookup k a with | some _ => none | none => lookup k b)
  | [] => by cases lookup k a <;> simp [lookup]
  | (k', v') :: rest => by
      have ih := lookup_filter_absent k a rest
      by_cases hk : k' = k
      · subst hk
        cases ha : lookup k' a <;> simp [List.filter, ha, lookup, absentIn] at ih ⊢
        · exact ih
      · cases ha' : lookup k' a <;> simp [List.filter, ha', lookup, hk, ih, absentIn]

/-- **later wins**: a key present in `b` has `b`'s value, otherwise `a`'s -/
theorem lookup_mergeItems (k : String) (a b : List Item) :
    lookup k (mergeItems a b) = (match lookup k b with | some w => some w | none => lookup k a) := by
  unfold mergeItems
  rw [lookup_append, lookup_map_override, lookup_filter_absent]
  cases ha : lookup k a <;> cases hb : lookup k b <;> simp

/-! ### ndict construction -/

theorem buildNdict_ok : ∀ (names acc : List String), (acc ++ names).Nodup → buildNdict acc names = .ok (acc ++ names)
  | [], acc, _ => by simp [buildNdict]
  | nm :: rest, acc, h => by
      have hn : nm ∉ acc := by
        intro hm
        rw [List.nodup_append] at h
        exact h.2.2 nm hm nm (List.mem_cons_self ..) rfl
      have h' : ((acc ++ [nm]) ++ rest).Nodup := by simpa using h
      have := buildNdict_ok rest (acc ++ [nm]) h'
      simp [buildNdict, hn, this]

theorem buildNdict_dup : ∀ (names acc : List String), acc.Nodup → ¬ (acc ++ names).Nodup →
    buildNdict acc names = .error .value
  | [], acc, ha, h => by simp at h; exact absurd ha h
  | nm :: rest, acc, ha, h => by
      have hd : Gen.ndictDuplicateAction = .raise .value := by decide
      by_cases hn : nm ∈ acc
      · simp [buildNdict, hn, hd]
      · have ha' : (acc ++ [nm]).Nodup := by
          rw [List.nodup_append]
          refine ⟨ha, by simp, ?_⟩
          intro a hma b hmb
          simp at hmb; subst hmb
          intro hab; subst hab; exact hn hma
        have h' : ¬ ((acc ++ [nm]) ++ rest).Nodup := by simpa using h
        simp [buildNdict, hn, buildNdict_dup rest (acc ++ [nm]) ha' h']

/-! ### the generic update loop -/

theorem setAll_spec {α β} (apply : α → β → Except Err α) (store : β → α) (kindOf : β → NKind) :
    ∀ (items : List (String × β)) (p p' : List (String × α)),
      (keysOf items).Nodup → setAll apply store kindOf p items = .ok p' →
      (∀ it ∈ items, ∀ o, lookup it.1 p = some o → ∃ o', apply o it.2 = .ok o' ∧ lookup it.1 p' = some o') ∧
      (∀ it ∈ items, lookup it.1 p = none → lookup it.1 p' = some (store it.2)) ∧
      (∀ k, k ∉ keysOf items → lookup k p' = lookup k p)
  | [], p, p', _, h => by
      simp only [setAll] at h
      injection h with h; subst h
      simp
  | (k, v) :: rest, p, p', hnd, h => by
      have hnd' : k ∉ keysOf rest ∧ (keysOf rest).Nodup := by simpa [keysOf] using hnd
      simp only [setAll] at h
      cases hl : lookup k p with
      | none =>
          simp only [hl, newKey_set] at h
          obtain ⟨h1, h2, h3⟩ := setAll_spec apply store kindOf rest _ p' hnd'.2 h
          have hother : ∀ k', k' ≠ k → lookup k' (p ++ [(k, store v)]) = lookup k' p :=
            fun k' hk' => lookup_append_other k k' (store v) hk' p
          refine ⟨?_, ?_, ?_⟩
          · intro it hit o ho
            rcases List.mem_cons.mp hit with rfl | hit
            · simp [hl] at ho
            · have hne : it.1 ≠ k := by
                intro he; apply hnd'.1; rw [← he]; exact List.mem_map_of_mem (f := (·.1)) hit
              exact h1 it hit o (by rw [hother _ hne]; exact ho)
          · intro it hit hno
            rcases List.mem_cons.mp hit with rfl | hit
            · rw [h3 k hnd'.1]; exact lookup_append_new k (store v) p hl
            · have hne : it.1 ≠ k := by
                intro he; apply hnd'.1; rw [← he]; exact List.mem_map_of_mem (f := (·.1)) hit
              exact h2 it hit (by rw [hother _ hne]; exact hno)
          · intro k' hk'
            have hk'' : k' ≠ k ∧ k' ∉ keysOf rest := by simpa [keysOf] using hk'
            rw [h3 k' hk''.2, hother k' hk''.1]
      | some old =>
          simp only [hl] at h
          cases ha : apply old v with
          | error e => simp [ha] at h
          | ok o' =>
              simp only [ha] at h
              obtain ⟨h1, h2, h3⟩ := setAll_spec apply store kindOf rest _ p' hnd'.2 h
              have hother : ∀ k', k' ≠ k → lookup k' (replace k o' p) = lookup k' p :=
                fun k' hk' => lookup_replace_other k k' o' hk' p
              refine ⟨?_, ?_, ?_⟩
              · intro it hit o ho
                rcases List.mem_cons.mp hit with rfl | hit
                · rw [hl] at ho; injection ho with ho; subst ho
                  exact ⟨o', ha, by rw [h3 k hnd'.1]; exact lookup_replace_same k o' p old hl⟩
                · have hne : it.1 ≠ k := by
                    intro he; apply hnd'.1; rw [← he]; exact List.mem_map_of_mem (f := (·.1)) hit
                  exact h1 it hit o (by rw [hother _ hne]; exact ho)
              · intro it hit hno
                rcases List.mem_cons.mp hit with rfl | hit
                · simp [hl] at hno
                · have hne : it.1 ≠ k := by
                    intro he; apply hnd'.1; rw [← he]; exact List.mem_map_of_mem (f := (·.1)) hit
                  exact h2 it hit (by rw [hother _ hne]; exact hno)
              · intro k' hk'
                have hk'' : k' ≠ k ∧ k' ∉ keysOf rest := by simpa [keysOf] using hk'
                rw [h3 k' hk''.2, hother k' hk''.1]

theorem modsAll_spec {α β} (apply : α → β → Except Err α) :
    ∀ (items : List (String × β)) (m m' : List (String × α)),
      (keysOf items).Nodup → modsAll apply m items = .ok m' →
      (∀ it ∈ items, ∃ o o', lookup it.1 m = some o ∧ apply o it.2 = .ok o' ∧ lookup it.1 m' = some o') ∧
      (∀ k, k ∉ keysOf items → lookup k m' = lookup k m)
  | [], m, m', _, h => by
      simp only [modsAll] at h
      injection h with h; subst h
      simp
  | (k, v) :: rest, m, m', hnd, h => by
      have hnd' : k ∉ keysOf rest ∧ (keysOf rest).Nodup := by simpa [keysOf] using hnd
      simp only [modsAll] at h
      cases hl : lookup k m with
      | none => simp [hl] at h
      | some old =>
          simp only [hl] at h
          cases ha : apply old v with
          | error e => simp [ha] at h
          | ok o' =>
              simp only [ha] at h
              obtain ⟨h1, h3⟩ := modsAll_spec apply rest _ m' hnd'.2 h
              have hother : ∀ k', k' ≠ k → lookup k' (replace k o' m) = lookup k' m :=
                fun k' hk' => lookup_replace_other k k' o' hk' m
              refine ⟨?_, ?_⟩
              · intro it hit
                rcases List.mem_cons.mp hit with rfl | hit
                · exact ⟨old, o', hl, ha, by rw [h3 k hnd'.1]; exact lookup_replace_same k o' m old hl⟩
                · have hne : it.1 ≠ k := by
                    intro he; apply hnd'.1; rw [← he]; exact List.mem_map_of_mem (f := (·.1)) hit
                  obtain ⟨o, o2, ho, hap, hl2⟩ := h1 it hit
                  exact ⟨o, o2, by rw [← hother _ hne]; exact ho, hap, hl2⟩
              · intro k' hk'
                have hk'' : k' ≠ k ∧ k' ∉ keysOf rest := by simpa [keysOf] using hk'
                rw [h3 k' hk''.2, hother k' hk''.1]

/-! ### facts about the regenerated table used by the deep update -/

theorem dispatch_pars_recurse : ∀ k, dispatch .pars k = .recurse := by
  apply forall_nkinds; decide

theorem dispatch_ndict_cases : ∀ k, dispatch .ndictFull k = .ndictItems ∨ dispatch .ndictFull k = .raise .type := by
  apply forall_nkinds; decide

theorem strayCase_of_kindGood (var : Variant) (o : OKind) (k : NKind) (h : kindGood var k = true) :
    strayCase var o k = false := by
  unfold kindGood at h; unfold strayCase
  cases var <;> simp_all

theorem wfN_kindGood : ∀ (n : Nat) (var : Variant) (v : NT n), wfN n var v → kindGood var (NT.kt n v).1 = true
  | 0, _, (_, _), h => h
  | _ + 1, _, .inl (_, _), h => h
  | _ + 1, _, .inr (_, _, _), h => h.1

theorem storeNew_inEffect : ∀ (n : Nat) (v : NT n), inEffectN n (storeNew n v) v
  | 0, (_, _) => by simp [storeNew, inEffectN, Eff.token]
  | _ + 1, _ => by simp [storeNew, inEffectN, Eff.token]

/-! ### the nested update, all depths -/

theorem deep_applied : ∀ (n : Nat) (var : Variant) (create : Bool) (old : PT n) (new : NT n) (old' : PT n),
    wfN n var new → applyN n var create old new = .ok old' → inEffectN n old' new
  | 0, var, _, s, (k, t), s', hwf, h => by
      simp only [applyN] at h
      exact applyLeaf_token var s s' k t (strayCase_of_kindGood var s.kind k hwf) h
  | n + 1, var, create, .inl s, new, old', hwf, h => by
      simp only [applyN] at h
      cases ha : applyLeaf var s (NT.kt (n + 1) new).1 (NT.kt (n + 1) new).2 with
      | error e => simp [ha, Except.map] at h
      | ok s' =>
          simp only [ha, Except.map] at h
          injection h with h; subst h
          exact applyLeaf_token var s s' _ _
            (strayCase_of_kindGood var s.kind _ (wfN_kindGood (n + 1) var new hwf)) ha
  | n + 1, var, create, .inr (.pars, children), .inl (k, t), old', _, h => by
      simp only [applyN, dispatch_pars_recurse] at h
      cases hr : recurseAtom k with
      | error e => simp [hr, Except.map] at h
      | ok u =>
          simp only [hr, Except.map] at h
          injection h with h; subst h
          simp [inEffectN]
  | n + 1, var, create, .inr (.pars, children), .inr (k, t, items), old', hwf, h => by
      simp only [applyN, dispatch_pars_recurse] at h
      cases hu : updateGen create (applyN n var create) (storeNew n) (fun v => (NT.kt n v).1) children items with
      | error e => simp [hu, Except.map] at h
      | ok c =>
          simp only [hu, Except.map] at h
          injection h with h; subst h
          unfold updateGen at hu
          cases hs : strictCheck create (keysOf children) (keysOf items) with
          | error e => simp [hs] at hu
          | ok u =>
              simp only [hs] at hu
              obtain ⟨h1, h2, _⟩ := setAll_spec _ _ _ items children c hwf.2.1 hu
              show ∀ it ∈ items, ∃ c', lookup it.1 c = some c' ∧ inEffectN n c' it.2
              intro it hit
              cases hl : lookup it.1 children with
              | none => exact ⟨_, h2 it hit hl, storeNew_inEffect n it.2⟩
              | some o =>
                  obtain ⟨o', hap, hl'⟩ := h1 it hit o hl
                  exact ⟨o', hl', deep_applied n var create o it.2 o' (hwf.2.2 it hit) hap⟩
  | n + 1, var, create, .inr (.mods, children), .inl (k, t), old', hwf, h => by
      have hk := wfN_kindGood (n + 1) var (.inl (k, t)) hwf
      simp only [applyN, NT.kt] at h
      rcases dispatch_ndict_cases k with hd | hd <;> simp [hd] at h
  | n + 1, var, create, .inr (.mods, children), .inr (k, t, items), old', hwf, h => by
      simp only [applyN, NT.kt] at h
      rcases dispatch_ndict_cases k with hd | hd
      · simp only [hd] at h
        cases hu : modsAll (applyN n var false) children items with
        | error e => simp [hu, Except.map] at h
        | ok c =>
            simp only [hu, Except.map] at h
            injection h with h; subst h
            obtain ⟨h1, _⟩ := modsAll_spec _ items children c hwf.2.1 hu
            show ∀ it ∈ items, ∃ c', lookup it.1 c = some c' ∧ inEffectN n c' it.2
            intro it hit
            obtain ⟨o, o', _, hap, hl'⟩ := h1 it hit
            exact ⟨o', hl', deep_applied n var false o it.2 o' (hwf.2.2 it hit) hap⟩
      · simp [hd] at h

/-- key distinctness at every level (Python dict keys are unique) -/
def nodupN : (n : Nat) → NT n → Prop
  | 0, _ => True
  | _ + 1, .inl _ => True
  | n + 1, .inr (_, _, items) => (keysOf items).Nodup ∧ ∀ it ∈ items, nodupN n it.2

theorem deep_known : ∀ (n : Nat) (var : Variant) (old : PT n) (new : NT n) (old' : PT n),
    nodupN n new → applyN n var false old new = .ok old' → knownN n old new
  | 0, _, _, _, _, _, _ => by simp [knownN]
  | n + 1, _, .inl s, _, _, _, _ => by simp [knownN]
  | n + 1, _, .inr (ck, children), .inl (k, t), _, _, _ => by simp [knownN]
  | n + 1, var, .inr (.pars, children), .inr (k, t, items), old', hnd, h => by
      simp only [applyN, dispatch_pars_recurse] at h
      cases hu : updateGen false (applyN n var false) (storeNew n) (fun v => (NT.kt n v).1) children items with
      | error e => simp [hu, Except.map] at h
      | ok c =>
          unfold updateGen at hu
          cases hs : strictCheck false (keysOf children) (keysOf items) with
          | error e => simp [hs] at hu
          | ok u =>
              simp only [hs] at hu
              have hkeys := strictCheck_false_ok _ _ (by cases u; exact hs)
              obtain ⟨h1, _, _⟩ := setAll_spec _ _ _ items children c hnd.1 hu
              show ∀ it ∈ items, ∃ c', lookup it.1 children = some c' ∧ knownN n c' it.2
              intro it hit
              have hin : it.1 ∈ keysOf children := hkeys it.1 (List.mem_map_of_mem (f := (·.1)) hit)
              cases hl : lookup it.1 children with
              | none => exact absurd hin ((lookup_none_iff it.1 children).mp hl)
              | some o =>
                  obtain ⟨o', hap, _⟩ := h1 it hit o hl
                  exact ⟨o, rfl, deep_known n var o it.2 o' (hnd.2 it hit) hap⟩
  | n + 1, var, .inr (.mods, children), .inr (k, t, items), old', hnd, h => by
      simp only [applyN, NT.kt] at h
      rcases dispatch_ndict_cases k with hd | hd
      · simp only [hd] at h
        cases hu : modsAll (applyN n var false) children items with
        | error e => simp [hu, Except.map] at h
        | ok c =>
            obtain ⟨h1, _⟩ := modsAll_spec _ items children c hnd.1 hu
            show ∀ it ∈ items, ∃ c', lookup it.1 children = some c' ∧ knownN n c' it.2
            intro it hit
            obtain ⟨o, o', hl, hap, _⟩ := h1 it hit
            exact ⟨o, hl, deep_known n var o it.2 o' (hnd.2 it hit) hap⟩
      · simp [hd] at h

/-! ### ss.Time -/

theorem lookup_filterMap_keys (f : String → Option Nat) (k : String) : ∀ (ks : List String), k ∈ ks →
    lookup k (ks.filterMap (fun k' => (f k').map (fun t => (k', t)))) = f k
  | [], h => by simp at h
  | k' :: rest, h => by
      by_cases hk : k' = k
      · subst hk
        cases hf : f k' with
        | some t => simp [List.filterMap, hf, lookup]
        | none =>
            simp only [List.filterMap, hf, Option.map_none]
            by_cases hr : k' ∈ rest
            · rw [lookup_filterMap_keys f k' rest hr, hf]
            · have : ∀ (l : List String), k' ∉ l → lookup k' (l.filterMap (fun k'' => (f k'').map (fun t => (k'', t)))) = none := by
                intro l
                induction l with
                | nil => simp [lookup]
                | cons a l ih =>
                    intro hnl
                    have ha : a ≠ k' := fun e => hnl (by simp [e])
                    have hl : k' ∉ l := fun e => hnl (by simp [e])
                    cases hfa : f a <;> simp [List.filterMap, hfa, lookup, ha, ih hl]
              exact this rest hr
      · have hr : k ∈ rest := by
          rcases List.mem_cons.mp h with e | e
          · exact absurd e.symm hk
          · exact e
        cases hf : f k' <;> simp [List.filterMap, hf, lookup, hk, lookup_filterMap_keys f k rest hr]

theorem lookup_of_mem_nodup {β} : ∀ (l : List (String × β)) (k : String) (v : β),
    (keysOf l).Nodup → (k, v) ∈ l → lookup k l = some v
  | [], _, _, _, h => by simp at h
  | (k', v') :: rest, k, v, hnd, h => by
      have hnd' : k' ∉ keysOf rest ∧ (keysOf rest).Nodup := by simpa [keysOf] using hnd
      rcases List.mem_cons.mp h with e | e
      · injection e with e1 e2; subst e1; subst e2; simp [lookup]
      · have hne : k' ≠ k := by
          intro he; subst he; exact hnd'.1 (List.mem_map_of_mem (f := (·.1)) e)
        simp [lookup, hne, lookup_of_mem_nodup rest k v hnd'.2 e]

end StarsimModel.Pars
