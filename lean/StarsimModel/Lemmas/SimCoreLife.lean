/-
SimCoreLife — identifiers and life status over whole runs of the composed step model (Model/SimCore.lean).

Unlike the balance and partition theorems of Lemmas/SimCore.lean these need NO hypothesis on the population, on the
events or on admissibility of the `set_prognoses` calls: they are structural facts of the step (C10: identifiers dense and
never reused, death permanent, a request made before deaths are resolved is carried out in the same step).

  * `simStep_length` / `run_length`: the identifier space after a run is the initial one plus the births, nothing else —
    an agent's uid (its index) is never given to anyone else;
  * `simStep_life` / `run_life`: at every index, `alive = false` stays false and `present = false` (removed from the
    active set) stays false — no resurrection, no re-entry;
  * `simStep_request_carried_out`: an active agent named by a death request of this step's demographics phase, or carrying a
    request that is already due, is dead and out of the active set when the step ends;
  * `simStep_newborn_ids`: the agents born in a step sit at indices `len … len + births - 1`.
-/
import StarsimModel.Lemmas.SimCore

namespace StarsimModel.SimCore
open Gen.Sir

/-! ### Lengths: dense identifiers -/

theorem mapActive_length (f : Agent → Agent) (pop : List Agent) : (mapActive f pop).length = pop.length := by
  simp [mapActive]

theorem infectFold_length (ti : Nat) (calls : List (List Inf)) : ∀ (pop : List Agent) (bad : Bool),
    (calls.foldl (infectCall ti) (pop, bad)).1.length = pop.length := by
  induction calls with
  | nil => intro pop bad; rfl
  | cons c cs ih =>
      intro pop bad
      simp only [List.foldl_cons, infectCall]
      rw [ih]; simp

theorem demographics_length (ev : Events) (s : Sim) :
    (demographicsPhase ev s).pop.length = s.pop.length + ev.births := by
  simp [demographicsPhase]

theorem midPop_length (s : Sim) (ev : Events) : (midPop s ev).length = s.pop.length + ev.births := by
  simp only [midPop, diePhase, infectPhase, stepStatePhase, mapActive_length, infectFold_length]
  exact demographics_length ev s

/-- **Identifiers, one step**: the identifier space grows by exactly the births of the step. -/
theorem simStep_length (s : Sim) (ev : Events) : (simStep s ev).pop.length = s.pop.length + ev.births := by
  rw [simStep_pop, List.length_map, midPop_length]

theorem sumNat_cons (x : Nat) (l : List Nat) : sumNat (x :: l) = x + sumNat l := by
  simp only [sumNat, List.foldl_cons, Nat.zero_add]
  exact sumNat_foldl l x

/-- **Identifiers, whole runs**: after any run the identifier space is the initial one plus all births. -/
theorem run_length (evs : List Events) : ∀ s : Sim,
    (run s evs).pop.length = s.pop.length + sumNat (evs.map (·.births)) := by
  induction evs with
  | nil => intro s; simp [run, sumNat]
  | cons e es ih =>
      intro s
      show (run (simStep s e) es).pop.length = _
      rw [ih, simStep_length, List.map_cons, sumNat_cons]; omega

/-! ### Life status at one index, phase by phase (no hypotheses) -/

theorem demographics_life (ev : Events) (s : Sim) (i : Nat) (a : Agent) (h : s.pop[i]? = some a) :
    ∃ a', (demographicsPhase ev s).pop[i]? = some a' ∧ a'.present = a.present ∧ a'.alive = a.alive ∧
      ((i ∈ ev.background ∨ due a.pDead s.ti = true) → due a'.pDead s.ti = true) := by
  have hi : i < s.pop.length := (List.getElem?_eq_some_iff.mp h).1
  simp only [demographicsPhase, List.getElem?_mapIdx]
  rw [List.getElem?_append_left hi, h]
  by_cases hb : i ∈ ev.background
  · exact ⟨requestDeath s.ti a, by simp [hb], rfl, rfl, fun _ => due_self s.ti⟩
  · refine ⟨a, by simp [hb], rfl, rfl, ?_⟩
    intro h'; rcases h' with h' | h'
    · exact absurd h' hb
    · exact h'

theorem stepState_life (s : Sim) (i : Nat) (a : Agent) (h : s.pop[i]? = some a) :
    ∃ a', (stepStatePhase s).pop[i]? = some a' ∧ a'.present = a.present ∧ a'.alive = a.alive ∧
      (due a.pDead s.ti = true → due a'.pDead s.ti = true) := by
  simp only [stepStatePhase, mapActive, List.getElem?_map, h, Option.map_some]
  by_cases hp : a.present = true
  · obtain ⟨h1, h2, h3⟩ := stepStateAgent_core s.ti a
    refine ⟨stepStateAgent s.ti a, by simp [hp], h1, h2, ?_⟩
    intro hd
    rcases h3 with h3 | h3
    · rw [h3]; exact hd
    · rw [h3]; exact due_self s.ti
  · exact ⟨a, by simp [hp], rfl, rfl, fun hd => hd⟩

theorem infectFold_life (ti : Nat) (calls : List (List Inf)) : ∀ (pop : List Agent) (bad : Bool) (i : Nat) (a : Agent),
    pop[i]? = some a →
    ∃ a', (calls.foldl (infectCall ti) (pop, bad)).1[i]? = some a' ∧ a'.present = a.present ∧ a'.alive = a.alive ∧
      a'.pDead = a.pDead := by
  induction calls with
  | nil => intro pop bad i a h; exact ⟨a, h, rfl, rfl, rfl⟩
  | cons c cs ih =>
      intro pop bad i a h
      simp only [List.foldl_cons, infectCall]
      have hget : (pop.mapIdx (infectAgent ti c))[i]? = some (infectAgent ti c i a) := by
        simp [List.getElem?_mapIdx, h]
      obtain ⟨a', g, h1, h2, h3⟩ := ih (pop.mapIdx (infectAgent ti c)) (bad || !callAdmissible pop c) i _ hget
      obtain ⟨c1, c2, c3⟩ := infectAgent_core ti c i a
      exact ⟨a', g, by rw [h1, c1], by rw [h2, c2], by rw [h3, c3]⟩

theorem die_life (s : Sim) (i : Nat) (a : Agent) (h : s.pop[i]? = some a) :
    ∃ a', (diePhase s).pop[i]? = some a' ∧ a'.present = a.present ∧ (a.alive = false → a'.alive = false) ∧
      (a.present = true → due a.pDead s.ti = true → a'.alive = false) := by
  simp only [diePhase, mapActive, List.getElem?_map, h, Option.map_some]
  by_cases hp : a.present = true
  · by_cases hd : due a.pDead s.ti = true
    · exact ⟨dieAgent s.ti a, by simp [hp], by simp [dieAgent, hd], fun _ => by simp [dieAgent, hd],
        fun _ _ => by simp [dieAgent, hd]⟩
    · exact ⟨dieAgent s.ti a, by simp [hp], by simp [dieAgent, hd], fun ha => by simp [dieAgent, hd, ha],
        fun _ hd' => absurd hd' hd⟩
  · refine ⟨a, by simp [hp], rfl, fun ha => ha, ?_⟩
    intro hp'; exact absurd hp' hp

/-- **Life status, one step.**  Whatever the population and the events: the agent at index `i` is still at index `i`; dead
    stays dead; out of the active set stays out; whoever is active when the step ends is alive; and an active agent named by
    a death request of this step's demographics phase, or carrying a request that is already due, ends the step dead and
    removed. -/
theorem simStep_life (s : Sim) (ev : Events) (i : Nat) (a : Agent) (h : s.pop[i]? = some a) :
    ∃ a', (simStep s ev).pop[i]? = some a' ∧
      (a.alive = false → a'.alive = false) ∧
      (a.present = false → a'.present = false) ∧
      (a'.present = true → a'.alive = true) ∧
      (a.present = true → (i ∈ ev.background ∨ due a.pDead s.ti = true) → a'.alive = false ∧ a'.present = false) := by
  obtain ⟨a1, g1, p1, l1, d1⟩ := demographics_life ev s i a h
  obtain ⟨a2, g2, p2, l2, d2⟩ := stepState_life (demographicsPhase ev s) i a1 g1
  obtain ⟨a3, g3, p3, l3, d3⟩ := infectFold_life (stepStatePhase (demographicsPhase ev s)).ti ev.infections
    (stepStatePhase (demographicsPhase ev s)).pop (stepStatePhase (demographicsPhase ev s)).bad i a2 g2
  obtain ⟨a4, g4, p4, l4, d4⟩ := die_life (infectPhase ev (stepStatePhase (demographicsPhase ev s))) i a3 g3
  have hti : (infectPhase ev (stepStatePhase (demographicsPhase ev s))).ti = s.ti := rfl
  have hti2 : (demographicsPhase ev s).ti = s.ti := rfl
  refine ⟨{ a4 with present := a4.present && a4.alive }, ?_, ?_, ?_, ?_, ?_⟩
  · rw [simStep_pop, List.getElem?_map]
    have : (midPop s ev)[i]? = some a4 := g4
    rw [this]; rfl
  · intro ha
    show a4.alive = false
    exact l4 (by rw [l3, l2, l1]; exact ha)
  · intro hp
    show (a4.present && a4.alive) = false
    rw [p4, p3, p2, p1, hp]; rfl
  · intro hp
    have : (a4.present && a4.alive) = true := hp
    simp only [Bool.and_eq_true] at this
    exact this.2
  · intro hp hreq
    have h1 : due a1.pDead s.ti = true := d1 hreq
    have h2 : due a2.pDead s.ti = true := by rw [hti2] at d2; exact d2 h1
    have h3 : due a3.pDead s.ti = true := by rw [d3]; exact h2
    have hp3 : a3.present = true := by rw [p3, p2, p1]; exact hp
    have h4 : a4.alive = false := by rw [hti] at d4; exact d4 hp3 h3
    refine ⟨h4, ?_⟩
    show (a4.present && a4.alive) = false
    rw [h4]; simp

/-- **Life status, whole runs.**  Along any run — any initial population, any events, any length — every index keeps its
    agent, the dead stay dead and agents removed from the active set never return to it. -/
theorem run_life (evs : List Events) : ∀ (s : Sim) (i : Nat) (a : Agent), s.pop[i]? = some a →
    ∃ a', (run s evs).pop[i]? = some a' ∧ (a.alive = false → a'.alive = false) ∧
      (a.present = false → a'.present = false) := by
  induction evs with
  | nil => intro s i a h; exact ⟨a, h, fun x => x, fun x => x⟩
  | cons e es ih =>
      intro s i a h
      obtain ⟨a1, g1, l1, p1, _, _⟩ := simStep_life s e i a h
      obtain ⟨a', g', l', p'⟩ := ih (simStep s e) i a1 g1
      exact ⟨a', g', fun x => l' (l1 x), fun x => p' (p1 x)⟩

/-- After at least one step the active are alive, whatever the initial population was. -/
theorem run_active_alive (evs : List Events) (hne : evs ≠ []) : ∀ (s : Sim),
    ∀ a ∈ (run s evs).pop, a.present = true → a.alive = true := by
  induction evs with
  | nil => exact absurd rfl hne
  | cons e es ih =>
      intro s
      by_cases hes : es = []
      · subst hes
        intro a ha hp
        show a.alive = true
        have ha' : a ∈ (simStep s e).pop := ha
        rw [simStep_pop] at ha'
        obtain ⟨b, _, rfl⟩ := List.mem_map.mp ha'
        have : (b.present && b.alive) = true := hp
        simp only [Bool.and_eq_true] at this
        exact this.2
      · exact ih hes (simStep s e)

/-- **Newborn identifiers**: the agents created in a step sit at the indices right after the existing ones, in the default
    state (susceptible) unless the step's own events touched them. -/
theorem simStep_newborn_ids (s : Sim) (ev : Events) (i : Nat) :
    (s.pop.length ≤ i ∧ i < s.pop.length + ev.births) ↔ (s.pop[i]? = none ∧ (simStep s ev).pop[i]? ≠ none) := by
  have hl := simStep_length s ev
  rw [List.getElem?_eq_none_iff, Ne, List.getElem?_eq_none_iff, hl]
  omega

/-! ### Conservation of agents over whole runs -/

/-- **Conservation.**  From any population whose active agents are alive with nothing pending, under any events and for any
    run length: one row per step is recorded, and (active agents at the end) + (all recorded deaths) = (active agents at the
    start) + (all births).  Nobody is lost or counted twice between creation, the active set and the recorded deaths. -/
theorem run_conservation (evs : List Events) : ∀ (s : Sim), (∀ a ∈ s.pop, Clean a) →
    ∃ rs : List Row, (run s evs).rows = s.rows ++ rs ∧ rs.length = evs.length ∧
      nPresent (run s evs).pop + sumNat (rs.map (·.newDeaths)) = nPresent s.pop + sumNat (evs.map (·.births)) := by
  induction evs with
  | nil => intro s _; exact ⟨[], by simp [run], rfl, by simp [run, sumNat]⟩
  | cons e es ih =>
      intro s h
      obtain ⟨r, hr, hflow, hn, hc⟩ := simStep_flow s e h
      obtain ⟨rs, hrs, hlen, hsum⟩ := ih (simStep s e) hc
      refine ⟨r :: rs, ?_, by simp [hlen], ?_⟩
      · show (run (simStep s e) es).rows = _
        rw [hrs, hr, List.append_assoc]; rfl
      · show nPresent (run (simStep s e) es).pop + _ = _
        rw [List.map_cons, List.map_cons, sumNat_cons, sumNat_cons]
        omega

end StarsimModel.SimCore
