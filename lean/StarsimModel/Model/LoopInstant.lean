/-
The instant a module's own CALENDAR clock denotes on the time axis of a year-unit sim (C08, round 3).

`Model/Loop.lean` takes every owner's time vector as given.  For date-based owners with a sub-year unit (day / week /
month) in a sim that runs in years, the vector is produced from the owner's dates by
`Time.init` (`yearvec = dates_to_years(datevec)` = `round_tvec(sc.datetoyear(d))`) and `Time.make_abstvec`
(`abstvec = round_tvec(yearvec - sim.t.yearvec[0])`).  This file models that map, in units of `time_eps` = 10⁻⁶ year:

* a `Reading` is what the clock shows: the calendar year and the zero-based day of that year;
* `yearEps r` = the nearest integer to `(y + doy0 / yearLen y) · 10⁶` — the length of THE READING'S OWN year;
  (`(2·doy0·10⁶ + len) / (2·len)` is `⌊x + 1/2⌋`; no value is exactly half-way, see `C08_no_rounding_ties`);
* `instEps y0 r` = `yearEps r − y0`, `y0` = the sim's first year in eps (an integer: `round_tvec`).

Core Lean only; interpreted by Drivers/C08.lean (`inst`).
-/
namespace StarsimModel.LoopInstant

def isLeap (y : Nat) : Bool := y % 4 == 0 && (y % 100 != 0 || y % 400 == 0)

def yearLen (y : Nat) : Nat := if isLeap y then 366 else 365

/-- What a date-based clock shows: calendar year, zero-based day of that year. -/
structure Reading where
  y : Nat
  doy0 : Nat
  deriving DecidableEq, Repr

/-- The day exists in the year. -/
def Reading.Valid (r : Reading) : Prop := r.doy0 < yearLen r.y

instance (r : Reading) : Decidable r.Valid := by unfold Reading.Valid; exact inferInstance

/-- Calendar order. -/
def Reading.lt (a b : Reading) : Prop := a.y < b.y ∨ (a.y = b.y ∧ a.doy0 < b.doy0)

instance (a b : Reading) : Decidable (Reading.lt a b) := by unfold Reading.lt; exact inferInstance

/-- eps per year (`round_tvec` keeps 6 decimals). -/
def perYear : Nat := 1000000

/-- `round_tvec(sc.datetoyear(date))` in eps. -/
def yearEps (r : Reading) : Nat :=
  r.y * perYear + (2 * r.doy0 * perYear + yearLen r.y) / (2 * yearLen r.y)

/-- `Time.make_abstvec`, sim in years: the owner's year vector minus the sim's first year. -/
def instEps (y0 : Int) (r : Reading) : Int := (yearEps r : Int) - y0

/-- The smallest distance, in eps, between the instants of two different dates (one day of a leap year). -/
def minGap : Nat := 2732

/-- Time vector of a date-based owner. -/
def instVec (y0 : Int) (rs : List Reading) : List Int := rs.map (instEps y0)

/-- Readings strictly increasing in calendar order, each an existing day (executable). -/
def increasingB : List Reading → Bool
  | [] => true
  | [a] => decide a.Valid
  | a :: b :: r => decide a.Valid && decide (Reading.lt a b) && increasingB (b :: r)

end StarsimModel.LoopInstant
