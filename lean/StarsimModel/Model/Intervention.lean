/-
Executable model of starsim's intervention delivery (starsim/interventions.py, products.py,
diseases/sir.py `sir_vaccine`).  Core Lean only; quantities are exact `Rat`.

What is modelled
* `RoutineDelivery.init_pre`  : window validation, `adj_factor`, start/end points, `timepoints`, the probability
                                vector (replication or linear interpolation on the intervention's own year vector)
                                and whether it is converted from an annual to a per-step probability.
* `CampaignDelivery.init_pre` : nearest time points, probability replication / length check.
* the `step` gate             : `sim.ti in self.timepoints` (or, for triage today, `sim.t in …`, never true).
* `check_eligibility`         : None → all active agents, BoolArr → its active true uids, uids → as given.
* the Bernoulli coverage filter over the eligible uids (random stream = arbitrary `draw : uid → Rat`).
* `BaseVaccination.step`, `BaseScreening.step`, `BaseTriage.step`, `BaseTest.deliver`,
  `treat_num` (`add_to_queue`, `get_candidates`, `BaseTreatment.step`, queue rebuild),
  `Dx.administer`, `Tx.administer`, `sir_vaccine.administer` (leaky / all-or-nothing).

Per-agent records are total functions `uid → value`; random streams are arbitrary functions (DESIGN 4.3).
The constants that come from the source (`adj_factor` else-branch, capacity slice offset, gate kinds) are
parameters here; `Props/C20.lean` instantiates them with `Generated/DeliveryConsts.lean`.
-/
namespace StarsimModel.Intervention

inductive Err
  | value   -- ValueError
  | index   -- IndexError
  | type    -- TypeError
  | attr    -- AttributeError
  deriving DecidableEq, Repr

/-! ### small list utilities (own definitions: simple induction lemmas in Lemmas/Intervention.lean) -/

/-- insert into a strictly increasing list, dropping duplicates -/
def insertU (x : Nat) : List Nat → List Nat
  | [] => [x]
  | y :: ys => if x < y then x :: y :: ys else if x = y then y :: ys else y :: insertU x ys

/-- sorted, duplicate-free (what `np.intersect1d` / `np.setdiff1d` / `np.unique` return) -/
def sortU (l : List Nat) : List Nat := l.foldr insertU []

/-- index of the first element equal to `x` -/
def findFirst {α} [DecidableEq α] (x : α) : List α → Option Nat
  | [] => none
  | y :: ys => if y = x then some 0 else (findFirst x ys).map (· + 1)

/-- `[a, a+1, …, a+n-1]` -/
def intRange (a : Int) : Nat → List Int
  | 0 => []
  | n + 1 => a :: intRange (a + 1) n

def absR (x : Rat) : Rat := if x < 0 then -x else x

/-- `np.argmin(abs(series - value))`: index of the first minimal distance -/
def argNearestAux (v : Rat) : List Rat → Nat → Nat → Rat → Nat
  | [], _, best, _ => best
  | x :: xs, i, best, bd => if absR (x - v) < bd then argNearestAux v xs (i + 1) i (absR (x - v))
                            else argNearestAux v xs (i + 1) best bd

def argNearest (series : List Rat) (v : Rat) : Option Nat :=
  match series with
  | [] => none
  | x :: xs => some (argNearestAux v xs 1 0 (absR (x - v)))

/-- Python `lst[:n]` for a possibly negative `n` -/
def pySliceTo (n : Int) (q : List Nat) : List Nat :=
  if 0 ≤ n then q.take n.toNat else q.take (q.length - n.natAbs)

/-! ### Schedules -/

/-- `adj_factor = int(1/dt) - fineSub if dt < threshold else coarse` (source constants are parameters) -/
structure AdjConsts where
  threshold : Rat
  fineSub : Int
  coarse : Int
  /-- the intervention's own year vector (abscissae of the interpolated probabilities) has one entry per time point
      (`start_year + arange(len(timepoints))*dt`) instead of `np.arange(start_year, end_year + adj_factor, dt)` -/
  vecPerTimepoint : Bool
  deriving DecidableEq

/-- the constants the source has today (`asis`) and the repaired ones (`spec`) -/
def AdjConsts.asis : AdjConsts := ⟨1, 1, 1, false⟩
def AdjConsts.spec : AdjConsts := ⟨1, 1, 0, true⟩

def adjFactor (c : AdjConsts) (dt : Rat) : Int :=
  if dt < c.threshold then (1 / dt).floor - c.fineSub else c.coarse

/-- A delivery schedule as stored on the intervention after `init_pre`. `prob` is the vector BEFORE the
    annual→per-step conversion (`convert` says whether the code converts it: `1 - (1 - p) ** dt`). -/
structure Sched where
  timepoints : List Int
  prob : List Rat
  convert : Bool
  dt : Rat
  deriving Repr, DecidableEq

/-- `np.isclose(a, b, rtol, atol)`: `|a - b| ≤ atol + rtol·|b|` -/
structure Tol where
  atol : Rat
  rtol : Rat
  deriving DecidableEq

def closeTo (t : Tol) (a b : Rat) : Bool := decide (absR (a - b) ≤ t.atol + t.rtol * absR b)

/-- `sc.findfirst(arr, val)` = first index with `np.isclose(arr[i], val, atol=eps)` -/
def findFirstClose (t : Tol) (x : Rat) : List Rat → Option Nat
  | [] => none
  | y :: ys => if closeTo t y x then some 0 else (findFirstClose t x ys).map (· + 1)

/-- tolerances of the matching in `RoutineDelivery.init_pre`: `valid` for `np.isclose(year, yearvec)` in the validation,
    `find` for `sc.findfirst(yearvec, year)` -/
structure Tols where
  valid : Tol
  find : Tol
  deriving DecidableEq

/-- library defaults: NumPy `rtol=1e-5, atol=1e-8`; sciris `findinds(eps=1e-6)` (→ `atol`) with NumPy's `rtol` -/
def Tols.lib : Tols := ⟨⟨1 / 100000000, 1 / 100000⟩, ⟨1 / 1000000, 1 / 100000⟩⟩
/-- exact matching (what the window is meant to be read with) -/
def Tols.exact : Tols := ⟨⟨0, 0⟩, ⟨0, 0⟩⟩

structure RoutineIn where
  yearvec : List Rat            -- sim.t.yearvec
  simStart : Rat                -- sim.pars.start
  simStop : Rat                 -- sim.pars.stop
  years : Option (List Rat)
  startYear : Option Rat
  endYear : Option Rat
  prob : List Rat
  annual : Bool
  dt : Rat                      -- sim.pars.dt
  tols : Tols := Tols.lib       -- matching tolerances of the library calls

/-- `np.interp(x, years, prob)` where `years = [sy, sy+1, …]` (unit spacing, as `sc.inclusiverange(sy, ey)` builds
    them) and `x ≥ sy`; clamps beyond the last knot; a single knot is a constant. -/
def interpUnit (sy : Rat) (prob : List Rat) (x : Rat) : Rat :=
  let k := (x - sy).floor.toNat
  match prob[k]?, prob[k + 1]? with
  | some a, some b => a + (x - sy - (k : Rat)) * (b - a)
  | some a, none => a
  | none, _ => prob.getLastD 0

/-- the configured window `(start_year, end_year)`; `none` = an empty `years` list (IndexError) -/
def routineWindow (i : RoutineIn) : Option (Rat × Rat) :=
  match i.years with
  | none => some (i.startYear.getD i.simStart, i.endYear.getD i.simStop)
  | some ys =>
    match ys.head?, ys.getLast? with
    | some a, some b => some (a, b)
    | _, _ => none

/-- `(start_point, end_point)`: positions of the window years on the sim's year grid, the end moved by `adj_factor`.
    `none`: the validation `any(isclose(start_year, yearvec)) and any(isclose(end_year, yearvec))` fails. -/
def routinePoints (c : AdjConsts) (i : RoutineIn) (sy ey : Rat) : Option (Nat × Int) :=
  if !(i.yearvec.any (fun y => closeTo i.tols.valid sy y) && i.yearvec.any (fun y => closeTo i.tols.valid ey y)) then none else
  match findFirstClose i.tols.find sy i.yearvec, findFirstClose i.tols.find ey i.yearvec with
  | some sp, some ep0 => some (sp, (ep0 : Int) + adjFactor c i.dt)
  | _, _ => none

/-- the probability vector stored by `init_pre` (before the annual conversion) -/
def routineProb (c : AdjConsts) (i : RoutineIn) (sy ey : Rat) (ntp : Nat) : Except Err (List Rat) :=
  -- sc.inclusiverange(sy, ey): int((ey-sy)/1)+1 points
  let nY : Int := (if ey < sy then -((sy - ey).floor) else (ey - sy).floor) + 1
  let nVec := if c.vecPerTimepoint then ntp
              else ((ey + (adjFactor c i.dt : Rat) - sy) / i.dt).ceil.toNat      -- len(np.arange(sy, ey + adj, dt))
  if nY < 0 then .error .value else
  if nY.toNat ≠ i.prob.length then
    match i.prob with
    | [p] => .ok (List.replicate ntp p)
    | _ => .error .value
  else
    .ok ((List.range nVec).map (fun (j : Nat) => interpUnit sy i.prob (sy + (j : Rat) * i.dt)))

def routineInit (c : AdjConsts) (i : RoutineIn) : Except Err Sched :=
  if i.years.isSome && (i.startYear.isSome || i.endYear.isSome) then .error .value else
  match routineWindow i with
  | none => .error .index
  | some (sy, ey) =>
    match routinePoints c i sy ey with
    | none => .error .value
    | some (sp, ep) =>
      let nT : Int := ep - (sp : Int) + 1
      if nT < 0 then .error .value else         -- np.linspace refuses a negative count
      let tps := intRange (sp : Int) nT.toNat
      match routineProb c i sy ey tps.length with
      | .error e => .error e
      | .ok pr => .ok ⟨tps, pr, i.annual, i.dt⟩

/-- `CampaignDelivery.init_pre` -/
def campaignInit (timevec : List Rat) (years prob : List Rat) : Except Err Sched :=
  match years.mapM (argNearest timevec) with
  | none => .error .value
  | some tps =>
    let prob' := match prob with
      | [p] => List.replicate tps.length p
      | _ => prob
    if prob'.length ≠ years.length then .error .value
    else .ok ⟨tps.map (fun (n : Nat) => (n : Int)), prob', false, 1⟩

/-- How a `step` decides whether this is a delivery step.  `timepoints` are positions on the SIM's time vector. -/
inductive Gate
  | onTi      -- `sim.ti in self.timepoints`: the sim's step index
  | onOwnTi   -- `self.ti in self.timepoints`: the module's own step counter (≠ `sim.ti` when the module has its own dt)
  | onTimeObj -- `sim.t in self.timepoints`: a Time object is never an element of the index vector
  deriving DecidableEq, Repr

/-- The two step counters a module sees when it is called: the sim's index and its own. -/
structure Clock where
  sim : Int
  own : Int
  deriving DecidableEq, Repr

/-- the position of the step in the schedule if the gate opens -/
def gateIndex (g : Gate) (s : Sched) (c : Clock) : Option Nat :=
  match g with
  | .onTi => findFirst c.sim s.timepoints
  | .onOwnTi => findFirst c.own s.timepoints
  | .onTimeObj => none

/-- per-step probability used at schedule position `k` (`conv` = the annual→step conversion for this `dt`) -/
def stepProb (conv : Rat → Rat) (s : Sched) (k : Nat) : Except Err Rat :=
  match s.prob[k]? with
  | none => .error .index
  | some p => .ok (if s.convert then conv p else p)

/-! ### Eligibility and acceptance -/

inductive Elig
  | everyone                 -- `eligibility is None`: all active agents
  | mask (m : Nat → Bool)    -- a BoolArr: its active true uids
  | uids (l : List Nat)      -- ss.uids: taken as given
  | bad                      -- any other non-empty result: TypeError

def checkEligibility (active : List Nat) : Elig → Except Err (List Nat)
  | .everyone => .ok active
  | .mask m => .ok (active.filter m)
  | .uids l => .ok l
  | .bad => .error .type

/-- `coverage_dist.filter(uids)` with `bernoulli(p)`: keeps the uids whose uniform draw is below `p` -/
def bernoulliFilter (p : Rat) (draw : Nat → Rat) (uids : List Nat) : List Nat :=
  uids.filter (fun u => decide (draw u < p))

/-! ### Vaccination -/

inductive Vaccine
  | inert                                      -- `ss.Vx.administer`: does nothing
  | leaky (eff : Rat)                          -- rel_sus *= 1 - eff
  | allOrNothing (eff : Rat) (fails : Nat → Bool)
      -- rel_sus[uids] *= np.random.binomial(1, 1-eff, len(uids)): `fails i` = the i-th variate (by POSITION in uids) is 1

/-- factor `rel_sus` is multiplied by for the recipient at position `i` of the accepted uids.  `binomial(1, q)` is 0
    for `q ≤ 0` and 1 for `q ≥ 1` (NumPy, trusted); in between the outcome is the stream `fails`. -/
def Vaccine.factor : Vaccine → Nat → Rat
  | .inert, _ => 1
  | .leaky eff, _ => 1 - eff
  | .allOrNothing eff fails, i => if 1 ≤ eff then 0 else if eff ≤ 0 then 1 else if fails i then 1 else 0

/-- position of the first occurrence of `u` (`acc` has no duplicates: it is a filtered uid list) -/
def posOf (u : Nat) (acc : List Nat) : Nat := (findFirst u acc).getD 0

structure VxRec where
  vaccinated : Nat → Bool
  nDoses : Nat → Nat
  tiVacc : Nat → Option Int
  relSus : Nat → Rat

def vxApply (v : Vaccine) (ti : Int) (acc : List Nat) (r : VxRec) : VxRec :=
  { vaccinated := fun u => if u ∈ acc then true else r.vaccinated u
    nDoses := fun u => if u ∈ acc then r.nDoses u + 1 else r.nDoses u
    tiVacc := fun u => if u ∈ acc then some ti else r.tiVacc u
    relSus := fun u => if u ∈ acc then r.relSus u * v.factor (posOf u acc) else r.relSus u }

/-- `BaseVaccination.step`: returns the recipients and the new records -/
def vxStep (g : Gate) (conv : Rat → Rat) (s : Sched) (v : Vaccine) (c : Clock) (active : List Nat) (e : Elig)
    (draw : Nat → Rat) (r : VxRec) : Except Err (List Nat × VxRec) :=
  match gateIndex g s c with
  | none => .ok ([], r)
  | some k =>
    match stepProb conv s k with
    | .error err => .error err
    | .ok p =>
      match checkEligibility active e with
      | .error err => .error err
      | .ok el =>
        let acc := bernoulliFilter p draw el
        .ok (acc, vxApply v c.sim acc r)

/-- a whole history of steps -/
structure StepIn where
  clock : Clock
  active : List Nat
  elig : Elig
  draw : Nat → Rat

def vxRun (g : Gate) (conv : Rat → Rat) (s : Sched) (v : Vaccine) : List StepIn → VxRec → Except Err (List (List Nat) × VxRec)
  | [], r => .ok ([], r)
  | x :: xs, r =>
    match vxStep g conv s v x.clock x.active x.elig x.draw r with
    | .error e => .error e
    | .ok (acc, r') =>
      match vxRun g conv s v xs r' with
      | .error e => .error e
      | .ok (accs, r'') => .ok (acc :: accs, r'')

/-! ### Diagnostics (`Dx.administer`) -/

/-- one (disease, state) block of the product table; `state` indexes the disease's Boolean state arrays -/
structure DxRow where
  state : Nat
  deriving Repr

/-- result index of one agent after all blocks: starts at the default (last of the hierarchy) and takes the
    minimum with the drawn result of every block whose state the (active) agent is in -/
def dxResult (nres : Nat) (rows : List DxRow) (inState : Nat → Nat → Bool) (active : List Nat)
    (pick : Nat → Nat → Nat) (u : Nat) : Nat :=
  (rows.zipIdx).foldl (fun cur (rk : DxRow × Nat) =>
      if inState rk.1.state u && decide (u ∈ active) then min (pick rk.2 u) cur else cur) (nres - 1)

/-- `{k: uids with result k}` in hierarchy order -/
def dxAdminister (nres : Nat) (rows : List DxRow) (inState : Nat → Nat → Bool) (active : List Nat)
    (pick : Nat → Nat → Nat) (uids : List Nat) : List (List Nat) :=
  (List.range nres).map (fun k => uids.filter (fun u => dxResult nres rows inState active pick u = k))

structure TestRec where
  screened : Nat → Bool
  screens : Nat → Nat
  tiScreened : Nat → Option Int
  outcomes : List (List Nat)

structure DxProduct where
  nres : Nat
  rows : List DxRow

/-- `BaseTest.deliver`.  `hasCov`: the delivery base class created `self.coverage_dist` (RoutineDelivery does,
    CampaignDelivery does not: `campaign_screening` / `campaign_triage` raise AttributeError when they deliver). -/
def deliverTest (hasCov : Bool) (conv : Rat → Rat) (s : Sched) (k : Nat) (prod : DxProduct) (inState : Nat → Nat → Bool)
    (active : List Nat) (elig : Except Err (List Nat)) (draw : Nat → Rat) (pick : Nat → Nat → Nat)
    (outcomes : List (List Nat)) : Except Err (List Nat × List (List Nat)) :=
  match stepProb conv s k with
  | .error err => .error err
  | .ok p =>
    match elig with
    | .error err => .error err
    | .ok el =>
      if !hasCov then .error .attr else
      let acc := bernoulliFilter p draw el
      .ok (acc, if acc.isEmpty then outcomes else dxAdminister prod.nres prod.rows inState active pick acc)

/-- `results[...][sim.ti]` is out of bounds for result arrays of length `resLen` -/
def resultsOverrun (resLen : Option Nat) (c : Clock) : Bool :=
  match resLen with
  | some n => decide ((n : Int) ≤ c.sim)
  | none => false

/-- `BaseScreening.step` (eligibility already evaluated by the subclass' `check_eligibility`).
    `resLen`: length of the module's own result arrays (`npts` of its own timeline); the step writes
    `results['n_screened'][sim.ti]`, which raises IndexError when the module's timeline is coarser than the sim's and
    `sim.ti` has run past it (`none`: results not modelled). -/
def screenStep (hasCov : Bool) (g : Gate) (conv : Rat → Rat) (s : Sched) (prod : DxProduct) (inState : Nat → Nat → Bool)
    (c : Clock) (active : List Nat) (elig : Except Err (List Nat)) (draw : Nat → Rat) (pick : Nat → Nat → Nat)
    (r : TestRec) (resLen : Option Nat := none) : Except Err (List Nat × TestRec) :=
  match gateIndex g s c with
  | none => .ok ([], r)
  | some k =>
    match deliverTest hasCov conv s k prod inState active elig draw pick r.outcomes with
    | .error err => .error err
    | .ok (acc, out) =>
      if resultsOverrun resLen c then .error .index else
      .ok (acc, { screened := fun u => if u ∈ acc then true else r.screened u
                  screens := fun u => if u ∈ acc then r.screens u + 1 else r.screens u
                  tiScreened := fun u => if u ∈ acc then some c.sim else r.tiScreened u
                  outcomes := out })

/-- `BaseTriage.step`: outcomes are reset every step; delivery only when the gate opens -/
def triageStep (hasCov : Bool) (g : Gate) (conv : Rat → Rat) (s : Sched) (prod : DxProduct) (inState : Nat → Nat → Bool)
    (c : Clock) (active : List Nat) (elig : Except Err (List Nat)) (draw : Nat → Rat) (pick : Nat → Nat → Nat)
    : Except Err (List Nat × List (List Nat)) :=
  let empty := List.replicate prod.nres ([] : List Nat)
  match gateIndex g s c with
  | none => .ok ([], empty)
  | some k => deliverTest hasCov conv s k prod inState active elig draw pick empty

/-! ### Treatment (`Tx.administer`, `BaseTreatment.step`, `treat_num`) -/

structure TxRow where
  pre : Nat
  eff : Rat
  post : Nat
  deriving Repr

/-- disease state arrays: `flags s u` = agent `u` is in state number `s` -/
abbrev Flags := Nat → Nat → Bool

/-- one (disease, state) block of `Tx.administer`: who is successfully treated and the new state arrays.
    `j` counts the efficacy-filter calls made so far in this `administer` (the filter is only called for a
    non-empty block, and every call uses the next random stream). -/
def txBlock (row : TxRow) (j : Nat) (active uids : List Nat) (effDraw : Nat → Nat → Rat) (fl : Flags) :
    List Nat × Flags :=
  let these := uids.filter (fun u => decide (u ∈ active) && fl row.pre u)
  let succ := bernoulliFilter row.eff (effDraw j) these
  (succ, fun s u => if u ∈ succ then (if s = row.post then true else if s = row.pre then false else fl s u)
                    else fl s u)

/-- number of agents of `uids` in the block's state (decides whether the filter is called at all) -/
def txBlockSize (row : TxRow) (active uids : List Nat) (fl : Flags) : Nat :=
  (uids.filter (fun u => decide (u ∈ active) && fl row.pre u)).length

def txBlocks : List TxRow → Nat → List Nat → List Nat → (Nat → Nat → Rat) → Flags → List Nat × Flags
  | [], _, _, _, _, fl => ([], fl)
  | row :: rest, j, active, uids, effDraw, fl =>
    let r := txBlock row j active uids effDraw fl
    let j' := if txBlockSize row active uids fl = 0 then j else j + 1
    let rs := txBlocks rest j' active uids effDraw r.2
    (r.1 ++ rs.1, rs.2)

structure TxOut where
  successful : List Nat
  unsuccessful : List Nat
  flags : Flags

def txAdminister (rows : List TxRow) (active uids : List Nat) (effDraw : Nat → Nat → Rat) (fl : Flags) : TxOut :=
  let r := txBlocks rows 0 active uids effDraw fl
  let s := sortU r.1
  ⟨s, (sortU uids).filter (fun u => decide (u ∉ s)), r.2⟩

/-- `treat_num.get_candidates`; `hiOff` is the constant added to `max_capacity` in the slice (0 in the source) -/
def getCandidates (hiOff : Int) (cap : Option Nat) (q : List Nat) : List Nat :=
  if q.isEmpty then [] else
  match cap with
  | none => q
  | some c => if c > q.length then q else pySliceTo ((c : Int) + hiOff) q

structure TreatState where
  queue : List Nat
  flags : Flags
  successful : List Nat
  unsuccessful : List Nat

/-- `treat_num.add_to_queue` / `get_accept_inds`: the eligible agents who accept on this step -/
def treatAccept (p : Rat) (draw : Nat → Rat) (eligAdd : List Nat) : List Nat :=
  if eligAdd.isEmpty then [] else bernoulliFilter p draw eligAdd

/-- `BaseTreatment.step`: candidates (head of the queue) intersected with the current eligibility (`np.intersect1d`) -/
def treatSet (hiOff : Int) (cap : Option Nat) (q1 eligNow : List Nat) : List Nat :=
  sortU ((getCandidates hiOff cap q1).filter (fun u => decide (u ∈ eligNow)))

/-- `treat_num.step`: enqueue the accepting eligible agents, treat the head of the queue that is still eligible,
    rebuild the queue without the treated.  `eligAdd` / `eligNow` are the two `check_eligibility()` results. -/
def treatNumStep (hiOff : Int) (cap : Option Nat) (p : Rat) (rows : List TxRow) (active eligAdd eligNow : List Nat)
    (draw : Nat → Rat) (effDraw : Nat → Nat → Rat) (st : TreatState) : List Nat × TreatState :=
  let q1 := st.queue ++ treatAccept p draw eligAdd
  let treat := treatSet hiOff cap q1 eligNow
  let q2 := q1.filter (fun u => decide (u ∉ treat))
  (treat,
    if treat.isEmpty then { st with queue := q2 }
    else
      let out := txAdminister rows active treat effDraw st.flags
      ⟨q2, out.flags, out.successful, out.unsuccessful⟩)

/-- `syph_treatment.step`: a `treat_num` step followed by `sim.people.syphilis.infected[treat_inds] = False`
    (`clear` = number of the `infected` state array) — a further effect, on the treated only. -/
def syphTreatStep (clear : Nat) (hiOff : Int) (cap : Option Nat) (p : Rat) (rows : List TxRow) (active eligAdd eligNow : List Nat)
    (draw : Nat → Rat) (effDraw : Nat → Nat → Rat) (st : TreatState) : List Nat × TreatState :=
  let out := treatNumStep hiOff cap p rows active eligAdd eligNow draw effDraw st
  (out.1, { out.2 with flags := fun s u => if s = clear ∧ u ∈ out.1 then false else out.2.flags s u })

/-- a history of `treat_num` steps; returns the treated lists -/
structure TreatIn where
  active : List Nat
  eligAdd : List Nat
  eligNow : List Nat
  draw : Nat → Rat
  effDraw : Nat → Nat → Rat

def treatRun (hiOff : Int) (cap : Option Nat) (p : Rat) (rows : List TxRow) :
    List TreatIn → TreatState → List (List Nat) × TreatState
  | [], st => ([], st)
  | x :: xs, st =>
    let r := treatNumStep hiOff cap p rows x.active x.eligAdd x.eligNow x.draw x.effDraw st
    let rs := treatRun hiOff cap p rows xs r.2
    (r.1 :: rs.1, rs.2)

/-! ### Rule-driven histories: WHICH evaluation of the eligibility rule a step works with (round 3)

`treatNumStep` takes the two eligibility lists as given.  In a run they are results of the user's rule, and the rule may
answer differently from step to step (an enrolment window that closes, a programme on alternate steps, this step's
screened agents).  The property speaks of the rule's answer on the step of delivery, so the model says where the lists
come from: the evaluation made in the delivering function on this step, or a value kept on the object earlier. -/

/-- The source of the eligibility a delivering function works with. -/
inductive EligSrc
  | fresh    -- the result of `self.check_eligibility()` called in the delivering function, on this step
  | stored   -- a value kept on the object by an earlier evaluation
  deriving DecidableEq, Repr

def eligUsed (src : EligSrc) (kept now : List Nat) : List Nat :=
  match src with
  | .fresh => now
  | .stored => kept

/-- one step of a rule-driven `treat_num` run: `elig` is the rule's answer ON THIS STEP -/
structure TreatRuleIn where
  active : List Nat
  elig : Elig
  draw : Nat → Rat
  effDraw : Nat → Nat → Rat

/-- treatment state plus the eligibility list kept from the previous evaluation (read only by a `stored` source) -/
structure TreatRunState where
  st : TreatState
  kept : List Nat

/-- `treat_num.step` in a run: the rule is evaluated on this step; `srcAdd` / `srcNow` say what `get_accept_inds` and the
    `still_eligible` re-check of `BaseTreatment.step` actually use (regenerated from the source in Props/C20). -/
def treatRuleStep (srcAdd srcNow : EligSrc) (hiOff : Int) (cap : Option Nat) (p : Rat) (rows : List TxRow)
    (x : TreatRuleIn) (s : TreatRunState) : Except Err (List Nat × TreatRunState) :=
  match checkEligibility x.active x.elig with
  | .error e => .error e
  | .ok el =>
    let r := treatNumStep hiOff cap p rows x.active (eligUsed srcAdd s.kept el) (eligUsed srcNow s.kept el) x.draw x.effDraw s.st
    .ok (r.1, ⟨r.2, el⟩)

def treatRuleRun (srcAdd srcNow : EligSrc) (hiOff : Int) (cap : Option Nat) (p : Rat) (rows : List TxRow) :
    List TreatRuleIn → TreatRunState → Except Err (List (List Nat) × TreatRunState)
  | [], s => .ok ([], s)
  | x :: xs, s =>
    match treatRuleStep srcAdd srcNow hiOff cap p rows x s with
    | .error e => .error e
    | .ok (t, s1) =>
      match treatRuleRun srcAdd srcNow hiOff cap p rows xs s1 with
      | .error e => .error e
      | .ok (ts, s2) => .ok (t :: ts, s2)

/-! ### Transmission to one agent (the part of the kernel C20 needs; the full kernel is C12's) -/

/-- an edge transmits when the uniform draw is below `beta * rel_trans[src] * rel_sus[trg]` -/
def transmits (betaTrans relSus draw : Rat) : Bool := decide (draw < betaTrans * relSus)

end StarsimModel.Intervention
