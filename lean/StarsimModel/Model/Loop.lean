/-
Model of the integration loop (starsim/loop.py, Module/Sim `finish_step`, Sim.run's final clock adjustment).

* `collect table mods` interprets the statement sequence of `Loop.collect_funcs` (regenerated into
  `Gen.collectFuncs` on every run) for an arbitrary module set: which (owner, method) is appended, in which
  order.  The position in the resulting list is `func_order`.
* every `abstvec` is rounded to `-log10(time_eps)` decimals (`round_tvec`), so plan times are integer multiples
  of `time_eps`: times are `Int` in units of eps, the plan's sort key `time + eps*func_order` is `time + order`.
* `cross` = the cross product (function x time point of the function's owner) in the order `make_plan` builds it,
  `makePlan` = that list sorted by the key.  The theorems are stated for *any* key-sorted permutation (`IsPlan`).
* `trace` executes a plan with per-owner clocks: a `finish_step` increments the `ti` of the object it is bound to.
* every function has TWO owners: `owner` = the entry of `abs_tvecs` whose time vector schedules it — looked up by
  NAME (`Loop.__iadd__`: `parent.name` for modules, the lower-cased class name for the sim and `people`), so two
  modules with one name (in different containers), or a module named `people`, share the entry written last by
  `collect_abs_tvecs` — and `clock` = the object whose `t.ti` it reads / increments (the module itself; the sim for
  `sim.*` and `people.*`).  Owner indices: 0 = sim, i+1 = i-th module, `mods.length + 1` = `people` (own entry of
  `abs_tvecs`, filled with the sim's time vector).

Core Lean only: interpreted by Drivers/C08.lean and Drivers/C09.lean.
-/
import StarsimModel.Generated.PhaseOrder
import StarsimModel.Generated.LoopFacts

namespace StarsimModel.Loop

/-! ### Module sets and the interpretation of `collect_funcs` -/

/-- The container (`ndict`) of the sim a module lives in; `products` are `intv.product` of interventions. -/
inductive Kind where
  | demographics | networks | diseases | connectors | interventions | products | analyzers
  deriving DecidableEq, Repr

/-- What the loop needs to know about a module: its container and whether it `isinstance(·, ss.Disease)`. -/
structure Mod where
  kind : Kind
  isDisease : Bool
  /-- identifies the module's `name`; 0 is reserved for `sim`, 1 for `people` -/
  nameId : Nat
  deriving DecidableEq, Repr

def dfltMod : Mod := ⟨.analyzers, false, 0⟩

/-- `Sim.modules`: `itertools.chain(demographics, networks, diseases, connectors, interventions, products, analyzers)`. -/
def chainOrder : List Kind :=
  [.demographics, .networks, .diseases, .connectors, .interventions, .products, .analyzers]

/-- The attribute name of a container in `Sim` (`products`: the `intv.product` comprehension). -/
def Kind.name : Kind → String
  | .demographics => "demographics" | .networks => "networks" | .diseases => "diseases" | .connectors => "connectors"
  | .interventions => "interventions" | .products => "products" | .analyzers => "analyzers"

/-- Owner indices (position in `mods` + 1; owner 0 is the sim) of the modules of one container, in insertion order. -/
def ofKind (mods : List Mod) (k : Kind) : List Nat :=
  ((List.range mods.length).filter (fun i => (mods.getD i dfltMod).kind == k)).map (· + 1)

/-- Owner indices of `sim.modules` in chain order. -/
def chain (mods : List Mod) : List Nat := chainOrder.flatMap (ofKind mods)

def isDiseaseAt (mods : List Mod) (owner : Nat) : Bool := (mods.getD (owner - 1) dfltMod).isDisease

/-- What a container expression of `collect_funcs` denotes. `none` = not understood (the row contributes nothing
    and `C08_table_understood` fails). -/
inductive Cont where
  | sim | people | modules | kind (k : Kind)
  deriving DecidableEq, Repr

def parseCont (s : String) : Option Cont :=
  if s = "sim" then some .sim
  else if s = "sim.people" then some .people
  else if s = "sim.modules" then some .modules
  else if s = "sim.demographics()" then some (.kind .demographics)
  else if s = "sim.networks()" then some (.kind .networks)
  else if s = "sim.diseases()" then some (.kind .diseases)
  else if s = "sim.connectors()" then some (.kind .connectors)
  else if s = "sim.interventions()" then some (.kind .interventions)
  else if s = "sim.analyzers()" then some (.kind .analyzers)
  else none

/-- Guards understood: none, or the `isinstance(<loop variable>, ss.Disease)` filter (the loop variable is
    abstracted to `_` by the extractor). -/
def parseGuard (s : String) : Option Bool :=
  if s = "" then some false
  else if s = "isinstance(_, ss.Disease)" ∨ s = "isinstance(disease, ss.Disease)" then some true
  else none

/-- The entry of `abs_tvecs` found under a name: `collect_abs_tvecs` writes `sim`, `people`, then every module in
    `Sim.modules` order under its name, later writes replacing earlier ones.  `resolveIn l name dflt` = the last
    (module owner, nameId) pair of `l` with that name, else `dflt`. -/
def resolveIn (l : List (Nat × Nat)) (name : Nat) (dflt : Nat) : Nat :=
  l.foldl (fun acc on => if on.2 = name then on.1 else acc) dflt

/-- A function of the step before numbering: `owner` = whose time vector schedules it, `clock` = whose `ti` it
    reads (and increments, if `finish`), and the row of the table it came from. -/
structure RawFunc where
  owner : Nat
  clock : Nat
  finish : Bool
  row : Nat
  deriving DecidableEq, Repr

abbrev Row := String × String × String

/-- Clock owners a row expands to, in order. -/
def rowOwners (mods : List Mod) (r : Row) : List Nat :=
  match parseCont r.1, parseGuard r.2.2 with
  | some .sim, some _ => [0]
  | some .people, some _ => [0]
  | some .modules, some g => (chain mods).filter (fun o => !g || isDiseaseAt mods o)
  | some (.kind k), some g => (ofKind mods k).filter (fun o => !g || isDiseaseAt mods o)
  | _, _ => []

/-- (module owner, nameId) in the order `collect_abs_tvecs` writes them. -/
def nameTable (mods : List Mod) : List (Nat × Nat) :=
  (chain mods).map (fun o => (o, (mods.getD (o - 1) dfltMod).nameId))

/-- The `abs_tvecs` entry that schedules a function bound to clock owner `o` of a row. -/
def schedOwner (mods : List Mod) (r : Row) (o : Nat) : Nat :=
  match parseCont r.1 with
  | some .sim => resolveIn (nameTable mods) 0 0
  | some .people => resolveIn (nameTable mods) 1 (mods.length + 1)
  | _ => resolveIn (nameTable mods) (mods.getD (o - 1) dfltMod).nameId o

/-- `finish_step` of the sim or of a module is `self.t.ti += 1`; `people.finish_step` has no clock. -/
def rowFinish (r : Row) : Bool := r.2.1 == "finish_step" && parseCont r.1 != some .people

def rowFuncs (mods : List Mod) (r : Row) (i : Nat) : List RawFunc :=
  (rowOwners mods r).map (fun o => ⟨schedOwner mods r o, o, rowFinish r, i⟩)

def collectRaw (table : List Row) (mods : List Mod) : List RawFunc :=
  table.zipIdx.flatMap (fun ri => rowFuncs mods ri.1 ri.2)

/-- A numbered function: `order` = `func_order`. -/
structure Func where
  owner : Nat
  clock : Nat
  finish : Bool
  order : Nat
  row : Nat
  deriving DecidableEq, Repr

/-- `Loop.__iadd__`: `func_order = len(self.funcs)` at the time of appending. -/
def numberFrom (i : Nat) : List RawFunc → List Func
  | [] => []
  | r :: rs => ⟨r.owner, r.clock, r.finish, i, r.row⟩ :: numberFrom (i + 1) rs

/-- `Loop.collect_funcs` for the module set `mods`. -/
def collect (table : List Row) (mods : List Mod) : List Func := numberFrom 0 (collectRaw table mods)

/-! ### Documented phases -/

/-- The documented phases of one step (property C08), in order. -/
inductive Phase where
  | startOfStep | demographics | diseaseStates | connectors | networks | interventions | transmission
  | deathResolution | resultRecording | analyzers | endOfStep
  deriving DecidableEq, Repr

def documentedPhases : List Phase :=
  [.startOfStep, .demographics, .diseaseStates, .connectors, .networks, .interventions, .transmission,
   .deathResolution, .resultRecording, .analyzers, .endOfStep]

/-- Which documented phase a row of `collect_funcs` belongs to (`none`: not a documented row). -/
def phaseOf (r : Row) : Option Phase :=
  let c := r.1; let m := r.2.1
  if m = "start_step" ∧ (c = "sim" ∨ c = "sim.modules") then some .startOfStep
  else if c = "sim.demographics()" ∧ m = "step" then some .demographics
  else if c = "sim.diseases()" ∧ m = "step_state" then some .diseaseStates
  else if c = "sim.connectors()" ∧ m = "step" then some .connectors
  else if c = "sim.networks()" ∧ m = "step" then some .networks
  else if c = "sim.interventions()" ∧ m = "step" then some .interventions
  else if c = "sim.diseases()" ∧ m = "step" then some .transmission
  else if c = "sim.people" ∧ m = "step_die" then some .deathResolution
  else if m = "update_results" ∧ (c = "sim.people" ∨ c = "sim.modules") then some .resultRecording
  else if c = "sim.analyzers()" ∧ m = "step" then some .analyzers
  else if m = "finish_step" ∧ (c = "sim.modules" ∨ c = "sim.people" ∨ c = "sim") then some .endOfStep
  else none

/-- The complete documented table (container, method, guard with the loop variable abstracted): any reordering,
    insertion or removal of a row of `collect_funcs` changes the regenerated `Gen.loopRows` away from it. -/
def documentedRows : List Row := [
  ("sim", "start_step", ""),
  ("sim.modules", "start_step", ""),
  ("sim.demographics()", "step", ""),
  ("sim.diseases()", "step_state", "isinstance(_, ss.Disease)"),
  ("sim.connectors()", "step", ""),
  ("sim.networks()", "step", ""),
  ("sim.interventions()", "step", ""),
  ("sim.diseases()", "step", ""),
  ("sim.people", "step_die", ""),
  ("sim.people", "update_results", ""),
  ("sim.modules", "update_results", ""),
  ("sim.analyzers()", "step", ""),
  ("sim.modules", "finish_step", ""),
  ("sim.people", "finish_step", ""),
  ("sim", "finish_step", "")]

/-- Remove adjacent repetitions. -/
def compress {α} [DecidableEq α] : List α → List α
  | [] => []
  | [a] => [a]
  | a :: b :: r => if a = b then compress (b :: r) else a :: compress (b :: r)

/-! ### The plan -/

/-- One row of the plan.  `k` is the index of `time` in the owner's time vector (not a column of the code's
    plan; it is what the owner's clock must read at the invocation). -/
structure Entry where
  time : Int
  order : Nat
  owner : Nat
  clock : Nat
  finish : Bool
  k : Nat
  row : Nat
  deriving DecidableEq, Repr

/-- `step_order = time + time_eps * func_order`, in units of eps. -/
def Entry.key (e : Entry) : Int := e.time + (e.order : Int)

/-- Time vectors: owner `m` has `npts m` points `tv m 0 < tv m 1 < …`. -/
structure Times where
  npts : Nat → Nat
  tv : Nat → Nat → Int

def Times.ofLists (l : List (List Int)) : Times :=
  { npts := fun m => (l.getD m []).length, tv := fun m k => (l.getD m []).getD k 0 }

/-- Same as `ofLists` with O(1) access (driver). -/
def Times.ofArrays (a : Array (Array Int)) : Times :=
  { npts := fun m => (a.getD m #[]).size, tv := fun m k => (a.getD m #[]).getD k 0 }

def block (T : Times) (f : Func) : List Entry :=
  (List.range (T.npts f.owner)).map (fun k => ⟨T.tv f.owner k, f.order, f.owner, f.clock, f.finish, k, f.row⟩)

/-- `make_plan`'s `raw`: for every function, for every time point of its owner. -/
def cross (T : Times) (fl : List Func) : List Entry := fl.flatMap (block T)

def keyLe (a b : Entry) : Bool := decide (a.key ≤ b.key)

/-- `make_plan`: sort by `step_order`. -/
def makePlan (T : Times) (fl : List Func) : List Entry := (cross T fl).mergeSort keyLe

/-- Structurally recursive (kernel-reducible) stable insertion sort by key; used for `decide`d examples. Under
    `Separated` it equals `makePlan` (`C08_plan_unique`). -/
def insertKey (e : Entry) : List Entry → List Entry
  | [] => [e]
  | x :: r => if e.key ≤ x.key then e :: x :: r else x :: insertKey e r

def isort : List Entry → List Entry
  | [] => []
  | e :: r => insertKey e (isort r)

def makePlanI (T : Times) (fl : List Func) : List Entry := isort (cross T fl)

/-- Any key-sorted permutation of the cross product (whatever sorting algorithm produced it). -/
def IsPlan (T : Times) (fl : List Func) (p : List Entry) : Prop :=
  p.Perm (cross T fl) ∧ p.Pairwise (fun a b => a.key ≤ b.key)

/-! ### Execution -/

/-- Per-owner clocks (`owner.t.ti`): a list indexed by owner, missing entries are 0. -/
abbrev Clocks := List Nat

def getClk (c : Clocks) (m : Nat) : Nat := c.getD m 0

/-- `self.t.ti += 1` of owner `m`. -/
def incr : Clocks → Nat → Clocks
  | [], 0 => [1]
  | [], m + 1 => 0 :: incr [] m
  | x :: r, 0 => (x + 1) :: r
  | x :: r, m + 1 => x :: incr r m

def bump (clk : Clocks) (e : Entry) : Clocks := if e.finish then incr clk e.clock else clk

/-- Execute the plan; record, for every entry, the owner's clock at the invocation. -/
def trace (clk : Clocks) : List Entry → List (Entry × Nat)
  | [] => []
  | e :: r => (e, getClk clk e.clock) :: trace (bump clk e) r

/-- The clocks after executing the plan. -/
def finalClocks (clk : Clocks) : List Entry → Clocks
  | [] => clk
  | e :: r => finalClocks (bump clk e) r

/-- `Sim.run` after completion: `self.t.ti -= 1` and `mod.t.ti -= 1` for every module (Python ints: −1 only for an
    owner that never finished a step, i.e. with `npts = 0`; kept in `Int` here). -/
def afterRun (clk : Clocks) : Nat → Int := fun m => (getClk clk m : Int) - 1

/-! ### Hypotheses of the theorems (all decidable on concrete inputs) -/

/-- Every time vector is strictly increasing. -/
def Times.StrictMono (T : Times) : Prop := ∀ m i j, i < j → j < T.npts m → T.tv m i < T.tv m j

/-- Any two different time values (of any owners among `fl`'s) differ by at least `n` eps. -/
def Separated (T : Times) (fl : List Func) (n : Nat) : Prop :=
  ∀ f ∈ fl, ∀ g ∈ fl, ∀ i, i < T.npts f.owner → ∀ j, j < T.npts g.owner →
    T.tv f.owner i < T.tv g.owner j → T.tv f.owner i + (n : Int) ≤ T.tv g.owner j

/-- Function orders increase along the list and stay below `n`. -/
def Ordered (fl : List Func) (n : Nat) : Prop :=
  fl.Pairwise (fun a b => a.order < b.order) ∧ ∀ f ∈ fl, f.order < n

/-- A clock-incrementing function is never followed by another function reading the same clock. -/
def FinishLast (fl : List Func) : Prop := fl.Pairwise (fun a b => a.clock = b.clock → a.finish = false)

/-- Every function is scheduled on a time vector equal to that of the object whose clock it reads (its own entry of
    `abs_tvecs`, or — for `people.*` — an entry holding the sim's vector). Fails when module names collide. -/
def Aligned (T : Times) (fl : List Func) : Prop :=
  ∀ f ∈ fl, T.npts f.owner = T.npts f.clock ∧ ∀ k, k < T.npts f.owner → T.tv f.owner k = T.tv f.clock k

/-- Module names are pairwise different and none is `sim` (0) or `people` (1). -/
def NamesDistinct (mods : List Mod) : Prop :=
  (mods.map (·.nameId)).Pairwise (· ≠ ·) ∧ ∀ m ∈ mods, 2 ≤ m.nameId

def alignedB (T : Times) (fl : List Func) : Bool :=
  fl.all (fun f => T.npts f.owner == T.npts f.clock &&
    (List.range (T.npts f.owner)).all (fun k => T.tv f.owner k == T.tv f.clock k))

/-! ### Executable versions (driver / `decide`) -/

def allTimes (T : Times) (owners : List Nat) : List Int :=
  owners.flatMap (fun m => (List.range (T.npts m)).map (T.tv m))

/-- Executable `Separated`: all pairs of time values of the owners of `fl`. -/
def separatedB (T : Times) (fl : List Func) (n : Nat) : Bool :=
  let ts := allTimes T (fl.map (·.owner)).eraseDups
  ts.all (fun a => ts.all (fun b => !(decide (a < b)) || decide (a + (n : Int) ≤ b)))

/-- `a = b ∨ a + n ≤ b` for neighbours. -/
def gapsOK (n : Nat) : List Int → Bool
  | [] => true
  | [_] => true
  | a :: b :: r => (decide (a = b) || decide (a + (n : Int) ≤ b)) && gapsOK n (b :: r)

/-- Fast executable `Separated` (driver): sort all time values, check neighbours (`separatedFast_sound`). -/
def separatedFast (T : Times) (fl : List Func) (n : Nat) : Bool :=
  gapsOK n ((allTimes T (fl.map (·.owner)).eraseDups).mergeSort (fun a b => decide (a ≤ b)))

def strictMonoB (T : Times) (owners : List Nat) : Bool :=
  owners.all (fun m => (List.range (T.npts m)).all (fun j => j == 0 || decide (T.tv m (j - 1) < T.tv m j)))

def timeSortedB (p : List Entry) : Bool :=
  match p with
  | [] => true
  | e :: r => r.all (fun x => decide (e.time ≤ x.time)) && timeSortedB r

end StarsimModel.Loop
