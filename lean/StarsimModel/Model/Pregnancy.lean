/-
Model of `ss.Pregnancy` (starsim/demographics.py), the parts of `People` it touches (grow / parent / age /
request_death / step_die / remove_dead / update_post) and the two maternal networks, for property C19.

* one record per uid (`Agent`): activity, life, sex, age, parent link, `people.ti_dead`, and the module states
  fecund / pregnant / postpartum / child_uid / ti_pregnant / ti_delivery / ti_postpartum / ti_dead (maternal) /
  dur_postpartum.  `none` is NaN: every comparison with it is false, as in NumPy.
* prenatal and postnatal edges as rows `(p1 = mother, p2 = child, beta, dur, start, end)`.
* `updateStates`, `makePregnancies` (probability zeroed outside eligibility, conception iff `draw < p`),
  `setPrognoses`, `makeEmbryos`, `finishStep`, burn-in (`doStep` at negative `ti`), `stepDie`, `removeDead`, `ageing`,
  `MaternalNet.step`.  Times are in module steps (`ti`), as in the code; ages in years.
* Everything random or owned by another module is an INPUT of the step about which nothing is assumed:
  fertility rates, uniform draws, post-partum durations, maternal-death flags, sexes, neonatal-death picks,
  deaths requested by other modules.
Core Lean only.
-/
namespace StarsimModel.Pregnancy

inductive Err where
  | conceptionInPregnant     -- make_pregnancies: "New conceptions registered in pregnant agent(s)"
  | mothersMismatch          -- update_states: "IDs of new mothers do not match IDs of new deliveries"
  deriving DecidableEq, Repr

/-- NaN-aware `x <= t` -/
def leO (x : Option Rat) (t : Rat) : Bool :=
  match x with
  | some v => decide (v ≤ t)
  | none => false

structure Agent where
  active : Bool := true
  alive : Bool := true
  female : Bool := false
  age : Rat := 0
  parent : Option Nat := none
  pTiDead : Option Rat := none          -- people.ti_dead
  fecund : Bool := true                 -- ss.State('fecund', default=True)
  pregnant : Bool := false
  postpartum : Bool := false
  child : Option Nat := none            -- child_uid
  tiPregnant : Option Rat := none
  tiDelivery : Option Rat := none
  tiPostpartum : Option Rat := none
  tiMatDead : Option Rat := none        -- Pregnancy.ti_dead
  durPostpartum : Option Rat := none
  deriving DecidableEq, Repr

structure Edge where
  p1 : Nat
  p2 : Nat
  beta : Rat
  dur : Rat
  start : Rat
  stop : Rat
  deriving DecidableEq, Repr

structure Pars where
  durPreg : Rat          -- dur_pregnancy in steps
  durPregYear : Rat      -- dur_pregnancy.to('year')
  dtYear : Rat
  minAge : Rat
  maxAge : Rat
  prenatal : Bool        -- a prenatal layer exists
  postnatal : Bool       -- a postnatal layer exists
  burnin : Bool
  deriving DecidableEq, Repr

structure State where
  agents : List Agent    -- index = uid
  pre : List Edge        -- prenatal layer
  post : List Edge       -- postnatal layer
  deriving DecidableEq, Repr

/-- inputs of one `do_step` -/
structure Draws where
  rate : Nat → Rat := fun _ => 0          -- fertility_rate * rate_units * rel_fertility * time_factor, per uid
  draw : Nat → Rat := fun _ => 1          -- the uniform variate of p_fertility.filter
  durPP : Nat → Rat := fun _ => 0         -- dur_postpartum.rvs, per mother
  matDead : Nat → Bool := fun _ => false  -- p_maternal_death.rvs, per mother
  girl : Nat → Bool := fun _ => false     -- sex_ratio.rvs, per mother

/-! ### per-agent transitions -/

/-- exactly one of fecund / pregnant / postpartum -/
def Agent.excl (a : Agent) : Bool :=
  (a.fecund && !a.pregnant && !a.postpartum) || (!a.fecund && a.pregnant && !a.postpartum) ||
  (!a.fecund && !a.pregnant && a.postpartum)

/-- `deliveries = pregnant & (ti_delivery <= ti)` restricted to active agents (a BoolArr lives on auids) -/
def Agent.delivers (ti : Rat) (a : Agent) : Bool := a.active && a.pregnant && leO a.tiDelivery ti

/-- `pregnant[d] = False; postpartum[d] = True; fecund[d] = False` -/
def Agent.deliver (ti : Rat) (a : Agent) : Agent :=
  if a.delivers ti then { a with pregnant := false, postpartum := true, fecund := false } else a

/-- `postpartum & (ti_postpartum <= ti)`: `postpartum = False; fecund = True; child_uid = nan` -/
def Agent.endPostpartum (ti : Rat) (a : Agent) : Agent :=
  if a.active && a.postpartum && leO a.tiPostpartum ti then { a with postpartum := false, fecund := true, child := none } else a

/-- `(ti_dead <= ti).uids` → `people.request_death`: `people.ti_dead = sim.ti` -/
def Agent.maternalDeath (ti simTi : Rat) (a : Agent) : Agent :=
  if a.active && leO a.tiMatDead ti then { a with pTiDead := some simTi } else a

def clip01 (x : Rat) : Rat := if x < 0 then 0 else if 1 < x then 1 else x

/-- `make_fertility_prob_fn`: the rate, zeroed for the infecund and outside `[min_age, max_age]`, clipped -/
def Agent.fertilityProb (p : Pars) (rate : Rat) (a : Agent) : Rat :=
  if !a.fecund || decide (a.age < p.minAge) || decide (p.maxAge < a.age) then 0 else clip01 rate

/-- `p_fertility.filter(female.uids)`: active females whose draw is below their probability -/
def Agent.conceives (p : Pars) (d : Draws) (u : Nat) (a : Agent) : Bool :=
  a.active && a.female && decide (d.draw u < a.fertilityProb p (d.rate u))

/-- `set_prognoses` for one conceiving woman -/
def Agent.setPrognoses (p : Pars) (ti : Rat) (d : Draws) (u : Nat) (a : Agent) : Agent :=
  { a with fecund := false, pregnant := true, tiPregnant := some ti,
           tiDelivery := some (ti + p.durPreg), tiPostpartum := some (ti + p.durPreg + d.durPP u),
           durPostpartum := some (d.durPP u),
           tiMatDead := if d.matDead u then some (ti + p.durPreg) else a.tiMatDead }

/-- the unborn agent created for mother `m` (State defaults: fecund = True, everything else False / NaN) -/
def embryo (p : Pars) (ti : Rat) (d : Draws) (m : Nat) : Agent :=
  { female := d.girl m, parent := some m,
    age := if ti < 0 then -p.durPregYear + (-ti) * p.dtYear else -p.durPregYear }

/-! ### whole-population steps -/

def mapIdx {α β : Type} (f : Nat → α → β) : List α → Nat → List β
  | [], _ => []
  | a :: as, i => f i a :: mapIdx f as (i + 1)

/-- uids (indices) satisfying a predicate, ascending -/
def uidsWhere (f : Nat → Agent → Bool) (l : List Agent) : List Nat :=
  (mapIdx (fun i a => (i, f i a)) l 0).filterMap (fun x => if x.2 then some x.1 else none)

def getA (l : List Agent) (u : Nat) : Agent := l.getD u {}

/-- `update_states` -/
def updateStates (p : Pars) (ti simTi : Rat) (s : State) : Except Err State :=
  let deliveries := uidsWhere (fun _ a => a.delivers ti) s.agents
  let ag1 := s.agents.map (Agent.deliver ti)
  -- postnatal layer: move the ending prenatal edges
  let moved : Except Err (List Edge × List Edge) :=
    if p.postnatal && !deliveries.isEmpty then
      let ending := s.pre.filter (fun e => decide (e.stop ≤ ti))
      if (ending.map (·.p1)).all (deliveries.contains ·) && deliveries.all ((ending.map (·.p1)).contains ·) then
        -- prenatalnet.end_pairs(): keep `end > ti` with both endpoints alive
        let pre' := s.pre.filter (fun e => decide (ti < e.stop) && (getA ag1 e.p1).alive && (getA ag1 e.p2).alive)
        -- postnatal add_pairs(mothers, infants, dur = dur_postpartum[mothers], start = ti)
        let new := ending.map (fun e =>
          let dpp := ((getA ag1 e.p1).durPostpartum).getD 0
          ({ p1 := e.p1, p2 := e.p2, beta := 1, dur := dpp, start := ti, stop := ti + dpp } : Edge))
        .ok (pre', s.post ++ new)
      else .error .mothersMismatch
    else .ok (s.pre, s.post)
  match moved with
  | .error e => .error e
  | .ok (pre', post') =>
      let ag2 := ag1.map (Agent.endPostpartum ti)
      let ag3 := ag2.map (Agent.maternalDeath ti simTi)
      .ok { agents := ag3, pre := pre', post := post' }

/-- `make_pregnancies` + `make_embryos` -/
def conceive (p : Pars) (ti : Rat) (d : Draws) (s : State) : Except Err State :=
  let mothers := uidsWhere (fun u a => a.conceives p d u) s.agents
  if mothers.any (fun m => (getA s.agents m).pregnant) then .error .conceptionInPregnant
  else
    let n := s.agents.length
    -- set_prognoses, then child_uid[conceive_uids] = new_uids (the k-th mother gets uid n + k)
    let ag1 := mapIdx (fun u a =>
      if mothers.contains u then { a.setPrognoses p ti d u with child := some (n + (mothers.idxOf u)) } else a) s.agents 0
    let kids := mothers.map (embryo p ti d)
    let edges := if p.prenatal then
        mapIdx (fun k m => ({ p1 := m, p2 := n + k, beta := 1, dur := p.durPreg, start := ti, stop := ti + p.durPreg } : Edge)) mothers 0
      else []
    .ok { agents := ag1 ++ kids, pre := s.pre ++ edges, post := s.post }

/-- `do_step` -/
def doStep (p : Pars) (ti simTi : Rat) (d : Draws) (s : State) : Except Err State :=
  match updateStates p ti simTi s with
  | .error e => .error e
  | .ok s1 => conceive p ti d s1

/-- `Pregnancy.step` at sim step `ti`: at `ti = 0` with burn-in, `do_step` for `dti = ⌈-dur_pregnancy⌉ … -1` first.
    `burn` supplies the inputs of those extra steps (oldest first). -/
def burnSteps (p : Pars) : List Int :=
  let lo := (-p.durPreg).ceil
  (List.range (0 - lo).toNat).map (fun (k : Nat) => lo + (k : Int))

def runBurn (p : Pars) (simTi : Rat) : List Int → List Draws → State → Except Err State
  | [], _, s => .ok s
  | t :: ts, ds, s =>
      match doStep p (t : Rat) simTi (ds.headD {}) s with
      | .error e => .error e
      | .ok s' => runBurn p simTi ts ds.tail s'

def pregStep (p : Pars) (ti : Nat) (burn : List Draws) (d : Draws) (s : State) : Except Err State :=
  if ti = 0 ∧ p.burnin = true then
    match runBurn p 0 (burnSteps p) burn s with
    | .error e => .error e
    | .ok s' => doStep p 0 0 d s'
  else doStep p (ti : Rat) (ti : Rat) d s

/-- `people.request_death(uids)` by another module (Deaths, a disease) at sim step `ti` -/
def requestDeath (ti : Rat) (uids : List Nat) (s : State) : State :=
  { s with agents := mapIdx (fun u a => if uids.contains u then { a with pTiDead := some ti } else a) s.agents 0 }

/-- `MaternalNet.step`: `beta[end <= ti] = 0` (both layers) -/
def matStep (ti : Rat) (s : State) : State :=
  let z := fun (e : Edge) => if e.stop ≤ ti then { e with beta := 0 } else e
  { s with pre := s.pre.map z, post := s.post.map z }

/-- `People.step_die`: active agents with `ti_dead <= ti` stop being alive -/
def stepDie (ti : Rat) (s : State) : State :=
  { s with agents := s.agents.map (fun a => if a.active && leO a.pTiDead ti then { a with alive := false } else a) }

/-- `Pregnancy.finish_step` (runs after the module's `ti` was incremented: the comparison is with `ti + 1`).
    `neo u` = the neonatal-death Bernoulli pick for unborn/newborn `u`. -/
def finishStep (ti : Rat) (neo : Nat → Bool) (s : State) : State :=
  let dying := fun (a : Agent) => a.active && leO a.pTiDead (ti + 1)
  -- pregnant women among the dying: their child may be requested to die (carried out at the next step_die)
  let neonates := (uidsWhere (fun _ a => dying a && a.pregnant) s.agents).filterMap (fun m => (getA s.agents m).child)
  let doomed := neonates.filter neo
  let ag1 := mapIdx (fun u a => if doomed.contains u then { a with pTiDead := some ti } else a) s.agents 0
  -- the dying who are not yet born: their mothers stop being pregnant
  let lost := (uidsWhere (fun _ a => dying a && decide (a.age < 0)) s.agents).filterMap (fun c => (getA s.agents c).parent)
  let ag2 := mapIdx (fun u a => if lost.contains u then
      { a with pregnant := false, fecund := true, postpartum := false, child := none, tiDelivery := none, tiPostpartum := none }
    else a) ag1 0
  { s with agents := ag2 }

/-- `People.remove_dead`: the dead leave `auids` and every network -/
def removeDead (s : State) : State :=
  let gone := fun (u : Nat) => let a := getA s.agents u; a.active && !a.alive
  { agents := s.agents.map (fun a => if a.active && !a.alive then { a with active := false } else a),
    pre := s.pre.filter (fun e => !(gone e.p1 || gone e.p2)),
    post := s.post.filter (fun e => !(gone e.p1 || gone e.p2)) }

/-- `People.update_post`: `age[alive.uids] += dt_year` -/
def Agent.ageBy (dtYear : Rat) (a : Agent) : Agent :=
  if a.active && a.alive then { a with age := a.age + dtYear } else a

def ageing (p : Pars) (s : State) : State := { s with agents := s.agents.map (Agent.ageBy p.dtYear) }

/-- everything one sim step takes from outside -/
structure StepIn where
  burn : List Draws := []
  draws : Draws := {}
  deaths : List Nat := []            -- requested by other modules before the death-resolution phase
  neo : Nat → Bool := fun _ => false

/-- one sim step up to the transmission phase (demographics, network steps) -/
def stepToTransmission (p : Pars) (ti : Nat) (i : StepIn) (s : State) : Except Err State :=
  match pregStep p ti i.burn i.draws (requestDeath ti i.deaths s) with
  | .error e => .error e
  | .ok s1 => .ok (matStep ti s1)

/-- … and from there to the end of the step -/
def stepFinish (p : Pars) (ti : Nat) (i : StepIn) (s : State) : State :=
  ageing p (removeDead (finishStep ti i.neo (stepDie ti s)))

def simStep (p : Pars) (ti : Nat) (i : StepIn) (s : State) : Except Err State :=
  match stepToTransmission p ti i s with
  | .error e => .error e
  | .ok s1 => .ok (stepFinish p ti i s1)

/-- a run of `ins.length` steps starting at step `ti` -/
def run (p : Pars) : Nat → List StepIn → State → Except Err State
  | _, [], s => .ok s
  | ti, i :: is, s => match simStep p ti i s with
      | .error e => .error e
      | .ok s' => run p (ti + 1) is s'

/-- a history during which the PARAMETERS are changed between steps (`sim.pars.pregnancy.update(...)`,
    `module.pars.update(...)`, `module.update_pars(...)` on an initialised sim): every step has its own `Pars` -/
def runP : Nat → List (Pars × StepIn) → State → Except Err State
  | _, [], s => .ok s
  | ti, (p, i) :: is, s => match simStep p ti i s with
      | .error e => .error e
      | .ok s' => runP (ti + 1) is s'

/-- the two views the code has of the gestation parameter agree: `dur_pregnancy` in module steps (`TimePar.values`, read by
    `set_prognoses` and the prenatal edges) times the step length in years = `dur_pregnancy.to('year')` (read by
    `make_embryos`).  `TimePar.set` / `Module.init_time` keep them in agreement; the correspondence checks it on every call. -/
def Pars.coherent (p : Pars) : Prop := p.durPreg * p.dtYear = p.durPregYear

instance (p : Pars) : Decidable p.coherent := by unfold Pars.coherent; exact inferInstance

/-! ### invariants as executable checks (the driver evaluates them on OBSERVED states) -/

def State.exclusive (s : State) : Bool := s.agents.all Agent.excl

/-- mother → child → parent agree, and only pregnant / post-partum women have a child link -/
def State.linksOK (s : State) : Bool :=
  (mapIdx (fun m a => match a.child with
    | none => !(a.pregnant && a.active)
    | some c => (getA s.agents c).parent == some m && decide (c < s.agents.length) && (a.pregnant || a.postpartum)) s.agents 0).all id

/-- males, the unborn and the inactive are never pregnant -/
def State.pregnantOK (s : State) : Bool :=
  s.agents.all (fun a => !a.pregnant || (a.female && decide (0 ≤ a.age)))

/-- prenatal edges with positive beta = current pregnancies (of active women), one each, joining mother and child -/
def State.prenatalOK (s : State) : Bool :=
  let live := s.pre.filter (fun e => decide (0 < e.beta))
  live.all (fun e => let m := getA s.agents e.p1; m.pregnant && m.child == some e.p2) &&
  (uidsWhere (fun _ a => a.active && a.pregnant) s.agents).all (fun m => (live.filter (fun e => e.p1 == m)).length == 1)

/-- postnatal edges join mother-child pairs whose pregnancy is over -/
def State.postnatalOK (s : State) : Bool :=
  s.post.all (fun e => (getA s.agents e.p2).parent == some e.p1 &&
    !((getA s.agents e.p1).pregnant && (getA s.agents e.p1).child == some e.p2))

/-! ### observable summary (examples, driver) -/

structure Row where
  fecund : Bool
  pregnant : Bool
  postpartum : Bool
  child : Option Nat
  parent : Option Nat
  age : Rat
  deriving DecidableEq, Repr

structure Summary where
  rows : List Row
  pre : List (Nat × Nat × Rat × Rat)      -- (mother, child, beta, end)
  post : List (Nat × Nat × Rat × Rat)
  invariants : Bool
  deriving DecidableEq, Repr

def State.allOK (s : State) : Bool := s.exclusive && s.linksOK && s.pregnantOK && s.prenatalOK && s.postnatalOK

def summarize (r : Except Err State) : Option Summary :=
  match r with
  | .error _ => none
  | .ok s => some { rows := s.agents.map (fun a => ⟨a.fecund, a.pregnant, a.postpartum, a.child, a.parent, a.age⟩),
                    pre := s.pre.map (fun e => (e.p1, e.p2, e.beta, e.stop)),
                    post := s.post.map (fun e => (e.p1, e.p2, e.beta, e.stop)), invariants := s.allOK }

end StarsimModel.Pregnancy
