/-
C17 (round 3) — parameters that are resolved against the REST of the sim, and ownership of caller-supplied dicts.

(1) `Infection.validate_beta`: `pars.beta` is a scalar (applied to every network, both directions) or a dict keyed by
    network NAME (entry = scalar | [a, b]).  The dict is turned into the map `infect()` reads, network by network, under
    `ss.standardize_netkey`.  An entry takes effect only if some network of the sim reads it; the two directions of the
    key comparison (`missing`: a network without entry, `extra`: an entry naming no network) are regenerated from the
    source (Generated/ParsRefs.lean).
(2) `ss.make_dist(spec)`: the caller's spec dict; whether the function works on a private copy (regenerated
    `Gen.argMutated`) decides whether `pop('type')` is visible to the caller — and to the NEXT parameter configured from
    the same dict object.

Core Lean only.
-/
import StarsimModel.Model.ParsCore

namespace StarsimModel.ParsRefs
open StarsimModel.Pars

/-! ### (1) name-keyed beta -/

/-- which directions of the key comparison raise -/
structure KeyCheck where
  missing : Bool      -- a network of the sim without an entry
  extra : Bool        -- an entry that names no network of the sim
  deriving DecidableEq, Repr

/-- one per-network entry -/
inductive Entry (α : Type) where
  | scalar (v : α)        -- applied in both directions
  | pair (a b : α)        -- [p1→p2, p2→p1]
  deriving DecidableEq, Repr

def Entry.eff {α} : Entry α → α × α
  | .scalar v => (v, v)
  | .pair a b => (a, b)

/-- the supplied `beta` -/
inductive Beta (α : Type) where
  | scalar (v : α)
  | dict (items : List (String × Entry α))
  | bad                   -- neither a number / TimePar nor a dict
  deriving Repr

/-- `ss.standardize_netkey` with the regenerated ingredients -/
def stdKey (lower : Bool) (suffix : String) (k : String) : String :=
  let l := if lower then k.toLower else k
  let cs := l.toList
  let sf := suffix.toList
  if sf ≠ [] ∧ sf.isSuffixOf cs then String.ofList (cs.take (cs.length - sf.length)) else l

/-- `betamap[f k] = entry` executed in source order: the LAST item whose standardized key is `n` wins -/
def betaLookup {α} (f : String → String) : List (String × Entry α) → String → Option (α × α)
  | [], _ => none
  | (k, e) :: rest, n =>
      match betaLookup f rest n with
      | some r => some r
      | none => if f k = n then some e.eff else none

/-- `validate_beta` followed by what `infect()` reads: one line per network of the sim, in network order -/
def resolve {α} (f : String → String) (chk : KeyCheck) (badType : Err) (nets : List String) :
    Beta α → Except Err (List (String × Option (α × α)))
  | .bad => .error badType
  | .scalar v => .ok (nets.map (fun n => (f n, some (v, v))))
  | .dict items =>
      let keys := items.map (fun it => f it.1)
      let nk := nets.map f
      if chk.missing && nk.any (fun n => !keys.contains n) then .error .value
      else if chk.extra && keys.any (fun k => !nk.contains k) then .error .value
      else .ok (nk.map (fun n => (n, betaLookup f items n)))

/-! ### (2) `make_dist` and the caller's spec dict -/

/-- a distribution built from a spec: its type token and the remaining (name, token) parameters -/
structure Made where
  type : Nat
  pars : List (String × Nat)
  deriving DecidableEq, Repr

def eraseKey (k : String) : List (String × Nat) → List (String × Nat)
  | [] => []
  | (k', v) :: rest => if k' = k then eraseKey k rest else (k', v) :: eraseKey k rest

def findKey (k : String) : List (String × Nat) → Option Nat
  | [] => none
  | (k', v) :: rest => if k' = k then some v else findKey k rest

/-- `make_dist(spec)`: (result, the CALLER's dict afterwards).  `mutates` = the function pops from the caller's object -/
def makeDist (mutates : Bool) (spec : List (String × Nat)) : Except Err Made × List (String × Nat) :=
  match findKey "type" spec with
  | none => (.error .value, spec)
  | some t => (.ok ⟨t, eraseKey "type" spec⟩, if mutates then eraseKey "type" spec else spec)

/-- what `Pars._update_dist` does with a dict for an existing distribution `old`: a `type` key → `make_dist`, else the
    old object keeps its type and gets the entries as parameters -/
inductive DistUpd where
  | made (m : Made)                         -- a new distribution of the supplied type
  | oldSet (pars : List (String × Nat))     -- `old.set(**new)`: the OLD type with these entries
  | failed (e : Err)
  deriving DecidableEq, Repr

def updateDistDict (mutates : Bool) (spec : List (String × Nat)) : DistUpd × List (String × Nat) :=
  match findKey "type" spec with
  | none => (.oldSet spec, spec)
  | some _ =>
      match makeDist mutates spec with
      | (.ok m, after) => (.made m, after)
      | (.error e, after) => (.failed e, after)

/-- the same spec OBJECT configures two parameters one after the other -/
def useTwice (mutates : Bool) (spec : List (String × Nat)) : DistUpd × DistUpd × List (String × Nat) :=
  let r1 := updateDistDict mutates spec
  let r2 := updateDistDict mutates r1.2
  (r1.1, r2.1, r2.2)

def lookupFlag (name : String) : List (String × Bool) → Option Bool
  | [] => none
  | (k, v) :: rest => if k = name then some v else lookupFlag name rest

end StarsimModel.ParsRefs
