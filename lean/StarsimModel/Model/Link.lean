/-
Model of WHICH generator object a draw of a distribution reads (C03).  A `Dist` (starsim/distributions.py) holds two references:
`self.rng`, its own generator -- the one `Dist.init` creates from the seed and the one `reset` / `jump` / `jump_dt` act on -- and,
for the SciPy-backed families (weibull, gamma, histogram, custom `ss.Dist(dist=…)`), `self.dist.random_state`, the generator the
frozen SciPy sampler draws from.  `Dist.init` makes a NEW generator every time it runs (`Sim.init` / `Dists.init(force=True)`
re-initialise distributions the user created with strict=False), and freezing the SciPy distribution makes a new sampler with
SciPy's default random state.  A draw is a function of (seed, timestep, call, slot) only if the sampler reads the Dist's own,
current generator: `link = rng` after every initialisation.  The statements of `Dist.init` (with `process_dist` inlined) that touch
either reference are regenerated on every run (Generated/DistLink.lean) in the vocabulary `Stmt` below.  Core Lean only.
-/
namespace StarsimModel.Link

/-- the condition a statement of `process_dist` runs under (besides "the distribution has a SciPy sampler") -/
inductive Guard where
  | always          -- no further condition
  | firstInitOnly   -- `if not self.initialized:`
  | other           -- any other condition
  deriving DecidableEq, Repr

inductive Stmt where
  | newRng                -- `self.rng = np.random.default_rng(seed=self.seed)`: a fresh generator object
  | newSampler            -- `self.dist = self.dist(**spars)`: a new frozen sampler (reads SciPy's default random state)
  | link (g : Guard)      -- `self.dist.random_state = self.rng`
  | otherWrite            -- any other store to `self.rng` / a `random_state`
  deriving DecidableEq, Repr

/-- generator objects are numbered in order of creation; 0 = none / not the Dist's -/
structure D where
  rng : Nat
  link : Nat
  made : Nat
  initialized : Bool
  deriving DecidableEq, Repr

def fresh : D := ⟨0, 0, 0, false⟩

def exec (d : D) : Stmt → D
  | .newRng => { d with made := d.made + 1, rng := d.made + 1 }
  | .newSampler => { d with link := 0 }
  | .link .always => { d with link := d.rng }
  | .link .firstInitOnly => if d.initialized then d else { d with link := d.rng }
  | .link .other => { d with link := 0 }       -- (nothing is known: treated as not linked)
  | .otherWrite => { d with link := 0 }

/-- one run of `Dist.init`: the statements in order, then `self.initialized = True` -/
def initOnce (prog : List Stmt) (d : D) : D := { prog.foldl exec d with initialized := true }

/-- what a distribution object goes through: initialisations and anything that leaves both references alone
    (calls, resets, jumps: they change the STATE of `self.rng`, not which object it is) -/
inductive Op where
  | init
  | sample
  deriving DecidableEq, Repr

def step (prog : List Stmt) (d : D) : Op → D
  | .init => initOnce prog d
  | .sample => d

def run (prog : List Stmt) (d : D) (ops : List Op) : D := ops.foldl (step prog) d

/-- syntactic criterion on the statement list: does it end with the sampler certainly linked to the current generator,
    whatever the object went through before?  (`b` = "linked so far") -/
def track (b : Bool) : Stmt → Bool
  | .newRng => false
  | .newSampler => false
  | .link .always => true
  | .link .firstInitOnly => b
  | .link .other => false
  | .otherWrite => false

def endsLinked (prog : List Stmt) : Bool := prog.foldl track false

/-- the sampler reads the Dist's own current generator -/
def D.ok (d : D) : Prop := d.link = d.rng
instance (d : D) : Decidable d.ok := by unfold D.ok; exact inferInstance

end StarsimModel.Link
