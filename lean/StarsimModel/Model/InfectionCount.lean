/-
C13 — executable model of how `Infection.update_results` counts infections:

    set_prognoses(uids):      self.ti_infected[uids] = ti                        (when `Gen.<D>.infectionTimeIsNow`)
    update_results():         new_infections[ti] = count_nonzero(ti_infected == ti)   over the active agents
                              cum_infections[ti] = sum(new_infections[:ti+1])

Agents are uids (`Nat`); `ti_infected` is a map uid → `Option Nat` (`none` = nan).  Core Lean only.
-/
namespace StarsimModel.InfectionCount

abbrev TiMap := Nat → Option Nat

/-- `self.ti_infected[uids] = ti` -/
def infect (m : TiMap) (t : Nat) (us : List Nat) : TiMap := fun u => if u ∈ us then some t else m u

/-- `np.count_nonzero(self.ti_infected == ti)` over the active agents `pop` -/
def newInfections (m : TiMap) (pop : List Nat) (t : Nat) : Nat := (pop.filter fun u => m u == some t).length

/-- One step = (active agents at the end of the step, uids passed to `set_prognoses` during the step).
    `run m t steps` returns the recorded `new_infections` series for steps `t, t+1, …`. -/
def run (m : TiMap) (t : Nat) : List (List Nat × List Nat) → List Nat
  | [] => []
  | (pop, us) :: rest =>
      let m' := infect m t us
      newInfections m' pop t :: run m' (t + 1) rest

/-- `cum_infections`: running sums of the recorded series -/
def cumulative : List Nat → List Nat
  | [] => []
  | x :: xs => x :: (cumulative xs).map (x + ·)

end StarsimModel.InfectionCount
