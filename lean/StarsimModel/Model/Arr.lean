/-
Model of the agent-array layer of starsim (starsim/arrays.py): `Arr` (`FloatArr`, `BoolArr`/`State`, `IndexArr`,
generic `Arr`) and the `uids` set algebra.

* Storage: `raw` (all identifiers ever created, plus spare capacity), `lenUsed`, `lenTot`; the active index
  `auids` is *not* owned by the array (it is `people.auids`), so every user-facing operation takes it as an argument.
* `getItem` / `setItem` by key kind exactly as `Arr._convert_key` dispatches; comparisons, logical operators,
  `true()/false()`, reductions, `asnew`, `grow` (reallocation rule from Generated/ArrConsts.lean), removal.
* A cell is a `Val`: a number (exact rational: every float32/int64 the harness uses is one), a Boolean, the float NaN,
  or `undef` (memory from `np.empty` that the code never wrote).
* Python exceptions are `Except Err`; every checked operation is `if <guard> then .ok <total core> else .error e`,
  so theorems are stated about the total core under the decidable guard.

Core Lean only (no Mathlib): this file is interpreted by the line-protocol driver.
-/
import StarsimModel.Generated.ArrConsts

namespace StarsimModel.Arr

inductive Err where
  | index      -- IndexError
  | value      -- ValueError (shape mismatch, zero slice step)
  | ambiguous  -- the generic Exception of `_convert_key`
  | boolOp     -- BooleanOperationError
  deriving DecidableEq, Repr

/-- Contents of one storage cell. -/
inductive Val where
  | num (r : Rat)
  | bool (b : Bool)
  | nan
  | undef
  deriving DecidableEq, Repr

namespace Val

/-- `astype(bool)`: zero is falsy, NaN is truthy (NumPy). `undef` is never inspected by a well-formed run. -/
def truthy : Val → Bool
  | num r => r != 0
  | bool b => b
  | nan => true
  | undef => false

/-- numeric reading (`True` = 1), `none` for NaN/undef -/
def toRat? : Val → Option Rat
  | num r => some r
  | bool b => some (if b then 1 else 0)
  | _ => none

def isUndef : Val → Bool
  | undef => true
  | _ => false

end Val

inductive Cmp where
  | gt | lt | ge | le | eq | ne
  deriving DecidableEq, Repr

/-- NumPy comparison of two scalars: anything against NaN is false except `!=`. `undef` propagates. -/
def cmpVal (op : Cmp) (a b : Val) : Val :=
  if a.isUndef || b.isUndef then .undef else
  match a.toRat?, b.toRat? with
  | some x, some y =>
      .bool (match op with
        | .gt => x > y | .lt => x < y | .ge => x ≥ y | .le => x ≤ y | .eq => x == y | .ne => x != y)
  | _, _ => .bool (op == .ne)

inductive Logic where
  | and | or | xor
  deriving DecidableEq, Repr

def logicVal (op : Logic) (a b : Val) : Val :=
  if a.isUndef || b.isUndef then .undef else
  .bool (match op with
    | .and => a.truthy && b.truthy
    | .or => a.truthy || b.truthy
    | .xor => a.truthy != b.truthy)

def notVal (a : Val) : Val := if a.isUndef then .undef else .bool (!a.truthy)

/-- How new agents get their value (`Arr.default`): nothing (→ `nan`), a constant, a callable of the number of new
    agents, or a distribution drawing per uid.  Functions are uninterpreted parameters of the theorems. -/
inductive Default where
  | unset
  | const (v : Val)
  | fn (f : Nat → List Val)
  | dist (draw : List Nat → List Val)

inductive Kind where
  | float | bool | index | generic
  deriving DecidableEq, Repr

structure Arr where
  raw : List Val
  lenUsed : Nat
  lenTot : Nat
  nan : Val
  default : Default
  kind : Kind

/-- A freshly constructed, not yet initialised array (`Arr.__init__` without `people`). -/
def fresh (kind : Kind) (nanV : Val) (default : Default) : Arr :=
  { raw := [], lenUsed := 0, lenTot := 0, nan := nanV, default := default, kind := kind }

/-- The right-hand side of an assignment `raw[key] = value`. -/
inductive Rhs where
  | scalar (v : Val)
  | list (vs : List Val)

/-! ### Raw storage access -/

def Arr.cell (a : Arr) (u : Nat) : Val := a.raw.getD u .undef

def inRange (a : Arr) (us : List Nat) : Bool := us.all (· < a.raw.length)

/-- `raw[uids]` (total core) -/
def gather (a : Arr) (us : List Nat) : List Val := us.map a.cell

/-- `raw[uids] = scalar` -/
def scatterConst (raw : List Val) (us : List Nat) (v : Val) : List Val :=
  us.foldl (fun r u => r.set u v) raw

/-- `raw[uids] = values` (pairs beyond the shorter list are ignored by the total core; the guard excludes them) -/
def scatter (raw : List Val) : List Nat → List Val → List Val
  | u :: us, v :: vs => scatter (raw.set u v) us vs
  | _, _ => raw

/-- NumPy accepts a scalar, a list of the same length, or a length-1 list (broadcast). -/
def rhsOk (us : List Nat) : Rhs → Bool
  | .scalar _ => true
  | .list vs => vs.length == us.length || vs.length == 1

def assignRaw (raw : List Val) (us : List Nat) : Rhs → List Val
  | .scalar v => scatterConst raw us v
  | .list vs => if vs.length == us.length then scatter raw us vs
                else match vs with
                  | [v] => scatterConst raw us v
                  | _ => raw


/-! ### NumPy casting on assignment -/

/-- round a rational toward zero (C cast `double -> int64`) -/
def truncRat (r : Rat) : Int := if 0 ≤ r then r.floor else -((-r).floor)

/-- `raw[key] = value` stores `value` cast to the array's dtype: Booleans keep truthiness, float arrays read `True` as
    `1.0`, integer arrays (`IndexArr`, generic int `Arr`) truncate toward zero.  `none` = NumPy refuses (NaN into an
    integer array raises `ValueError: cannot convert float NaN to integer`). -/
def castVal (k : Kind) (v : Val) : Option Val :=
  match v with
  | .undef => some .undef
  | _ =>
    match k with
    | .bool => some (.bool v.truthy)
    | .float => some (match v.toRat? with | some r => .num r | none => .nan)
    | .index | .generic => (v.toRat?).map (fun r => .num (truncRat r : Int))

/-- does a stored cell have the array's dtype? -/
def conforms (k : Kind) (v : Val) : Bool :=
  match k, v with
  | _, .undef => true
  | .bool, .bool _ => true
  | .float, .num _ => true
  | .float, .nan => true
  | .index, .num r => r.den == 1
  | .generic, .num r => r.den == 1
  | _, _ => false

def castRhs (k : Kind) : Rhs → Option Rhs
  | .scalar v => (castVal k v).map .scalar
  | .list vs => (vs.mapM (castVal k)).map .list

/-! ### Active views (`Arr.values`, `true`, `false`, `__len__`) -/

/-- `Arr.values = raw[auids]` -/
def values (au : List Nat) (a : Arr) : List Val := gather a au

def len (au : List Nat) (_a : Arr) : Nat := au.length

/-- `Arr.true() = auids[values.astype(bool)]` -/
def trueUids (au : List Nat) (a : Arr) : List Nat := au.filter (fun u => (a.cell u).truthy)

/-- `Arr.false() = auids[~values.astype(bool)]` -/
def falseUids (au : List Nat) (a : Arr) : List Nat := au.filter (fun u => !(a.cell u).truthy)

/-- The reference semantics: a finite map from identifier to value, defined exactly on the active identifiers. -/
def abs (au : List Nat) (a : Arr) (u : Nat) : Option Val := if u ∈ au then some (a.cell u) else none

/-! ### Python slices over the active index -/

def clampIdx (len : Int) (lower upper : Int) (s : Int) : Int :=
  if s < 0 then (if s + len < lower then lower else s + len) else (if s > upper then upper else s)

/-- walk upwards from `i` while `i < stop` -/
def walkUp (stop step : Int) : Nat → Int → List Nat
  | 0, _ => []
  | fuel + 1, i => if i < stop then i.toNat :: walkUp stop step fuel (i + step) else []

/-- walk downwards from `i` while `i > stop` -/
def walkDown (stop step : Int) : Nat → Int → List Nat
  | 0, _ => []
  | fuel + 1, i => if i > stop then i.toNat :: walkDown stop step fuel (i + step) else []

/-- an optional slice bound: the default when omitted, clamped otherwise -/
def sliceBound (n lower upper dflt : Int) : Option Int → Int
  | none => dflt
  | some s => clampIdx n lower upper s

/-- `range(*slice(start, stop, step).indices(len))` (CPython `PySlice_AdjustIndices`); `none` for a zero step -/
def sliceIndices (len : Nat) (start stop step : Option Int) : Option (List Nat) :=
  let st := step.getD 1
  let n : Int := len
  if st = 0 then none
  else if st > 0 then
    some (walkUp (sliceBound n 0 n n stop) st len (sliceBound n 0 n 0 start))
  else
    some (walkDown (sliceBound n (-1) (n - 1) (-1) stop) st len (sliceBound n (-1) (n - 1) (n - 1) start))

/-- `auids[slice]` -/
def sliceUids (au : List Nat) (start stop step : Option Int) : Option (List Nat) :=
  (sliceIndices au.length start stop step).map (fun idx => idx.map (fun i => au.getD i 0))

def isBoolKind (a : Arr) : Bool := a.kind == .bool

/-! ### Keys -/

inductive Variant where
  | spec | asis
  deriving DecidableEq, Repr

/-- The variant the *current source* implements, read off the regenerated `_convert_key` table. -/
def codeVariant : Variant := if Gen.intKeyViaActive then .spec else .asis

inductive Key where
  | uids (us : List Nat)
  | ruids (is : List Int)  -- an `ss.uids` array that may hold negative entries (e.g. `people.parent` with its -1): NumPy wraps them
  | int (i : Int)
  | slice (start stop step : Option Int)
  | boolArr (k : Arr)     -- a `BoolArr`: its true uids
  | indexArr (k : Arr)    -- an `IndexArr`: its active values, read as uids
  | empty                 -- `[]`, `np.array([])`
  | unsupported           -- non-empty list / ndarray / float / str …

/-- What `_convert_key` hands to `raw[...]`: an index array or one integer position. -/
inductive Conv where
  | ids (us : List Nat)
  | rids (is : List Int)   -- an integer index array whose entries are resolved (wrapped / bounds-checked) by NumPy at access time
  | pos (i : Int)

def valToUid (v : Val) : Option Nat :=
  match v with
  | .num r => if r.den = 1 ∧ 0 ≤ r.num then some r.num.toNat else none
  | _ => none

/-- what NumPy does with one entry of an integer index array over storage of length `len`: a negative entry `-j`
    addresses cell `len - j`; anything outside `[-len, len)` raises `IndexError` -/
def wrapOne (len : Nat) (i : Int) : Option Nat :=
  if i < 0 then (if 0 ≤ i + (len : Int) then some (i + (len : Int)).toNat else none)
  else (if i < (len : Int) then some i.toNat else none)

def wrapIds (len : Nat) (is : List Int) : Option (List Nat) := is.mapM (wrapOne len)

def valToInt (v : Val) : Option Int :=
  match v with
  | .num r => if r.den = 1 then some r.num else none
  | _ => none

/-- `Arr._convert_key` -/
def convertKey (v : Variant) (au : List Nat) : Key → Except Err Conv
  | .uids us => .ok (.ids us)
  | .ruids is => .ok (.rids is)
  | .int i =>
      match v with
      | .asis => .ok (.pos i)                                  -- returned unchanged: indexes storage
      | .spec =>                                               -- position among the active agents
          let n : Int := au.length
          let j := if i < 0 then i + n else i
          if 0 ≤ j ∧ j < n then .ok (.ids [au.getD j.toNat 0]) else .error .index
  | .slice s e st =>
      match sliceUids au s e st with
      | some us => .ok (.ids us)
      | none => .error .value
  | .boolArr k =>
      -- `isinstance(key, (BoolArr, IndexArr))`: any other `Arr` falls through to the ambiguity error
      -- (with nobody active `len(key) == 0`, so it is taken for an empty key)
      if isBoolKind k then .ok (.ids (trueUids au k)) else if au.isEmpty then .ok (.ids []) else .error .ambiguous
  | .indexArr k =>
      -- `IndexArr.uids` = its active values, used as an integer index array (negative entries wrap like any NumPy index)
      match (values au k).mapM valToInt with
      | some is => .ok (.rids is)
      | none => .error .index
  | .empty => .ok (.ids [])
  | .unsupported => .error .ambiguous

/-- normalise a Python integer position into storage -/
def pyPos (len : Nat) (i : Int) : Option Nat :=
  let n : Int := len
  let j := if i < 0 then i + n else i
  if 0 ≤ j ∧ j < n then some j.toNat else none

inductive Got where
  | vals (vs : List Val)
  | one (v : Val)
  deriving DecidableEq, Repr

/-- `Arr.__getitem__` -/
def getItem (v : Variant) (au : List Nat) (a : Arr) (k : Key) : Except Err Got :=
  match convertKey v au k with
  | .error e => .error e
  | .ok (.ids us) =>
      match v, k with
      | .spec, .int _ => if inRange a us then .ok (.one (a.cell (us.headD 0))) else .error .index
      | _, _ => if inRange a us then .ok (.vals (gather a us)) else .error .index
  | .ok (.rids is) =>
      match wrapIds a.raw.length is with
      | some us => .ok (.vals (gather a us))
      | none => .error .index
  | .ok (.pos i) =>
      match pyPos a.raw.length i with
      | some p => .ok (.one (a.cell p))
      | none => .error .index

/-- `Arr.__setitem__`: the value is cast to the array's dtype (`castRhs`) -/
def setItem (v : Variant) (au : List Nat) (a : Arr) (k : Key) (rhs0 : Rhs) : Except Err Arr :=
  match convertKey v au k with
  | .error e => .error e
  | .ok (.ids us) =>
      -- NumPy converts/broadcasts the value against the index shape first, and checks bounds while writing
      match castRhs a.kind rhs0 with
      | none => .error .value
      | some rhs =>
        if !rhsOk us rhs then .error .value
        else if !inRange a us then .error .index
        else .ok { a with raw := assignRaw a.raw us rhs }
  | .ok (.rids is) =>
      match castRhs a.kind rhs0 with
      | none => .error .value
      | some rhs =>
        if !rhsOk (is.map Int.toNat) rhs then .error .value        -- shape first (only the number of entries matters)
        else match wrapIds a.raw.length is with
          | none => .error .index
          | some us => .ok { a with raw := assignRaw a.raw us rhs }
  | .ok (.pos i) =>
      match pyPos a.raw.length i with
      | none => .error .index
      | some p =>
          match castRhs a.kind rhs0 with
          | some (.scalar x) => .ok { a with raw := a.raw.set p x }
          | _ => .error .value     -- NumPy: "setting an array element with a sequence" / NaN into an int array

/-- `Arr.set_nan(uids)`: `self.raw[uids] = self.nan` (no key conversion) -/
def setNan (a : Arr) (us : List Nat) : Except Err Arr :=
  if !inRange a us then .error .index else .ok { a with raw := scatterConst a.raw us a.nan }

/-! ### Derived arrays -/

/-- `Arr.asnew(arr, cls)`: same bookkeeping, storage from `np.empty`, the given values written at the active uids -/
def asnew (au : List Nat) (a : Arr) (vals : List Val) (kind : Kind) : Arr :=
  { a with raw := scatter (List.replicate a.raw.length .undef) au vals, kind := kind }

/-- comparison against a scalar: `self.asnew(self.values <op> other, cls=BoolArr)` -/
def cmpScalar (au : List Nat) (a : Arr) (op : Cmp) (x : Val) : Arr :=
  asnew au a ((values au a).map (fun v => cmpVal op v x)) .bool

/-- comparison against another array (both read through the same active index) -/
def cmpArr (au : List Nat) (a b : Arr) (op : Cmp) : Arr :=
  asnew au a (List.zipWith (cmpVal op) (values au a) (values au b)) .bool

/-- `&`, `|`, `^` against an array: only for Boolean arrays -/
def logicArr (au : List Nat) (a b : Arr) (op : Logic) : Except Err Arr :=
  if isBoolKind a then .ok (asnew au a (List.zipWith (logicVal op) (values au a) (values au b)) a.kind)
  else .error .boolOp

def logicScalar (au : List Nat) (a : Arr) (op : Logic) (x : Val) : Except Err Arr :=
  if isBoolKind a then .ok (asnew au a ((values au a).map (fun v => logicVal op v x)) a.kind)
  else .error .boolOp

/-- `~arr` -/
def invert (au : List Nat) (a : Arr) : Except Err Arr :=
  if isBoolKind a then .ok (asnew au a ((values au a).map notVal) a.kind) else .error .boolOp


/-! ### `isnan` / `notnan` / `notnanvals` / `split` -/

def isNanCell (v : Val) : Val := if v.isUndef then .undef else .bool (v == .nan)

/-- `Arr.isnan`: `FloatArr` uses `np.isnan`, `BoolArr` is never NaN, everything else compares with its `nan` value -/
def isnan (au : List Nat) (a : Arr) : Arr :=
  match a.kind with
  | .float => asnew au a ((values au a).map isNanCell) .bool
  | .bool => asnew au a ((values au a).map (fun _ => .bool false)) .bool
  | _ => cmpScalar au a .eq a.nan

def notnan (au : List Nat) (a : Arr) : Arr :=
  match a.kind with
  | .float => asnew au a ((values au a).map (fun v => notVal (isNanCell v))) .bool
  | .bool => asnew au a ((values au a).map (fun _ => .bool true)) .bool
  | _ => cmpScalar au a .ne a.nan

/-- `FloatArr.notnanvals`: the non-NaN values of the ACTIVE agents, in active order -/
def notnanvals (au : List Nat) (a : Arr) : List Val := (values au a).filter (fun v => !(v == .nan))

/-- `BoolArr.split()` -/
def split (au : List Nat) (a : Arr) : List Nat × List Nat := (trueUids au a, falseUids au a)

/-! ### Arithmetic through `__array_ufunc__` (`arr + x`, `arr * arr2`, `-arr`): computed on `values`, written back by `asnew` -/

inductive Arith where
  | add | sub | mul
  deriving DecidableEq, Repr

def arithVal (op : Arith) (a b : Val) : Val :=
  if a.isUndef || b.isUndef then .undef else
  match a.toRat?, b.toRat? with
  | some x, some y => .num (match op with | .add => x + y | .sub => x - y | .mul => x * y)
  | _, _ => .nan

def arithScalar (au : List Nat) (a : Arr) (op : Arith) (x : Val) : Arr :=
  asnew au a ((values au a).map (fun v => arithVal op v x)) a.kind

def arithArr (au : List Nat) (a b : Arr) (op : Arith) : Arr :=
  asnew au a (List.zipWith (arithVal op) (values au a) (values au b)) a.kind

/-! ### Reductions over the active view -/

def sumVals : List Val → Val
  | [] => .num 0
  | v :: vs =>
      match v.toRat?, sumVals vs with
      | some x, .num s => .num (x + s)
      | _, _ => .nan

def count (au : List Nat) (a : Arr) : Nat := ((values au a).filter Val.truthy).length

def sum (au : List Nat) (a : Arr) : Val := sumVals (values au a)

/-- `mean` (exact; the code rounds to float32): `none` for an empty view -/
def mean (au : List Nat) (a : Arr) : Option Val :=
  if au.isEmpty then none else
  match sum au a with
  | .num s => some (.num (s / (au.length : Rat)))
  | _ => some .nan

def foldExt (pick : Rat → Rat → Rat) : List Val → Option Val
  | [] => none
  | v :: vs =>
      match foldExt pick vs with
      | none => some (match v.toRat? with | some x => .num x | none => .nan)
      | some (.num y) => some (match v.toRat? with | some x => .num (pick x y) | none => .nan)
      | some _ => some .nan

def minV (au : List Nat) (a : Arr) : Option Val := foldExt (fun x y => if x ≤ y then x else y) (values au a)
def maxV (au : List Nat) (a : Arr) : Option Val := foldExt (fun x y => if x ≤ y then y else x) (values au a)
def anyV (au : List Nat) (a : Arr) : Bool := (values au a).any Val.truthy
def allV (au : List Nat) (a : Arr) : Bool := (values au a).all Val.truthy

/-! ### Growth -/

/-- the value `Arr.set(uids, new_vals=None)` writes -/
def defaultRhs (a : Arr) (us : List Nat) : Rhs :=
  match a.default with
  | .dist draw => .list (draw us)
  | .fn f => .list (f us.length)
  | .const v => .scalar v
  | .unset => .scalar a.nan

/-- `Arr.grow(new_uids, new_vals)`: bump `len_used`; reallocate by the extracted rule when the request does not fit,
    filling the spare tail with `nan` when the extracted condition says so; then `set(new_uids, new_vals)`. -/
def grow (a : Arr) (newUids : List Nat) (newVals : Option Rhs) : Except Err Arr :=
  let origLen := a.lenUsed
  let nNew := newUids.length
  let lenUsed' := origLen + nNew
  let a1 : Arr :=
    if Gen.needsRealloc origLen nNew a.lenTot then
      let nGrow := Gen.growAmount nNew a.lenTot
      let raw1 := a.raw ++ List.replicate nGrow .undef
      let lenTot' := raw1.length
      let raw2 := if Gen.nanFillTail nGrow nNew
        then scatterConst raw1 ((List.range (lenTot' - lenUsed')).map (· + lenUsed')) a.nan
        else raw1
      { a with raw := raw2, lenUsed := lenUsed', lenTot := lenTot' }
    else { a with lenUsed := lenUsed' }
  let rhs := match newVals with | some r => r | none => defaultRhs a newUids
  if !rhsOk newUids rhs then .error .value
  else if !inRange a1 newUids then .error .index
  else .ok { a1 with raw := assignRaw a1.raw newUids rhs }

/-- removal of agents from the active index (`People.remove_dead`): arrays are untouched -/
def removeActive (au : List Nat) (dead : List Nat) : List Nat := au.filter (fun u => !dead.contains u)


/-! ### One array through a history of growth, removal and assignment

The machine the refinement theorem (`C11_refinement`) is about: an array registered with a population of `n`
identifiers of which `au` are active.  An operation the code would reject leaves the state unchanged. -/

/-- identifiers created by one `People.grow(k)` when `n` exist: `arange(n, n+k)` -/
def newIds (n k : Nat) : List Nat := (List.range k).map (· + n)

/-- the values a right-hand side denotes for `m` targets (total reading) -/
def rhsVals (m : Nat) : Rhs → List Val
  | .scalar v => List.replicate m v
  | .list vs => if vs.length == m then vs else match vs with
      | [v] => List.replicate m v
      | _ => vs

/-- the declared default, as the list of values the `k` new agents `us` must receive -/
def defaultVals (a : Arr) (us : List Nat) : List Val := rhsVals us.length (defaultRhs a us)

structure Hist where
  au : List Nat
  n : Nat
  arr : Arr

inductive HOp where
  | grow (k : Nat)                          -- `People.grow(k)`
  | remove (dead : List Nat)                -- deaths + `remove_dead`
  | assign (us : List Nat) (rhs : Rhs)      -- `arr[ss.uids(us)] = rhs`

def Hist.step (h : Hist) : HOp → Hist
  | .grow k =>
      match grow h.arr (newIds h.n k) none with
      | .ok a' => { au := h.au ++ newIds h.n k, n := h.n + k, arr := a' }
      | .error _ => h
  | .remove dead => { h with au := removeActive h.au dead }
  | .assign us rhs =>
      match setItem codeVariant h.au h.arr (.uids us) rhs with
      | .ok a' => { h with arr := a' }
      | .error _ => h

def Hist.run (h : Hist) (ops : List HOp) : Hist := ops.foldl Hist.step h

/-- The reference: a total map from identifier to value plus the ordered active identifiers.  No storage, no
    capacity, no reallocation. -/
structure RefMap where
  active : List Nat
  n : Nat
  m : Nat → Val

def updMany (m : Nat → Val) : List Nat → List Val → (Nat → Val)
  | u :: us, v :: vs => updMany (fun x => if x = u then v else m x) us vs
  | _, _ => m

def RefMap.step (kind : Kind) (dflt : List Nat → List Val) (r : RefMap) : HOp → RefMap
  | .grow k => { active := r.active ++ newIds r.n k, n := r.n + k, m := updMany r.m (newIds r.n k) (dflt (newIds r.n k)) }
  | .remove dead => { r with active := r.active.filter (fun u => !dead.contains u) }
  | .assign us rhs =>
      match castRhs kind rhs with
      | some rhs' => { r with m := updMany r.m us (rhsVals us.length rhs') }   -- the value as the dtype stores it
      | none => r

def RefMap.run (kind : Kind) (dflt : List Nat → List Val) (r : RefMap) (ops : List HOp) : RefMap := ops.foldl (RefMap.step kind dflt) r

/-- what the reference answers for identifier `u`: its value if active, nothing otherwise -/
def RefMap.lookup (r : RefMap) (u : Nat) : Option Val := if u ∈ r.active then some (r.m u) else none

/-! ### Specification-level definitions used by the theorems (Props/C11.lean) -/

/-- bookkeeping of an array over `n` identifiers: `len_used = n ≤ len_tot = len(raw)` -/
structure WF (n : Nat) (a : Arr) : Prop where
  used : a.lenUsed = n
  tot : a.lenTot = a.raw.length
  le : n ≤ a.raw.length

/-- the simulation relation between the storage machine and the reference map -/
structure Sim (kind : Kind) (dflt : List Nat → List Val) (h : Hist) (r : RefMap) : Prop where
  kind : h.arr.kind = kind
  au : h.au = r.active
  n : h.n = r.n
  wf : WF h.n h.arr
  cells : ∀ u, u < h.n → h.arr.cell u = r.m u
  dflt : ∀ us, defaultVals h.arr us = dflt us
  active : ∀ u ∈ h.au, u < h.n
  nodup : h.au.Nodup

/-- an operation the code accepts, phrased on the reference only: the default yields one value per new agent;
    assignments name created identifiers and have a castable, broadcastable right-hand side -/
def HOp.valid (kind : Kind) (dflt : List Nat → List Val) (r : RefMap) : HOp → Prop
  | .grow k => (dflt (newIds r.n k)).length = k
  | .remove _ => True
  | .assign us rhs => (∃ rhs', castRhs kind rhs = some rhs' ∧ rhsOk us rhs' = true) ∧ ∀ u ∈ us, u < r.n

def validRun (kind : Kind) (dflt : List Nat → List Val) : RefMap → List HOp → Prop
  | _, [] => True
  | r, op :: ops => HOp.valid kind dflt r op ∧ validRun kind dflt (r.step kind dflt op) ops

/-! ### `ss.uids` set algebra -/

namespace Uids

/-- insert into a strictly increasing list, keeping it strictly increasing -/
def insertSorted (x : Nat) : List Nat → List Nat
  | [] => [x]
  | y :: ys => if x < y then x :: y :: ys else if x = y then y :: ys else y :: insertSorted x ys

/-- `np.unique`: sorted, duplicate-free -/
def unique (l : List Nat) : List Nat := l.foldr insertSorted []

def concat (a b : List Nat) : List Nat := a ++ b
def cat (ls : List (List Nat)) : List Nat := ls.flatten
/-- `np.setdiff1d` -/
def remove (a b : List Nat) : List Nat := (unique a).filter (fun x => !b.contains x)
/-- `np.intersect1d` -/
def intersect (a b : List Nat) : List Nat := (unique a).filter (fun x => b.contains x)
/-- `np.union1d` -/
def union (a b : List Nat) : List Nat := unique (a ++ b)
/-- `np.setxor1d` -/
def xor (a b : List Nat) : List Nat :=
  (unique (a ++ b)).filter (fun x => a.contains x != b.contains x)

end Uids

end StarsimModel.Arr
