/-
Model of network and mixing-pool transmission (starsim/disease.py `Infection.validate_beta / infect /
compute_transmission`, starsim/networks.py `Network.net_beta`, `SexualNetwork.net_beta`, `MixingPool.step`).

Exact arithmetic over core `Rat`.  The arithmetic expressions themselves (effective factors, the compared
probability, the comparison, `net_beta`, the pool probability, the Bernoulli acceptance) are *not* written here:
they are the functions of `Generated/TransmissionFacts.lean`, translated from the Python source on every run.
What is written here is the control structure around them, as in the code:

* effective factors per agent: `rel_trans = infectious * rel_trans`, `rel_sus = susceptible * rel_sus`;
* for each route in order (index `i` counts every route; non-`Network` routes and networks without edges are
  skipped), for each direction `p1→p2` with `betamap[net][0]`, then `p2→p1` with `betamap[net][1]`, skipped when
  that beta is zero: every edge transmits iff `Gen.transmits` says so for that edge's random number;
* the per-direction results are concatenated and `unique(return_index=True)` keeps, for every target, the first
  event in that order; the result is sorted by target.

Random numbers are inputs: `Edge.r0 / r1` is the number the code compared for that edge in direction 0 / 1.
`infectStream` additionally models *which* numbers the code uses: one draw of `trans_rng` per executed kernel
call, so the call counter only advances for directions that are not skipped.
Core Lean only: this file is interpreted by the line-protocol driver.
-/
import StarsimModel.Generated.TransmissionFacts

namespace StarsimModel.Transmission

/-! ### Agents -/

/-- Per-agent disease state read at transmission time (total functions of the uid). -/
structure DState where
  susceptible : Nat → Bool
  infectious  : Nat → Bool
  relSus      : Nat → Rat
  relTrans    : Nat → Rat

/-- NumPy's `bool * float`. -/
def b2r (b : Bool) : Rat := if b then 1 else 0

/-- `rel_trans = self.rel_trans.asnew(self.infectious * self.rel_trans)`, per agent. -/
def effTrans (s : DState) (u : Nat) : Rat :=
  Gen.effTrans (b2r (s.susceptible u)) (b2r (s.infectious u)) (s.relSus u) (s.relTrans u)

/-- `rel_sus = self.rel_sus.asnew(self.susceptible * self.rel_sus)`, per agent. -/
def effSus (s : DState) (u : Nat) : Rat :=
  Gen.effSus (b2r (s.susceptible u)) (b2r (s.infectious u)) (s.relSus u) (s.relTrans u)

/-! ### Networks -/

/-- Which `net_beta` a network uses.  `raw`: the per-edge per-direction value is supplied (`Edge.nb0/nb1`; used by
    the correspondence for sexual networks whose `acts·dt` is not a whole number). -/
inductive NetKind where
  | plain | sexual | raw
  deriving DecidableEq, Repr

/-- The two directions tried for every network, in the order of the code. -/
inductive Dir where
  | fwd   -- p1 → p2, betamap[net][0]
  | bwd   -- p2 → p1, betamap[net][1]
  deriving DecidableEq, Repr

structure Edge where
  p1 : Nat
  p2 : Nat
  beta : Rat := 1     -- `edges.beta`
  acts : Nat := 0     -- `edges.acts * dt` (sexual networks, whole number)
  r0 : Rat := 0       -- random number compared in direction `fwd`
  r1 : Rat := 0       -- random number compared in direction `bwd`
  nb0 : Rat := 0      -- supplied `beta_per_dt` (kind `raw`), direction `fwd`
  nb1 : Rat := 0
  deriving DecidableEq

def Edge.src (e : Edge) : Dir → Nat | .fwd => e.p1 | .bwd => e.p2
def Edge.trg (e : Edge) : Dir → Nat | .fwd => e.p2 | .bwd => e.p1
def Edge.r (e : Edge) : Dir → Rat | .fwd => e.r0 | .bwd => e.r1
def Edge.nb (e : Edge) : Dir → Rat | .fwd => e.nb0 | .bwd => e.nb1

structure Net where
  isNetwork : Bool := true    -- `isinstance(net, ss.Network)` (a mixing pool in `sim.networks` is not)
  kind : NetKind := .plain
  edges : List Edge
  b0 : Rat                    -- betamap[net][0]
  b1 : Rat                    -- betamap[net][1]

def Net.b (n : Net) : Dir → Rat | .fwd => n.b0 | .bwd => n.b1

/-- `net.net_beta(disease_beta=β)` for one edge. -/
def netBeta (k : NetKind) (e : Edge) (β : Rat) (d : Dir) : Rat :=
  match k with
  | .plain => Gen.netBetaPlain e.beta β
  | .sexual => Gen.netBetaSexual e.beta β e.acts
  | .raw => e.nb d

/-! ### The kernel and `infect` -/

structure Event where
  target : Nat
  source : Nat
  net : Nat
  deriving DecidableEq, Repr

/-- `compute_transmission` for one edge in one direction. -/
def transmitsDir (s : DState) (k : NetKind) (β : Rat) (d : Dir) (e : Edge) : Bool :=
  Gen.transmits (effTrans s) (effSus s) (e.src d) (e.trg d) (netBeta k e β d) (e.r d)

/-- One kernel call: the transmitting edges of network `i` in direction `d`, in edge order
    (`[]` when the direction is skipped by `if beta:`). -/
def dirEvents (s : DState) (i : Nat) (n : Net) (d : Dir) : List Event :=
  if n.b d = 0 then []
  else (n.edges.filter (transmitsDir s n.kind (n.b d) d)).map (fun e => ⟨e.trg d, e.src d, i⟩)

/-- `isinstance(net, ss.Network) and len(net)` -/
def Net.active (n : Net) : Bool := n.isNetwork && !n.edges.isEmpty

def netEvents (s : DState) (i : Nat) (n : Net) : List Event :=
  if n.active then dirEvents s i n .fwd ++ dirEvents s i n .bwd else []

/-- Concatenation over the routes, `i` = position in `sim.networks`, starting at `i0`. -/
def eventsFrom (s : DState) : Nat → List Net → List Event
  | _, [] => []
  | i, n :: ns => netEvents s i n ++ eventsFrom s (i + 1) ns

def allEvents (s : DState) (nets : List Net) : List Event := eventsFrom s 0 nets

/-- Keep, for every target, the first event (`np.unique(..., return_index=True)` picks first occurrences). -/
def keepFirst : List Event → List Event
  | [] => []
  | e :: es => e :: (keepFirst es).filter (fun x => x.target ≠ e.target)

/-- insertion of an event into a list sorted by target -/
def insertByTarget (e : Event) : List Event → List Event
  | [] => [e]
  | x :: xs => if e.target ≤ x.target then e :: x :: xs else x :: insertByTarget e xs

def sortByTarget : List Event → List Event
  | [] => []
  | e :: es => insertByTarget e (sortByTarget es)

/-- `Infection.infect`: (new_cases, sources, networks) as a list of events sorted by target. -/
def infect (s : DState) (nets : List Net) : List Event :=
  sortByTarget (keepFirst (allEvents s nets))

/-- The variant without `unique` (used only to state what `unique` is needed for). -/
def infectNoDedup (s : DState) (nets : List Net) : List Event := allEvents s nets

/-! ### Which random numbers: one `trans_rng` draw per executed kernel call -/

/-- Fill in `r0/r1` of every edge from a stream `rand call src trg`; returns the nets and the next call index. -/
def assignStream (rand : Nat → Nat → Nat → Rat) : Nat → List Net → List Net
  | _, [] => []
  | k, n :: ns =>
    if n.active then
      let k0 := k
      let k1 := if n.b0 = 0 then k else k + 1
      let k2 := if n.b1 = 0 then k1 else k1 + 1
      { n with edges := n.edges.map (fun e => { e with r0 := rand k0 e.p1 e.p2, r1 := rand k1 e.p2 e.p1 }) }
        :: assignStream rand k2 ns
    else n :: assignStream rand k ns

def infectStream (rand : Nat → Nat → Nat → Rat) (s : DState) (nets : List Net) : List Event :=
  infect s (assignStream rand 0 nets)

/-! ### `validate_beta` -/

inductive Err where
  | keyMismatch   -- ValueError: network keys and beta keys do not match
  | invalidType   -- TypeError: beta is neither a number / TimePar nor a dict
  | index         -- IndexError: a per-network beta list shorter than 2 (raised by `infect`, not by validate_beta)
  deriving DecidableEq, Repr

inductive BetaEntry where
  | scalar (β : Rat)
  | list (l : List Rat)
  deriving DecidableEq, Repr

inductive BetaSpec where
  | scalar (β : Rat)
  | perNet (entries : List (String × BetaEntry))   -- keys already passed through `standardize_netkey`
  | invalid
  deriving Repr

def BetaEntry.toList : BetaEntry → List Rat
  | .scalar β => [β, β]
  | .list l => l

/-- dict semantics: a later entry with the same key replaces the value -/
def dictInsert (m : List (String × List Rat)) (k : String) (v : List Rat) : List (String × List Rat) :=
  if m.any (·.1 = k) then m.map (fun kv => if kv.1 = k then (k, v) else kv) else m ++ [(k, v)]

def sameKeySet (a b : List String) : Bool := a.all (b.contains ·) && b.all (a.contains ·)

/-- `validate_beta`: the betamap or the error. `netKeys` are the standardised keys of `sim.networks`. -/
def validateBeta (spec : BetaSpec) (netKeys : List String) : Except Err (List (String × List Rat)) :=
  match spec with
  | .invalid => .error .invalidType
  | .scalar β =>
      let m := netKeys.foldl (fun m k => dictInsert m k [β, β]) []
      if sameKeySet (m.map (·.1)) netKeys then .ok m else .error .keyMismatch
  | .perNet entries =>
      let m := entries.foldl (fun m kv => dictInsert m kv.1 kv.2.toList) []
      if sameKeySet (m.map (·.1)) netKeys then .ok m else .error .keyMismatch

/-- `betamap[nk][0]`, `betamap[nk][1]` as `infect` reads them. -/
def betaPair (m : List (String × List Rat)) (k : String) : Except Err (Rat × Rat) :=
  match m.find? (·.1 = k) with
  | none => .error .keyMismatch
  | some (_, l) => match l with
    | b0 :: b1 :: _ => .ok (b0, b1)
    | _ => .error .index

/-! ### Mixing pools -/

def sumRat : List Rat → Rat
  | [] => 0
  | x :: xs => x + sumRat xs

/-- `np.mean` of a non-empty list -/
def mean (l : List Rat) : Rat := sumRat l / (l.length : Rat)

structure Pool where
  src : List Nat
  dst : List Nat
  beta : Rat
  contacts : Nat → Rat     -- `eff_contacts`

/-- `trans = np.mean(infectious[src] * rel_trans[src])` -/
def poolTrans (s : DState) (src : List Nat) : Rat :=
  mean (src.map (fun u => Gen.poolTransTerm (b2r (s.infectious u)) (s.relTrans u)))

/-- `p = beta * trans * acq` for destination agent `u` -/
def poolP (s : DState) (pl : Pool) (u : Nat) : Rat :=
  Gen.poolP pl.beta (poolTrans s pl.src) (Gen.poolAcq (pl.contacts u) (b2r (s.susceptible u)) (s.relSus u))

/-- `MixingPool.step` for one disease: the new cases, in the order of `dst`; `r u` is the uniform number of agent `u`. -/
def poolStep (s : DState) (pl : Pool) (r : Nat → Rat) : List Nat :=
  if pl.beta = 0 then []
  else if pl.src.isEmpty || pl.dst.isEmpty then []
  else pl.dst.filter (fun u => Gen.bernoulliAccept (r u) (poolP s pl u))


/-! ### Group selectors of mixing pools (`AgeGroup`, `MixingPool.get_uids`, `MixingPool.remove_uids`)

`MixingPool.step` first resolves its `src` / `dst` parameters into uid lists.  A parameter is `None` (all active
agents), a callable of the sim (an `AgeGroup` object with its cache, or any user function), or an explicit `ss.uids`
array fixed at construction from which `remove_uids` drops the dead.  The band predicates and the recompute test of
`AgeGroup.__call__` are the regenerated `Gen.ageGroupInLow / InHigh / Recompute`. -/

/-- What a group selector reads from the sim: the active uids (`people.auids`) and the age by uid. -/
structure People where
  auids : List Nat
  age : Nat → Rat

/-- An `ss.AgeGroup` object: constructor arguments and the mutable cache. -/
structure AgeGroup where
  low : Rat
  high : Option Rat
  doCache : Bool := Gen.ageGroupDefaultDoCache
  uids : Option (List Nat) := none
  tiCache : Int := Gen.ageGroupInitTiCache

/-- `(age >= low) & (age < high)`, the second factor only `if self.high is not None` -/
def inBand (low : Rat) (high : Option Rat) (a : Rat) : Bool :=
  Gen.ageGroupInLow a low && (match high with | none => true | some h => Gen.ageGroupInHigh a h)

/-- `ss.uids(in_group)`: the active agents whose age lies in the band, ascending like `auids` -/
def members (low : Rat) (high : Option Rat) (p : People) : List Nat :=
  p.auids.filter (fun u => inBand low high (p.age u))

/-- `AgeGroup.__call__(sim)` at `sim.ti = ti`: new cache state and the returned uids -/
def AgeGroup.call (g : AgeGroup) (ti : Int) (p : People) : AgeGroup × List Nat :=
  if Gen.ageGroupRecompute g.doCache g.tiCache ti g.uids.isNone then
    ({ g with uids := some (members g.low g.high p), tiCache := ti }, members g.low g.high p)
  else (g, g.uids.getD [])

/-- Successive calls of one `AgeGroup` object; `P ti` is the population at the time of the call. -/
def AgeGroup.calls (P : Int → People) : AgeGroup → List Int → List (List Nat)
  | _, [] => []
  | g, ti :: tis => (g.call ti (P ti)).2 :: AgeGroup.calls P (g.call ti (P ti)).1 tis

/-- A `src` / `dst` parameter of a mixing pool. -/
inductive Group where
  | all                                  -- `None`: `sim.people.auids`
  | age (g : AgeGroup)                   -- callable: an `AgeGroup`
  | fn (f : People → List Nat)           -- callable: any user function of the sim
  | explicit (l : List Nat)              -- `ss.uids` given at construction

/-- `MixingPool.get_uids` -/
def Group.resolve : Group → Int → People → Group × List Nat
  | .all, _, p => (.all, p.auids)
  | .age g, ti, p => (.age (g.call ti p).1, (g.call ti p).2)
  | .fn f, _, p => (.fn f, f p)
  | .explicit l, _, _ => (.explicit l, l)

/-- What the selector denotes on the population `p` (the destination / source group of the property). -/
def Group.spec : Group → People → List Nat
  | .all, p => p.auids
  | .age g, p => members g.low g.high p
  | .fn f, p => f p
  | .explicit l, p => l.filter (fun u => p.auids.contains u)

/-- `MixingPool.remove_uids`: explicit uid arrays shed the removed agents, everything else is untouched -/
def Group.remove (dead : List Nat) : Group → Group
  | .explicit l => .explicit (l.filter (fun u => !dead.contains u))
  | g => g

structure PoolG where
  src : Group
  dst : Group
  beta : Rat
  contacts : Nat → Rat

/-- `MixingPool.step` for one disease including the resolution of the groups (`src` first, then `dst`). -/
def poolStepG (s : DState) (pg : PoolG) (ti : Int) (p : People) (r : Nat → Rat) : PoolG × List Nat :=
  let rs := pg.src.resolve ti p
  let rd := pg.dst.resolve ti p
  ({ pg with src := rs.1, dst := rd.1 },
   poolStep s { src := rs.2, dst := rd.2, beta := pg.beta, contacts := pg.contacts } r)

/-- `MixingPool.remove_uids` on both parameters -/
def PoolG.remove (pg : PoolG) (dead : List Nat) : PoolG :=
  { pg with src := pg.src.remove dead, dst := pg.dst.remove dead }

/-! ### The plural container `MixingPools` (round 5)

`MixingPools` builds one `MixingPool` per (source group, destination group) pair and hands each its own reference to the
group parameter.  When agents are removed, `MixingPools.remove_uids` must reach every one of them
(`Gen.poolsRemoveForwards`); `MixingPools.step` steps every one (`Gen.poolsStepForwards`). -/

/-- `MixingPools.remove_uids`: the removal applied to every sub-pool -/
def poolsRemove (pools : List PoolG) (dead : List Nat) : List PoolG :=
  pools.map (fun pg => pg.remove dead)

/-- `MixingPools.step` for one disease with a fixed pre-step state (the sub-pools of one step in order; the state changes
    between sub-pools only through `set_prognoses`, which never makes anybody susceptible): updated pools and the cases of each -/
def poolsStep (s : DState) (ti : Int) (p : People) (r : Nat → Rat) : List PoolG → List PoolG × List (List Nat)
  | [] => ([], [])
  | pg :: rest =>
    let a := poolStepG s pg ti p r
    let b := poolsStep s ti p r rest
    (a.1 :: b.1, a.2 :: b.2)

/-! ### The transmissibility in force: `TimePar.set` and the scaling operators (round 5)

A disease / pool `beta` given as a plain number, `pars.update(beta=x)`, `beta.set(x)`, `beta *= f`, `beta /= g` and
`beta * f` all end in `TimePar.set(v=…)`.  Whether a supplied value is stored is the regenerated test
`Gen.timeparSetStores (is None) (is zero)`. -/

/-- `TimePar.set(v=new)` on the base value; `none` = argument not supplied -/
def setBase (old : Rat) (new : Option Rat) : Rat :=
  match new with
  | none => old
  | some x => if Gen.timeparSetStores false (decide (x = 0)) then x else old

/-- `beta *= f` / `beta * f`: `self.set(v=self.v * other)` -/
def scaleBase (old f : Rat) : Rat := setBase old (some (old * f))

/-- a sequence of user actions on one beta: `some x` = set to x, `none`-free scaling is `scale f` -/
inductive BetaOp where
  | set (x : Rat)
  | scale (f : Rat)

def BetaOp.apply (v : Rat) : BetaOp → Rat
  | .set x => setBase v (some x)
  | .scale f => scaleBase v f

/-- what the user's actions DENOTE, independently of the code -/
def BetaOp.denote (v : Rat) : BetaOp → Rat
  | .set x => x
  | .scale f => v * f

/-! ### `SexualNetwork.net_beta` for arbitrary `acts·dt` (IEEE doubles, same source expression) -/

/-- the source expression of `SexualNetwork.net_beta`, evaluated in doubles with `Float.pow` -/
def netBetaSexualF (edgeBeta diseaseBeta acts dt : Float) : Float :=
  Gen.netBetaSexualG Float.pow edgeBeta diseaseBeta acts dt

/-! ### `set_outcomes` and the infection log -/

/-- new cases handed to `set_congenital` (age ≤ 0 at the time of the step) -/
def congenitalCases (age : Nat → Rat) (evs : List Event) : List Event :=
  evs.filter (fun e => Gen.isCongenital (age e.target))

/-- new cases handed to `set_prognoses` -/
def prognosisCases (age : Nat → Rat) (evs : List Event) : List Event :=
  evs.filter (fun e => !Gen.isCongenital (age e.target))

structure LogEntry where
  source : Nat
  target : Nat
  time : Rat
  deriving DecidableEq

/-- `Disease.set_prognoses` with `pars.log`: `log.add_entries(uids, sources, now)` appends one edge source→target keyed by the time -/
def logEntries (now : Rat) (evs : List Event) : List LogEntry :=
  evs.map (fun e => ⟨e.source, e.target, now⟩)

/-- what one `Infection.step` writes to the log of a disease whose `set_prognoses` logs and whose `set_congenital` does not -/
def stepLog (now : Rat) (age : Nat → Rat) (s : DState) (nets : List Net) : List LogEntry :=
  logEntries now (prognosisCases age (infect s nets))

end StarsimModel.Transmission
