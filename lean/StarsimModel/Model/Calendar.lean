/-
Proleptic-Gregorian calendar used by the time model (C07, DESIGN section 6).

Day numbers follow Python's `datetime.date.toordinal` (0001-01-01 is day 1), so the correspondence can compare
them with `datetime` directly.  `fromOrdinal` is CPython's `_ord2ymd` (400/100/4/1-year cycles) with the month
found by a scan of the cumulative table.  `yearToDate` / `dateToYear` are `sc.yeartodate` / `sc.datetoyear`;
`addMonths` is `date + dateutil.relativedelta(months=k)` (day clipped to the target month's length).
Core Lean only; years are naturals ≥ 1 (Python's MINYEAR).
-/
import StarsimModel.Model.F64

namespace StarsimModel.Calendar
open StarsimModel

/-- which behaviour a definition follows: the repaired specification or today's code (DESIGN 4.5) -/
inductive Variant | spec | asis
  deriving DecidableEq, Repr

def isLeap (y : Nat) : Bool := y % 4 == 0 && (y % 100 != 0 || y % 400 == 0)

def yearLen (y : Nat) : Nat := if isLeap y then 366 else 365

/-- length of month `m` in a leap / common year -/
def monthLenL (leap : Bool) (m : Nat) : Nat :=
  if m = 2 then (if leap then 29 else 28)
  else if m = 4 ∨ m = 6 ∨ m = 9 ∨ m = 11 then 30 else 31

def monthLen (y m : Nat) : Nat := monthLenL (isLeap y) m

/-- days of the year before the first of month `m` (1-based) -/
def daysBeforeMonth (leap : Bool) (m : Nat) : Nat :=
  (match m with
   | 1 => 0 | 2 => 31 | 3 => 59 | 4 => 90 | 5 => 120 | 6 => 151 | 7 => 181
   | 8 => 212 | 9 => 243 | 10 => 273 | 11 => 304 | 12 => 334 | _ => 365)
  + (if leap && decide (2 < m) then 1 else 0)

/-- days before 1 January of year `y` (`y ≥ 1`) -/
def daysBeforeYear (y : Nat) : Nat :=
  let p := y - 1
  365 * p + p / 4 - p / 100 + p / 400

structure Date where
  y : Nat
  m : Nat
  d : Nat
  deriving DecidableEq, Repr, Inhabited

def Date.valid (t : Date) : Bool :=
  decide (1 ≤ t.y) && decide (1 ≤ t.m) && decide (t.m ≤ 12) && decide (1 ≤ t.d) && decide (t.d ≤ monthLen t.y t.m)

/-- lexicographic order on (year, month, day) -/
def Date.lt (a b : Date) : Prop := a.y < b.y ∨ (a.y = b.y ∧ (a.m < b.m ∨ (a.m = b.m ∧ a.d < b.d)))

instance (a b : Date) : Decidable (Date.lt a b) := by unfold Date.lt; exact inferInstance

/-- `datetime.date.toordinal` -/
def toOrdinal (t : Date) : Nat := daysBeforeYear t.y + daysBeforeMonth (isLeap t.y) t.m + t.d

/-- (month, day) of the zero-based day of the year -/
def monthOfDoy (leap : Bool) (doy0 : Nat) : Nat × Nat :=
  let m := (List.range 12).foldl (fun acc i => if daysBeforeMonth leap (i + 1) ≤ doy0 then i + 1 else acc) 1
  (m, doy0 - daysBeforeMonth leap m + 1)

/-- `datetime.date.fromordinal` (CPython `_ord2ymd`) -/
def fromOrdinal (n : Nat) : Date :=
  let n0 := n - 1
  let n400 := n0 / 146097
  let r := n0 % 146097
  let n100 := r / 36524
  let r2 := r % 36524
  let n4 := r2 / 1461
  let r3 := r2 % 1461
  let n1 := r3 / 365
  let r4 := r3 % 365
  let year := 400 * n400 + 100 * n100 + 4 * n4 + n1 + 1
  if n1 = 4 ∨ n100 = 4 then ⟨year - 1, 12, 31⟩
  else
    let md := monthOfDoy (isLeap year) r4
    ⟨year, md.1, md.2⟩

def Date.addDays (t : Date) (k : Int) : Date := fromOrdinal ((toOrdinal t : Int) + k).toNat

/-- signed number of days from `a` to `b` -/
def Date.diffDays (b a : Date) : Int := (toOrdinal b : Int) - (toOrdinal a : Int)

/-- `date + relativedelta(months=k)`: the month index advances by `k`, the day is clipped -/
def addMonths (t : Date) (k : Nat) : Date :=
  let mi := t.y * 12 + (t.m - 1) + k
  let y := mi / 12
  let m := mi % 12 + 1
  ⟨y, m, min t.d (monthLen y m)⟩

/-- months since year 0 -/
def monthIndex (t : Date) : Nat := t.y * 12 + (t.m - 1)

/-- `sc.datetoyear`: year + (days since 1 January)/(length of the year) -/
def dateToYear (t : Date) : Rat :=
  (t.y : Rat) + (((toOrdinal t - toOrdinal ⟨t.y, 1, 1⟩ : Nat) : Rat) / (yearLen t.y : Rat))

/-- number of days after 1 January that `sc.yeartodate` adds: `round(remainder · yearlen)`.
    `spec`: exact arithmetic.  `asis`: the float computation (`year - int(year)`, one multiplication), which
    decides the rounding of values that are exactly half-way in decimal. -/
def yearToDays (v : Variant) (y : Rat) : Nat × Int :=
  match v with
  | .spec =>
      let full := y.floor.toNat
      (full, F64.rhe ((y - (full : Rat)) * (yearLen full : Rat)))
  | .asis =>
      let yf := F64.rd y
      let full := (F64.trunc yf).toNat
      (full, F64.rhe (F64.mul (F64.sub yf (full : Rat)) (yearLen full : Rat)))

/-- `sc.yeartodate` -/
def yearToDate (v : Variant) (y : Rat) : Date :=
  let (full, days) := yearToDays v y
  (Date.mk full 1 1).addDays days

def pad (w : Nat) (n : Nat) : String :=
  let s := toString n
  String.ofList (List.replicate (w - s.length) '0') ++ s

def Date.iso (t : Date) : String := s!"{pad 4 t.y}-{pad 2 t.m}-{pad 2 t.d}"

end StarsimModel.Calendar
