/-
Model of starsim's contact networks (starsim/networks.py) and of the part of `People` they interact with
(people.py: grow / step_die / remove_dead), for property C14.

* an edge table is a record of PARALLEL COLUMNS (`p1 p2 beta` + `dur` + `acts` + `start end` as the class's
  `keys` says); nothing forces the columns to have one length: `append` concatenates what it is given
  (error only for a missing required key, as `Network.append`), filters index every column with one mask;
* `removeUids` (Network.remove_uids), `endPairs` (DynamicNetwork.end_pairs: `dur -= dt`, keep `dur > 0` with both
  endpoints alive), maternal `matStep` / `matEndPairs` / `matAddPairs`;
* `addPairs` per network class.  Every random draw is a PARAMETER (`Choice`) about which nothing is assumed
  except its shape, which the model checks (`Err.badChoice`): RandomNet's `target` must be a permutation of
  `source`; MFNet's draw must be a duplicate-free selection from the larger available group; EmbeddingNet's
  assignment two duplicate-free selections of equal length; ErdosRenyiNet / DiskNet / StaticNet index pairs
  must be in range.  Durations / acts are arbitrary functions of the new edge's position.
* `Variant.asis` is what ErdosRenyiNet.add_pairs and DiskNet.add_pairs do today (the index pairs ARE the
  endpoints); `Variant.spec` maps the indices through the array they index (`born_uids[idx]`, `auids[idx]`).

Totality: mask filters truncate on ragged tables where NumPy would raise; ragged tables are exactly what
`Table.WF` excludes and what `C14_columns_equal_length` proves unreachable.
Core Lean only (the driver interprets this file).
-/
namespace StarsimModel.Network

inductive Err where
  | keyMissing      -- Network.append: required key absent (KeyError)
  | badChoice       -- a supplied random choice does not have the shape the sampler guarantees
  | contract        -- a caller-side contract of MaternalNet.add_pairs is not met (ragged / inactive input)
  deriving DecidableEq, Repr

inductive Variant where
  | spec | asis
  deriving DecidableEq, Repr

/-! ### Columns and masks -/

/-- `col[mask]` for a boolean mask (NumPy boolean indexing; truncating on a length mismatch). -/
def maskFilter {α : Type} : List Bool → List α → List α
  | true :: m, x :: xs => x :: maskFilter m xs
  | false :: m, _ :: xs => maskFilter m xs
  | _, _ => []

/-- mask computed row-wise from three columns -/
def mask3 {α : Type} (f : α → Nat → Nat → Bool) : List α → List Nat → List Nat → List Bool
  | d :: ds, a :: as, b :: bs => f d a b :: mask3 f ds as bs
  | _, _, _ => []

/-- Which optional columns the class declares (`keys`): DynamicNetwork adds `dur`, SexualNetwork `acts`,
    MaternalNet `start` and `end`. -/
structure Meta where
  dur : Bool
  acts : Bool
  se : Bool
  deriving DecidableEq, Repr

structure Table where
  keys : Meta
  p1 : List Nat
  p2 : List Nat
  beta : List Rat
  dur : List Rat
  acts : List Rat
  start : List Rat
  stop : List Rat     -- the `end` column
  deriving Repr

def Table.empty (m : Meta) : Table :=
  { keys := m, p1 := [], p2 := [], beta := [], dur := [], acts := [], start := [], stop := [] }

/-- required length of an optional column -/
def colLen (flag : Bool) (n : Nat) : Nat := if flag then n else 0

/-- Every declared column has the length of `p1` (what `Network.validate` checks; undeclared columns are empty). -/
def Table.WF (t : Table) : Prop :=
  t.p2.length = t.p1.length ∧ t.beta.length = t.p1.length ∧
  t.dur.length = colLen t.keys.dur t.p1.length ∧ t.acts.length = colLen t.keys.acts t.p1.length ∧
  t.start.length = colLen t.keys.se t.p1.length ∧ t.stop.length = colLen t.keys.se t.p1.length

instance (t : Table) : Decidable t.WF := by unfold Table.WF; exact inferInstance

/-- index every column with one mask (`for k in meta_keys: edges[k] = edges[k][mask]`) -/
def Table.mask (t : Table) (m : List Bool) : Table :=
  { t with p1 := maskFilter m t.p1, p2 := maskFilter m t.p2, beta := maskFilter m t.beta,
           dur := maskFilter m t.dur, acts := maskFilter m t.acts,
           start := maskFilter m t.start, stop := maskFilter m t.stop }

def Table.endpoints (t : Table) : List Nat := t.p1 ++ t.p2

/-- New columns handed to `append` (a Python dict: any key may be absent). -/
structure Cols where
  p1 : Option (List Nat) := none
  p2 : Option (List Nat) := none
  beta : Option (List Rat) := none
  dur : Option (List Rat) := none
  acts : Option (List Rat) := none
  start : Option (List Rat) := none
  stop : Option (List Rat) := none

/-- a key that `keys` does not declare is ignored; a declared one must be present -/
def need (flag : Bool) (o : Option (List Rat)) : Option (List Rat) := if flag then o else some []

/-- `Network.append`: for every key of `keys`, concatenate; `KeyError` if the key is missing.  No length check. -/
def Table.append (t : Table) (c : Cols) : Except Err Table :=
  match c.p1, c.p2, c.beta, need t.keys.dur c.dur, need t.keys.acts c.acts, need t.keys.se c.start,
        need t.keys.se c.stop with
  | some a, some b, some be, some d, some ac, some st, some sp =>
      .ok { t with p1 := t.p1 ++ a, p2 := t.p2 ++ b, beta := t.beta ++ be, dur := t.dur ++ d,
                   acts := t.acts ++ ac, start := t.start ++ st, stop := t.stop ++ sp }
  | _, _, _, _, _, _, _ => .error .keyMissing

/-- `Network.remove_uids`: `keep = ~(isin(p1, uids) | isin(p2, uids))` -/
def Table.removeUids (t : Table) (uids : List Nat) : Table :=
  t.mask (List.zipWith (fun a b => !(uids.contains a || uids.contains b)) t.p1 t.p2)

/-- `DynamicNetwork.end_pairs`: `dur = dur - dt`; keep `(dur > 0) & alive[p1] & alive[p2]`.
    `alivePair = false` is the regression "without the alive filter" (never used by the theorems). -/
def Table.endPairs (t : Table) (dt : Rat) (alive : Nat → Bool) : Table :=
  let dur' := t.dur.map (· - dt)
  { t with dur := dur' }.mask (mask3 (fun d a b => decide (0 < d) && alive a && alive b) dur' t.p1 t.p2)

/-- `MaternalNet.step`: `beta[end <= ti] = 0` -/
def Table.matStep (t : Table) (ti : Rat) : Table :=
  { t with beta := List.zipWith (fun e b => if e ≤ ti then 0 else b) t.stop t.beta }

/-- `MaternalNet.end_pairs`: keep `(end > ti) & alive[p1] & alive[p2]` -/
def Table.matEndPairs (t : Table) (ti : Rat) (alive : Nat → Bool) : Table :=
  t.mask (mask3 (fun e a b => decide (ti < e) && alive a && alive b) t.stop t.p1 t.p2)

/-- `MaternalNet.add_pairs(mother_inds, unborn_inds, dur, start)`: `beta = ones(len(mothers))`, `end = start + dur` -/
def Table.matAddPairs (t : Table) (mothers unborn : List Nat) (durs starts : List Rat) : Except Err Table :=
  t.append { p1 := some mothers, p2 := some unborn, beta := some (List.replicate mothers.length 1),
             dur := some durs, start := some starts, stop := some (List.zipWith (· + ·) starts durs) }

/-! ### People, as far as networks see them -/

structure Pop where
  nUids : Nat               -- number of uids ever created (`people.uid.len_used`)
  auids : List Nat          -- `people.auids`
  alive : Nat → Bool        -- `people.alive.raw`
  female : Nat → Bool
  age : Nat → Rat

/-- `People.grow(k)`: uids `nUids … nUids+k-1`, alive, appended to `auids`; sex and age as supplied -/
def Pop.grow (p : Pop) (k : Nat) (female : Nat → Bool) (age : Nat → Rat) : Pop :=
  { nUids := p.nUids + k,
    auids := p.auids ++ (List.range k).map (· + p.nUids),
    alive := fun u => if p.nUids ≤ u ∧ u < p.nUids + k then true else p.alive u,
    female := fun u => if p.nUids ≤ u ∧ u < p.nUids + k then female u else p.female u,
    age := fun u => if p.nUids ≤ u ∧ u < p.nUids + k then age u else p.age u }

/-- `People.step_die`: `alive[death_uids] = False` -/
def Pop.die (p : Pop) (uids : List Nat) : Pop :=
  { p with alive := fun u => if uids.contains u then false else p.alive u }

/-- `people.dead.uids` -/
def Pop.deadUids (p : Pop) : List Nat := p.auids.filter (fun u => !p.alive u)

/-- the `auids` update of `People.remove_dead` -/
def Pop.dropDead (p : Pop) : Pop :=
  { p with auids := p.auids.filter (fun u => !(p.deadUids.contains u)) }

/-! ### Network classes -/

inductive Kind where
  | static | random | erdos | disk | null | mf | msm | embedding | maternal
  /-- RandomNet whose `n_contacts` is a plain number stored on the parameter object (the `else` branch of
      `RandomNet.add_pairs`: `np.ones(len(people)) * n_contacts`) -/
  | randomPlain
  deriving DecidableEq, Repr

def Kind.keys : Kind → Meta
  | .static | .disk | .null => ⟨false, false, false⟩
  | .random | .erdos | .randomPlain => ⟨true, false, false⟩
  | .mf | .msm | .embedding => ⟨true, true, false⟩
  | .maternal => ⟨true, false, true⟩

/-- partnership networks (SexualNetwork subclasses) -/
def Kind.partnership : Kind → Bool
  | .mf | .msm | .embedding => true
  | _ => false

structure Net where
  kind : Kind
  variant : Variant
  table : Table
  participant : Nat → Bool
  debut : Nat → Rat

def Net.new (k : Kind) (v : Variant) : Net :=
  { kind := k, variant := v, table := Table.empty k.keys, participant := fun _ => false, debut := fun _ => 0 }

/-- Everything random or externally supplied that one `step` / `init_post` of a network consumes. -/
structure Choice where
  nOf : Nat → Nat := fun _ => 0            -- RandomNet: rounded half-contact count per uid
  target : List Nat := []                 -- RandomNet: `rng.permutation(source)`
  pairs : List (Nat × Nat) := []          -- ErdosRenyi / Disk / Static: selected index pairs
  pick : List Nat := []                   -- MFNet: `choice(larger group, n, replace=False)`; Embedding: males
  pick2 : List Nat := []                  -- Embedding: females (linear_sum_assignment columns)
  counts : List Nat := []                 -- RandomNet, plain-number n_contacts: rounded half-contacts per POSITION in `people`
  durAt : Nat → Rat := fun _ => 0         -- duration of the i-th new edge
  actsAt : Nat → Rat := fun _ => 0
  participant : Nat → Bool := fun _ => false   -- network states after set_network_states
  debut : Nat → Rat := fun _ => 0

/-- the non-endpoint columns of `n` new edges -/
def mkCols (p1 p2 : List Nat) (c : Choice) : Cols :=
  { p1 := some p1, p2 := some p2, beta := some (List.replicate p1.length 1),
    dur := some ((List.range p1.length).map c.durAt), acts := some ((List.range p1.length).map c.actsAt) }

/-- `SexualNetwork.active`: participant & (age > debut) & alive -/
def Net.active (n : Net) (p : Pop) (u : Nat) : Bool :=
  n.participant u && decide (n.debut u < p.age u) && p.alive u

/-- `SexualNetwork.available(people, sex)`: `people[sex] & active`, minus everybody in an edge; `.uids` -/
def Net.available (n : Net) (p : Pop) (wantFemale : Bool) : List Nat :=
  p.auids.filter (fun u => (p.female u == wantFemale) && n.active p u &&
    !(n.table.p1.contains u) && !(n.table.p2.contains u))

/-- `RandomNet.get_source`: each agent repeated `n_i` times -/
def randomSource (born : List Nat) (nOf : Nat → Nat) : List Nat :=
  born.flatMap (fun u => List.replicate (nOf u) u)

/-- `get_source(born.uids, number_of_contacts)` when `number_of_contacts` has one entry per active agent:
    `asis` leaves the slots of the entries beyond `len(born)` at their initial value 0; `spec` has no such slots -/
def plainSource (v : Variant) (born : List Nat) (counts : List Nat) : List Nat :=
  let head := ((counts.take born.length).zip born).flatMap (fun ku => List.replicate ku.1 ku.2)
  match v with
  | .spec => head
  | .asis => head ++ List.replicate (counts.drop born.length).sum 0

/-- decidable "is a permutation" -/
def isPerm (a b : List Nat) : Bool :=
  a.all (fun x => a.count x == b.count x) && b.all (fun x => a.count x == b.count x)

def allIn (l s : List Nat) : Bool := l.all (fun x => s.contains x)

def nodupB : List Nat → Bool
  | [] => true
  | x :: xs => !(xs.contains x) && nodupB xs

def pairsOK (pairs : List (Nat × Nat)) (n : Nat) : Bool := pairs.all (fun ij => decide (ij.1 < ij.2 ∧ ij.2 < n))

/-- index pairs → endpoints: `asis` uses the indices themselves, `spec` the array they index -/
def resolve (v : Variant) (arr : List Nat) (i : Nat) : Nat :=
  match v with
  | .asis => i
  | .spec => arr.getD i 0

/-- The new edges of `add_pairs` for each class (`none`: the class adds nothing here). -/
def Net.newPairs (n : Net) (p : Pop) (c : Choice) : Except Err (Option (List Nat × List Nat)) :=
  match n.kind with
  | .static | .null | .maternal => .ok none
  | .random =>
      -- born = alive & (age > 0)
      let born := p.auids.filter (fun u => p.alive u && decide (0 < p.age u))
      let source := randomSource born c.nOf
      if isPerm c.target source then .ok (some (source, c.target)) else .error .badChoice
  | .randomPlain =>
      -- number_of_contacts has one entry per ACTIVE agent (`len(people)`), but `get_source` walks over `born.uids` only:
      -- `source` has `sum(number_of_contacts)` slots, the first ones filled agent by agent, the rest left at 0.
      let born := p.auids.filter (fun u => p.alive u && decide (0 < p.age u))
      if c.counts.length = p.auids.length then
        if isPerm c.target (plainSource n.variant born c.counts) then .ok (some (plainSource n.variant born c.counts, c.target))
        else .error .badChoice
      else .error .badChoice
  | .erdos =>
      -- born_uids = (age > 0).uids
      let born := p.auids.filter (fun u => decide (0 < p.age u))
      if pairsOK c.pairs born.length then
        .ok (some (c.pairs.map (fun ij => resolve n.variant born ij.1), c.pairs.map (fun ij => resolve n.variant born ij.2)))
      else .error .badChoice
  | .disk =>
      if pairsOK c.pairs p.auids.length then
        .ok (some (c.pairs.map (fun ij => resolve n.variant p.auids ij.1), c.pairs.map (fun ij => resolve n.variant p.auids ij.2)))
      else .error .badChoice
  | .mf =>
      let am := n.available p false
      let af := n.available p true
      if am.length ≤ af.length then
        if nodupB c.pick && allIn c.pick af && c.pick.length == am.length then .ok (some (am, c.pick)) else .error .badChoice
      else
        if nodupB c.pick && allIn c.pick am && c.pick.length == af.length then .ok (some (c.pick, af)) else .error .badChoice
  | .embedding =>
      let am := n.available p false
      let af := n.available p true
      if am.isEmpty || af.isEmpty then .ok none
      else if nodupB c.pick && allIn c.pick am && nodupB c.pick2 && allIn c.pick2 af && c.pick.length == c.pick2.length then
        .ok (some (c.pick, c.pick2))
      else .error .badChoice
  | .msm =>
      let am := n.available p false
      let k := am.length / 2
      .ok (some (am.take k, (am.drop k).take k))

/-- `add_pairs`: append the new edges (DiskNet overwrites its three columns instead). -/
def Net.addPairs (n : Net) (p : Pop) (c : Choice) : Except Err Net :=
  match n.newPairs p c with
  | .error e => .error e
  | .ok none => .ok n
  | .ok (some (a, b)) =>
      if n.kind = .disk then
        .ok { n with table := { n.table with p1 := a, p2 := b, beta := List.replicate a.length 1 } }
      else
        match n.table.append (mkCols a b c) with
        | .ok t => .ok { n with table := t }
        | .error e => .error e

/-- `network.step()` -/
def Net.step (n : Net) (p : Pop) (dt ti : Rat) (c : Choice) : Except Err Net :=
  match n.kind with
  | .static | .null => .ok n
  | .maternal => .ok { n with table := n.table.matStep ti }
  | .random | .erdos | .randomPlain => { n with table := n.table.endPairs dt p.alive }.addPairs p c
  | .disk => n.addPairs p c
  | .mf | .msm | .embedding =>
      { n with table := n.table.endPairs dt p.alive, participant := c.participant, debut := c.debut }.addPairs p c

/-- `init_post`: set the network states, then `add_pairs` (StaticNet / NullNet: the fixed graph) -/
def Net.init (n : Net) (p : Pop) (c : Choice) : Except Err Net :=
  match n.kind with
  | .static =>
      -- graph on nodes `0 … n_agents-1`
      if c.pairs.all (fun ij => decide (ij.1 < p.nUids ∧ ij.2 < p.nUids)) then
        match n.table.append { p1 := some (c.pairs.map (·.1)), p2 := some (c.pairs.map (·.2)),
                               beta := some (List.replicate c.pairs.length 1) } with
        | .ok t => .ok { n with table := t }
        | .error e => .error e
      else .error .badChoice
  | .null =>
      match n.table.append { p1 := some (List.range p.nUids), p2 := some (List.range p.nUids),
                             beta := some (List.replicate p.nUids 0) } with
      | .ok t => .ok { n with table := t }
      | .error e => .error e
  | .maternal => .ok n
  | _ => { n with participant := c.participant, debut := c.debut }.addPairs p c

/-! ### Histories -/

structure World where
  pop : Pop
  net : Net

inductive Op where
  | grow (k : Nat) (female : Nat → Bool) (age : Nat → Rat)     -- births, embryos
  | die (uids : List Nat)                                      -- People.step_die
  | removeDead                                                 -- People.remove_dead
  | setAge (age : Nat → Rat)                                   -- ageing (any change of ages)
  | netStep (dt ti : Rat) (c : Choice)                         -- network.step
  | matAdd (mothers unborn : List Nat) (durs starts : List Rat) -- MaternalNet.add_pairs from Pregnancy
  | matEnd (ti : Rat)                                          -- MaternalNet.end_pairs from Pregnancy

def Op.isRemoveDead : Op → Bool
  | .removeDead => true
  | _ => false

def World.step (w : World) : Op → Except Err World
  | .grow k f a => .ok { w with pop := w.pop.grow k f a }
  | .die uids => .ok { w with pop := w.pop.die uids }
  | .removeDead =>
      -- `if len(uids):` remove them from every network, then from auids
      .ok { pop := w.pop.dropDead, net := { w.net with table := w.net.table.removeUids w.pop.deadUids } }
  | .setAge a => .ok { w with pop := { w.pop with age := a } }
  | .netStep dt ti c =>
      match w.net.step w.pop dt ti c with
      | .ok n => .ok { w with net := n }
      | .error e => .error e
  | .matAdd mothers unborn durs starts =>
      if w.net.kind = .maternal ∧ unborn.length = mothers.length ∧ durs.length = mothers.length ∧
         starts.length = mothers.length ∧ allIn mothers w.pop.auids ∧ allIn unborn w.pop.auids then
        match w.net.table.matAddPairs mothers unborn durs starts with
        | .ok t => .ok { w with net := { w.net with table := t } }
        | .error e => .error e
      else .error .contract
  | .matEnd ti =>
      if w.net.kind = .maternal then .ok { w with net := { w.net with table := w.net.table.matEndPairs ti w.pop.alive } }
      else .error .contract

def World.run (w : World) : List Op → Except Err World
  | [] => .ok w
  | op :: ops => match w.step op with
      | .ok w' => w'.run ops
      | .error e => .error e

/-- a fresh population of `n` agents and a network initialised on it -/
def Pop.fresh (n : Nat) (female : Nat → Bool) (age : Nat → Rat) : Pop :=
  { nUids := n, auids := List.range n, alive := fun u => decide (u < n), female := female, age := age }

def World.init (n : Nat) (female : Nat → Bool) (age : Nat → Rat) (k : Kind) (v : Variant) (c : Choice) : Except Err World :=
  let p := Pop.fresh n female age
  match (Net.new k v).init p c with
  | .ok net => .ok { pop := p, net := net }
  | .error e => .error e

/-! ### Mixing pools: Routes that are not Networks but are told about removed agents all the same -/

/-- insertion into a sorted duplicate-free list -/
def insertSorted (x : Nat) : List Nat → List Nat
  | [] => [x]
  | y :: ys => if x < y then x :: y :: ys else if x = y then y :: ys else y :: insertSorted x ys

/-- `uids.remove(other)` = `np.setdiff1d(self, other)`: the sorted, duplicate-free members not in `other` -/
def setdiff (l uids : List Nat) : List Nat :=
  (l.filter (fun u => !uids.contains u)).foldr insertSorted []

/-- the explicit-uid `src` / `dst` groups of a MixingPool (or of every pool of a MixingPools) -/
structure Pool where
  groups : List (List Nat)

/-- `MixingPool.remove_uids` / `MixingPools.remove_uids` -/
def Pool.removeUids (q : Pool) (uids : List Nat) : Pool := { groups := q.groups.map (setdiff · uids) }

structure PoolWorld where
  pop : Pop
  pool : Pool

/-- the population operations as a pool sees them (`remove_dead` calls `remove_uids` on every Route in `sim.networks`) -/
def PoolWorld.step (w : PoolWorld) : Op → PoolWorld
  | .grow k f a => { w with pop := w.pop.grow k f a }
  | .die uids => { w with pop := w.pop.die uids }
  | .removeDead => { pop := w.pop.dropDead, pool := w.pool.removeUids w.pop.deadUids }
  | .setAge a => { w with pop := { w.pop with age := a } }
  | _ => w

def PoolWorld.run (w : PoolWorld) (ops : List Op) : PoolWorld := ops.foldl PoolWorld.step w

/-! ### Row view of a dynamic table (used to state how long an edge lives) -/

/-- the rows `(p1, p2, dur)` of a table -/
def Table.rows (t : Table) : List (Nat × Nat × Rat) := t.p1.zip (t.p2.zip t.dur)

/-- what `end_pairs` does to one row -/
def ageRow (dt : Rat) (alive : Nat → Bool) (r : Nat × Nat × Rat) : Option (Nat × Nat × Rat) :=
  if (decide (0 < r.2.2 - dt) && alive r.1 && alive r.2.1) = true then some (r.1, r.2.1, r.2.2 - dt) else none

/-- `k` successive `end_pairs` on one row -/
def ageRowN (dt : Rat) (alive : Nat → Bool) : Nat → Nat × Nat × Rat → Option (Nat × Nat × Rat)
  | 0, r => some r
  | k + 1, r => (ageRowN dt alive k r).bind (ageRow dt alive)

/-- successive `end_pairs` on one row, the `i`-th seeing the living agents `als[i]` -/
def ageRowL (dt : Rat) : List (Nat → Bool) → Nat × Nat × Rat → Option (Nat × Nat × Rat)
  | [], r => some r
  | al :: als, r => (ageRow dt al r).bind (ageRowL dt als)

/-- the rows of a dynamic network after a sequence of its own `step()`s (`dt` = the NETWORK's timestep): each step
    `(alive, new)` keeps the survivors of `end_pairs` and then appends `new` -/
def runRowsL (dt : Rat) (rows : List (Nat × Nat × Rat)) :
    List ((Nat → Bool) × List (Nat × Nat × Rat)) → List (Nat × Nat × Rat)
  | [] => rows
  | (al, new) :: rest => runRowsL dt (rows.filterMap (ageRow dt al) ++ new) rest

/-! ### Stated durations: from the duration PARAMETER of a class to the `dur` column of its new edges -/

/-- What a class's duration parameter (`pars.dur` of RandomNet / ErdosRenyiNet, `pars.duration` of MFNet / MSMNet /
    EmbeddingNet) says about the edges of one `add_pairs` call: a plain number in the NETWORK's time unit is repeated for
    every new edge (`np.ones(len(p1)) * pars.dur`), a distribution is drawn once per new edge (`pars.dur.rvs(p1)`: the
    i-th new edge gets the i-th draw).  Nothing else happens to the value between the parameter and the column. -/
inductive DurPar where
  | plain (d : Rat)
  | drawn (draws : List Rat)

/-- stated duration of the `i`-th new edge -/
def DurPar.durAt : DurPar → Nat → Rat
  | .plain d, _ => d
  | .drawn ds, i => ds.getD i 0

/-- the `dur` column of `n` new edges (`none`: a draw whose length is not the number of new edges) -/
def DurPar.column : DurPar → Nat → Option (List Rat)
  | .plain d, n => some (List.replicate n d)
  | .drawn ds, n => if ds.length = n then some ds else none

/-- A duration given as a TIME PARAMETER (`ss.dur(D)`, `ss.years(D)`): the number that `np.ones(len(p1)) * pars.dur`
    multiplies is the parameter's value in TIMESTEPS of the network, `D / dt`. -/
def timeparValue (D dt : Rat) : Rat := D / dt

/-- What one update subtracts from a duration counted in timesteps: `asis` — `dt`, as for every other duration
    (`DynamicNetwork.end_pairs`: `dur = dur - self.t.dt`, whatever the form of the parameter); `spec` — one timestep. -/
def stepsCountdown (v : Variant) (dt : Rat) : Rat :=
  match v with
  | .asis => dt
  | .spec => 1

/-- the random choice of a step, its durations being those the duration parameter states -/
def Choice.withDur (c : Choice) (s : DurPar) : Choice := { c with durAt := s.durAt }

/-- `add_pairs` of a class whose duration parameter states `s`; a draw of the wrong shape is rejected -/
def Net.addPairsStated (n : Net) (p : Pop) (c : Choice) (s : DurPar) : Except Err Net :=
  match n.newPairs p c with
  | .ok (some (a, _)) =>
      match s.column a.length with
      | some _ => n.addPairs p (c.withDur s)
      | none => .error .badChoice
  | _ => n.addPairs p (c.withDur s)

/-- `network.step()` of a duration-carrying class with stated durations `s`: `end_pairs`, then `add_pairs` -/
def Net.stepStated (n : Net) (p : Pop) (dt : Rat) (c : Choice) (s : DurPar) : Except Err Net :=
  match n.kind with
  | .random | .erdos | .randomPlain => { n with table := n.table.endPairs dt p.alive }.addPairsStated p c s
  | .mf | .msm | .embedding =>
      { n with table := n.table.endPairs dt p.alive, participant := c.participant, debut := c.debut }.addPairsStated p c s
  | _ => .error .contract

/-- `MaternalNet.add_pairs(mothers, unborn, dur, start=None)`: `start` defaults to the network's `ti` for every new edge -/
def Table.matAddPairsAt (t : Table) (mothers unborn : List Nat) (durs : List Rat) (starts : Option (List Rat)) (ti : Rat) :
    Except Err Table :=
  t.matAddPairs mothers unborn durs (starts.getD (durs.map (fun _ => ti)))

/-! ### Invariants as executable checks (used by the driver on OBSERVED tables) -/

def Table.wfB (t : Table) : Bool := decide t.WF

def Table.endpointsIn (t : Table) (s : List Nat) : Bool := allIn t.endpoints s

/-- no agent in two concurrent edges -/
def Table.monogamous (t : Table) : Bool := nodupB t.endpoints

/-- the observable part of a world (for examples and the driver) -/
structure Summary where
  auids : List Nat
  p1 : List Nat
  p2 : List Nat
  beta : List Rat
  dur : List Rat
  stop : List Rat
  wf : Bool
  deriving DecidableEq, Repr

def World.summary (w : World) : Summary :=
  { auids := w.pop.auids, p1 := w.net.table.p1, p2 := w.net.table.p2, beta := w.net.table.beta,
    dur := w.net.table.dur, stop := w.net.table.stop, wf := w.net.table.wfB }

instance : DecidableEq (Except Err Summary) := fun a b =>
  match a, b with
  | .ok x, .ok y => if h : x = y then isTrue (by rw [h]) else isFalse (by intro e; cases e; exact h rfl)
  | .error x, .error y => if h : x = y then isTrue (by rw [h]) else isFalse (by intro e; cases e; exact h rfl)
  | .ok _, .error _ => isFalse (by intro e; cases e)
  | .error _, .ok _ => isFalse (by intro e; cases e)

/-- initialise, run a history, summarise -/
def simulate (n : Nat) (female : Nat → Bool) (age : Nat → Rat) (k : Kind) (v : Variant) (c : Choice) (ops : List Op) :
    Except Err Summary :=
  match World.init n female age k v c with
  | .error e => .error e
  | .ok w => match w.run ops with
    | .error e => .error e
    | .ok w' => .ok w'.summary

end StarsimModel.Network
