/-
C13 — operations on scheduled times used by the generated timer models (Generated/Disease_<name>.lean).
A timer is `Option Rat` (`none` = nan: nothing scheduled).  Core Lean only.
-/
namespace StarsimModel.TimerOps

/-- `a + b` on timers: nan propagates -/
def oadd (a b : Option Rat) : Option Rat :=
  match a, b with
  | some x, some y => some (x + y)
  | _, _ => none

/-- `a ≤ b` whenever both are scheduled (a comparison with nan constrains nothing) -/
def leOpt (a b : Option Rat) : Bool :=
  match a, b with
  | some x, some y => decide (x ≤ y)
  | _, _ => true

/-! ### Two clocks (round 3)

A module may be given its own timestep.  Its step index (`self.ti`) and the simulation's (`sim.ti`) are then different
clocks.  The simulation's index advances at the END of each simulation step, so a module that makes `r ≥ 1` steps per
simulation step sees the simulation index `0` during its step `0` and the index `k ≥ 1` during its steps
`r(k-1)+1 … rk`; a module that makes one step every `c ≥ 1` simulation steps makes its step `j` while the simulation is
at step `c·j` (and its index reads `j` from simulation step `c(j-1)+1` on).  (These relations are compared with the real loop on every run: driver ops `finer` / `coarser`.) -/

/-- first and last module step index seen while the simulation index is `k` (module `r` times finer) -/
def moduleIndexRange (r k : Nat) : Nat × Nat :=
  if k = 0 then (0, 0) else (r * (k - 1) + 1, r * k)

/-- simulation index during the module's OWN step `j` (its `step_state` / transmission), module `c` times coarser -/
def simIndexCoarse (c j : Nat) : Nat := c * j

/-- first and last simulation index at which the index of a module `c` times coarser READS `j`: the module's index advances
    at the end of its own step, so calls made on the simulation's clock in between (`People.step_die` → `disease.step_die`)
    see `j` during the simulation steps `c(j-1)+1 … cj` -/
def simIndexRangeCoarse (c j : Nat) : Nat × Nat :=
  if j = 0 then (0, 0) else (c * (j - 1) + 1, c * j)

end StarsimModel.TimerOps
