/-
C13 — operations on scheduled times used by the generated timer models (Generated/Disease_<name>.lean).
A timer is `Option Rat` (`none` = nan: nothing scheduled).  Core Lean only.
-/
namespace StarsimModel.TimerOps

/-- `a + b` on timers: nan propagates -/
def oadd (a b : Option Rat) : Option Rat :=
  match a, b with
  | some x, some y => some (x + y)
  | _, _ => none

/-- `a ≤ b` whenever both are scheduled (a comparison with nan constrains nothing) -/
def leOpt (a b : Option Rat) : Bool :=
  match a, b with
  | some x, some y => decide (x ≤ y)
  | _, _ => true

end StarsimModel.TimerOps
