/-
C17 (round 6) — the timeline arguments of a MODULE (`unit`, `dt`) as resolved by the head of `Time.init(sim)`:
`self.unit = validate_unit(self.unit)` maps the supplied unit NAME through `unit_mapping` (KeyNotFoundError for a non-name), then the
block `if isinstance(sim, ss.Sim)` fills what was not supplied from the sim: the unit, and the sim's `dt` when the module's unit IS the
sim's unit (otherwise a fixed fallback).  The statement order is regenerated (Generated/ParsModTime.lean).  Core Lean only.
-/
import StarsimModel.Model.ParsTime
namespace StarsimModel.ParsModTime
open StarsimModel.ParsTime

/-- the statements at the head of `Time.init`, in source order -/
inductive InitStep where
  | normalizeUnit     -- `self.unit = validate_unit(self.unit)`
  | inheritFromSim    -- `if isinstance(sim, ss.Sim): unit := ifelse(unit, sim unit); dt := ifelse(dt, sim dt if units equal else fallback)`
  deriving DecidableEq, Repr

/-- what the user supplied for a module: a unit name (or nothing) and a dt (or nothing) -/
structure MT where
  unit : UVal
  dt : Option Rat
  deriving DecidableEq, Repr

/-- the initialised sim timeline (its unit is canonical: `SimPars.validate_time`) -/
structure ST where
  unit : UVal
  dt : Rat
  deriving DecidableEq, Repr

inductive Res where
  | ok (m : MT)
  | err (e : Err)
  deriving DecidableEq, Repr

/-- `sc.ifelse(a, b)`: the first that is not None -/
def ifelse (a b : UVal) : UVal := match a with | some x => some x | none => b

def step (T : List (UVal × List UVal)) (fallback : Rat) (s : ST) : InitStep → MT → Res
  | .normalizeUnit, m =>
      match lookup T m.unit with
      | some c => .ok { m with unit := c }
      | none => .err .keyNotFound
  | .inheritFromSim, m =>
      let u := ifelse m.unit s.unit
      let simDt := if u = s.unit then s.dt else fallback
      .ok { unit := u, dt := some (m.dt.getD simDt) }

def timeInit (T : List (UVal × List UVal)) (fallback : Rat) (s : ST) : List InitStep → MT → Res
  | [], m => .ok m
  | st :: rest, m =>
      match step T fallback s st m with
      | .ok m' => timeInit T fallback s rest m'
      | .err e => .err e

end StarsimModel.ParsModTime
