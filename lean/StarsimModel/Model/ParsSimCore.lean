/-
C17 (round 4) — vocabulary of the sim-level shortcut expansion (`SimPars.validate_demographics`), shared by the regenerated
step list (Generated/ParsSimLevel.lean) and the model (Model/ParsSim.lean).  Core Lean only.
-/
namespace StarsimModel.ParsSim

/-- statements of `SimPars.validate_demographics`, in source order -/
inductive DStep where
  | trueShortcut     -- `demographics=True` → [Births() unless birth_rate given, Deaths() unless death_rate given]
  | computeValid     -- valid = demographics is an EMPTY ndict (at this point of the method)
  | birthShortcut    -- birth_rate given: raise unless valid; demographics += Births(birth_rate=birth_rate)
  | deathShortcut    -- death_rate given: raise unless valid; demographics += Deaths(death_rate=death_rate)
  | deriveAging      -- use_aging None → agents age iff demographics is non-empty (at this point of the method)
  deriving DecidableEq, Repr

end StarsimModel.ParsSim
