/-
C17 (round 5) — the fields of a time parameter given in list / dict form: `Pars._update_timepar` calls `old.set(*list)` /
`old.set(**dict)`; `TimePar.set` stores the given fields, recomputes the cached factor when the parameter is live, and
`validate_units` maps every unit NAME through `unit_mapping` (built from `unit_mapping_reverse`) or raises ValueError.
The statement lists, the validated fields and the name table are regenerated (Generated/ParsTimePar.lean).  Core Lean only.
-/
import StarsimModel.Model.ParsTimeCore
namespace StarsimModel.ParsTime

inductive Err where
  | value | keyNotFound | type
  deriving DecidableEq, Repr

/-- a unit value: `none` = Python `None` ("not set: inherit the parent's unit"), `some s` = any hashable value, rendered -/
abbrev UVal := Option String

/-- `unit_mapping = {v:k for k,vlist in unit_mapping_reverse.items() for v in vlist}` — a later item wins -/
def lookup : List (UVal × List UVal) → UVal → Option UVal
  | [], _ => none
  | (k, ns) :: rest, u =>
    match lookup rest u with
    | some c => some c
    | none => if u ∈ ns then some k else none

structure TP where
  v : Int
  unit : UVal
  parentUnit : UVal
  parentDt : Option Int
  selfDt : Option Int
  initialized : Bool
  deriving DecidableEq, Repr

/-- the arguments of `set()`; `none` = not given (Python: `None`, "ignoring None values") -/
structure Args where
  v : Option Int := none
  unit : UVal := none
  parentUnit : UVal := none
  parentDt : Option Int := none
  selfDt : Option Int := none
  force : Bool := false
  deriving DecidableEq, Repr

def assignField (f : Field) (a : Args) (st : TP) : TP :=
  match f with
  | .v => match a.v with | some x => { st with v := x } | none => st
  | .unit => match a.unit with | some x => { st with unit := some x } | none => st
  | .parentUnit => match a.parentUnit with | some x => { st with parentUnit := some x } | none => st
  | .parentDt => match a.parentDt with | some x => { st with parentDt := some x } | none => st
  | .selfDt => match a.selfDt with | some x => { st with selfDt := some x } | none => st

def storeField (f : Field) (a : Args) (st : TP) : TP :=
  match f with
  | .v => { st with v := a.v.getD 0 }      -- `v` is a required argument of the constructor
  | .unit => { st with unit := a.unit }
  | .parentUnit => { st with parentUnit := a.parentUnit }
  | .parentDt => { st with parentDt := a.parentDt }
  | .selfDt => { st with selfDt := a.selfDt }

/-- names listed under `'unitless'` (`is_unitless`) -/
def unitlessNames (tbl : List (UVal × List UVal)) : List UVal :=
  ((tbl.find? (fun e => e.1 == some "unitless")).map (·.2)).getD []

/-- `update_cached` → `time_ratio(unit, self_dt, parent_unit, parent_dt)`: which inputs make it raise -/
def ratioCheck (tbl : List (UVal × List UVal)) (tu : List String) (st : TP) : Except Err Unit :=
  if st.selfDt ≠ st.parentDt ∧ (st.selfDt = none ∨ st.parentDt = none) then .error .value
  else if st.unit = st.parentUnit then .ok ()
  else if st.unit ∈ unitlessNames tbl ∨ st.parentUnit ∈ unitlessNames tbl then .error .value
  else match st.unit, st.parentUnit with
    | some a, some b => if a ∈ tu ∧ b ∈ tu then .ok () else .error .keyNotFound
    | _, _ => .error .value

/-- `validate_units`: every listed field goes through the name table or raises ValueError -/
def validateFields (tbl : List (UVal × List UVal)) : List Field → TP → Except Err TP
  | [], st => .ok st
  | .unit :: rest, st =>
    match lookup tbl st.unit with
    | some c => validateFields tbl rest { st with unit := c }
    | none => .error .value
  | .parentUnit :: rest, st =>
    match lookup tbl st.parentUnit with
    | some c => validateFields tbl rest { st with parentUnit := c }
    | none => .error .value
  | _ :: _, _ => .error .type

structure Env where
  tbl : List (UVal × List UVal)
  timeUnits : List String
  validated : List Field

def stepSet (E : Env) (a : Args) (st : TP) : SetStep → Except Err TP
  | .assignIfGiven f => .ok (assignField f a st)
  | .store f => .ok (storeField f a st)
  | .updateCachedIfLive =>
    if st.initialized || a.force then
      match ratioCheck E.tbl E.timeUnits st with
      | .ok _ => .ok st
      | .error e => .error e
    else .ok st
  | .validate => validateFields E.tbl E.validated st

def runSteps (E : Env) (a : Args) : List SetStep → TP → Except Err TP
  | [], st => .ok st
  | s :: rest, st =>
    match stepSet E a st s with
    | .ok st' => runSteps E a rest st'
    | .error e => .error e

/-- `old.set(...)` -/
def tpSet (steps : List SetStep) (E : Env) (st : TP) (a : Args) : Except Err TP := runSteps E a steps st

/-- a blank object before `__init__` runs -/
def blank : TP := ⟨0, none, none, none, none, false⟩

/-- `type(old)(v, unit=…, parent_unit=…, parent_dt=…, self_dt=…)` -/
def tpCtor (steps : List SetStep) (E : Env) (a : Args) : Except Err TP := runSteps E a steps blank

/-- the constructor arguments that spell "the object `st` with the fields of `a` replaced" -/
def mergeArgs (st : TP) (a : Args) : Args :=
  { v := some (a.v.getD st.v), unit := a.unit.orElse (fun _ => st.unit), parentUnit := a.parentUnit.orElse (fun _ => st.parentUnit),
    parentDt := a.parentDt.orElse (fun _ => st.parentDt), selfDt := a.selfDt.orElse (fun _ => st.selfDt), force := false }

end StarsimModel.ParsTime
