/-
C17 — vocabulary shared by the regenerated dispatch table (Generated/ParsDispatch.lean) and the model
(Model/Pars.lean): Python classes tested by the `isinstance` chains of `Pars.update`, tests, actions, the decision
tree, and the step names of `Module.update_pars` / `SimPars.convert_modules`.  Core Lean only.
-/
namespace StarsimModel.Pars

/-- Python classes that appear in the `isinstance` tests of starsim/parameters.py -/
inductive Cls where
  | str | number | list | ndarray | series | dataframe | noneType
  | pars | ndict | module | timePar | dist | dict | beta | bernoulli | dur
  deriving DecidableEq, Repr

/-- Error kinds of the line protocol (DESIGN 3.4) that parameter handling can raise -/
inductive Err where
  | type          -- TypeError
  | value         -- ValueError
  | keyNotFound   -- sc.KeyNotFoundError
  | other         -- anything else (IndexError / AttributeError / KeyError from deeper code)
  deriving DecidableEq, Repr

/-- Tests on the existing value (`old`), the supplied value (`new`) and the first parameter of an existing Dist -/
inductive Test where
  | oldIs (cs : List Cls)          -- isinstance(old, (cs...))
  | newIs (cs : List Cls)          -- isinstance(new, (cs...))
  | par0Is (cs : List Cls)         -- isinstance(old.pars[0], (cs...))
  | oldCallable                    -- callable(old)
  | newCallable                    -- callable(new)
  | newIsFunc                      -- sc.isfunc(new)
  | oldEmpty                       -- not len(old)
  | newTypeNone                    -- new.get('type') is None
  | newTypeNe (s : String)         -- new.get('type') != s
  | durMismatch                    -- isinstance(old.pars[0], ss.dur) != isinstance(new, ss.dur)
  | hasMismatch                    -- check_key_mismatch: some supplied key is not an existing key
  | not (t : Test)
  | and (a b : Test)
  | or (a b : Test)
  deriving Repr

/-- What a branch does with the supplied value -/
inductive Action where
  | set            -- self[key] = new
  | recurse        -- old.update(new, create=create)
  | oldSet         -- old.set(new)
  | oldSetArgs     -- old.set(*new)
  | oldSetKwargs   -- old.set(**new)
  | makeDist       -- self[key] = ss.make_dist(new)
  | ndictItems     -- for k, v in new.items(): old[k].pars.update(v)
  | moduleItem     -- old[key].pars.update(new)
  | raise (e : Err)
  | ignore         -- the branch neither stores, forwards nor rejects the supplied value
  deriving DecidableEq, Repr

/-- Ordered decision tree = the if/elif chain with the `_update_*` helpers inlined -/
inductive Tree where
  | leaf (a : Action)
  | ite (t : Test) (a b : Tree)
  deriving Repr

/-- Steps of `Module.update_pars`, in source order -/
inductive UStep where
  | merge | matchPop | parsUpdate | setMetadata | timeUpdate
  | leftover (a : Action)     -- `if len(remaining): <a>`
  deriving DecidableEq, Repr

/-- Per-entry rewrite steps of `SimPars.convert_modules`, in source order -/
inductive CStep where
  | strToDict | classToInstanceIA | dictToModule | iaClassOrFunc | finalCheck | store
  deriving DecidableEq, Repr

end StarsimModel.Pars
