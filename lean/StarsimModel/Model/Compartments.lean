/-
C13 — hand-written part of the disease model: for every built-in compartmental disease the PARTITION its flags are
meant to form, the compartment an agent is in, and the ALLOWED ARROWS between compartments.

The flag records (`Gen.<D>.Flags`) and the per-agent transition functions (`stepState`, `setPrognoses`, `stepDie`)
are NOT written here: they are regenerated from /repo/starsim/diseases/*.py on every run by
harness/extractors/diseases.py (Generated/Disease_<name>.lean).  Everything here is a Bool-valued definition so that
the theorems of Props/C13.lean are closed decidable statements over the complete finite space of flag and guard
valuations.

Where today's code does not keep the intended partition (Measles, Cholera: `exposed` and `infected` at once) the
intended predicate is `partition` and the one that does hold is `weakPartition` (susceptible / exposed-or-infected /
recovered are mutually exclusive and exhaustive).

Core Lean only.
-/
import StarsimModel.Generated.Disease_sir
import StarsimModel.Generated.Disease_sis
import StarsimModel.Generated.Disease_measles
import StarsimModel.Generated.Disease_ebola
import StarsimModel.Generated.Disease_cholera
import StarsimModel.Generated.Disease_gonorrhea
import StarsimModel.Generated.Disease_hiv
import StarsimModel.Generated.Disease_syphilis

namespace StarsimModel.Compartments

/-- number of `true` entries -/
def countTrue : List Bool → Nat
  | [] => 0
  | b :: l => (if b then 1 else 0) + countTrue l

/-- exactly one of the listed flags is set -/
def exactlyOne (l : List Bool) : Bool := countTrue l == 1
/-- none of the listed flags is set -/
def noneOf (l : List Bool) : Bool := countTrue l == 0
/-- Boolean implication -/
def imp (a b : Bool) : Bool := !a || b

/-! ## SIR:  S → I → R, permanent immunity; disease deaths resolved by `step_die` -/
namespace Sir
open Gen.Sir
inductive Comp | S | I | R | cleared | mixed
deriving DecidableEq, Repr

def comp (s : Flags) : Comp :=
  match s.susceptible, s.infected, s.recovered with
  | true, false, false => .S
  | false, true, false => .I
  | false, false, true => .R
  | false, false, false => .cleared
  | _, _, _ => .mixed

/-- a living agent is in exactly one of S, I, R -/
def partition (s : Flags) : Bool := exactlyOne [s.susceptible, s.infected, s.recovered]
/-- a dead agent holds no compartment -/
def cleared (s : Flags) : Bool := noneOf [s.susceptible, s.infected, s.recovered]

/-- autonomous progression (`step_state`): stay, or I → R -/
def stepArrow : Comp → Comp → Bool
  | .S, .S | .I, .I | .I, .R | .R, .R => true
  | _, _ => false
/-- infection (`set_prognoses`): S → I for the agents it is called on, nothing for the others -/
def infectArrow : Comp → Comp → Bool
  | .S, .S | .S, .I | .I, .I | .R, .R => true
  | _, _ => false
end Sir

/-! ## SIS:  S ⇄ I; no disease deaths -/
namespace Sis
open Gen.Sis
inductive Comp | S | I | cleared | mixed
deriving DecidableEq, Repr

def comp (s : Flags) : Comp :=
  match s.susceptible, s.infected with
  | true, false => .S
  | false, true => .I
  | false, false => .cleared
  | true, true => .mixed

def partition (s : Flags) : Bool := exactlyOne [s.susceptible, s.infected]

/-- `step_state`: stay, or I → S (recovery; the only way back to susceptible) -/
def stepArrow : Comp → Comp → Bool
  | .S, .S | .I, .I | .I, .S => true
  | _, _ => false
def infectArrow : Comp → Comp → Bool
  | .S, .S | .S, .I | .I, .I => true
  | _, _ => false
end Sis

/-! ## Measles (SIR + exposed):  S → E → I → R.  Today `exposed ∧ infected` occurs (class `EI`). -/
namespace Measles
open Gen.Measles
inductive Comp | S | E | I | EI | R | cleared | mixed
deriving DecidableEq, Repr

def comp (s : Flags) : Comp :=
  match s.susceptible, s.exposed, s.infected, s.recovered with
  | true, false, false, false => .S
  | false, true, false, false => .E
  | false, false, true, false => .I
  | false, true, true, false => .EI
  | false, false, false, true => .R
  | false, false, false, false => .cleared
  | _, _, _, _ => .mixed

/-- the property: exactly one of S, E, I, R -/
def partition (s : Flags) : Bool := exactlyOne [s.susceptible, s.exposed, s.infected, s.recovered]
/-- what today's code keeps: exactly one of S, (E or I), R -/
def weakPartition (s : Flags) : Bool := exactlyOne [s.susceptible, s.exposed || s.infected, s.recovered]
def cleared (s : Flags) : Bool := noneOf [s.susceptible, s.exposed, s.infected, s.recovered]

/-- `step_state` on the coarse classes: E/I/EI progress among themselves or to R; never back to S; R only from I/EI/E
    (an exposed agent whose infection and recovery times have both passed goes E → I → R inside one step) -/
def stepArrow : Comp → Comp → Bool
  | .S, .S | .R, .R => true
  | .E, .E | .E, .I | .E, .R => true
  | .EI, .EI | .EI, .I | .EI, .R => true
  | .I, .I | .I, .R => true
  | _, _ => false
/-- infection: S → E intended; today S → EI -/
def infectArrow : Comp → Comp → Bool
  | .S, .E | .S, .EI => true
  | a, b => a == b
end Measles

/-! ## Ebola (SIR + exposed, severe, buried):  S → E → I → R; `severe` is a sub-state of `infected`;
    `buried` marks dead agents and is outside the partition of the living. -/
namespace Ebola
open Gen.Ebola
inductive Comp | S | E | I | R | cleared | mixed
deriving DecidableEq, Repr

def comp (s : Flags) : Comp :=
  match s.susceptible, s.exposed, s.infected, s.recovered with
  | true, false, false, false => .S
  | false, true, false, false => .E
  | false, false, true, false => .I
  | false, false, false, true => .R
  | false, false, false, false => .cleared
  | _, _, _, _ => .mixed

/-- exactly one of S, E, I, R, and `severe` only while `infected` -/
def partition (s : Flags) : Bool :=
  exactlyOne [s.susceptible, s.exposed, s.infected, s.recovered] && imp s.severe s.infected
/-- a dead agent holds none of S, E, I, severe, R (`buried` is the state of the dead) -/
def cleared (s : Flags) : Bool := noneOf [s.susceptible, s.exposed, s.infected, s.severe, s.recovered]

def stepArrow : Comp → Comp → Bool
  | .S, .S | .R, .R => true
  | .E, .E | .E, .I | .E, .R => true     -- E → I → R inside one step when both times have passed
  | .I, .I | .I, .R => true
  | _, _ => false
def infectArrow : Comp → Comp → Bool
  | .S, .E => true
  | a, b => a == b
end Ebola

/-! ## Cholera:  S → E → I(symptomatic?) → R.  Today `exposed` is kept when `infected` is set (class `EI`). -/
namespace Cholera
open Gen.Cholera
inductive Comp | S | E | I | EI | R | cleared | mixed
deriving DecidableEq, Repr

def comp (s : Flags) : Comp :=
  match s.susceptible, s.exposed, s.infected, s.recovered with
  | true, false, false, false => .S
  | false, true, false, false => .E
  | false, false, true, false => .I
  | false, true, true, false => .EI
  | false, false, false, true => .R
  | false, false, false, false => .cleared
  | _, _, _, _ => .mixed

def partition (s : Flags) : Bool :=
  exactlyOne [s.susceptible, s.exposed, s.infected, s.recovered] && imp s.symptomatic s.infected
def weakPartition (s : Flags) : Bool :=
  exactlyOne [s.susceptible, s.exposed || s.infected, s.recovered] && imp s.symptomatic s.infected
def cleared (s : Flags) : Bool := noneOf [s.susceptible, s.exposed, s.infected, s.symptomatic, s.recovered]

def stepArrow : Comp → Comp → Bool
  | .S, .S | .R, .R => true
  | .E, .E | .E, .EI | .E, .I | .E, .R => true
  | .EI, .EI | .EI, .I | .EI, .R => true
  | .I, .I | .I, .R => true
  | _, _ => false
def infectArrow : Comp → Comp → Bool
  | .S, .E => true
  | a, b => a == b
end Cholera

/-! ## Gonorrhea:  S ⇄ I, `symptomatic` a sub-state of `infected`; no disease deaths -/
namespace Gonorrhea
open Gen.Gonorrhea
inductive Comp | S | I | cleared | mixed
deriving DecidableEq, Repr

def comp (s : Flags) : Comp :=
  match s.susceptible, s.infected with
  | true, false => .S
  | false, true => .I
  | false, false => .cleared
  | true, true => .mixed

def partition (s : Flags) : Bool := exactlyOne [s.susceptible, s.infected] && imp s.symptomatic s.infected
def stepArrow : Comp → Comp → Bool
  | .S, .S | .I, .I | .I, .S => true
  | _, _ => false
def infectArrow : Comp → Comp → Bool
  | .S, .S | .S, .I | .I, .I => true
  | _, _ => false
end Gonorrhea

/-! ## HIV:  S → I, no recovery; `on_art` is set by the ART intervention, not by the disease -/
namespace Hiv
open Gen.Hiv
inductive Comp | S | I | cleared | mixed
deriving DecidableEq, Repr

def comp (s : Flags) : Comp :=
  match s.susceptible, s.infected with
  | true, false => .S
  | false, true => .I
  | false, false => .cleared
  | true, true => .mixed

def partition (s : Flags) : Bool := exactlyOne [s.susceptible, s.infected]
def cleared (s : Flags) : Bool := noneOf [s.susceptible, s.infected]
def stepArrow : Comp → Comp → Bool
  | .S, .S | .I, .I => true
  | _, _ => false
def infectArrow : Comp → Comp → Bool
  | .S, .S | .S, .I | .I, .I => true
  | _, _ => false
end Hiv

/-! ## Syphilis: susceptible → exposed → primary → secondary ⇄ latent_temp, secondary → latent_long → tertiary;
    `congenital` for infants infected in utero; `infected` ⇔ in one of the six adult stages -/
namespace Syphilis
open Gen.Syphilis
inductive Comp | S | exposed | primary | secondary | latentTemp | latentLong | tertiary | congenital | mixed
deriving DecidableEq, Repr

def stageFlags (s : Flags) : List Bool :=
  [s.exposed, s.primary, s.secondary, s.latent_temp, s.latent_long, s.tertiary]

def comp (s : Flags) : Comp :=
  if !exactlyOne (s.susceptible :: s.congenital :: stageFlags s) then .mixed
  else if s.susceptible then .S else if s.congenital then .congenital
  else if s.exposed then .exposed else if s.primary then .primary else if s.secondary then .secondary
  else if s.latent_temp then .latentTemp else if s.latent_long then .latentLong else .tertiary

/-- exactly one of susceptible / the six stages / congenital, and `infected` exactly in the six stages -/
def partition (s : Flags) : Bool :=
  exactlyOne (s.susceptible :: s.congenital :: stageFlags s) && (s.infected == (stageFlags s).any id)

/-- reachability along the natural-history graph (several hops may happen inside one step) -/
def stepArrow : Comp → Comp → Bool
  | .S, .S | .S, .congenital | .congenital, .congenital => true
  | .exposed, .exposed | .exposed, .primary | .exposed, .secondary | .exposed, .latentTemp | .exposed, .latentLong | .exposed, .tertiary => true
  | .primary, .primary | .primary, .secondary | .primary, .latentTemp | .primary, .latentLong | .primary, .tertiary => true
  | .secondary, .secondary | .secondary, .latentTemp | .secondary, .latentLong | .secondary, .tertiary => true
  | .latentTemp, .latentTemp | .latentTemp, .secondary | .latentTemp, .latentLong | .latentTemp, .tertiary => true
  | .latentLong, .latentLong | .latentLong, .tertiary => true
  | .tertiary, .tertiary => true
  | _, _ => false
def infectArrow : Comp → Comp → Bool
  | .S, .exposed => true
  | a, b => a == b

/-- the stage part of the partition alone (ignores the `infected` flag) -/
def stagePartition (s : Flags) : Bool := exactlyOne (s.susceptible :: s.congenital :: stageFlags s)

/-- treatment (a flag writer outside the disease class): a treatable stage may return to susceptible, nothing else moves -/
def treatArrow : Comp → Comp → Bool
  | .primary, .S | .secondary, .S | .latentTemp, .S | .latentLong, .S | .tertiary, .S => true
  | a, b => a == b
end Syphilis

end StarsimModel.Compartments
