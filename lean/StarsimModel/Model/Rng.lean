/-
Model of the `ss.Dist` random-stream state machine (starsim/distributions.py):
`init / process_seed / jump / jump_dt / rvs / reset`, the `ready / initialized / strict / auto` flags,
direct use of `dist.rng` by networks, and `Dists.check_seeds`.

The raw generator is *not* modelled: a generator state is identified by its position
`(ind, draws)` = "initial state of `default_rng(seed)`, jumped `ind` times, then advanced by the
draw calls of sizes `draws`".  Nothing is assumed about the numbers a position yields.
Core Lean only (no Mathlib): this file is also interpreted by the line-protocol driver.
-/
import StarsimModel.Generated.RngConsts

namespace StarsimModel.Rng

/-- The error kinds of the line protocol (DESIGN 3.4). -/
inductive Err where
  | notInitialized | notReady | seedRepeat | other
  deriving DecidableEq, Repr

/-- Generator position: jump index and the sizes of the draws made since that jump. -/
structure Pos where
  ind : Int
  draws : List Nat
  deriving DecidableEq, Repr

structure Dist where
  offset : Nat            -- str2int(trace)
  seed : Nat              -- offset + base seed
  ind : Int               -- `self.ind`
  pos : Pos               -- actual position of `self.rng`
  history : List Pos      -- `self.history` (saved positions)
  ready : Bool
  initialized : Bool
  strict : Bool
  auto : Bool
  called : Nat
  deriving DecidableEq, Repr

/-- `Dist(strict:=s, auto:=a)` before `init`: no generator yet. -/
def fresh (strict auto : Bool) : Dist :=
  { offset := 0, seed := 0, ind := 0, pos := ⟨0, []⟩, history := [], ready := true,
    initialized := false, strict := strict, auto := auto, called := 0 }

inductive Op where
  /-- `dist.init(trace, seed, force)`: `offset` = str2int(trace) supplied by the caller; `seed` = `none`/`some k` -/
  | init (offset : Nat) (seed : Option Nat) (force : Bool)
  /-- `dist.jump(to, delta, force)` -/
  | jump (to : Option Int) (delta : Int) (force : Bool)
  /-- `dist.jump_dt(ti, force)` with explicit `ti` (the default is the owner's `ti + 1`) -/
  | jumpDt (ti : Int) (force : Bool)
  /-- `dist.rvs(n, reset)`: `size` is the processed size (`max slot + 1`, or `n`); 0 for an empty request -/
  | rvs (size : Nat) (reset : Bool)
  /-- `dist.reset(k)` with a Python list index -/
  | reset (k : Int)
  /-- a draw made directly on `dist.rng` (networks) -/
  | direct (size : Nat)
  /-- `dist.set(...)`: changes parameters only — no effect on the stream state or the flags -/
  | setPars
  deriving DecidableEq, Repr

/-- Python's `a or b or 0` on optional / zero-is-falsy integers. -/
def orSeed (arg : Option Nat) (prev : Nat) : Nat :=
  match arg with
  | some k => if k ≠ 0 then k else prev
  | none => prev

/-- Python list indexing with negative indices. -/
def pyIndex (l : List Pos) (k : Int) : Option Pos :=
  if 0 ≤ k then l[k.toNat]? else
    if (-k).toNat ≤ l.length then l[l.length - (-k).toNat]? else none

/-- The unconditional part of `Dist.jump`: set `ind`, reset to the initial state, jump. -/
def doJump (d : Dist) (jumps : Int) : Dist :=
  { d with ind := jumps, pos := ⟨jumps, []⟩, ready := true }

/-- Outcome of one API call: an exception kind, or normal return with the position a draw started from (if any). -/
abbrev Res := Except Err (Option Pos)

/-- `Dist.jump` once the target index is known: refuse a non-forward jump unless forced. -/
def jumpTo (d : Dist) (jumps : Int) (force : Bool) : Dist × Res :=
  if d.ind ≥ jumps ∧ ¬ force then (d, .error .seedRepeat)
  else if ¬ d.initialized then ({ d with ind := jumps }, .error .other)
  else (doJump d jumps, .ok none)

/-- One API call: new state and outcome.  (A raising call normally leaves the state unchanged because the
    guards precede every mutation; the one exception, `jump` on a dist without generator, which has already
    stored the new `ind` when `reset()` fails, is modelled as such.) -/
def step (d : Dist) : Op → Dist × Res
  | .init offset seed _force =>
      -- (an already initialised dist only warns without `force`; it is re-initialised either way)
      let seed' := offset + orSeed seed d.seed
      ({ d with offset := offset, seed := seed', pos := ⟨0, []⟩, history := [⟨0, []⟩],
                ready := true, initialized := true }, .ok none)
  | .jump to delta force =>
      jumpTo d (match to with | some t => t | none => d.ind + delta) force
  | .jumpDt ti force =>
      jumpTo d ((Gen.dtJumpSize : Int) * ti) force
  | .rvs size reset =>
      if ¬ d.initialized then (d, .error .notInitialized)
      else if ¬ d.ready ∧ d.strict then (d, .error .notReady)
      else if size = 0 then (d, .ok none)
      else
        let start := d.pos
        let d1 := { d with history := d.history ++ [start], pos := ⟨start.ind, start.draws ++ [size]⟩,
                           called := d.called + 1 }
        let d2 :=
          if reset then { d1 with pos := start, ready := true }
          else if d.auto then doJump d1 (d1.ind + Gen.jumpDefaultDelta)
          else if d.strict then { d1 with ready := false }
          else d1
        (d2, .ok (some start))
  | .reset k =>
      match pyIndex d.history k with
      | some p => ({ d with pos := p, ready := true }, .ok none)
      | none => (d, .error .other)
  | .direct size =>
      if ¬ d.initialized then (d, .error .other)
      else if size = 0 then (d, .ok none)
      else ({ d with pos := ⟨d.pos.ind, d.pos.draws ++ [size]⟩ }, .ok (some d.pos))
  | .setPars => (d, .ok none)

/-- The draw start logged by a call, if it drew. -/
def Res.start : Res → Option Pos
  | .ok (some p) => some p
  | _ => none

/-- Run an operation list (a raising call is caught by the caller and the run continues).
    Returns the final state and the log of draw start positions, oldest first. -/
def run (d : Dist) : List Op → Dist × List Pos
  | [] => (d, [])
  | op :: ops =>
      let (d', r) := step d op
      let (df, log) := run d' ops
      match r.start with
      | some p => (df, p :: log)
      | none => (df, log)

/-- Operations the simulation loop issues: no `force`, no `reset`, no re-`init`. -/
def Op.loopOp : Op → Bool
  | .jump _ _ force => !force
  | .jumpDt _ force => !force
  | .rvs _ rs => !rs
  | .direct _ => true
  | .setPars => true
  | .init .. => false
  | .reset _ => false

/-- What a helper does to the stream after using the generator directly (`dist.rng.…`), which does not auto-advance:
    the code regenerated into `Gen.Stream.directSites` (1 = plain `jump()`, 2 = `reset()`, anything else = nothing modelled). -/
inductive Followup where
  | jump | reset | nothing
  deriving DecidableEq, Repr

def Followup.ofCode : Nat → Followup
  | 1 => .jump
  | 2 => .reset
  | _ => .nothing

def Followup.ops : Followup → List Op
  | .jump => [.jump none Gen.jumpDefaultDelta false]
  | .reset => [.reset 0]
  | .nothing => []

/-- A helper of that shape called once per entry of `sizes` (any number of times between two timestep jumps). -/
def helperCalls (f : Followup) (sizes : List Nat) : List Op :=
  sizes.flatMap (fun n => Op.direct n :: f.ops)

/-- The life of one distribution in one simulation: the (forced) initialisation of `Sim.init_dists`, then `ops`. -/
def life (d : Dist) (offset : Nat) (seed : Option Nat) (ops : List Op) : Dist × List Pos :=
  run (step d (.init offset seed true)).1 ops

/-- Lexicographic order on positions by `(ind, number of draws since the jump)`. -/
def Pos.lt (p q : Pos) : Prop := p.ind < q.ind ∨ (p.ind = q.ind ∧ p.draws.length < q.draws.length)

instance : DecidableRel Pos.lt := fun p q => by unfold Pos.lt; exact inferInstance

/-- `Dists.check_seeds`: scan, remembering the seeds seen; error at the first repeat. -/
def checkSeeds : List Nat → List Nat → Except Err Unit
  | _, [] => .ok ()
  | seen, s :: rest => if s ∈ seen then .error .seedRepeat else checkSeeds (s :: seen) rest

/-! Several distributions in one simulation: operations are tagged with the index of the dist. -/

def runMany (ds : List Dist) : List (Nat × Op) → List Dist × List (Nat × Pos)
  | [] => (ds, [])
  | (i, op) :: ops =>
      match ds[i]? with
      | none => runMany ds ops
      | some d =>
        let (d', r) := step d op
        let (df, log) := runMany (ds.set i d') ops
        match r.start with
        | some p => (df, (i, p) :: log)
        | none => (df, log)

end StarsimModel.Rng
