/-
Line-protocol helpers shared by the drivers (DESIGN 3.4): token parsing, exact rationals `p/q`,
lists, and the stdin loop.  Core Lean only.
-/
namespace StarsimModel.Proto

def words (line : String) : List String :=
  (line.splitOn " ").filter (· ≠ "")

def parseInt? (s : String) : Option Int := s.toInt?
def parseNat? (s : String) : Option Nat := s.toNat?

def parseBool? (s : String) : Option Bool :=
  if s = "1" ∨ s = "true" ∨ s = "T" then some true
  else if s = "0" ∨ s = "false" ∨ s = "F" then some false else none

/-- `none` or an integer -/
def parseOptInt? (s : String) : Option (Option Int) :=
  if s = "none" then some none else (s.toInt?).map some

def parseOptNat? (s : String) : Option (Option Nat) :=
  if s = "none" then some none else (s.toNat?).map some

/-- exact rational `p/q` or integer `p` -/
def parseRat? (s : String) : Option Rat :=
  match s.splitOn "/" with
  | [p] => p.toInt?.map (fun (i : Int) => (i : Rat))
  | [p, q] => do
      let pi ← p.toInt?
      let qi ← q.toNat?
      if qi = 0 then none else some ((pi : Rat) / (qi : Rat))
  | _ => none

def showRat (r : Rat) : String :=
  if r.den = 1 then toString r.num else s!"{r.num}/{r.den}"

def showBool (b : Bool) : String := if b then "1" else "0"

/-- comma separated list of naturals; `-` for the empty list -/
def parseNatList? (s : String) : Option (List Nat) :=
  if s = "-" then some [] else (s.splitOn ",").mapM (·.toNat?)

def parseIntList? (s : String) : Option (List Int) :=
  if s = "-" then some [] else (s.splitOn ",").mapM (·.toInt?)

def parseRatList? (s : String) : Option (List Rat) :=
  if s = "-" then some [] else (s.splitOn ",").mapM parseRat?

def showList {α} (f : α → String) (l : List α) : String :=
  if l.isEmpty then "-" else ",".intercalate (l.map f)

/-- Fold a pure `step : σ → String → σ × String` over stdin, printing one line per input line. -/
partial def loop {σ} (step : σ → String → σ × String) (h : IO.FS.Stream) (out : IO.FS.Stream) (s : σ) : IO Unit := do
  let line ← h.getLine
  if line.isEmpty then return ()
  let l := if line.endsWith "\n" then (line.dropEnd 1).toString else line
  let (s', o) := step s l
  out.putStrLn o
  loop step h out s'

def mainLoop {σ} (step : σ → String → σ × String) (init : σ) : IO Unit := do
  let stdin ← IO.getStdin
  let stdout ← IO.getStdout
  loop step stdin stdout init
  stdout.flush

end StarsimModel.Proto
