/-
Model of starsim/run.py: `single_run`, `multi_run` (serial and parallel), `MultiSim.run` (in-place update,
debug mode), `MultiSim.reduce` / `mean` / `median` / `summarize`.

What is *not* modelled is the simulation itself: `simulate : κ → Int → ρ` ("the results of running
configuration `cfg` alone with seed `s`") is an arbitrary parameter of every definition and theorem
(determinism in configuration and seed is property C01).  What is modelled is everything run.py does
around it: which object each task operates on, the seed arithmetic, the order of results, errors, the
in-place hand-over and the statistics.

A parallel execution is a *schedule*: a list of events `(worker, task index)`, each event being the atomic
run of one task on one worker; any interleaving over any number of workers is such a list.  Each worker has
process-global state that a run writes (`Sim.init` calls `ss.set_seed(rand_seed)`) and — for the
configurations considered, C01 — never reads.

`share : Nat → Nat` says which unpickled copy a task operates on: tasks with the same value share one
object.  `sharePrivate` is what the property needs (one copy per task); `shareChunk c` is what
`multiprocess.Pool.map` actually does for a replicated single sim (`sc.parallelize(kwargs=dict(sim=sim))`):
the tasks of one chunk of size `c` are pickled together, pickle memoises the one `sim` object, and the
worker gets ONE copy per chunk (known finding C18-chunk-shared-sim).

Core Lean only.
-/
import StarsimModel.Generated.RunFacts

namespace StarsimModel.MultiRun

inductive Err where
  | alreadyRun | keyNotFound | typeErr | valueErr
  deriving DecidableEq, Repr

/-- the error of an outcome, if any (for decidable statements about outcomes) -/
def errOf {α : Type} : Except Err α → Option Err
  | .error e => some e
  | .ok _ => none

/-- `.spec`: what the property demands; `.asis`: what the pinned code does (DESIGN 4.5) -/
inductive Variant where
  | spec | asis
  deriving DecidableEq, Repr

/-- A sim object as far as run.py is concerned. `initSeed = some s`: `sim.init()` has been called while
    `pars.rand_seed` was `s` (the distributions are seeded from it then, later changes of `pars.rand_seed`
    do not reach them). `results = some r`: the sim is complete. -/
structure Sim (κ ρ : Type) where
  cfg : κ
  seed : Int
  initSeed : Option Int
  results : Option ρ
  deriving DecidableEq, Repr

/-- a fresh, uninitialised sim -/
def Sim.fresh {κ ρ : Type} (cfg : κ) (seed : Int) : Sim κ ρ := ⟨cfg, seed, none, none⟩

/-- One call `single_run(sim, ind=…, reseed=…, do_run=…, **sim_args)`; `seedArg`/`cfgArg` are the
    `rand_seed=` and other-parameter entries of `sim_args` (from `iterpars`), applied after the reseed. -/
structure Task (κ ρ : Type) where
  sim : Sim κ ρ
  ind : Nat
  reseed : Bool
  seedArg : Option Int
  cfgArg : Option κ
  doRun : Bool
  deriving Repr

section Run
variable {κ ρ : Type} (simulate : κ → Int → ρ)

/-- The seed `single_run` leaves in `sim.pars.rand_seed`. -/
def newSeed (seed : Int) (ind : Nat) (reseed : Bool) (seedArg : Option Int) : Int :=
  seedArg.getD (if reseed then Gen.reseedSeed seed ind else seed)

/-- `single_run` acting on the object `obj` (which may differ from `t.sim` when copies are shared). -/
def singleRun (obj : Sim κ ρ) (t : Task κ ρ) : Except Err (Sim κ ρ) :=
  let s := newSeed obj.seed t.ind t.reseed t.seedArg
  let c := t.cfgArg.getD obj.cfg
  if t.doRun then
    if obj.results.isSome then .error .alreadyRun
    else
      let eff := obj.initSeed.getD s
      .ok { cfg := c, seed := s, initSeed := some eff, results := some (simulate c eff) }
  else if Gen.doRunFalseSkipsInit then .ok { obj with cfg := c, seed := s }
  else .ok { obj with cfg := c, seed := s, initSeed := some (obj.initSeed.getD s) }

/-- The task run on its own private copy: what "running that member alone" means. -/
def runAlone (t : Task κ ρ) : Except Err (Sim κ ρ) := singleRun simulate t.sim t

/-! ### multi_run: building the task list -/

inductive Target (κ ρ : Type) where
  | single (s : Sim κ ρ)
  | list (l : List (Sim κ ρ))
  deriving Repr

structure Args (κ : Type) where
  nRuns : Nat := 4
  reseed : Option Bool := none
  /-- `iterpars = {'rand_seed': [...]}` -/
  iterSeeds : Option (List Int) := none
  /-- `iterpars = {<another parameter>: [...]}`, each value identified with the configuration it yields -/
  iterCfgs : Option (List κ) := none
  /-- `sim_args` / extra keyword arguments: `rand_seed=` and another parameter applied to EVERY run (after the
      reseed; an `iterpars` entry for the same key wins) -/
  simSeed : Option Int := none
  simCfg : Option κ := none
  doRun : Bool := true
  /-- object identity of the entries of a list of sims: entries `i`, `j` are the same Python object iff
      `ident i = ident j` (values `≤` the list length; the identity for a list of distinct objects) -/
  ident : Nat → Nat := id

/-- `n_runs` after the `iterpars` loop: the common length of the entries, `ValueError` on a mismatch. -/
def nRunsOf (a : Args κ) : Except Err Nat :=
  match a.iterSeeds, a.iterCfgs with
  | none, none => .ok a.nRuns
  | some s, none => .ok s.length
  | none, some c => .ok c.length
  | some s, some c => if s.length = c.length then .ok s.length else .error .valueErr

/-- The tasks `multi_run` hands to `single_run`, in member order. A single sim: `n` tasks on the same
    object, `ind = 0..n-1`, reseeding by default. A list: one task per sim, `ind` = position, *not* reseeded
    by default, `iterpars` ignored. -/
def tasksOf (tg : Target κ ρ) (a : Args κ) : Except Err (List (Task κ ρ)) := do
  let n ← nRunsOf a
  match tg with
  | .single s =>
      let rs := a.reseed.getD Gen.reseedDefaultSingle
      pure ((List.range n).map fun i =>
        { sim := s, ind := i, reseed := rs, seedArg := (a.iterSeeds.bind (·[i]?)).or a.simSeed,
          cfgArg := (a.iterCfgs.bind (·[i]?)).or a.simCfg, doRun := a.doRun })
  | .list l =>
      let rs := a.reseed.getD Gen.reseedDefaultList
      pure ((List.range l.length).zip l |>.map fun (i, s) =>
        { sim := s, ind := i, reseed := rs, seedArg := a.simSeed, cfgArg := a.simCfg, doRun := a.doRun })

/-! ### serial execution (`parallel=False`): a loop over private copies -/

def execSerial (tasks : List (Task κ ρ)) : Except Err (List (Sim κ ρ)) :=
  tasks.mapM (runAlone simulate)

/-! ### parallel execution under an arbitrary schedule -/

/-- State of a pool: the unpickled copies (by copy id) and, per worker, the process-global NumPy seed last
    set by a run (written by every run, read by none). -/
structure Pool (κ ρ : Type) where
  copies : Nat → Option (Sim κ ρ)
  wseed : Nat → Option Int

def Pool.empty {κ ρ : Type} : Pool κ ρ := ⟨fun _ => none, fun _ => none⟩

/-- One atomic event: worker `e.1` runs task `e.2` on the copy `share e.2`. -/
def stepEvent (tasks : List (Task κ ρ)) (share : Nat → Nat) (p : Pool κ ρ) (e : Nat × Nat) :
    Except Err (Pool κ ρ) :=
  match tasks[e.2]? with
  | none => .error .valueErr
  | some t =>
      let k := share e.2
      match singleRun simulate ((p.copies k).getD t.sim) t with
      | .error er => .error er
      | .ok r => .ok { copies := fun k' => if k' = k then some r else p.copies k',
                       wseed := fun w => if w = e.1 then (if t.doRun then r.initSeed else p.wseed w) else p.wseed w }

def runSchedule (tasks : List (Task κ ρ)) (share : Nat → Nat) (sched : List (Nat × Nat)) (p : Pool κ ρ) :
    Except Err (Pool κ ρ) :=
  sched.foldlM (stepEvent simulate tasks share) p

/-- The list `Pool.map` returns: slot `i` holds (a pickle of) the object task `i` ran on. -/
def collect (n : Nat) (share : Nat → Nat) (p : Pool κ ρ) : Except Err (List (Sim κ ρ)) :=
  (List.range n).mapM fun i => match p.copies (share i) with
    | some s => .ok s
    | none => .error .valueErr

def execPar (tasks : List (Task κ ρ)) (share : Nat → Nat) (sched : List (Nat × Nat)) : Except Err (List (Sim κ ρ)) := do
  let p ← runSchedule simulate tasks share sched Pool.empty
  collect tasks.length share p

/-- one private copy per task -/
def sharePrivate : Nat → Nat := id
/-- `Pool.map` chunking of a replicated single sim: one copy per chunk of `c` consecutive tasks -/
def shareChunk (c : Nat) : Nat → Nat := fun i => i / c

/-- CPython `Pool.map` default chunk size: `ceil(n / (4·workers))` -/
def poolChunk (n workers : Nat) : Nat :=
  let q := n / (4 * workers)
  if n % (4 * workers) = 0 then q else q + 1

/-- a list of sims: two tasks get the same unpickled object iff they are in the same chunk AND their list entries
    are the same object (pickle memoises per object within one chunk) -/
def shareList (chunk n : Nat) (ident : Nat → Nat) : Nat → Nat := fun i => (i / chunk) * (n + 1) + ident i

/-- Which copy policy applies in the code as it is: a replicated single sim shares per chunk; list entries
    share per chunk when they are the same object (distinct objects are always private). `.spec`: private. -/
def shareOf (v : Variant) (tg : Target κ ρ) (chunk : Nat) (ident : Nat → Nat) : Nat → Nat :=
  match v, tg with
  | .asis, .single _ => shareChunk chunk
  | .asis, .list l => shareList chunk l.length ident
  | _, _ => sharePrivate

inductive Mode where
  | parallel | serial | debug
  deriving DecidableEq, Repr

/-- `multi_run(sim, …, parallel=…)` -/
def multiRun (v : Variant) (tg : Target κ ρ) (a : Args κ) (par : Bool) (chunk : Nat) (sched : List (Nat × Nat)) :
    Except Err (List (Sim κ ρ)) := do
  let tasks ← tasksOf tg a
  if par then execPar simulate tasks (shareOf v tg chunk a.ident) sched else execSerial simulate tasks

/-! ### MultiSim.run: mode dispatch and the in-place hand-over -/

structure MSimOut (κ ρ : Type) where
  /-- the caller's own sim objects after `msim.run()` (the list given to `MultiSim`, or the single base sim) -/
  callers : List (Sim κ ρ)
  /-- `msim.sims` -/
  sims : List (Sim κ ρ)
  deriving Repr

def callersOf : Target κ ρ → List (Sim κ ρ)
  | .single s => [s]
  | .list l => l

/-- `MultiSim.run()`. Debug mode as it is: `single_run(sim, **kwargs)` receives `n_runs` as a sim parameter
    (`KeyNotFoundError`), and for a single base sim the loop iterates over the `Sim` object (`TypeError`).
    Debug mode as documented ("run in serial"): the members themselves are run, in order, no copies. -/
def msimRun (v : Variant) (tg : Target κ ρ) (a : Args κ) (mode : Mode) (inplace : Bool) (chunk : Nat)
    (sched : List (Nat × Nat)) : Except Err (MSimOut κ ρ) :=
  match mode with
  | .debug =>
      match v with
      | .asis => match tg with
          | .single _ => .error .typeErr
          | .list _ => .error .keyNotFound
      | .spec => do
          let tasks ← tasksOf tg a
          let out ← execSerial simulate tasks
          pure ⟨match tg with | .single _ => callersOf tg | .list _ => out, out⟩
  | m => do
      let out ← multiRun simulate v tg a (m == .parallel) chunk sched
      match tg with
      | .single _ => pure ⟨callersOf tg, out⟩
      | .list l => pure ⟨if inplace && out.length == l.length then out else l, out⟩

/-- `MultiSim.init_sims()` / `MultiSim(..., initialize=True)`: `self.sims = multi_run(sims, **run_args, do_run=False)`
    (in parallel unless `parallel=False` is among the run arguments): a list of reseeded, not yet run copies. -/
def initSims (v : Variant) (tg : Target κ ρ) (a : Args κ) (par : Bool) (chunk : Nat) (sched : List (Nat × Nat)) :
    Except Err (List (Sim κ ρ)) :=
  multiRun simulate v tg { a with doRun := false } par chunk sched

/-- prepare, then run: `msim = MultiSim(target, initialize=True, ...); msim.run()`. The second step sees a LIST. -/
def msimInitRun (v : Variant) (tg : Target κ ρ) (a : Args κ) (mode : Mode) (inplace : Bool) (chunk : Nat)
    (sched₁ sched₂ : List (Nat × Nat)) : Except Err (MSimOut κ ρ) := do
  let prepared ← initSims simulate v tg a (mode != .serial) chunk sched₁
  -- the prepared list holds one object per unpickled copy of the first step
  let out ← msimRun simulate v (.list prepared) { a with ident := shareOf v tg chunk a.ident } mode inplace chunk sched₂
  pure ⟨callersOf tg, out.sims⟩

/-- `ss.parallel(*sims, **kwargs)`: `MultiSim(sims=<one list>, **kwargs).run()` — a list also for a single sim. -/
def parallelCall (v : Variant) (sims : List (Sim κ ρ)) (a : Args κ) (mode : Mode) (inplace : Bool) (chunk : Nat)
    (sched : List (Nat × Nat)) : Except Err (MSimOut κ ρ) :=
  if Gen.parallelWrapsList then msimRun simulate v (.list sims) a mode inplace chunk sched
  else match sims with
    | [s] => msimRun simulate v (.single s) a mode inplace chunk sched
    | _ => msimRun simulate v (.list sims) a mode inplace chunk sched

end Run

/-! ### The process-global generators of the hosting process

Some modules (`ss.Births`: `np.random.binomial`) draw from the process-global NumPy / Numba generators instead of an
`ss.Dist`.  A pool worker inherits those generators from the parent at fork time and keeps them from one member to
the next; the serial loop runs in the caller's process.  So the state a run *starts from* depends on worker count,
schedule and mode.  What makes the result independent of it is that `Sim.init` resets them from `pars.rand_seed`
before anything reads them (`Gen.initSeedsGlobalFirst`, regenerated from `Sim.init`).  This section models a run that
READS the hosting process's state; `Lemmas/MultiRun.lean` proves that it refines the pure model above. -/

/-- state of the PROCESS as far as a run can see it — the process-global generators and every other container that lives
    as long as the process: right after `Sim.init` reset it from seed `s`, or anything else (`h` names it) -/
inductive GState where
  | seeded (s : Int)
  | host (h : Nat)
  deriving DecidableEq, Repr

/-- What a run does with the process-global generators; every definition and theorem is for an arbitrary one.
    `simG c s g`: the results of configuration `c`, distributions seeded with `s`, stepping started with the global
    generators in state `g`; `after`: the state the run leaves behind; `rerand`: `ss.set_seed()` without a seed. -/
structure GEnv (κ ρ : Type) where
  simG : κ → Int → GState → ρ
  after : κ → Int → GState → GState
  rerand : GState → GState

/-- the simulation as a function of configuration and seed alone: what `Sim.init` makes of it by resetting the
    global generators from the seed -/
def GEnv.pure {κ ρ : Type} (env : GEnv κ ρ) : κ → Int → ρ := fun c s => env.simG c s (.seeded s)

/-- `Sim.init` leaves the process in a state determined by the sim's seed alone: the generators are reset first
    (`Gen.initSeedsGlobalFirst`), and there is no other process-level state a run could read — no class attribute of the
    package is bound to a mutable container (one object shared by all instances of a process, which `init` cannot reset)
    and nothing is memoised (`Gen.classLevelMutables`, `Gen.processMemos`, regenerated from the package sources). -/
def initResetsProcessState : Bool :=
  Gen.initSeedsGlobalFirst && Gen.classLevelMutables.isEmpty && Gen.processMemos.isEmpty

/-- the process state after `Sim.init` of a sim with `pars.rand_seed = seed` (else: whatever the process held) -/
def initGlobal (seed : Int) (g : GState) : GState := if initResetsProcessState then .seeded seed else g

section RunG
variable {κ ρ : Type} (env : GEnv κ ρ)

/-- `single_run` in a process whose global generators are in state `g`: `ss.set_seed()` after a reseed / a
    `rand_seed=` argument, `Sim.init` (only for a not yet initialised sim), then the steps. -/
def singleRunG (obj : Sim κ ρ) (t : Task κ ρ) (g : GState) : Except Err (Sim κ ρ × GState) :=
  let s := newSeed obj.seed t.ind t.reseed t.seedArg
  let c := t.cfgArg.getD obj.cfg
  let g1 := if t.reseed || t.seedArg.isSome then env.rerand g else g
  if t.doRun then
    if obj.results.isSome then .error .alreadyRun
    else match obj.initSeed with
      | some eff => .ok ({ cfg := c, seed := s, initSeed := some eff, results := some (env.simG c eff g1) }, env.after c eff g1)
      | none => .ok ({ cfg := c, seed := s, initSeed := some s, results := some (env.simG c s (initGlobal s g1)) },
                     env.after c s (initGlobal s g1))
  else if Gen.doRunFalseSkipsInit then .ok ({ obj with cfg := c, seed := s }, g1)
  else .ok ({ obj with cfg := c, seed := s, initSeed := some (obj.initSeed.getD s) },
            match obj.initSeed with | some _ => g1 | none => initGlobal s g1)

/-- the serial loop in the caller's process: the state is handed from one member to the next -/
def execSerialG : List (Task κ ρ) → GState → Except Err (List (Sim κ ρ) × GState)
  | [], g => .ok ([], g)
  | t :: ts, g =>
      match singleRunG env t.sim t g with
      | .error e => .error e
      | .ok (r, g1) =>
          match execSerialG ts g1 with
          | .error e => .error e
          | .ok (rs, g2) => .ok (r :: rs, g2)

/-- a pool whose workers each carry their own global generators (inherited at fork time: `w0`) -/
structure PoolG (κ ρ : Type) where
  copies : Nat → Option (Sim κ ρ)
  wstate : Nat → GState

def stepEventG (tasks : List (Task κ ρ)) (share : Nat → Nat) (p : PoolG κ ρ) (e : Nat × Nat) :
    Except Err (PoolG κ ρ) :=
  match tasks[e.2]? with
  | none => .error .valueErr
  | some t =>
      let k := share e.2
      match singleRunG env ((p.copies k).getD t.sim) t (p.wstate e.1) with
      | .error er => .error er
      | .ok (r, g') => .ok { copies := fun k' => if k' = k then some r else p.copies k',
                             wstate := fun w => if w = e.1 then g' else p.wstate w }

def runScheduleG (tasks : List (Task κ ρ)) (share : Nat → Nat) (sched : List (Nat × Nat)) (p : PoolG κ ρ) :
    Except Err (PoolG κ ρ) :=
  sched.foldlM (stepEventG env tasks share) p

def collectG (n : Nat) (share : Nat → Nat) (p : PoolG κ ρ) : Except Err (List (Sim κ ρ)) :=
  (List.range n).mapM fun i => match p.copies (share i) with
    | some s => .ok s
    | none => .error .valueErr

/-- the parallel run under a schedule, the workers starting from the states `w0` -/
def execParG (tasks : List (Task κ ρ)) (share : Nat → Nat) (sched : List (Nat × Nat)) (w0 : Nat → GState) :
    Except Err (List (Sim κ ρ)) :=
  match runScheduleG env tasks share sched ⟨fun _ => none, w0⟩ with
  | .error e => .error e
  | .ok p => collectG tasks.length share p

end RunG

/-! ### Statistics (`MultiSim.reduce`, `summarize`) over exact rationals -/

def sum (l : List Rat) : Rat := l.foldr (· + ·) 0

def mean (l : List Rat) : Rat := sum l / l.length

/-- `np.var(…, ddof)`: Σ (x − mean)² / (n − ddof) -/
def variance (ddof : Nat) (l : List Rat) : Rat :=
  sum (l.map fun x => (x - mean l) * (x - mean l)) / ((l.length - ddof : Nat) : Rat)

def leB (a b : Rat) : Bool := decide (a ≤ b)

def sorted (l : List Rat) : List Rat := l.mergeSort leB

/-- `np.quantile(l, q)` with the default linear interpolation: virtual index `q·(n−1)`, neighbours
    `⌊·⌋` and `⌊·⌋+1` (clipped), interpolated by the fractional part. -/
def quantile (q : Rat) (l : List Rat) : Rat :=
  let s := sorted l
  let n := s.length
  let idx : Rat := q * ((n - 1 : Nat) : Rat)
  let lo := idx.floor.toNat
  let hi := min (lo + 1) (n - 1)
  let g := idx - (lo : Rat)
  let a := s.getD lo 0
  let b := s.getD hi 0
  a + (b - a) * g

def median (l : List Rat) : Rat := quantile (1/2) l

/-- Evaluation of the statistic expressions extracted from `MultiSim.reduce`. `sqrtF` is the square root
    (`np.std = sqrt(np.var)`): an arbitrary function here, so that every theorem holds for whatever `sqrt` is. -/
def evalStat (sqrtF : Rat → Rat) (k qlo qhi : Rat) : Gen.StatExpr → List Rat → Rat
  | .mean, l => mean l
  | .std d, l => sqrtF (variance d l)
  | .quantile q, l => quantile q l
  | .qLow, l => quantile qlo l
  | .qHigh, l => quantile qhi l
  | .minusK a b, l => evalStat sqrtF k qlo qhi a l - k * evalStat sqrtF k qlo qhi b l
  | .plusK a b, l => evalStat sqrtF k qlo qhi a l + k * evalStat sqrtF k qlo qhi b l

structure Band where
  centre : Rat
  low : Rat
  high : Rat
  deriving DecidableEq, Repr

/-- `reduce` at one time point of one result: `row` = that value in every member. -/
def reduceRow (sqrtF : Rat → Rat) (useMean : Bool) (k qlo qhi : Rat) (row : List Rat) : Band :=
  if useMean then
    ⟨evalStat sqrtF k qlo qhi Gen.meanCentre row, evalStat sqrtF k qlo qhi Gen.meanLow row,
     evalStat sqrtF k qlo qhi Gen.meanHigh row⟩
  else
    ⟨evalStat sqrtF k qlo qhi Gen.medCentre row, evalStat sqrtF k qlo qhi Gen.medLow row,
     evalStat sqrtF k qlo qhi Gen.medHigh row⟩

/-- value of time point `t` in every member (`raw[rkey][t, :]`) -/
def rowAt (members : List (List Rat)) (t : Nat) : List Rat := members.map (·.getD t 0)

/-- `MultiSim.reduce` for one result key: one band per time point of the first member. -/
def reduce (sqrtF : Rat → Rat) (useMean : Bool) (k qlo qhi : Rat) (members : List (List Rat)) : List Band :=
  match members with
  | [] => []
  | m :: _ => (List.range m.length).map fun t => reduceRow sqrtF useMean k qlo qhi (rowAt members t)

/-- `MultiSim.reduce` for one result key as the code is: `raw[rkey]` is allocated with `len(sim)` rows (the
    sim's number of time points `npts`) and the statistic is assigned to `res[:]`; the series of a module with
    its own time step has another length and the assignment raises `ValueError` (known finding
    C18-reduce-mixed-timesteps). `.spec`: every series is reduced over its own length. -/
def reduceKey (v : Variant) (npts : Nat) (sqrtF : Rat → Rat) (useMean : Bool) (k qlo qhi : Rat)
    (members : List (List Rat)) : Except Err (List Band) :=
  match v, members with
  | .asis, _ =>
      if members.all (·.length == npts) then .ok (reduce sqrtF useMean k qlo qhi members) else .error .valueErr
  | .spec, [] => .ok []
  | .spec, m :: ms =>
      -- members on different time lines cannot be reduced at all: rejected (this is not a defect)
      if ms.all (·.length == m.length) then .ok (reduce sqrtF useMean k qlo qhi members) else .error .valueErr

/-- `reduce(quantiles=…, use_mean=…, bounds=…)` for one key: the argument handling is the regenerated
    `Gen.boundsArg` / `Gen.quantilesArg` (a default applies only when the argument was not given). -/
def reduceCall (v : Variant) (npts : Nat) (sqrtF : Rat → Rat) (useMean : Bool) (bounds : Option Rat)
    (quantiles : Option (Rat × Rat)) (members : List (List Rat)) : Except Err (List Band) :=
  reduceKey v npts sqrtF useMean (Gen.boundsArg bounds) (Gen.quantilesArg quantiles).1 (Gen.quantilesArg quantiles).2 members

/-- `MultiSim.summarize(method=…)` for one key, from the per-member summary numbers. -/
inductive SumMethod where
  | mean | median | all
  deriving DecidableEq, Repr

inductive Summary where
  /-- mean, variance (ddof 0), squared standard error = variance / n -/
  | meanStd (mean var sem2 : Rat)
  | quantiles (qs : List Rat)
  | all (vals : List Rat)
  deriving DecidableEq, Repr

/-- As it is, `method='median'` hands `np.quantile` a dict and raises `TypeError` for every input. -/
def summarize (v : Variant) (m : SumMethod) (qs : List Rat) (vals : List Rat) : Except Err Summary :=
  match m with
  | .mean => .ok (.meanStd (mean vals) (variance 0 vals) (variance 0 vals / vals.length))
  | .all => .ok (.all vals)
  | .median => match v with
      | .asis => .error .typeErr
      | .spec => .ok (.quantiles (qs.map fun q => quantile q vals))

/-! ### `Sim.summarize` and the summary of a MultiSim

`Sim.summarize(how)` turns every result series into one number; which function applies to a key is decided by the
first entry of the `how` table whose key is a SUBSTRING of the result key (`Gen.summarizeHow` is the regenerated
default table).  `MultiSim.reduce` ends with `reduced_sim.summarize()`: the summary of a reduced MultiSim is the
summary of the reduced (mean / median) series.  `MultiSim.summarize(method, how)` applies `summarize` above to the
members' summary numbers. -/

/-- Python `p in k` on strings -/
def infixB (p : List Char) : List Char → Bool
  | [] => p.isEmpty
  | c :: cs => p.isPrefixOf (c :: cs) || infixB p cs

/-- `get_func`: first matching entry, `mean` if none matches -/
def howFunc (how : List (String × Gen.HowFunc)) (key : String) : Gen.HowFunc :=
  match how.find? (fun e => infixB e.1.toList key.toList) with
  | some e => e.2
  | none => .mean

/-- `get_result` -/
def applyHow : Gen.HowFunc → List Rat → Rat
  | .mean, l => mean l
  | .median, l => median l
  | .last, l => l.getLast?.getD 0

/-- the `how` argument: `'default'` or one function name for every key -/
inductive How where
  | default
  | all (f : Gen.HowFunc)
  deriving DecidableEq, Repr

def howTable : How → List (String × Gen.HowFunc)
  | .default => Gen.summarizeHow
  | .all f => [("", f)]

/-- `sim.summarize(how)[key]`, a function of the result series only -/
def simSummary (h : How) (key : String) (series : List Rat) : Rat := applyHow (howFunc (howTable h) key) series

/-- `msim.summary[key]` after `reduce`: the default summary of the reduced centre series -/
def reducedSummary (sqrtF : Rat → Rat) (useMean : Bool) (k qlo qhi : Rat) (key : String) (members : List (List Rat)) : Rat :=
  simSummary .default key ((reduce sqrtF useMean k qlo qhi members).map (·.centre))

/-- `msim.summarize(method, how)[key]` from the members' result series -/
def msimSummarize (v : Variant) (m : SumMethod) (qs : List Rat) (h : How) (key : String) (members : List (List Rat)) :
    Except Err Summary :=
  summarize v m qs (members.map (simSummary h key))

end StarsimModel.MultiRun
