/-
Model of `Pregnancy.make_fertility_prob_fn` (starsim/demographics.py): the conception probability of every eligible uid.

* scalar fertility: the same rate for everybody;
* age-specific table: the row of the year nearest to `now - dur_pregnancy` (`sc.findnearest`: first minimum of the
  absolute difference), the age bin `np.digitize(age, bins) - 1` used as a PYTHON index (−1 wraps to the last bin),
  and — when somebody is infecund — the rescaling `rate·count / (count − infecund_count)` per bin where the new
  denominator is positive (entries with a non-positive denominator keep the old rate: `np.divide(..., where=, out=)`);
* for BOTH forms: `× rate_units·rel_fertility × time_factor`, zero for the infecund and outside `[min_age, max_age]`, clip.
Core Lean only.
-/
import StarsimModel.Model.Pregnancy

namespace StarsimModel.Pregnancy

/-- `np.digitize(x, bins) - 1` for increasing `bins`, then used as a Python list index into a list of length `n` -/
def binIndex (bins : List Rat) (n : Nat) (x : Rat) : Nat :=
  let k := (bins.filter (fun b => decide (b ≤ x))).length
  if k = 0 then n - 1 else k - 1

def absR (x : Rat) : Rat := if x < 0 then -x else x

/-- `sc.findnearest(years, target)`: index of the first minimum of `|years - target|` -/
def nearestIdx (years : List Rat) (target : Rat) : Nat :=
  match years with
  | [] => 0
  | y :: ys =>
      let rec go (best : Nat) (bestD : Rat) (i : Nat) : List Rat → Nat
        | [] => best
        | z :: zs => if absR (z - target) < bestD then go i (absR (z - target)) (i + 1) zs else go best bestD (i + 1) zs
      go 0 (absR (y - target)) 1 ys

structure FertTable where
  bins : List Rat                 -- lower edges of the age bins (columns)
  years : List Rat                -- index
  rows : List (List Rat)          -- one row of rates per year

inductive FertData where
  | scalar (r : Rat)
  | table (t : FertTable)

/-- occurrences of each bin index among the given ages -/
def binCounts (bins : List Rat) (ages : List Rat) : List Nat :=
  (List.range bins.length).map (fun i => (ages.filter (fun a => binIndex bins bins.length a == i)).length)

/-- the per-bin rates after the "fecund denominator" rescaling -/
def rescale (rates : List Rat) (counts infecund : List Nat) : List Rat :=
  (List.range rates.length).map (fun i =>
    let r := rates.getD i 0
    let c := counts.getD i 0
    let d := (c : Int) - (infecund.getD i 0 : Int)
    if 0 < d then r * (c : Rat) / (d : Rat) else r)

/-- the fertility RATE of an agent of age `age` (before units, time factor and zeroing).
    `womenAges`: ages of the uids the function was called with; `infecundAges`: ages of all infecund agents. -/
def fertilityRate (fd : FertData) (target : Rat) (womenAges infecundAges : List Rat) (age : Rat) : Rat :=
  match fd with
  | .scalar r => r
  | .table t =>
      let row := t.rows.getD (nearestIdx t.years target) []
      let rates := if infecundAges.isEmpty then row
                   else rescale row (binCounts t.bins womenAges) (binCounts t.bins infecundAges)
      rates.getD (binIndex t.bins t.bins.length age) 0

/-- the conception PROBABILITY: rate × (rate_units·rel_fertility) × time_factor, zeroed and clipped by `Agent.fertilityProb` -/
def fertilityProbOf (p : Pars) (fd : FertData) (units timeFactor target : Rat) (womenAges infecundAges : List Rat) (a : Agent) : Rat :=
  a.fertilityProb p (fertilityRate fd target womenAges infecundAges a.age * units * timeFactor)

end StarsimModel.Pregnancy
