/-
Software model of IEEE-754 binary64 arithmetic on exact rationals (C07, DESIGN 4.2b).

`rd q` is the double nearest to the rational `q` (ties to even), represented as a rational again; every
basic IEEE operation is correctly rounded, so `add a b = rd (a + b)` etc. reproduce the float64 result
exactly for operands in the normal range (no overflow / subnormals: all quantities here are between
1e-9 and 1e9).  Unlike Lean's `Float` (opaque to the kernel) these definitions reduce in the kernel, so
"the float quotient truncates below the exact integer" is a `decide +kernel` theorem.  `toFloat` converts a
representable rational to a Lean `Float` exactly, so the driver can run the same operations on hardware
floats and cross-check the two.  Core Lean only.
-/
namespace StarsimModel.F64

/-- round `n/d` (`d > 0`) to the nearest natural number, ties to even -/
def rheNat (n d : Nat) : Nat :=
  let q := n / d
  let r := n % d
  if 2 * r < d then q else if d < 2 * r then q + 1 else if q % 2 = 0 then q else q + 1

/-- round half to even (`np.round`, `np.rint`, Python `round`) -/
def rhe (q : Rat) : Int :=
  if 0 ≤ q.num then (rheNat q.num.toNat q.den : Int) else - (rheNat (-q.num).toNat q.den : Int)

/-- truncation toward zero (Python `int(x)`) -/
def trunc (q : Rat) : Int :=
  if 0 ≤ q.num then ((q.num.toNat / q.den : Nat) : Int) else - (((-q.num).toNat / q.den : Nat) : Int)

/-- scale `n/d · 2^e` until `2^52 ≤ n/d < 2^53` -/
def norm : Nat → Nat → Nat → Int → Nat × Nat × Int
  | 0, n, d, e => (n, d, e)
  | fuel + 1, n, d, e =>
      if n < d * 2 ^ 52 then norm fuel (2 * n) d (e - 1)
      else if d * 2 ^ 53 ≤ n then norm fuel n (2 * d) (e + 1)
      else (n, d, e)

def pow2 (e : Int) : Rat :=
  if 0 ≤ e then ((2 ^ e.toNat : Nat) : Rat) else 1 / ((2 ^ (-e).toNat : Nat) : Rat)

/-- mantissa (53 bits, after rounding) and exponent of the double nearest to `n/d > 0` -/
def partsPos (n d : Nat) : Nat × Int :=
  let (n', d', e) := norm 2200 n d 0
  (rheNat n' d', e)

/-- (negative?, mantissa, exponent) of the nearest double -/
def parts (q : Rat) : Bool × Nat × Int :=
  if q.num = 0 then (false, 0, 0)
  else if 0 < q.num then (false, partsPos q.num.toNat q.den)
  else (true, partsPos (-q.num).toNat q.den)

/-- the double nearest to `q`, as a rational -/
def rd (q : Rat) : Rat :=
  let (s, m, e) := parts q
  let v := (m : Rat) * pow2 e
  if s then -v else v

def add (a b : Rat) : Rat := rd (a + b)
def sub (a b : Rat) : Rat := rd (a - b)
def mul (a b : Rat) : Rat := rd (a * b)
def div (a b : Rat) : Rat := rd (a / b)

/-- exact conversion of a (representable) rational to a hardware float -/
def toFloat (q : Rat) : Float :=
  let (s, m, e) := parts q
  let f := (Float.ofNat m).scaleB e
  if s then -f else f

end StarsimModel.F64
