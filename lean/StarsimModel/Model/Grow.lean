/-
Model of `People.grow` as far as common random numbers are concerned (C03): the order in which the new agents' slots are
written and their state defaults are drawn.  A state whose default is a distribution draws `default.rvs(new_uids)`, i.e. —
by `C03_rvs` — `stream (slot u)` for every new uid `u`, with the slots as they are AT THAT MOMENT.
The list of operations is regenerated from the source of `People.grow` on every run (Generated/GrowOps.lean).
Core Lean only.
-/
namespace StarsimModel.Grow

inductive GOp where
  | uidGrow          -- self.uid.grow(new_uids, new_vals=new_uids)
  | slotGrowGiven    -- self.slot.grow(new_uids, new_vals=new_slots)
  | slotGrowDefault  -- self.slot.grow(new_uids, new_vals=new_uids)     (or no new_vals)
  | slotWrite        -- self.slot[new_uids] = new_slots
  | parentGrow       -- self.parent.grow(...)
  | statesGrow       -- for state in self._states.values(): state.grow(new_uids)
  | auids            -- self.auids = self.auids.concat(new_uids)
  deriving DecidableEq, Repr

/-- per-uid slot, and per-uid value of one state whose default is a random draw -/
structure P where
  slots : List Nat
  vals  : List Nat
  deriving Repr

/-- one statement of `grow`; `start` = number of agents before, `newSlots` = the slots asked for (already defaulted to the
    new uids when the caller gave none) -/
def runOp (stream : Nat → Nat) (start : Nat) (newSlots : List Nat) (p : P) : GOp → P
  | .slotGrowGiven   => { p with slots := p.slots ++ newSlots }
  | .slotGrowDefault => { p with slots := p.slots ++ (List.range newSlots.length).map (start + ·) }
  | .slotWrite       => { p with slots := p.slots.take start ++ newSlots }
  | .statesGrow      => { p with vals := p.vals ++ (List.range newSlots.length).map (fun i => stream (p.slots.getD (start + i) (start + i))) }
  | _                => p

def grow (ops : List GOp) (stream : Nat → Nat) (p : P) (newSlots : List Nat) : P :=
  ops.foldl (runOp stream p.slots.length newSlots) p

/-! ### A symbolic run of the operation list -/

inductive SlotSt where | notGrown | grownDefault | grownGiven | broken deriving DecidableEq, Repr
inductive ValSt where | notDrawn | drawnBySlot | bad deriving DecidableEq, Repr

def symStep : SlotSt × ValSt → GOp → SlotSt × ValSt
  | (.notGrown, v), .slotGrowGiven => (.grownGiven, v)
  | (_, _), .slotGrowGiven => (.broken, .bad)                    -- grown twice
  | (.notGrown, v), .slotGrowDefault => (.grownDefault, v)
  | (_, _), .slotGrowDefault => (.broken, .bad)
  | (.grownDefault, v), .slotWrite => (.grownGiven, v)
  | (.grownGiven, v), .slotWrite => (.grownGiven, v)
  | (_, _), .slotWrite => (.broken, .bad)                        -- written before the array was grown
  | (.grownGiven, .notDrawn), .statesGrow => (.grownGiven, .drawnBySlot)
  | (s, _), .statesGrow => (s, .bad)                             -- drawn before the slots are in place, or twice
  | st, _ => st

/-- the operation list writes the requested slots before it draws the state defaults, once each -/
def slotsBeforeDefaults (ops : List GOp) : Bool :=
  ops.foldl symStep (.notGrown, .notDrawn) == (.grownGiven, .drawnBySlot)

end StarsimModel.Grow
