/-
Model of the list of saved generator states of a distribution (`Dist.history`, starsim/distributions.py) as far as common
random numbers are concerned (C03).  `Dist.init` stores the initial state (`make_history(reset=True)`), every `rvs` call
appends the pre-call state (`make_history()`), `reset(k)` restores entry `k`, and `Dist.jump` is ABSOLUTE: it first restores
entry 0 (`self.reset()`) and then jumps `jumps` streams ahead.  So where a timestep's stream starts is independent of the
earlier calls exactly as long as entry 0 stays the initial state.  The generator state `σ`, drawing (`adv`) and jumping
(`jumped`) are uninterpreted.  The statements of the package that write a `history` attribute are regenerated on every run
(Generated/HistoryWriters.lean) in the vocabulary `HW` below.  Core Lean only.
-/
namespace StarsimModel.Hist

/-- how a statement writes a `history` list -/
inductive HW where
  | clear    -- `self.history = []`
  | append   -- `self.history.append(self.get_state())`
  | shrink   -- `dist.history = shrunk` in `Sim.shrink` (after the run; the sim cannot be run further)
  | other    -- anything else: slicing, deleting, popping, rebinding, aliasing
  deriving DecidableEq, Repr

structure Site where
  fn : String
  kind : HW
  deriving DecidableEq, Repr

/-- the writers the model below accounts for, and where: an empty list only while the object is built (`Dist.__init__`) or
    immediately before the (initial) state is appended (`Dist.make_history`); appends only in `Dist.make_history`;
    the post-run `Sim.shrink` -/
def Site.modelled (s : Site) : Bool :=
  match s.kind with
  | .clear => s.fn == "Dist.__init__" || s.fn == "Dist.make_history"
  | .append => s.fn == "Dist.make_history"
  | .shrink => s.fn == "Sim.shrink"
  | .other => false

structure D (σ : Type) where
  cur : σ
  hist : List σ
  deriving Repr

inductive Op where
  | call (n : Nat)     -- `rvs`: `make_history()` (append the pre-call state), then draw `n`
  | reset (k : Nat)    -- `reset(k)`: restore saved state `k`
  | jump (j : Nat)     -- `jump(to=j)`: `reset()` (saved state 0), then `jumped(j)`
  | trim (m : Nat)     -- NOT in the code (used for the counterexample): keep only the last `m` saved states
  deriving DecidableEq, Repr

def Op.inCode : Op → Bool
  | .trim _ => false
  | _ => true

section
variable {σ : Type} (adv : σ → Nat → σ) (jumped : σ → Nat → σ)

/-- `Dist.init`: new generator, `make_history(reset=True)` -/
def init (s0 : σ) : D σ := ⟨s0, [s0]⟩

def step (d : D σ) : Op → D σ
  | .call n => { cur := adv d.cur n, hist := d.hist ++ [d.cur] }
  | .reset k => match d.hist[k]? with
      | some s => { d with cur := s }
      | none => d
  | .jump j => match d.hist[0]? with
      | some s => { d with cur := jumped s j }
      | none => d
  | .trim m => { d with hist := d.hist.drop (d.hist.length - m) }

def run (d : D σ) (ops : List Op) : D σ := ops.foldl (step adv jumped) d
end

/-- concrete states for the driver and the examples: (streams jumped, sizes drawn since) -/
abbrev P := Nat × List Nat
def advP (p : P) (n : Nat) : P := (p.1, p.2 ++ [n])
def jumpedP (p : P) (j : Nat) : P := (p.1 + j, p.2)

end StarsimModel.Hist
