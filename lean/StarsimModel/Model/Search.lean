/-
Model of how starsim finds and names its distributions (C01, C02, C04):

  Dists.init:   self.dists = sc.search(obj, type=Dist, skip=dict(ids=id(sim.people._states), keys='module'), flatten=True)

`sc.search` parses the object graph with sciris' `IterObj.iterate` (depth first: a deque whose left end is a stack of
`[parent, trace, key, object]`).  An entry popped from the stack is skipped when its key is a skipped key, its object a
skipped object, or the object is iterable (dict / list / tuple / object with a `__dict__`) and has been processed before
(`_memo`); otherwise it is processed — recorded under its trace (the path of keys from the root) when it is a `Dist` —
and its children are pushed, in order, in front of the rest.  The distribution's name is the trace joined by "_"; its seed
is hash(name) + base seed.

Objects are natural numbers (Python `id`s renumbered); the graph is a function from object to its description.
Core Lean only.
-/
namespace StarsimModel.Search

/-- one Python object as the search sees it -/
structure Obj where
  iterable : Bool                       -- `check_iter_type` is not None (the search descends into it and memoises it)
  isDist   : Bool                       -- matched by `type=Dist`
  kids     : List (String × Nat)        -- `iteritems`: (key, child) in iteration order
  deriving Repr, Inhabited

abbrev Graph := Nat → Obj

/-- a stack entry `[parent, trace, key, subobj]`: parent object, trace of the parent, key, object -/
structure Entry where
  par : Nat
  tr  : List String
  key : String
  id  : Nat
  deriving Repr, DecidableEq

structure State where
  stack : List Entry
  memo  : List Nat
  out   : List (List String × Nat)      -- (trace, object) for every Dist found, in the order found
  deriving Repr

/-- the skips starsim asks for: keys (`'module'`) and object ids (`people._states`) -/
structure Skips where
  keys : List String
  ids  : List Nat

/-- may this entry be processed? (`IterObj.check_proceed`) -/
def proceed (g : Graph) (sk : Skips) (memo : List Nat) (key : String) (id : Nat) : Bool :=
  !(sk.keys.contains key) && !(sk.ids.contains id) && !(memo.contains id && (g id).iterable)

/-- children of a processed object, as stack entries (`iteritems(subobj, newtrace)`) -/
def push (g : Graph) (tr : List String) (id : Nat) : List Entry :=
  if (g id).iterable then (g id).kids.map (fun kc => { par := id, tr := tr, key := kc.1, id := kc.2 }) else []

/-- one turn of the `while queue:` loop -/
def step (g : Graph) (sk : Skips) (s : State) : State :=
  match s.stack with
  | [] => s
  | e :: rest =>
      if proceed g sk s.memo e.key e.id then
        { stack := push g (e.tr ++ [e.key]) e.id ++ rest,
          memo  := e.id :: s.memo,
          out   := if (g e.id).isDist then s.out ++ [(e.tr ++ [e.key], e.id)] else s.out }
      else { s with stack := rest }

def steps (g : Graph) (sk : Skips) : Nat → State → State
  | 0, s => s
  | n + 1, s => steps g sk n (step g sk s)

def State.final (s : State) : Bool := s.stack.isEmpty

/-- the initial state of `iterate` for root object `root` (the root is memoised, its children are queued) -/
def start (g : Graph) (root : Nat) : State :=
  { stack := push g [] root, memo := [root], out := [] }

/-- `flatten_traces`: the name of a distribution -/
def flatten (tr : List String) : String := "_".intercalate tr

/-- the registry `Dists.dists` as a dict built from the flattened traces: a later entry with the same name REPLACES the
    value of the earlier one (and keeps the earlier one's position) -/
def toDict : List (String × Nat) → List (String × Nat) → List (String × Nat)
  | acc, [] => acc
  | acc, (k, v) :: rest =>
      if acc.any (fun e => e.1 == k) then toDict (acc.map (fun e => if e.1 == k then (k, v) else e)) rest
      else toDict (acc ++ [(k, v)]) rest

def registry (out : List (List String × Nat)) : List (String × Nat) :=
  toDict [] (out.map (fun e => (flatten e.1, e.2)))

/-! ### Adding objects to a graph

`old x` says that object `x` exists in the smaller graph `g2`; the other objects of `g1` are the added ones.  An entry is
`extra` when its parent or its object is an added one: such entries do not occur in the search of `g2`. -/

def Entry.extra (old : Nat → Bool) (e : Entry) : Bool := !(old e.par) || !(old e.id)

/-- Nothing to fear from the entry on top of the stack: if it leads from an added object back to an old iterable object
    (and is not skipped anyway), that object has been processed before — e.g. `module.sim`, `state.people`, a reference an
    analyzer holds to a disease that is searched earlier. -/
def safeAt (g : Graph) (sk : Skips) (old : Nat → Bool) (s : State) : Bool :=
  match s.stack with
  | [] => true
  | e :: _ =>
      !(!(old e.par) && old e.id && (g e.id).iterable && !(sk.keys.contains e.key) && !(sk.ids.contains e.id))
        || s.memo.contains e.id

/-- … at every turn of the next `n` -/
def safeRun (g : Graph) (sk : Skips) (old : Nat → Bool) : Nat → State → Bool
  | 0, _ => true
  | n + 1, s => safeAt g sk old s && safeRun g sk old n (step g sk s)

end StarsimModel.Search
