/-
Model of the parts of starsim's distribution families that are not formulas over reals (those are regenerated
into Generated/DistFormulas{R,F}.lean): histogram normalisation and bin-edge completion, the integer cast of
`randint`, emptiness, and the Float evaluation of the regenerated formulas for the driver.  Core Lean only.
-/
import StarsimModel.Generated.DistFormulasF

namespace StarsimModel.DistPars

/-- `histogram.__init__`: if there are as many bins as values, the bins are left edges and one right edge is
    appended at the spacing of the last two bins (`bins[-1] + (bins[-1] - bins[-2])`). `none` = IndexError. -/
def completeBins (nvalues : Nat) (bins : List Rat) : Option (List Rat) :=
  if bins.length = nvalues then
    match bins.reverse with
    | last :: prev :: _ => some (bins ++ [last + (last - prev)])
    | _ => none
  else some bins

def sumRat : List Rat → Rat
  | [] => 0
  | x :: xs => x + sumRat xs

/-- `histogram.__init__`: `vsum = values.sum(); if vsum != 1.0: values = values / vsum` -/
def normalise (values : List Rat) : List Rat :=
  let s := sumRat values
  if s ≠ 1 then values.map (· / s) else values

/-- `randint.ppf` after the regenerated raw formula: floor, then cast -/
def randintCast (x : Rat) : Int := x.floor

/-- the width the per-agent path of `randint` uses, exact arithmetic (`spec` form: high − low) -/
def randintSpec (u : Rat) (low high : Int) : Int := randintCast (u * ((high : Rat) - low) + low)

/-- a size-zero request returns an empty result -/
def emptyRequest {α} (draw : Nat → List α) : List α := draw 0

end StarsimModel.DistPars
