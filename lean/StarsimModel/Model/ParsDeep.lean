/-
C17 (round 2) — more of starsim's parameter handling inside the model:

* merging of a positional `pars` dict with keywords (`Module.update_pars`, `Sim.__init__`): later dicts win, order
  regenerated (`Gen.updateParsMergeOrder`, `Gen.simMergeOrder`);
* `ss.Time(**kwargs)` / `Time.update(pars=...)`: where the keywords and the `pars=` dict of a module class that never
  calls `update_pars` end up (regenerated: `Gen.timeInitNames`, `Gen.timeInitVarKw`, `Gen.timeUpdateLeftover`,
  `Gen.timeKwBeforePars`, `Gen.moduleInitForwardsToTime`);
* `ss.ndict` construction from a list of modules (duplicate names; `Gen.ndictDuplicateAction`);
* parameter sets nested to ANY depth (`PT n` / `NT n`, structural recursion on the depth): Pars inside ndict inside
  Pars …, updated by `applyN` / `updateN`.
Core Lean only.
-/
import StarsimModel.Model.Pars

namespace StarsimModel.Pars

/-! ## Merging dicts: `sc.mergedicts(a, b)` — keys of `a` first, values of `b` win -/

def overrideBy (b : List Item) (it : Item) : Item :=
  match lookup it.1 b with
  | some v => (it.1, v)
  | none => it

def absentIn (a : List Item) (it : Item) : Bool := (lookup it.1 a).isNone

def mergeItems (a b : List Item) : List Item :=
  a.map (overrideBy b) ++ b.filter (absentIn a)

/-- `Module.update_pars(pars, **kwargs)`: merged in the regenerated order -/
def mergeParsKw (pars kw : List Item) : List Item :=
  Gen.updateParsMergeOrder.foldl (fun acc nm => mergeItems acc (if nm = "pars" then pars else kw)) []

def updateParsKw (var : Variant) (ms : ModState) (pars kw : List Item) : Except Err ModState :=
  updatePars var ms (mergeParsKw pars kw)

/-- `Sim.__init__`: `sc.mergedicts(pars, args, kwargs)` in the regenerated order -/
def mergeSim (pars args kwargs : List Item) : List Item :=
  Gen.simMergeOrder.foldl
    (fun acc nm => mergeItems acc (if nm = "pars" then pars else if nm = "args" then args else kwargs)) []

/-! ## `ss.Time(**kwargs)` for module classes that never call `update_pars` -/

/-- the non-None value supplied for a time argument -/
def timePick (k : String) (kw pars : List Item) : Option Nat :=
  let pick (l : List Item) : Option Nat :=
    match lookup k l with
    | some (n, t) => if n = .nil then none else some t
    | none => none
  if Gen.timeCtorParsWin then (pick pars).orElse (fun _ => pick kw) else (pick kw).orElse (fun _ => pick pars)

/-- `cls(**kw, pars=pars)` for a class whose constructor only forwards to `Module.__init__ → ss.Time(**kwargs)`:
    the time arguments in effect, or the error.  `pars = none`: no `pars=` given. -/
def timeStray (pars : List Item) : List Item := pars.filter (fun it => !Gen.timeArgs.contains it.1)

def timeVerdict (var : Variant) (pars : List Item) : Except Err Unit :=
  if (timeStray pars).isEmpty then .ok ()
  else match var with
    | .spec => .error .value
    | .asis => match Gen.timeUpdateLeftover with
        | .raise e => .error e
        | _ => .ok ()

def timeResult (kw pars : List Item) : List (String × Nat) :=
  Gen.timeArgs.filterMap (fun k => (timePick k kw pars).map (fun t => (k, t)))

def timeCtor (var : Variant) (kw : List Item) (pars : List Item) : Except Err (List (String × Nat)) :=
  if !Gen.timeInitVarKw && kw.any (fun it => !Gen.timeInitNames.contains it.1) then .error .type   -- Python: unexpected keyword
  else match timeVerdict var pars with
    | .error e => .error e
    | .ok _ => .ok (timeResult kw pars)

/-! ## `ss.ndict(list of modules)` -/

def buildNdict : List String → List String → Except Err (List String)
  | acc, [] => .ok acc
  | acc, nm :: rest =>
      if acc.contains nm then
        (match Gen.ndictDuplicateAction with
         | .raise e => .error e
         | _ => buildNdict acc rest)          -- overwrite: the name stays once
      else buildNdict (acc ++ [nm]) rest

/-! ## Parameter sets nested to any depth -/

inductive CKind where
  | pars     -- a nested `Pars`
  | mods     -- a non-empty `ndict` of modules; each child is that module's `pars`
  deriving DecidableEq, Repr

/-- a stored value of nesting depth ≤ n -/
def PT : Nat → Type
  | 0 => Slot
  | n + 1 => Slot ⊕ (CKind × List (String × PT n))

/-- a supplied value of nesting depth ≤ n: a whole value, or a dict (kind, token) of items -/
def NT : Nat → Type
  | 0 => NKind × Nat
  | n + 1 => (NKind × Nat) ⊕ (NKind × Nat × List (String × NT n))

/-- kind and token of a supplied value taken as a whole -/
def NT.kt : (n : Nat) → NT n → NKind × Nat
  | 0, kt => kt
  | _ + 1, .inl kt => kt
  | _ + 1, .inr (k, t, _) => (k, t)

/-- a supplied value stored as is -/
def storeNew : (n : Nat) → NT n → PT n
  | 0, (k, t) => (⟨k.asOld, .isNew t⟩ : Slot)
  | n + 1, v => .inl ⟨(NT.kt (n + 1) v).1.asOld, .isNew (NT.kt (n + 1) v).2⟩

/-- the loop of `Pars.update` over arbitrary entries -/
def setAll {α β} (apply : α → β → Except Err α) (store : β → α) (kindOf : β → NKind) :
    List (String × α) → List (String × β) → Except Err (List (String × α))
  | p, [] => .ok p
  | p, (k, v) :: rest =>
      match lookup k p with
      | none =>
          (match newKeyAction (kindOf v) with
           | .raise e => .error e
           | .set => setAll apply store kindOf (p ++ [(k, store v)]) rest
           | _ => setAll apply store kindOf p rest)
      | some old =>
          match apply old v with
          | .error e => .error e
          | .ok o' => setAll apply store kindOf (replace k o' p) rest

def updateGen {α β} (create : Bool) (apply : α → β → Except Err α) (store : β → α) (kindOf : β → NKind)
    (p : List (String × α)) (items : List (String × β)) : Except Err (List (String × α)) :=
  match strictCheck create (keysOf p) (keysOf items) with
  | .error e => .error e
  | .ok _ => setAll apply store kindOf p items

/-- `for k, v in new.items(): old[k].pars.update(v)`: never creates, unknown module name → KeyNotFoundError -/
def modsAll {α β} (apply : α → β → Except Err α) :
    List (String × α) → List (String × β) → Except Err (List (String × α))
  | m, [] => .ok m
  | m, (k, v) :: rest =>
      match lookup k m with
      | none => .error .keyNotFound
      | some c =>
          match apply c v with
          | .error e => .error e
          | .ok c' => modsAll apply (replace k c' m) rest

/-- what `dict(new)` of a non-dict does inside `old.update(new, …)` -/
def recurseAtom : NKind → Except Err Unit
  | .nil => .ok ()
  | .series | .dataframe => .error .keyNotFound
  | .str => .error .value
  | _ => .error .type

/-- one supplied value applied to one stored value, at any depth -/
def applyN : (n : Nat) → Variant → Bool → PT n → NT n → Except Err (PT n)
  | 0, var, _, s, (k, t) => applyLeaf var s k t
  | n + 1, var, create, old, new =>
      match old with
      | .inl s => (applyLeaf var s (NT.kt (n + 1) new).1 (NT.kt (n + 1) new).2).map .inl
      | .inr (.pars, children) =>
          (match dispatch .pars (NT.kt (n + 1) new).1 with
           | .recurse =>
               (match new with
                | .inr (_, _, items) =>
                    (updateGen create (applyN n var create) (storeNew n) (fun v => (NT.kt n v).1) children items).map
                      (fun c => .inr (.pars, c))
                | .inl (k, _) => (recurseAtom k).map (fun _ => old))
           | .raise e => .error e
           | .set => .ok (.inl ⟨(NT.kt (n + 1) new).1.asOld, .isNew (NT.kt (n + 1) new).2⟩)
           | _ => .error .other)
      | .inr (.mods, children) =>
          (match dispatch .ndictFull (NT.kt (n + 1) new).1 with
           | .ndictItems =>
               (match new with
                | .inr (_, _, items) => (modsAll (applyN n var false) children items).map (fun c => .inr (.mods, c))
                | .inl _ => .error .other)
           | .raise e => .error e
           | .set => .ok (.inl ⟨(NT.kt (n + 1) new).1.asOld, .isNew (NT.kt (n + 1) new).2⟩)
           | _ => .error .other)

/-- `Pars.update(items, create)` on a parameter set whose entries nest to depth ≤ n -/
def updateN (n : Nat) (var : Variant) (create : Bool) (p : List (String × PT n)) (items : List (String × NT n)) :
    Except Err (List (String × PT n)) :=
  updateGen create (applyN n var create) (storeNew n) (fun v => (NT.kt n v).1) p items

/-! ### What "in effect", "well-formed" and "only known names" mean at depth n -/

def kindGood (var : Variant) (k : NKind) : Bool := !(var = .asis && k = .dictNoTypeBad)

/-- no dict naming an unknown distribution parameter anywhere (the as-is defect), and dict keys distinct at every level -/
def wfN : (n : Nat) → Variant → NT n → Prop
  | 0, var, (k, _) => kindGood var k = true
  | n + 1, var, .inl (k, _) => kindGood var k = true
  | n + 1, var, .inr (k, _, items) =>
      kindGood var k = true ∧ (keysOf items).Nodup ∧ ∀ it ∈ items, wfN n var it.2

/-- the supplied value is in effect in the stored value -/
def inEffectN : (n : Nat) → PT n → NT n → Prop
  | 0, s, (_, t) => s.eff.token = some t
  | n + 1, .inl s, v => s.eff.token = some (NT.kt (n + 1) v).2
  | _ + 1, .inr (_, _), .inl _ => True                      -- a container given `None`: nothing was supplied
  | n + 1, .inr (_, children), .inr (_, _, items) =>
      ∀ it ∈ items, ∃ c, lookup it.1 children = some c ∧ inEffectN n c it.2

/-- every name the supplied value mentions, at every depth, names something that exists in the stored value -/
def knownN : (n : Nat) → PT n → NT n → Prop
  | 0, _, _ => True
  | _ + 1, .inl _, _ => True
  | _ + 1, .inr (_, _), .inl _ => True
  | n + 1, .inr (_, children), .inr (_, _, items) =>
      ∀ it ∈ items, ∃ c, lookup it.1 children = some c ∧ knownN n c it.2

end StarsimModel.Pars
