/-
Model of the run-control state machine (starsim/sim.py `run`, `run_one_step`, `finalize`, `start_step` guard;
starsim/loop.py `run`, `run_one_step`) over a fixed plan (Model/Loop.lean).

The state is `{index, complete, resultsReady, nScaled, clocks, st}`:
* `index` = `Loop.index`, the cursor into the plan; `clocks` = every owner's `t.ti` (owner 0 = the sim);
* `complete`, `resultsReady` = the run-once guards of `Sim`; `nScaled` = how many times the results were multiplied
  by `pop_scale` (`Sim.finalize` rescales in place);
* `st : σ` = everything else (people, states, results, generator positions), advanced by an *arbitrary* deterministic
  function `step : σ → Entry → σ` for every executed plan function (C01).
`restore mode` (deepcopy / pickle / save+load) is the identity on this abstract state: that it is the identity on the
concrete object graph is what the correspondence establishes (DESIGN section 8).

`until` is compared with `sim.now = timevec[min(ti, npts-1)]`; times are exact rationals (a Python float is one;
dates are passed as ordinals).  `until` falsy (None, 0) means "no stop" (`if until and self.sim.now > until`).
Core Lean only.
-/
import StarsimModel.Model.Loop

namespace StarsimModel.RunState
open StarsimModel.Loop

inductive Err where
  | alreadyRun    -- `AlreadyRunError`
  | other         -- anything else (`KeyError` of `loop.run_one_step` past the end)
  deriving DecidableEq, Repr

inductive Mode where
  | none | deepcopy | pickle | saveload
  deriving DecidableEq, Repr

structure Cfg (σ : Type) where
  plan : List Entry
  /-- `sim.t.timevec` as exact rationals -/
  timevec : List Rat
  /-- number of owners (sim + modules): whose `ti` `Sim.run` decrements on completion -/
  nOwners : Nat
  step : σ → Entry → σ
  init : σ

structure State (σ : Type) where
  index : Nat
  complete : Bool
  resultsReady : Bool
  nScaled : Nat
  /-- clocks as advanced by the executed functions -/
  clocks : Clocks
  /-- `Sim.run`'s `ti -= 1` applied (to the sim and every module) -/
  adjusted : Bool
  st : σ

variable {σ : Type}

def fresh (c : Cfg σ) : State σ :=
  { index := 0, complete := false, resultsReady := false, nScaled := 0, clocks := [], adjusted := false, st := c.init }

/-- `owner.t.ti` -/
def State.ti (s : State σ) (m : Nat) : Int := (getClk s.clocks m : Int) - (if s.adjusted then 1 else 0)

/-- `sim.now` = `timevec[min(ti, npts-1)]` -/
def now (c : Cfg σ) (s : State σ) : Rat :=
  let ti := getClk s.clocks 0 - (if s.adjusted then 1 else 0)
  c.timevec.getD (min ti (c.timevec.length - 1)) 0

/-- Execute one plan function. -/
def exec (c : Cfg σ) (s : State σ) (e : Entry) : State σ :=
  { s with index := s.index + 1, clocks := bump s.clocks e, st := c.step s.st e }

/-- `if until and self.sim.now > until: break` -/
def stopNow (c : Cfg σ) (s : State σ) (untl : Option Rat) : Bool :=
  match untl with
  | none => false
  | some u => u != 0 && decide (u < now c s)

/-- `Loop.run(until)` over the remaining entries. -/
def loopRunAux (c : Cfg σ) (untl : Option Rat) : List Entry → State σ → State σ
  | [], s => s
  | e :: r, s => let s1 := exec c s e; if stopNow c s1 untl then s1 else loopRunAux c untl r s1

def loopRun (c : Cfg σ) (untl : Option Rat) (s : State σ) : State σ :=
  loopRunAux c untl (c.plan.drop s.index) s

/-- `Sim.finalize` -/
def finalize (s : State σ) : State σ × Except Err Unit :=
  if s.resultsReady then (s, .error .alreadyRun)
  else ({ s with nScaled := s.nScaled + 1, resultsReady := true }, .ok ())

/-- `Sim.run(until)` -/
def run (c : Cfg σ) (untl : Option Rat) (s : State σ) : State σ × Except Err Unit :=
  if s.complete then (s, .error .alreadyRun)
  else
    let s1 := loopRun c untl s
    if s1.index = c.plan.length then
      finalize { s1 with complete := true, adjusted := true }
    else (s1, .ok ())

/-- `Sim.run_one_step` = `self.loop.run(self.t.now())`: no guard, no finalisation. -/
def simRunOneStep (c : Cfg σ) (s : State σ) : State σ × Except Err Unit :=
  (loopRun c (some (now c s)) s, .ok ())

/-- `Loop.run_one_step`: one function; `KeyError` past the end. -/
def loopRunOneStep (c : Cfg σ) (s : State σ) : State σ × Except Err Unit :=
  match c.plan[s.index]? with
  | some e => (exec c s e, .ok ())
  | none => (s, .error .other)

/-- The error an operation raised, if any. -/
def errOf : Except Err Unit → Option Err
  | .ok _ => none
  | .error e => some e

inductive Op where
  | run (untl : Option Rat)
  | simStep
  | loopStep
  | restore (m : Mode)
  | finalize
  /-- a read-only use of a (paused or finished) sim: `to_json`, `shrink(inplace=False)`, `save(shrink=True)` to a
      file, `repr`, `loop.to_df()`, handing a copy to a `MultiSim` -/
  | observe
  deriving Repr

def apply (c : Cfg σ) (s : State σ) : Op → State σ × Except Err Unit
  | .run u => run c u s
  | .simStep => simRunOneStep c s
  | .loopStep => loopRunOneStep c s
  | .restore _ => (s, .ok ())
  | .finalize => finalize s
  | .observe => (s, .ok ())

def applyAll (c : Cfg σ) (s : State σ) (ops : List Op) : State σ := ops.foldl (fun s op => (apply c s op).1) s

/-- Operations that leave the abstract state alone: restores (of any mode, in any order, of copies of copies) and
    read-only uses. -/
def Op.transparent : Op → Bool
  | .restore _ => true
  | .observe => true
  | _ => false

/-- Operations other than a manual `finalize` -/
def Op.noFinalize : Op → Bool
  | .finalize => false
  | _ => true

/-- Execute plan functions untl the cursor is at `k` (pausing "after any single scheduled function"). -/
def runTo (c : Cfg σ) (k : Nat) (s : State σ) : State σ :=
  ((c.plan.drop s.index).take (k - s.index)).foldl (exec c) s

/-- The state an uninterrupted `sim.run()` ends in. -/
def finalState (c : Cfg σ) : State σ :=
  { index := c.plan.length, complete := true, resultsReady := true, nScaled := 1,
    clocks := finalClocks [] c.plan, adjusted := true, st := c.plan.foldl c.step c.init }

end StarsimModel.RunState
