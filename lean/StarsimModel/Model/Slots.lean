/-
Model of slot-indexed sampling (starsim/distributions.py `process_size`, `rvs`, `bernoulli.filter`,
`multi_random.combine_rvs`) and of an abstract slot-keyed epidemic used for the sim-level statement of C03.

The stream of a generator position is an uninterpreted function `Nat → α` (index of the variate in the
sequence the generator would produce from that position); nothing is assumed about its values.
Core Lean only.
-/
namespace StarsimModel.Slots

/-- `process_size` for a uid request: `slots.max() + 1`, or 0 for an empty request. -/
def reqSize : List Nat → Nat
  | [] => 0
  | s :: rest => (rest.foldl max s) + 1

/-- The code's shape for a static-parameter draw: produce the first `reqSize` variates, then index by slot
    (`rvs = make_rvs(); rvs = rvs[slots]`).  Out-of-range indexing would be `none`. -/
def rvsCode {α} (stream : Nat → α) (slots : List Nat) : List (Option α) :=
  let draws := (List.range (reqSize slots)).map stream
  slots.map (fun s => draws[s]?)

/-- The specification: agent with slot `s` gets variate number `s` of the stream. -/
def rvsSpec {α} (stream : Nat → α) (slots : List Nat) : List (Option α) :=
  slots.map (fun s => some (stream s))

/-- Dynamic-parameter path: `rands = rand(size)[slots]; rvs = ppf(rands)` with per-agent parameters. -/
def rvsDyn {α β π} (u : Nat → α) (ppf : π → α → β) (pars : List π) (slots : List Nat) : List (Option β) :=
  List.zipWith (fun par r => r.map (ppf par)) pars (rvsCode u slots)

/-- `bernoulli.filter(uids)`: the requested uids whose uniform draw is below their probability, in request order.
    `req` lists `(uid, slot, p)`. -/
def filterCode (u : Nat → Rat) (req : List (Nat × Nat × Rat)) : List Nat :=
  let draws := rvsCode u (req.map (·.2.1))
  (List.zip req draws).filterMap (fun (e : (Nat × Nat × Rat) × Option Rat) =>
    match e.2 with
    | some r => if r < e.1.2.2 then some e.1.1 else none
    | none => none)

/-- `multi_random.combine_rvs` on the 32-bit patterns of two float32 uniforms:
    `xor(a*b, a-b)` in wrap-around unsigned arithmetic; the result is divided by `2^32 - 1`. -/
def combineBits (a b : Nat) : Nat :=
  let m := 2 ^ 32
  Nat.xor ((a * b) % m) ((a + m - b % m) % m)

/-- `multi_random.rvs(src, trg)`: per edge, combine the source agent's and the target agent's variates. -/
def multiRvs (uS uT : Nat → Nat) (slotsS slotsT : List Nat) : List (Option Nat) :=
  List.zipWith (fun a b => match a, b with
    | some x, some y => some (combineBits x y)
    | _, _ => none) (rvsCode uS slotsS) (rvsCode uT slotsT)

/-! ### An abstract slot-keyed epidemic (for `C03_extension_invariance`)

Agents are identified with their slots.  All randomness is keyed by (step, slot) or (step, slot, slot):
`edgeDraw t a b` decides whether the edge `a–b` exists in step `t` (ErdosRenyi / Disk style), `transDraw t a b`
is the pairwise transmission number, `recDraw t a` an agent-local draw (e.g. recovery). -/

structure World where
  edgeDraw : Nat → Nat → Nat → Rat
  transDraw : Nat → Nat → Nat → Rat
  recDraw : Nat → Nat → Rat
  pEdge : Rat
  beta : Rat
  pRec : Rat
  relTrans : Nat → Rat
  relSus : Nat → Rat

structure EpiState where
  sus : Nat → Bool
  inf : Nat → Bool

/-- Is `b` infected in step `t`, given the population `pop` (list of slots)? -/
def getsInfected (w : World) (t : Nat) (st : EpiState) (pop : List Nat) (b : Nat) : Bool :=
  st.sus b && pop.any (fun a =>
    st.inf a && decide (a ≠ b) && decide (w.edgeDraw t (min a b) (max a b) ≤ w.pEdge)
      && decide (w.transDraw t a b < w.beta * w.relTrans a * w.relSus b))

/-- One step for every agent of the population: recovery (agent-local draw), then transmission. -/
def epiStep (w : World) (t : Nat) (pop : List Nat) (st : EpiState) : EpiState :=
  let recovers := fun a => st.inf a && decide (w.recDraw t a < w.pRec)
  let st1 : EpiState := { sus := st.sus, inf := fun a => st.inf a && !recovers a }
  { sus := fun b => st1.sus b && !getsInfected w t st1 pop b,
    inf := fun b => st1.inf b || getsInfected w t st1 pop b }

def epiRun (w : World) (pop : List Nat) (st : EpiState) : Nat → EpiState
  | 0 => st
  | t + 1 => epiStep w t pop (epiRun w pop st t)

end StarsimModel.Slots
