/-
Model of time-unit conversion in starsim/time.py: `time_ratio`, the unit alias table, and the `TimePar`
family (`dur`, `rate`, `time_prob`, `rate_prob`, `beta`): construction / `validate_units`, `init` (parent
inheritance), `update_cached` (factor + values, `die`), `set`, `to`, `to_parent`, arithmetic.

Numbers supplied by the user (dt, v) are exact rationals (a Python float is a binary rational).  The unit
table, the alias table and the default dt constants are REGENERATED from /repo on every run
(`Generated/TimeUnits.lean`, `Generated/TimeParConsts.lean`).

Values live in a carrier `α` described by `NumOps α` (DESIGN 4.2c): the conversion formulas are written
once and instantiated at `Rat` (exact; `dur`/`rate`, which never touch `exp`/`log`), at `Float` (IEEE double,
same operation order as the Python source; used by the driver for the probability kinds) and, in
`Lemmas/TimePar.lean`, at `ℝ` for the theorems that need `exp`/`log`.

Core Lean only (no Mathlib): this file is interpreted by `Drivers/C06.lean`.
-/
import StarsimModel.Generated.TimeUnits
import StarsimModel.Generated.TimeParConsts

namespace StarsimModel.TimePar

/-- Exception kinds: ValueError, KeyError (incl. sciris KeyNotFoundError), ZeroDivisionError, AttributeError,
    TypeError. -/
inductive Err where
  | value | key | zeroDiv | attr | type
  deriving DecidableEq, Repr

/-- A unit as the code holds it: `None` or a string (canonical name, alias, or anything else). -/
abbrev UnitT := Option String

/-- `time_units[u]` -/
def unitLen (u : String) : Option Rat := Gen.timeUnits.lookup u

/-- `unit_mapping_reverse['unitless']` -/
def unitlessNames : List String := (Gen.unitAliases.lookup "unitless").getD []

/-- `is_unitless(unit)`: explicit membership (so `None` is not unitless). -/
def isUnitless : UnitT → Bool
  | some s => unitlessNames.contains s
  | none => false

/-- `unit_mapping[unit]` as used by `TimePar.validate_units` (string aliases; `None ↦ None`);
    a miss is the `ValueError` raised there. -/
def canonUnit : UnitT → Except Err UnitT
  | none => .ok none
  | some s =>
    match Gen.unitAliases.find? (fun r => r.2.contains s) with
    | some r => .ok (some r.1)
    | none => .error .value

/-! ### `time_ratio` -/

/-- the `dt` part of `time_ratio`, with the `dt1 == dt2` short-cut taken first (also for `None == None`) -/
def dtRatio (dt1 dt2 : Option Rat) : Except Err Rat :=
  if dt1 = dt2 then .ok 1 else
  match dt1, dt2 with
  | some a, some b => if b = 0 then .error .zeroDiv else .ok (a / b)
  | _, _ => .error .value

/-- the unit part of `time_ratio`, with the `unit1 == unit2` short-cut taken first (raw comparison) -/
def unitRatio (u1 u2 : UnitT) : Except Err Rat :=
  if u1 = u2 then .ok 1 else
  if isUnitless u1 || isUnitless u2 then .error .value else
  match u1, u2 with
  | some a, some b =>
    match unitLen a with
    | none => .error .key
    | some x =>
      match unitLen b with
      | none => .error .key
      | some y => if y = 0 then .error .zeroDiv else .ok (x / y)
  | _, _ => .error .value

/-- `time_ratio(unit1, dt1, unit2, dt2)` (without `as_int`) -/
def timeRatio (u1 : UnitT) (dt1 : Option Rat) (u2 : UnitT) (dt2 : Option Rat) : Except Err Rat :=
  match dtRatio dt1 dt2 with
  | .error e => .error e
  | .ok d =>
    match unitRatio u1 u2 with
    | .error e => .error e
    | .ok u => .ok (d * u)

/-- Python's `round` of an exact value: nearest integer, ties to even -/
def roundHalfEven (q : Rat) : Int :=
  let f := q.floor
  let r := q - (f : Rat)
  if r < 1/2 then f else if 1/2 < r then f + 1 else (if f % 2 = 0 then f else f + 1)

/-- `time_ratio(..., as_int=True)`: `int(round(factor))` -/
def timeRatioInt (u1 : UnitT) (dt1 : Option Rat) (u2 : UnitT) (dt2 : Option Rat) : Except Err Int :=
  match timeRatio u1 dt1 u2 dt2 with
  | .error e => .error e
  | .ok f => .ok (roundHalfEven f)

/-- one `time_ratio` request and its answer (exact factor or rounded integer).  The function has no state:
    the answer to a request cannot depend on earlier requests (`Props/C06: C06_ratio_requests_independent`). -/
structure RatioReq where
  u1 : UnitT
  dt1 : Option Rat
  u2 : UnitT
  dt2 : Option Rat
  asInt : Bool

def answerRatio (r : RatioReq) : Except Err Rat :=
  if r.asInt then (match timeRatioInt r.u1 r.dt1 r.u2 r.dt2 with | .ok i => .ok (i : Rat) | .error e => .error e)
  else timeRatio r.u1 r.dt1 r.u2 r.dt2

/-! ### Numeric carrier -/

structure NumOps (α : Type) where
  ofRat : Rat → α
  add : α → α → α
  sub : α → α → α
  mul : α → α → α
  div : α → α → α
  neg : α → α
  exp : α → α
  log : α → α
  /-- general power `a ** b` (real exponent) -/
  powr : α → α → α
  beq : α → α → Bool
  le : α → α → Bool
  lt : α → α → Bool

namespace NumOps
variable {α : Type} (o : NumOps α)
def zero : α := o.ofRat 0
def one : α := o.ofRat 1
/-- `rate = -np.log(1 - v); 1 - np.exp(-rate/factor)` — `time_prob`, same operation order as the source -/
def tpFormula (v f : α) : α := o.sub o.one (o.exp (o.div (o.neg (o.neg (o.log (o.sub o.one v)))) f))
/-- `1 - np.exp(-v/factor)` — `rate_prob` -/
def rpFormula (v f : α) : α := o.sub o.one (o.exp (o.div (o.neg v) f))
def pow (a : α) : Nat → α
  | 0 => o.one
  | n + 1 => o.mul (pow a n) a
end NumOps

/-- Exact rationals.  `exp`/`log` do not exist on `Rat`; the placeholders are never reached by `dur`/`rate`
    (`Lemmas/TimePar.lean: convScalar_algebraic_indep`), and the driver refuses the probability kinds in this mode. -/
def ratOps : NumOps Rat :=
  { ofRat := id, add := (· + ·), sub := (· - ·), mul := (· * ·), div := (· / ·), neg := (- ·),
    exp := fun _ => 0, log := fun _ => 0, powr := fun _ _ => 0,
    beq := fun a b => decide (a = b), le := fun a b => decide (a ≤ b), lt := fun a b => decide (a < b) }

/-- `Rat → Float`.  Exact whenever the rational is a double (every Python float is: numerator < 2^53 after
    removing powers of two, denominator a power of two — very large denominators are split so that no
    intermediate overflows); otherwise within 1.5 ulp. -/
def ratToFloat (q : Rat) : Float :=
  let k := q.den.log2 - 1000
  if k = 0 then Float.ofInt q.num / Float.ofNat q.den
  else (Float.ofInt q.num / Float.ofNat (q.den >>> k)).scaleB (-(k : Int))

/-- IEEE doubles with the C library's `exp`/`log`. -/
def floatOps : NumOps Float :=
  { ofRat := ratToFloat, add := (· + ·), sub := (· - ·), mul := (· * ·), div := (· / ·), neg := (- ·),
    exp := Float.exp, log := Float.log, powr := Float.pow,
    beq := fun a b => a == b, le := fun a b => decide (a ≤ b), lt := fun a b => decide (a < b) }

/-! ### Values -/

inductive Val (α : Type) where
  | scalar (a : α)
  | array (l : List α)
  deriving Repr, DecidableEq

def Val.map {α : Type} (f : α → α) : Val α → Val α
  | .scalar a => .scalar (f a)
  | .array l => .array (l.map f)

inductive Kind where
  | dur | rate | timeProb | rateProb | beta
  deriving DecidableEq, Repr

/-- `beta` subclasses `time_prob` without overriding anything. -/
def Kind.isTimeProb : Kind → Bool
  | .timeProb | .beta => true
  | _ => false

/-- the scalar (non-ndarray) branch of `update_values`, per class -/
def convScalar {α : Type} (o : NumOps α) (k : Kind) (f v : α) : Except Err α :=
  match k with
  | .dur => .ok (o.mul v f)
  | .rate => if o.beq f o.zero then .error .zeroDiv else .ok (o.div v f)
  | .timeProb | .beta =>
      if o.beq v o.zero then .ok o.zero
      else if o.beq v o.one then .ok o.one
      else if o.le o.zero v && o.le v o.one then
        -- factor 0 (self_dt = 0): NumPy's `-rate/0.0 = -inf`, `exp(-inf) = 0`: the event is certain
        (if o.beq f o.zero then .ok o.one else .ok (o.tpFormula v f))
      else .error .value
  | .rateProb =>
      if o.beq v o.zero then .ok o.zero
      else if o.lt o.zero v then (if o.beq f o.zero then .error .zeroDiv else .ok (o.rpFormula v f))
      else .error .attr      -- the message references `self.value`, which does not exist: AttributeError

/-- the elementwise map of the ndarray branch -/
def convElem {α : Type} (o : NumOps α) (k : Kind) (f x : α) : α :=
  match k with
  | .dur => o.mul x f
  | .rate => o.div x f
  | .timeProb | .beta => if o.lt o.zero x && o.lt x o.one then o.tpFormula x f else x
  | .rateProb => if o.lt o.zero x then o.rpFormula x f else x

/-- the `invalid` mask of the ndarray branch -/
def invalidElem {α : Type} (o : NumOps α) (k : Kind) (x : α) : Bool :=
  match k with
  | .dur | .rate => false
  | .timeProb | .beta => o.lt x o.zero || o.lt o.one x
  | .rateProb => o.lt x o.zero

/-- `update_values`: the values it assigns (if any: the array branch assigns before it raises) and its outcome -/
def convVal {α : Type} (o : NumOps α) (k : Kind) (f : α) : Val α → Option (Val α) × Except Err Unit
  | .scalar v =>
    match convScalar o k f v with
    | .ok x => (some (.scalar x), .ok ())
    | .error e => (none, .error e)
  | .array l =>
    if o.beq f o.zero && k ≠ .dur then (none, .error .zeroDiv) else
    (some (.array (l.map (convElem o k f))), if l.any (invalidElem o k) then .error .value else .ok ())

/-! ### The TimePar object -/

structure TP (α : Type) where
  kind : Kind
  v : Val α
  unit : UnitT
  parentUnit : UnitT
  parentDt : Option Rat
  selfDt : Option Rat
  factor : Option Rat
  values : Option (Val α)
  initialized : Bool

abbrev Res := Except Err Unit

/-- `validate_units`: normalise `unit`, then `parent_unit`; a miss raises after the earlier assignment -/
def validateUnits {α : Type} (t : TP α) : TP α × Res :=
  match canonUnit t.unit with
  | .error e => (t, .error e)
  | .ok u =>
    let t1 := { t with unit := u }
    match canonUnit t1.parentUnit with
    | .error e => (t1, .error e)
    | .ok p => ({ t1 with parentUnit := p }, .ok ())

/-- `TimePar.__init__` -/
def mk {α : Type} (k : Kind) (v : Val α) (unit parentUnit : UnitT) (parentDt selfDt : Option Rat) : Except Err (TP α) :=
  let t : TP α := { kind := k, v := v, unit := unit, parentUnit := parentUnit, parentDt := parentDt, selfDt := selfDt,
                    factor := none, values := none, initialized := false }
  match validateUnits t with
  | (t', .ok ()) => .ok t'
  | (_, .error e) => .error e

/-- `update_factor` -/
def updateFactor {α : Type} (t : TP α) : Except Err Rat :=
  timeRatio t.unit t.selfDt t.parentUnit t.parentDt

/-- `update_cached(update_values, die)` -/
def updateCached {α : Type} (o : NumOps α) (t : TP α) (updVals die : Bool) : TP α × Res :=
  match updateFactor t with
  | .error e => (t, if die then .error e else .ok ())
  | .ok f =>
    let t1 := { t with factor := some f }
    if updVals then
      match convVal o t.kind (o.ofRat f) t.v with
      | (some vals, r) => ({ t1 with values := some vals }, if die then r else .ok ())
      | (none, r) => (t1, if die then r else .ok ())
    else (t1, .ok ())

/-- first non-`None` (sc.ifelse) -/
def orElse {β : Type} (a b : Option β) : Option β := match a with | some x => some x | none => b

/-- the inheritance part of `TimePar.init` (before `update_cached`) -/
def inherit {α : Type} (t : TP α) (pu : UnitT) (pdt : Option Rat) : TP α :=
  let pu1 := orElse pu t.parentUnit
  let pdt1 := orElse pdt t.parentDt
  let u2 := orElse t.unit pu1
  let pu2 := orElse pu1 u2
  let pdt2 := orElse pdt1 (orElse t.selfDt (some Gen.initFallbackDt))
  { t with unit := u2, parentUnit := pu2, parentDt := pdt2 }

/-- `TimePar.init(parent | parent_unit, parent_dt, update_values, die)`.
    `viaParent`: a parent object was given (its unit/dt are `pu`/`pdt`); then a `parent_dt` keyword (`extraDt`) is refused. -/
def init {α : Type} (o : NumOps α) (t : TP α) (viaParent : Bool) (pu : UnitT) (pdt extraDt : Option Rat)
    (updVals die : Bool) : TP α × Res :=
  if viaParent && extraDt.isSome then (t, .error .value) else
  let t1 := inherit t pu pdt
  match updateCached o t1 updVals die with
  | (t2, .error e) => (t2, .error e)
  | (t2, .ok ()) => validateUnits { t2 with initialized := true }

/-- `TimePar.set(...)` (None arguments ignored) -/
def setPars {α : Type} (o : NumOps α) (t : TP α) (v : Option (Val α)) (unit parentUnit : UnitT)
    (parentDt selfDt : Option Rat) (force : Bool) : TP α × Res :=
  let t1 := { t with v := v.getD t.v, unit := orElse unit t.unit, parentUnit := orElse parentUnit t.parentUnit,
                     parentDt := orElse parentDt t.parentDt, selfDt := orElse selfDt t.selfDt }
  if t1.initialized || force then
    match updateCached o t1 true true with
    | (t2, .error e) => (t2, .error e)
    | (t2, .ok ()) => validateUnits t2
  else validateUnits t1

/-- `TimePar.to`: the target unit `sc.ifelse(unit, self.parent_unit, self.unit)` -/
def tgtUnit {α : Type} (t : TP α) (unit : UnitT) : UnitT := orElse unit (orElse t.parentUnit t.unit)
/-- `TimePar.to`: the target dt `sc.ifelse(dt, 1.0)` -/
def tgtDt (dt : Option Rat) : Option Rat := orElse dt (some Gen.toDefaultDt)
/-- the object `to` returns once the converted values are known -/
def rebuilt {α : Type} (t : TP α) (u : UnitT) (pdt : Option Rat) (vals : Val α) : TP α :=
  { t with v := vals, values := some vals, factor := some 1, unit := u, selfDt := pdt, parentUnit := u, parentDt := pdt }

/-- `TimePar.to(unit, dt)`: a new object; the receiver is unchanged -/
def convertTo {α : Type} (o : NumOps α) (t : TP α) (unit : UnitT) (dt : Option Rat) : Except Err (TP α) :=
  match timeRatio t.unit t.selfDt (tgtUnit t unit) (tgtDt dt) with
  | .error e => .error e
  | .ok f =>
    match convVal o t.kind (o.ofRat f) t.v with
    | (some vals, .ok ()) => .ok (rebuilt t (tgtUnit t unit) (tgtDt dt) vals)
    | (_, .error e) => .error e
    | (none, .ok ()) => .error .type   -- unreachable: `convVal` never returns `(none, ok)`

/-- `to_parent()` -/
def toParent {α : Type} (o : NumOps α) (t : TP α) : Except Err (TP α) := convertTo o t t.parentUnit t.parentDt

/-- `asnew().set(v=new_v)` — `__mul__`, `__rmul__`, `__truediv__`, `__neg__` -/
def withV {α : Type} (o : NumOps α) (t : TP α) (v : Val α) : Except Err (TP α) :=
  match setPars o t (some v) none none none none false with
  | (t', .ok ()) => .ok t'
  | (_, .error e) => .error e

def mulC {α : Type} (o : NumOps α) (t : TP α) (c : α) : Except Err (TP α) := withV o t (t.v.map (fun x => o.mul x c))
def rmulC {α : Type} (o : NumOps α) (t : TP α) (c : α) : Except Err (TP α) := withV o t (t.v.map (fun x => o.mul c x))
def divC {α : Type} (o : NumOps α) (t : TP α) (c : α) : Except Err (TP α) :=
  if o.beq c o.zero then .error .zeroDiv else withV o t (t.v.map (fun x => o.div x c))
def negT {α : Type} (o : NumOps α) (t : TP α) : Except Err (TP α) := withV o t (t.v.map o.neg)

/-- `__add__`, `__sub__`, `__radd__`, `__rsub__`, `__pow__`, `__rtruediv__`: plain numbers computed from `values` -/
def onValues {α : Type} (t : TP α) (f : α → α) : Except Err (Val α) :=
  match t.values with
  | none => .error .type
  | some vals => .ok (vals.map f)

def addC {α : Type} (o : NumOps α) (t : TP α) (c : α) := onValues t (fun x => o.add x c)
def subC {α : Type} (o : NumOps α) (t : TP α) (c : α) := onValues t (fun x => o.sub x c)
def rsubC {α : Type} (o : NumOps α) (t : TP α) (c : α) := onValues t (fun x => o.sub c x)
def powN {α : Type} (o : NumOps α) (t : TP α) (n : Nat) := onValues t (fun x => o.pow x n)

/-- `__pow__` / `__rpow__` with an arbitrary (real) exponent / base -/
def powC {α : Type} (o : NumOps α) (t : TP α) (c : α) := onValues t (fun x => o.powr x c)
def rpowC {α : Type} (o : NumOps α) (t : TP α) (c : α) := onValues t (fun x => o.powr c x)

/-- `Dist.postprocess_timepar`: the variates of a distribution whose parameter was wrapped in a TimePar
    (`ss.dur(ss.normal(...))`, `ss.normal(loc=ss.dur(...))`) replace `v` and are converted like any array value -/
def scaleDraws {α : Type} (o : NumOps α) (t : TP α) (draws : List α) : TP α × Res :=
  updateCached o { t with v := .array draws } true true

/-! ### The distribution bridge (`Dist.preprocess_timepar` / `postprocess_timepar`, `poisson`, `bernoulli.call_par`)

The variates a distribution hands to `postprocess_timepar` are an ndarray of whatever dtype the distribution draws in: integers for
`ss.constant(v=10)`, `ss.randint(..., allow_time=True)` or a callable parameter returning an integer array, floating otherwise.  They
replace `v`; `update_cached` converts them (`v*factor` / `v/factor`: NumPy promotes to the floating carrier) and the result IS
`timepar.values` (the trailing `rvs.astype(rvs.dtype)` casts to the dtype the result already has).  For `poisson` and `bernoulli` it is
the PARAMETER (`lam`, `p`: scalar, or the array a callable returned) that goes through the same conversion. -/

inductive Draws (α : Type) where
  | ints (l : List Int)
  | floats (l : List α)

/-- the variates in the carrier the conversion computes in (exact for integers) -/
def Draws.toCarrier {α : Type} (o : NumOps α) : Draws α → List α
  | .ints l => l.map (fun (i : Int) => o.ofRat (i : Rat))
  | .floats l => l

/-- `Dist.postprocess_timepar(rvs)` -/
def postprocess {α : Type} (o : NumOps α) (t : TP α) (d : Draws α) : TP α × Res := scaleDraws o t (d.toCarrier o)

/-- `poisson.preprocess_timepar` / `bernoulli.call_par`: the distribution's parameter, converted like any value of the TimePar's class -/
def convertParam {α : Type} (o : NumOps α) (t : TP α) (p : Val α) : TP α × Res := updateCached o { t with v := p } true true

/-- NumPy's float → integer cast: truncation toward zero -/
def truncInt (q : Rat) : Int := if 0 ≤ q then q.floor else -((-q).floor)

/-- NOT what the code does (kept for the sensitivity theorem `Props/C06: C06_keep_dtype_counterexample`): casting the converted
    variates back to the dtype of the unscaled variates -/
def postprocessKeepDtype (t : TP Rat) (d : Draws Rat) : TP Rat × Res :=
  match d with
  | .floats _ => postprocess ratOps t d
  | .ints _ =>
    let r := postprocess ratOps t d
    ({ r.1 with values := r.1.values.map (Val.map (fun q => ((truncInt q : Int) : Rat))) }, r.2)

def Val.any {α : Type} (p : α → Bool) : Val α → Bool
  | .scalar a => p a
  | .array l => l.any p

/-- `__rtruediv__`: `other / self.values` (a zero value is Python's ZeroDivisionError for a plain float) -/
def rdivC {α : Type} (o : NumOps α) (t : TP α) (c : α) : Except Err (Val α) :=
  match t.values with
  | none => .error .type
  | some vals => if vals.any (fun x => o.beq x o.zero) then .error .zeroDiv else .ok (vals.map (fun x => o.div c x))

/-- in-place `+= -= *= /=`: `set(v = v ∘ c)` -/
def isetV {α : Type} (o : NumOps α) (t : TP α) (f : α → α) : TP α × Res :=
  setPars o t (some (t.v.map f)) none none none none false

/-! ### Array identity: WHICH ndarray objects `v` and `values` are

`TimePar.__init__` / `set(v=arr)` bind the caller's array object itself; `update_values` REBINDS `self.values` to a newly
allocated array (`self.v*self.factor`, `v.copy()` followed by writes into that copy); `to()` ends with `new.v = new.values`,
so the converted object's `v` and `values` are one and the same array until its next update; `x * c` etc. build a new `v`
(`self.v * other`) and update.  `asnew()` shares `v` with the receiver and copies `values`; every caller (`to`, arithmetic)
rebinds both before returning, so that copy is never observable and is not allocated here.

The store is the list of arrays allocated so far (an array's identity is its position). -/

abbrev Store (α : Type) := List (List α)

def readBuf {α : Type} (s : Store α) (i : Nat) : List α := (s[i]?).getD []

/-- the two array references of a TimePar whose value is an array -/
structure ARef where
  vId : Nat
  valuesId : Option Nat
  deriving DecidableEq, Repr

/-- calls on an array-valued, initialised TimePar, by what they do to the arrays (`f` = the elementwise conversion
    `convElem o kind factor` of the moment, `g` = the arithmetic applied to `v`) -/
inductive AOp (α : Type) where
  /-- `init`, `set(parent_dt=…)`, `update_cached()`: `update_values` -/
  | upd (f : α → α)
  /-- `set(v=arr)`: bind the caller's array, then `update_values` -/
  | setV (l : List α) (f : α → α)
  /-- `cur = cur.to(…)` / `cur.to_parent()`: the result's `v` IS its `values` -/
  | conv (f : α → α)
  /-- `cur = cur * c`, `c * cur`, `cur / c`, `-cur`: new `v`, then `update_values` -/
  | arith (g f : α → α)

def AOp.step {α : Type} (s : Store α) (ob : ARef) : AOp α → Store α × ARef
  | .upd f => (s ++ [(readBuf s ob.vId).map f], { ob with valuesId := some s.length })
  | .setV l f => (s ++ [l, l.map f], { vId := s.length, valuesId := some (s.length + 1) })
  | .conv f => (s ++ [(readBuf s ob.vId).map f], { vId := s.length, valuesId := some s.length })
  | .arith g f => (s ++ [(readBuf s ob.vId).map g, ((readBuf s ob.vId).map g).map f], { vId := s.length, valuesId := some (s.length + 1) })

def runOps {α : Type} : List (AOp α) → Store α × ARef → Store α × ARef
  | [], x => x
  | op :: ops, x => runOps ops (op.step x.1 x.2)

/-- the calls that only (re-)link the object to a parent: `init`, `set(parent_…)`, `update_cached` -/
def AOp.isUpd {α : Type} : AOp α → Bool
  | .upd _ => true
  | _ => false

/-- the `v` reference of the current object names an allocated array -/
def ARef.wf {α : Type} (x : Store α × ARef) : Prop := x.2.vId < x.1.length

instance {α : Type} (x : Store α × ARef) : Decidable (ARef.wf x) := by unfold ARef.wf; exact inferInstance

/-- a new object around the caller's array -/
def newArr {α : Type} (l : List α) : Store α × ARef := ([l], { vId := 0, valuesId := none })

/-- NOT what the code does (kept to show what the theorems about the store rest on, `Props/C06:
    C06_inplace_update_counterexample`): `update_values` writing its result into the existing `values` array -/
def updInPlace {α : Type} (s : Store α) (ob : ARef) (f : α → α) : Store α × ARef :=
  match ob.valuesId with
  | some j => (s.set j ((readBuf s ob.vId).map f), ob)
  | none => AOp.step s ob (.upd f)

end StarsimModel.TimePar
