/-
C17 (round 4) — sim-level shortcut parameters and the settings derived from them.

`ss.Sim(birth_rate=b, death_rate=d)` / `demographics=True` are shortcuts for explicit `ss.Births` / `ss.Deaths` modules, and
`use_aging` (default None) is DERIVED: agents age iff the sim has demographics.  `SimPars.validate_demographics` is a sequence
of independent-looking statements; the model interprets the regenerated sequence (`Gen.demogSteps`), so that a derived setting
computed from a partially expanded configuration gives a different model.  Core Lean only.
-/
import StarsimModel.Model.ParsSimCore
import StarsimModel.Model.ParsCore

namespace StarsimModel.ParsSim
open StarsimModel.Pars

/-- a demographics module after validation: its class and the rate it carries (none = the class default) -/
inductive DMod where
  | births (rate : Option Nat)
  | deaths (rate : Option Nat)
  | other (id : Nat)                  -- any other user-supplied demographics module (e.g. Pregnancy)
  deriving DecidableEq, Repr

/-- the `demographics` entry as supplied -/
inductive DIn where
  | empty                             -- the default (empty ndict)
  | flagTrue                          -- `demographics=True`
  | mods (l : List DMod)              -- modules / specs supplied by the user (a list; possibly empty)
  deriving DecidableEq, Repr

structure Cfg where
  demog : DIn
  birth : Option Nat                  -- sim-level `birth_rate`
  death : Option Nat                  -- sim-level `death_rate`
  aging : Option Bool                 -- sim-level `use_aging`
  deriving DecidableEq, Repr

structure St where
  demog : DIn
  valid : Option Bool := none         -- the local `valid` (none = not computed yet)
  aging : Option Bool
  deriving DecidableEq, Repr

def DIn.truthy : DIn → Bool
  | .empty => false
  | .flagTrue => true
  | .mods l => !l.isEmpty

/-- `isinstance(demographics, ss.ndict) and not len(demographics)` -/
def DIn.isEmptyNdict : DIn → Bool
  | .empty => true
  | .flagTrue => false
  | .mods _ => false                    -- a user-supplied list is not an ndict (even `[]`)

def DIn.add (d : DIn) (m : DMod) : DIn :=
  match d with
  | .empty => .mods [m]
  | .flagTrue => .mods [m]            -- (unreachable: the shortcut turns True into a list first)
  | .mods l => .mods (l ++ [m])

def step (c : Cfg) (s : St) : DStep → Except Err St
  | .trueShortcut =>
      if s.demog = .flagTrue then
        let l := (if c.birth.isNone then [DMod.births none] else []) ++ (if c.death.isNone then [DMod.deaths none] else [])
        .ok { s with demog := .mods l }
      else .ok s
  | .computeValid => .ok { s with valid := some s.demog.isEmptyNdict }
  | .birthShortcut =>
      match c.birth with
      | none => .ok s
      | some b =>
          match s.valid with
          | none => .error .other       -- the local is read before it is assigned
          | some false => .error .value
          | some true => .ok { s with demog := s.demog.add (.births (some b)) }
  | .deathShortcut =>
      match c.death with
      | none => .ok s
      | some d =>
          match s.valid with
          | none => .error .other
          | some false => .error .value
          | some true => .ok { s with demog := s.demog.add (.deaths (some d)) }
  | .deriveAging =>
      match s.aging with
      | some _ => .ok s
      | none => .ok { s with aging := some s.demog.truthy }

def runSteps (c : Cfg) : List DStep → St → Except Err St
  | [], s => .ok s
  | d :: rest, s =>
      match step c s d with
      | .error e => .error e
      | .ok s' => runSteps c rest s'

/-- the validated configuration: the demographics modules the sim will hold and whether agents age -/
structure Out where
  mods : List DMod
  aging : Option Bool                  -- none = still undecided after validation
  deriving DecidableEq, Repr

def DIn.list : DIn → List DMod
  | .empty => []
  | .flagTrue => []
  | .mods l => l

def validateDemog (steps : List DStep) (c : Cfg) : Except Err Out :=
  match runSteps c steps ⟨c.demog, none, c.aging⟩ with
  | .error e => .error e
  | .ok s => .ok ⟨s.demog.list, s.aging⟩

/-- the explicit-module spelling of the rate shortcuts -/
def explicitMods (b d : Option Nat) : List DMod :=
  (match b with | some x => [DMod.births (some x)] | none => []) ++ (match d with | some x => [DMod.deaths (some x)] | none => [])

end StarsimModel.ParsSim
