/-
Executable model of starsim's timelines (C07, DESIGN section 6): `SimPars.validate_time`, `date_add`, `date_diff`,
`round_tvec`, `sc.inclusiverange`, the cases of `Time.init` (numeric incl. the start-at-0 offset and unitless;
date + year; date + day/week/month with integer or fractional dt), `tvec`, the defaults a module takes from its sim,
and the three cases of `Time.make_abstvec`.

Numbers carry two values (`Num`): `q`, the decimal the user wrote (exact rational: the specification is about
this one) and `f`, the float64 the code computes with (a rational too, see Model/F64.lean).  Decisions the code takes
in floating point (the grid length `int((stop-start)/dt)`, `round(time_units[unit]*dur)`, the day count of
`sc.yeartodate`) are computed on `f` with the same operations in the same order when the variant is `asis`,
and on `q` exactly when it is `spec`.  Values are exact rationals rounded like `round_tvec` does.
Constants come from Generated/TimeUnits.lean and Generated/TimeDefaults.lean.  Core Lean only.
-/
import StarsimModel.Model.Calendar
import StarsimModel.Generated.TimeUnits
import StarsimModel.Generated.TimeDefaults

namespace StarsimModel.Timeline
open StarsimModel StarsimModel.Calendar

inductive TUnit | day | week | month | year | unitless
  deriving DecidableEq, Repr

def TUnit.name : TUnit → String
  | .day => "day" | .week => "week" | .month => "month" | .year => "year" | .unitless => "unitless"

def TUnit.ofName? (s : String) : Option TUnit :=
  if s = "day" then some .day else if s = "week" then some .week else if s = "month" then some .month
  else if s = "year" then some .year else if s = "unitless" then some .unitless else none

/-- `validate_unit` on a string: look the alias up in `unit_mapping` -/
def validateUnit (s : String) : Option TUnit := (Gen.unitAliases.lookup s).bind TUnit.ofName?

/-- `time_units[unit]` (days per unit); `unitless` has no entry -/
def unitDays? (u : TUnit) : Option Rat := Gen.timeUnits.lookup u.name

def unitDays (u : TUnit) : Rat := (unitDays? u).getD 1

/-- the Python exception class raised (ValueError, sc.KeyNotFoundError, TypeError, anything else); `hang` = the
    constructor never returns;
    `unsupported` = outside the modelled domain (the harness never sends such a case to the code) -/
inductive Err | value | key | type | other | hang | unsupported
  deriving DecidableEq, Repr

/-- the error of a result, if any (used to state rejections) -/
def err? {α} (r : Except Err α) : Option Err := match r with | .error e => some e | .ok _ => none

/-- a number as written (`q`) and as the float64 the code holds (`f`) -/
structure Num where
  q : Rat
  f : Rat
  /-- the value is a Python `int` (NumPy arrays built from it are integer arrays) -/
  int : Bool := false
  deriving DecidableEq, Repr

/-- a Python float written as the decimal `q` -/
def Num.ofRat (q : Rat) : Num := ⟨q, F64.rd q, false⟩
/-- a Python int -/
def Num.ofInt (n : Int) : Num := ⟨n, n, true⟩
def Num.ofNat (n : Nat) : Num := ⟨n, n, true⟩

inductive TVal
  | num (x : Num)
  | date (d : Date)
  deriving DecidableEq, Repr

def TVal.isNum : TVal → Bool
  | .num _ => true | .date _ => false

def pow10 : Rat := ((10 ^ Gen.roundDecimals : Nat) : Rat)

/-- `round_tvec`: `np.round(x, decimals)` — nearest multiple of `10^-decimals`, ties to even -/
def round6 (x : Rat) : Rat := (F64.rhe (x * pow10) : Rat) / pow10

/-- `round_tvec(x)` in units of `time_eps` (an integer) -/
def micro (x : Rat) : Int := F64.rhe (x * pow10)

/-! ### `sc.inclusiverange` -/

/-- `int((stop-start)/step)`: exact floor (`spec`) or the truncated float quotient (`asis`) -/
def gridSteps (v : Variant) (a b dt : Num) : Int :=
  match v with
  | .spec => ((b.q - a.q) / dt.q).floor
  | .asis => F64.trunc (F64.div (F64.sub b.f a.f) dt.f)

/-- the same float computation on hardware floats (Lean `Float`), used by the driver as a cross-check -/
def gridStepsFloat (a b dt : Float) : Int :=
  let n := (b - a) / dt
  if n < 0 then - ((-n).floor.toUInt64.toNat : Int) else (n.floor.toUInt64.toNat : Int)

/-- the exact grid `start, start+dt, …` with `npts` points -/
def grid (start dt : Rat) (npts : Nat) : List Rat := (List.range npts).map (fun (i : Nat) => start + (i : Rat) * dt)

/-- number of points `int_steps + 1`, or the error `sc.inclusiverange` / `np.linspace` raise -/
def gridCount (v : Variant) (a b dt : Num) : Except Err Nat :=
  if dt.q = 0 then .error .other                  -- ZeroDivisionError
  else
    let n := gridSteps v a b dt
    if n + 1 < 0 then .error .value               -- np.linspace: negative number of samples
    else .ok (n + 1).toNat

/-! ### `date_add`, `date_diff`, `validate_time` -/

def dateAdd (start : TVal) (dur : Num) (u : TUnit) : Except Err TVal :=
  match start with
  | .num s => .ok (.num ⟨s.q + dur.q, F64.add s.f dur.f, s.int && dur.int⟩)
  | .date d =>
      if Gen.timeUnitNames.contains u.name then
        let ndays := F64.rhe (F64.mul (F64.rd (unitDays u)) dur.f)
        .ok (.date (d.addDays ndays))
      else .error .value

/-- only the sign of the result is used by the code (`dur <= 0`) -/
def dateDiff (start stop : TVal) (u : TUnit) : Except Err Rat :=
  match start, stop with
  | .num a, .num b => .ok (b.q - a.q)
  | .date a, .date b =>
      if u = .year then .ok (dateToYear b - dateToYear a)
      else if u = .day then .ok (b.diffDays a : Int)
      else match unitDays? u with
        | some w => .ok ((b.diffDays a : Int) / w)
        | none => .error .value                   -- time_ratio: only one is unitless
  | a, b =>
      -- one number, one date: `sc.datetoyear(number)` has no `.year` (AttributeError) for years; otherwise
      -- `ss.date(number)` reads the number as a year
      if u = .year then .error .other
      else
        let toDate : TVal → Except Err Date := fun x => match x with
          | .date d => .ok d
          | .num y => if y.q < 1 then .error .value else .ok (yearToDate .asis y.q)
        match toDate a, toDate b with
        | .ok da, .ok db =>
            if u = .day then .ok (db.diffDays da : Int)
            else match unitDays? u with
              | some w => .ok ((db.diffDays da : Int) / w)
              | none => .error .value
        | .error e, _ => .error e
        | _, .error e => .error e

structure SimPars where
  unit : String
  start : Option TVal
  stop : Option TVal
  dur : Option Num
  dt : Num

structure Spec where
  unit : TUnit
  start : TVal
  stop : TVal
  dt : Num
  deriving Repr

def defaultStart (u : TUnit) : TVal :=
  if Gen.defaultStartDateUnits.contains u.name then
    .date ⟨Gen.defaultStartDate.1, Gen.defaultStartDate.2.1, Gen.defaultStartDate.2.2⟩
  else .num (Num.ofNat Gen.defaultStartYear)

/-- `SimPars.validate_time` -/
def validateTime (p : SimPars) : Except Err Spec := do
  let us := if p.unit = Gen.simUnitPlaceholder then Gen.defaultUnit else p.unit
  let u ← match validateUnit us with
    | some u => pure u
    | none => throw Err.key
  let start := p.start.getD (defaultStart u)
  match p.stop with
  | some stop =>
      match p.dur with
      | some _ => throw Err.value
      | none =>
          let dur ← dateDiff start stop u
          if dur ≤ 0 then throw Err.value
          pure ⟨u, start, stop, p.dt⟩
  | none =>
      let dur := p.dur.getD (Num.ofRat Gen.defaultDur)
      let stop ← dateAdd start dur u
      pure ⟨u, start, stop, p.dt⟩

/-! ### `Time.init` -/

structure Timeline where
  unit : TUnit
  start : TVal
  stop : TVal
  dt : Num
  npts : Nat
  /-- `timevec` is the numeric vector (`true`) or the date vector (`false`) -/
  numeric : Bool
  timevec : List Rat            -- meaningful when `numeric`
  yearvec : List Rat
  datevec : List Date
  tvec : List Rat
  abstvec : Option (List Rat)
  deriving Repr

/-- `date_unit`: year when the unit is unitless -/
def dateUnit (u : TUnit) : TUnit := if u = .unitless then .year else u

def offsetYear (u : TUnit) : Nat :=
  if Gen.defaultStartDateUnits.contains (dateUnit u).name then Gen.defaultStartDate.1 else Gen.defaultStartYear

def tvecOf (dt : Rat) (npts : Nat) : List Rat := (List.range npts).map (fun (i : Nat) => round6 ((i : Rat) * dt))

/-- `sc.yeartodate` on every year; a year below 1 has no date (`datetime` raises ValueError) -/
def yearsToDates (v : Variant) (ys : List Rat) : Except Err (List Date) :=
  ys.mapM (fun y => if y < 1 then .error .value else .ok (yearToDate v y))

/-- `sc.daterange`: step cumulatively while the current date is not after `stop` -/
def dateRange (step : Date → Date) (stop : Date) : Nat → Date → List Date
  | 0, _ => []
  | fuel + 1, cur =>
      if toOrdinal cur ≤ toOrdinal stop then cur :: dateRange step stop fuel (step cur) else []

def rangeFuel (start stop : Date) : Nat := toOrdinal stop + 1 - toOrdinal start

/-- the step `relativedelta(days|weeks|months = k)` -/
def stepDate (u : TUnit) (k : Nat) (d : Date) : Date :=
  match u with
  | .month => addMonths d k
  | .week => d.addDays (7 * k : Nat)
  | _ => d.addDays (k : Nat)

/-- `time_ratio(unit, dt, 'day', 1.0, as_int=True)`: the constant whole-day step used for a fractional dt -/
def dayDelta (u : TUnit) (dt : Num) : Int :=
  let unitRatio := if u = .day then 1 else F64.div (F64.rd (unitDays u)) 1
  F64.rhe (F64.mul (F64.div dt.f 1) unitRatio)

/-- dates of a calendar timeline (unit day/week/month) -/
def calendarDates (v : Variant) (u : TUnit) (start stop : Date) (dt : Num) : Except Err (List Date) :=
  if dt.q ≤ 0 ∧ v = .spec then .error .value      -- a step that does not advance must be rejected
  else if dt.q ≤ 0 ∧ dt.q.den = 1 then
    -- today's code hands the step to `sc.daterange` unchecked
    if toOrdinal stop < toOrdinal start then .ok []          -- the loop body never runs
    else if dt.q = 0 then .error .hang                       -- `curr_date += 0 days` for ever
    else if u = .month then .error .value                    -- walks back to year 0: ValueError
    else .error .other                                       -- walks back below date.min: OverflowError
  else if dt.q.den = 1 then
    .ok (dateRange (stepDate u dt.q.num.toNat) stop (rangeFuel start stop) start)
  else
    match v with
    | .asis =>
        let dd := dayDelta u dt
        if 1 ≤ dd then .ok (dateRange (fun d => d.addDays dd) stop (rangeFuel start stop) start)
        else .error .value
    | .spec =>
        -- repaired behaviour: point i lies at the whole day nearest to the elapsed time i·dt
        if unitDays u * dt.q < 1 then .error .value
        else
          let ds := (List.range (rangeFuel start stop)).map (fun (i : Nat) => start.addDays (F64.rhe ((i : Rat) * dt.q * unitDays u)))
          .ok (ds.takeWhile (fun d => toOrdinal d ≤ toOrdinal stop))

/-- float value of `sc.datetoyear`: `year + days/yearlen` (two correctly rounded operations) -/
def dateToYearNum (d : Date) : Num :=
  ⟨dateToYear d,
   F64.add (d.y : Rat) (F64.div ((toOrdinal d - toOrdinal ⟨d.y, 1, 1⟩ : Nat) : Rat) (yearLen d.y : Rat)), false⟩

/-- `Time.init` without the `sim` argument (all four parameters present, unit validated) -/
def initTime (v : Variant) (s : Spec) : Except Err Timeline := do
  let du := dateUnit s.unit
  match s.start, s.stop with
  | .num a, .num b =>
      -- numeric ground truth (also the unitless case)
      let n ← gridCount v a b s.dt
      if n = 0 then throw Err.other             -- empty vector: IndexError on timevec[0]
      let offset : Rat := if a.f = 0 then (offsetYear s.unit : Rat) else 0
      let ratio := unitDays du / unitDays .year
      let timevec := (grid a.q s.dt.q n).map round6
      let t0 := round6 a.q
      let yearvec := timevec.map (fun t => round6 ((t - t0) * ratio + offset + t0))
      let datevec ← yearsToDates v yearvec
      pure ⟨s.unit, s.start, s.stop, s.dt, n, true, timevec, yearvec, datevec, tvecOf s.dt.q n, none⟩
  | .num _, .date _ => throw Err.type        -- sc.inclusiverange(number, date): TypeError
  | .date a, stop =>
      -- `date(self.stop)`: a numeric stop is read as a year
      let b ← match stop with
        | .date b => pure b
        | .num y => if y.q < 1 then throw Err.value else pure (yearToDate v y.q)
      if s.unit = .unitless then throw Err.type   -- sc.inclusiverange on dates
      else if du = .year then
        let ay := dateToYearNum a
        let n ← gridCount v ay (dateToYearNum b) s.dt
        let yearvec := (grid ay.q s.dt.q n).map round6
        let datevec ← yearsToDates v yearvec
        pure ⟨s.unit, .date a, .date b, s.dt, n, false, [], yearvec, datevec, tvecOf s.dt.q n, none⟩
      else
        let datevec ← calendarDates v du a b s.dt
        let yearvec := datevec.map (fun d => round6 (dateToYear d))
        pure ⟨s.unit, .date a, .date b, s.dt, datevec.length, false, [], yearvec, datevec,
              tvecOf s.dt.q datevec.length, none⟩

/-- the simulation's own timeline: `Time(pars=sim.pars, sim=True)` — `abstvec = tvec` -/
def simTimeline (v : Variant) (p : SimPars) : Except Err Timeline := do
  let s ← validateTime p
  let t ← initTime v s
  if t.npts = 0 then throw Err.other            -- nothing to integrate: `sim.init()` fails later (AttributeError)
  pure { t with abstvec := some t.tvec }

/-! ### Modules -/

structure ModPars where
  unit : Option String
  start : Option TVal
  stop : Option TVal
  dt : Option Num

/-- `time_ratio(unit1, 1.0, unit2, 1.0)` -/
def unitRatio (u1 u2 : TUnit) : Except Err Rat :=
  if u1 = u2 then .ok 1
  else match unitDays? u1, unitDays? u2 with
    | some a, some b => .ok (a / b)
    | _, _ => .error .value

/-- `Time.make_abstvec`: the module's points on the sim's elapsed-time axis, in sim units -/
def makeAbstvec (v : Variant) (m sim : Timeline) : Except Err (List Rat) := do
  let mu := decide (m.unit = .unitless)
  let su := decide (sim.unit = .unitless)
  if mu ≠ su then throw Err.value
  if (mu && su) || (m.start.isNum && sim.start.isNum) then
    let ratio ← unitRatio m.unit sim.unit
    match m.start, sim.start with
    | .num a, .num b =>
        -- today's code scales / shifts `tvec` in place: an integer array (int dt) cannot take a float factor or offset
        if v = .asis ∧ m.dt.int = true ∧ (ratio ≠ 1 ∨ (a.q - b.q ≠ 0 ∧ (a.int && b.int) = false)) then throw Err.type
        pure (m.tvec.map (fun t => round6 (t * ratio + (a.q - b.q))))
    | _, _ => throw Err.type                 -- date - number
  else if sim.unit = .year then
    let y0 := sim.yearvec.headD 0
    pure (m.yearvec.map (fun y => round6 (y - y0)))
  else
    let d0 := sim.datevec.headD default
    let ratio ← unitRatio .day sim.unit
    pure (m.datevec.map (fun d => round6 ((d.diffDays d0 : Int) * ratio)))

/-- `Module.init_time` → `Time.init(sim)`: defaults from the sim, own vectors, placement -/
def moduleTimeline (v : Variant) (sim : Timeline) (p : ModPars) : Except Err Timeline := do
  let uo ← match p.unit with
    | none => pure none
    | some s => match validateUnit s with
      | some u => pure (some u)
      | none => throw Err.key
  let u := uo.getD sim.unit
  let same := decide (u = sim.unit)
  let d0 := sim.datevec.headD default
  let dN := sim.datevec.getLastD default
  let dt := p.dt.getD (if same then sim.dt else Num.ofRat 1)
  let start := p.start.getD (if same then sim.start else .date d0)
  let stop := p.stop.getD (if same then sim.stop else .date dN)
  let t ← initTime v ⟨u, start, stop, dt⟩
  let a ← makeAbstvec v t sim
  pure { t with abstvec := some a }

/-! ### the integration loop's placement (`Loop.collect_abs_tvecs`, `Loop.make_plan`) -/

/-- `Loop.collect_abs_tvecs` / `Loop.make_plan`: the elapsed sim times at which the loop schedules each function of an owner —
    one call per point of the owner's `abstvec` (the sim's own functions and those of `people`: the sim's `abstvec`; a
    module's functions: the module's own `abstvec`, whatever its length) -/
def loopPlacement (owner : Timeline) : List Rat := owner.abstvec.getD []

/-! ### `Time.update` and `Time.now` -/

/-- the four time arguments as held by an uninitialised `Time` (or given as `pars` / `kwargs` / a parent) -/
structure TPars where
  start : Option TVal := none
  stop : Option TVal := none
  dt : Option Num := none
  unit : Option String := none
  deriving DecidableEq, Repr

/-- the `force` argument: `False` (only fill missing values), `None` (keep current over parent), `True` (parent over current) -/
inductive Force | onlyMissing | current | parent
  deriving DecidableEq, Repr

/-- `sc.ifelse`: the first value that is not `None` -/
def ifelse {α} : List (Option α) → Option α
  | [] => none
  | some a :: _ => some a
  | none :: rest => ifelse rest

def pick {α} (f : Force) (cur kw par parent : Option α) : Option α :=
  match f with
  | .onlyMissing => ifelse [cur, kw, par, parent]
  | .current => ifelse [kw, par, cur, parent]
  | .parent => ifelse [kw, par, parent, cur]

/-- `Time.update(pars, parent, force, **kwargs)` on the parameters.  `parent = none`: no parent object; a parent that
    is a `Time` with another unit offers `dt = 1.0` instead of its own dt — compared with the unit the object holds
    BEFORE this update, because `dt` is reconciled before `unit` (order of `time_args`). -/
def update (f : Force) (self kw pars : TPars) (parent : Option TPars) : TPars :=
  let pv := parent.getD {}
  let parentDt := match parent with
    | some p => if p.unit ≠ self.unit then some (Num.ofRat 1) else p.dt
    | none => none
  { start := pick f self.start kw.start pars.start pv.start
    stop := pick f self.stop kw.stop pars.stop pv.stop
    dt := pick f self.dt kw.dt pars.dt parentDt
    unit := pick f self.unit kw.unit pars.unit pv.unit }

/-- `Time.ready`: all four arguments present -/
def TPars.ready (p : TPars) : Bool := p.start.isSome && p.stop.isSome && p.dt.isSome && p.unit.isSome

/-- `Time.now`: the index into whichever representation is asked for — the current step, clamped to the last point -/
def nowIndex (npts ti : Nat) : Nat := min ti (npts - 1)

def Timeline.nowYear (t : Timeline) (ti : Nat) : Option Rat := t.yearvec[nowIndex t.npts ti]?
def Timeline.nowDate (t : Timeline) (ti : Nat) : Option Date := t.datevec[nowIndex t.npts ti]?
def Timeline.nowTvec (t : Timeline) (ti : Nat) : Option Rat := t.tvec[nowIndex t.npts ti]?

/-- every `Result` of a module is created with `shape = module.t.npts` -/
def resultLen (t : Timeline) : Nat := t.npts

end StarsimModel.Timeline
