/-
SimCore — the COMPOSED model of one simulation step of an `ss.SIR` simulation, and of whole runs.

The per-property models look at one mechanism each (loop order: C08, people bookkeeping: C10, compartments: C13,
results: C15).  This file puts them together the way `Sim.run_one_step` does:

  * the ORDER of the phases is not written here: `simStep` folds over `Gen.collectFuncs`, the list of scheduled
    functions regenerated from `starsim/loop.py` on every run (Generated/PhaseOrder.lean); a phase is recognised by its
    (container, method) name and everything else is the identity;
  * what a disease phase does to ONE agent is not written here either: `Gen.Sir.stepState`, `Gen.Sir.setPrognoses`,
    `Gen.Sir.setPrognosesTimers`, `Gen.Sir.stepDie` are the per-agent functions regenerated from
    `starsim/diseases/sir.py` (Generated/Disease_sir.lean);
  * hand-written here, from `starsim/people.py` and `starsim/disease.py`: `People.request_death` (`ti_dead = sim.ti`),
    `People.step_die` (`ti_dead <= sim.ti` → not alive, then every disease's `step_die`), `People.update_results`
    (`n_alive`, `new_deaths`, `cum_deaths = sum(new_deaths[:ti])`), `Disease/Infection.update_results` (state counts,
    `new_infections = count(ti_infected == ti)`, `cum_infections = sum(new_infections[:ti+1])`, prevalence),
    `People.finish_step` (`remove_dead`: dead agents leave the active set), `People.grow` (new agents at the end, default
    state), `Sim.finish_step` (`ti += 1`).

What is NOT modelled is WHO gets infected, for how long, who is born and who dies of other causes: those are the
`Events` of a step, observed on the real run (they come from the random streams and the networks, which C03, C04, C12
and C14 model).  Everything downstream of the events — every flag, timer, the active set, every recorded number — is
computed by the model and compared exactly with the real simulation (harness/props/c13_simcore.py).

An agent's uid is its index in `pop`.  Times are exact rationals (`none` = nan).  Core Lean only.
-/
import StarsimModel.Generated.Disease_sir
import StarsimModel.Generated.PhaseOrder
import StarsimModel.Generated.ResultsTable

namespace StarsimModel.SimCore
open Gen.Sir

structure Agent where
  /-- `people.alive` -/
  alive : Bool
  /-- uid ∈ `people.auids` (dead agents are removed at the end of the step in which they die) -/
  present : Bool
  /-- `people.ti_dead` -/
  pDead : Option Rat
  /-- the disease's Boolean states -/
  fl : Flags
  /-- the disease's scheduled times -/
  tm : Timers
  deriving DecidableEq, Repr

/-- One target of a `set_prognoses` call: uid, the drawn duration, the `p_death` draw. -/
structure Inf where
  uid : Nat
  dur : Rat
  willDie : Bool
  deriving DecidableEq, Repr

/-- What happened in one step that the model does not compute. -/
structure Events where
  /-- `People.grow(n)` calls of the demographics phase: total number of new agents -/
  births : Nat
  /-- uids for which a module other than the disease called `People.request_death` before deaths are resolved -/
  background : List Nat
  /-- the `set_prognoses` calls of the transmission phase, in order -/
  infections : List (List Inf)
  deriving Repr

/-- One recorded row of results (`sim.results` and `sim.results.sir` at one index). -/
structure Row where
  ti : Nat
  nAlive : Nat
  newDeaths : Nat
  cumDeaths : Nat
  nS : Nat
  nI : Nat
  nR : Nat
  newInf : Nat
  cumInf : Nat
  /-- prevalence = `n_infected / count_nonzero(alive)` as numerator and denominator -/
  prevNum : Nat
  prevDen : Nat
  deriving DecidableEq, Repr

structure Sim where
  /-- `sim.ti` (the disease runs on the simulation's clock) -/
  ti : Nat
  pop : List Agent
  /-- rows recorded so far, oldest first; a row is completed by the two `update_results` phases of its step -/
  rows : List Row
  /-- set when `set_prognoses` was called on an agent that was not susceptible and active (inadmissible: C12) -/
  bad : Bool
  deriving Repr

def newborn : Agent :=
  { alive := true, present := true, pDead := none, fl := ⟨true, false, false⟩, tm := Timers.const none }

/-- `x <= ti` on a possibly-nan time (a comparison with nan is false) -/
def due (x : Option Rat) (ti : Nat) : Bool :=
  match x with
  | some v => decide (v ≤ (ti : Rat))
  | none => false

/-- `x == ti` on a possibly-nan time -/
def isNow (x : Option Rat) (ti : Nat) : Bool :=
  match x with
  | some v => decide (v = (ti : Rat))
  | none => false

def mapActive (f : Agent → Agent) (pop : List Agent) : List Agent :=
  pop.map fun a => if a.present then f a else a

/-- `People.request_death` on one agent -/
def requestDeath (ti : Nat) (a : Agent) : Agent := { a with pDead := some (ti : Rat) }

/-! ### The phases -/

/-- demographics: births (`People.grow`), then the death requests of other modules -/
def demographicsPhase (ev : Events) (s : Sim) : Sim :=
  let pop := s.pop ++ List.replicate ev.births newborn
  let pop := pop.mapIdx fun i a => if i ∈ ev.background then requestDeath s.ti a else a
  { s with pop := pop }

/-- `SIR.step_state` on one active agent: the generated flag function under the observed guard, then the death
    trigger `ti_dead <= sim.ti` → `request_death` -/
def stepStateAgent (ti : Nat) (a : Agent) : Agent :=
  let fl := stepState a.fl ⟨due a.tm.ti_recovered ti⟩
  let a := { a with fl := fl }
  if due a.tm.ti_dead ti then requestDeath ti a else a

def stepStatePhase (s : Sim) : Sim := { s with pop := mapActive (stepStateAgent s.ti) s.pop }

/-- the last entry of a call that names uid `i` (NumPy fancy assignment: the last write wins) -/
def findInf (call : List Inf) (i : Nat) : Option Inf := (call.reverse.find? fun e => e.uid == i)

/-- one `set_prognoses` call on one agent: the generated flag and timer functions -/
def infectAgent (ti : Nat) (call : List Inf) (i : Nat) (a : Agent) : Agent :=
  match findInf call i with
  | none =>
      { a with fl := setPrognoses a.fl ⟨false⟩,
               tm := setPrognosesTimers (ti : Rat) (ti : Rat) ⟨0, 0⟩ a.fl ⟨false, false⟩ a.tm }
  | some e =>
      { a with fl := setPrognoses a.fl ⟨true⟩,
               tm := setPrognosesTimers (ti : Rat) (ti : Rat) ⟨e.dur, e.dur⟩ a.fl ⟨true, e.willDie⟩ a.tm }

/-- is the call admissible: every target active and susceptible (C12) -/
def callAdmissible (pop : List Agent) (call : List Inf) : Bool :=
  call.all fun e => match pop[e.uid]? with
    | some a => a.present && a.fl.susceptible
    | none => false

def infectCall (ti : Nat) (acc : List Agent × Bool) (call : List Inf) : List Agent × Bool :=
  (acc.1.mapIdx (infectAgent ti call), acc.2 || !callAdmissible acc.1 call)

/-- transmission: the observed `set_prognoses` calls -/
def infectPhase (ev : Events) (s : Sim) : Sim :=
  let r := ev.infections.foldl (infectCall s.ti) (s.pop, s.bad)
  { s with pop := r.1, bad := r.2 }

/-- `People.step_die` on one active agent: `ti_dead <= sim.ti` → not alive and the disease's generated `step_die` -/
def dieAgent (ti : Nat) (a : Agent) : Agent :=
  if due a.pDead ti then { a with alive := false, fl := stepDie a.fl ⟨true⟩ } else a

def diePhase (s : Sim) : Sim := { s with pop := mapActive (dieAgent s.ti) s.pop }

def countActive (p : Agent → Bool) (pop : List Agent) : Nat := (pop.filter fun a => a.present && p a).length

def sumNat (l : List Nat) : Nat := l.foldl (· + ·) 0

/-- Does the cumulative result `result` written by class `cls` include the current step?  Looked up in `Gen.cumRows`, the
    table of cumulative-result statements regenerated from the source (`sum[:ti]` excludes it, `sum[:ti+1]` includes it);
    `none` when the source has no such statement. -/
def cumInclusive (cls result : String) : Option Bool :=
  (Gen.cumRows.find? fun r => r.cls = cls ∧ r.result = result).map (·.inclusive)

/-- running total over the earlier rows, plus the current value when the source's slice includes the current step
    (a missing statement leaves the result at 0, as an unwritten result array is) -/
def cumValue (incl : Option Bool) (earlier : List Nat) (now : Nat) : Nat :=
  match incl with
  | some true => sumNat earlier + now
  | some false => sumNat earlier
  | none => 0

/-- `People.update_results`: starts the row of this step -/
def peopleResultsPhase (s : Sim) : Sim :=
  let newDeaths := countActive (fun a => isNow a.pDead s.ti) s.pop
  let row : Row :=
    { ti := s.ti,
      nAlive := countActive (·.alive) s.pop,
      newDeaths := newDeaths,
      cumDeaths := cumValue (cumInclusive "People" "cum_deaths") (s.rows.map (·.newDeaths)) newDeaths,   -- today `np.sum(new_deaths[:ti])`
      nS := 0, nI := 0, nR := 0, newInf := 0, cumInf := 0, prevNum := 0, prevDen := 0 }
  { s with rows := s.rows ++ [row] }

/-- `Disease.update_results` + `Infection.update_results`: completes the row of this step -/
def diseaseResultsPhase (s : Sim) : Sim :=
  match s.rows.getLast? with
  | none => s
  | some row =>
      let newInf := countActive (fun a => isNow a.tm.ti_infected s.ti) s.pop
      let nI := countActive (·.fl.infected) s.pop
      let row' : Row :=
        { row with nS := countActive (·.fl.susceptible) s.pop, nI := nI, nR := countActive (·.fl.recovered) s.pop,
                   newInf := newInf,
                   cumInf := cumValue (cumInclusive "Infection" "cum_infections") (s.rows.dropLast.map (·.newInf)) newInf,   -- today `np.sum(new_infections[:ti+1])`
                   prevNum := nI, prevDen := countActive (·.alive) s.pop }
      { s with rows := s.rows.dropLast ++ [row'] }

/-- `People.finish_step` → `remove_dead` -/
def removeDeadPhase (s : Sim) : Sim :=
  { s with pop := s.pop.map fun a => { a with present := a.present && a.alive } }

/-- `Sim.finish_step` -/
def tickPhase (s : Sim) : Sim := { s with ti := s.ti + 1 }

/-- What a scheduled function of the loop does to the modelled state, by the name the loop gives it. -/
def phase (f : String × String × String) (ev : Events) (s : Sim) : Sim :=
  if f.1 = "sim.demographics()" ∧ f.2.1 = "step" then demographicsPhase ev s
  else if f.1 = "sim.diseases()" ∧ f.2.1 = "step_state" then stepStatePhase s
  else if f.1 = "sim.diseases()" ∧ f.2.1 = "step" then infectPhase ev s
  else if f.1 = "sim.people" ∧ f.2.1 = "step_die" then diePhase s
  else if f.1 = "sim.people" ∧ f.2.1 = "update_results" then peopleResultsPhase s
  else if f.1 = "sim.modules" ∧ f.2.1 = "update_results" then diseaseResultsPhase s
  else if f.1 = "sim.people" ∧ f.2.1 = "finish_step" then removeDeadPhase s
  else if f.1 = "sim" ∧ f.2.1 = "finish_step" then tickPhase s
  else s

/-- One simulation step under a given schedule. -/
def stepWith (funcs : List (String × String × String)) (s : Sim) (ev : Events) : Sim :=
  funcs.foldl (fun s f => phase f ev s) s

/-- One simulation step: the phases in the order `Loop.collect_funcs` gives them (regenerated from the source). -/
def simStep (s : Sim) (ev : Events) : Sim := stepWith Gen.collectFuncs s ev

/-- A run: one step per entry of the event history. -/
def run (s : Sim) (evs : List Events) : Sim := evs.foldl simStep s

end StarsimModel.SimCore
