/-
Model of the per-step hazards of the built-in processes (C16), reusing Model/TimePar.lean:

* `Births.get_births`, `Deaths.make_death_prob_fn`, `Pregnancy.make_fertility_prob_fn`:
  `prob = clip(rate * rate_units * rel * factor, 0, 1)` where the `factor` EXPRESSION of each branch is
  regenerated from the source (`Generated/HazardExprs.lean`) and interpreted by `factorOf`; for a TimePar rate
  the product is the chain of `TimePar.__mul__` calls of the source followed by `np.clip` on `.values`;
* table forms: age bin = `np.digitize(age, bins) - 1`, nearest year = `sc.findnearest`;
* ageing increment per sim step, `RoutineDelivery` annual-probability exponent, sexual-network act exponent.
Core Lean only.
-/
import StarsimModel.Model.TimePar
import StarsimModel.Generated.HazardExprs
import StarsimModel.Generated.TimeDecls
import StarsimModel.Generated.StepClocks
import StarsimModel.Generated.ParsUpdate
import StarsimModel.Generated.TableIndex

namespace StarsimModel.Hazard
open StarsimModel.TimePar

/-- `np.clip(x, 0, 1)` -/
def clip01 (x : Rat) : Rat := if x < 0 then 0 else if 1 < x then 1 else x

/-- Interpretation of an extracted time-scaling expression for a module with timeline `(unit, dt)` inside a sim with
    timeline `(simUnit, simDt)`.  `X.t.dt_year` is `Time.init`'s `time_ratio(unit, dt, 'year', 1.0)` of THAT timeline. -/
def factorOf (expr : String) (unit : UnitT) (dt : Option Rat) (simUnit : UnitT) (simDt : Option Rat) : Except Err Rat :=
  if expr = "1.0" ∨ expr = "1" then .ok 1
  else if expr = "self.t.dt" then (match dt with | some d => .ok d | none => .error .type)
  else if expr = Gen.yearRatioExpr ∨ expr = "self.t.dt_year" then timeRatio unit dt (some "year") (some 1)
  else if expr = "sim.t.dt_year" then timeRatio simUnit simDt (some "year") (some 1)
  else .error .type

/-- plain-number rate: `clip(rate * rate_units * rel * factor)` -/
def numberProb (expr : String) (unit : UnitT) (dt : Option Rat) (simUnit : UnitT) (simDt : Option Rat) (rate ru rel : Rat) : Except Err Rat :=
  match factorOf expr unit dt simUnit simDt with
  | .error e => .error e
  | .ok f => .ok (clip01 (rate * ru * rel * f))

/-- TimePar rate: `((rate * rate_units) * rel) * factor` through `TimePar.__mul__`, then `np.clip` of `.values` -/
def timeparProb (expr : String) (unit : UnitT) (dt : Option Rat) (simUnit : UnitT) (simDt : Option Rat) (t : TP Rat) (ru rel : Rat) : Except Err (Val Rat) :=
  match factorOf expr unit dt simUnit simDt with
  | .error e => .error e
  | .ok f =>
    match mulC ratOps t ru with
    | .error e => .error e
    | .ok t1 =>
      match mulC ratOps t1 rel with
      | .error e => .error e
      | .ok t2 =>
        match mulC ratOps t2 f with
        | .error e => .error e
        | .ok t3 =>
          match t3.values with
          | none => .error .type
          | some v => .ok (v.map clip01)

def birthsNumber := numberProb Gen.birthsNumberFactor
def birthsTimePar := timeparProb Gen.birthsTimeParFactor
def deathsNumber := numberProb Gen.deathsNumberFactor
def deathsTimePar := timeparProb Gen.deathsTimeParFactor

/-- `Pregnancy.make_fertility_prob_fn`, number form, one agent:
    `rate * (rate_units * rel) * time_factor`, zero when not fecund or outside `[min_age, max_age]`, clipped -/
def fertilityNumber (unit : UnitT) (dt : Option Rat) (simUnit : UnitT) (simDt : Option Rat) (rate ru rel age minAge maxAge : Rat) (fecund : Bool) : Except Err Rat :=
  match factorOf Gen.fertilityNumberFactor unit dt simUnit simDt with
  | .error e => .error e
  | .ok f => .ok (if ¬ fecund ∨ age < minAge ∨ maxAge < age then 0 else clip01 (rate * (ru * rel) * f))

/-- `np.digitize(age, index) - 1` where `index = [-inf] ++ bins` (the standardised table always has the `-inf` row):
    the number of finite bin starts `≤ age` -/
def ageBin (bins : List Rat) (age : Rat) : Nat := (bins.filter (fun b => decide (b ≤ age))).length

/-- `sc.findnearest(years, y)`: index of the first minimal `|years[i] - y|` -/
def nearestAux (y : Rat) : List Rat → Nat → Nat → Rat → Nat
  | [], _, best, _ => best
  | x :: xs, i, best, bestd =>
    let d := if x - y < 0 then y - x else x - y
    if d < bestd then nearestAux y xs (i + 1) i d else nearestAux y xs (i + 1) best bestd

def nearest (years : List Rat) (y : Rat) : Nat :=
  match years with
  | [] => 0
  | x :: xs => nearestAux y xs 1 0 (if x - y < 0 then y - x else x - y)

/-- ageing: `People.update_post` adds this to every living agent's age once per SIM step -/
def ageIncrement (simUnit : UnitT) (simDt : Option Rat) : Except Err Rat := factorOf Gen.ageingIncrement none none simUnit simDt

/-- the exponent `dt` of `RoutineDelivery`'s `1 - (1 - prob) ** dt` for a sim with `(unit, dt)`;
    `sim.pars.dt` / `sim.t.dt` is the raw step count in sim units, `dt_year` the step length in years -/
def deliveryExponent (expr : String) (simUnit : UnitT) (simDt : Option Rat) : Except Err Rat :=
  if expr = "sim.pars.dt" ∨ expr = "sim.t.dt" then (match simDt with | some d => .ok d | none => .error .type)
  else if expr = "sim.t.dt_year" ∨ expr = "self.t.dt_year" then timeRatio simUnit simDt (some "year") (some 1)
  else .error .type

/-! ### Table forms: nearest year (value version, for the theorem), fertility table -/

def absDiff (a b : Rat) : Rat := if a - b < 0 then b - a else a - b

/-- the year `sc.findnearest` selects: the FIRST entry at minimal distance -/
def nearestValAux (y : Rat) : List Rat → Rat → Rat
  | [], b => b
  | x :: xs, b => if absDiff x y < absDiff b y then nearestValAux y xs x else nearestValAux y xs b

def nearestVal (years : List Rat) (y : Rat) : Option Rat :=
  match years with
  | [] => none
  | x :: xs => some (nearestValAux y xs x)

/-- `Pregnancy.make_fertility_prob_fn`, table form: the row is the tabulated (yearly interpolated) year nearest to
    `now - dur_pregnancy` (in years) -/
def fertilityYear (index : List Rat) (now durPregYears : Rat) : Nat := nearest index (now - durPregYears)

/-- the re-scaling of a bin's rate from "all women" to "fecund women": `rate*count/(count - infecund)` where defined -/
def rescaleRate (rate : Rat) (count infecund : Nat) : Rat :=
  if (0 : Rat) < (count : Rat) - (infecund : Rat) then rate * (count : Rat) / ((count : Rat) - (infecund : Rat)) else rate

/-- `reindex(...).interpolate()`: linear interpolation between two tabulated years -/
def lerp (y0 r0 y1 r1 y : Rat) : Rat := r0 + (r1 - r0) * (y - y0) / (y1 - y0)

/-! ### Dynamic edges, per-act transmission -/

/-- `DynamicNetwork.end_pairs`: `dur = dur - self.t.dt` once per network step; the edge is kept while `dur > 0` -/
def edgeDurAfter (d dt : Rat) (n : Nat) : Rat := d - (n : Rat) * dt
def edgeActive (d dt : Rat) (n : Nat) : Bool := decide (0 < edgeDurAfter d dt n)

/-- the exponent of `SexualNetwork.net_beta`: `acts * self.t.dt` -/
def netBetaExponent (acts dt : Rat) : Rat := acts * dt

/-! ### Which timeline a module's time parameters are linked to (`Module.init_time`) -/

/-- a timeline `(unit, dt)` -/
abbrev Timeline := UnitT × Option Rat

/-- `Module.init_time` runs module by module, in initialisation order, and initialises every NOT YET initialised TimePar it
    finds.  `reach = true` models today's `sc.search(self.pars)`, which walks through `dist.module.sim` into every module of
    the sim (so the first module reaches everything); `reach = false` is the intended search restricted to the module's own
    parameters.  Result: the timeline the parameters of module `j` end up linked to. -/
def linkedTimeline (reach : Bool) (mods : List Timeline) (j : Nat) : Option Timeline :=
  if reach then (match mods[j]? with | some _ => mods.head? | none => none) else mods[j]?

/-! ### Round 3: how a per-unit-time parameter is WRITTEN (declaration → object) and how a mixing pool consumes beta -/

/-- the three spellings of a time parameter of a module:
    `plain`   `ss.dur(10, unit='day')`, `ss.days(10)`, `ss.rate(0.05, 'week')`, `ss.beta(0.1, 'year')`;
    `inside`  `ss.lognorm_ex(mean=ss.dur(10, unit='day'))` (the time parameter is a parameter of the distribution);
    `wrapped` `ss.dur(ss.lognorm_ex(mean=10), unit='day')`, `ss.days(ss.lognorm_ex(mean=10))` (`TimePar.__new__` builds the
              time parameter for the distribution's first parameter from the caller's keywords) -/
inductive Form where
  | plain | inside | wrapped
  deriving DecidableEq, Repr

/-- the unit that reaches `TimePar.__init__`: for the wrapped spelling a keyword that `TimePar.__new__` does not forward
    (`lost`, regenerated from the signature and the wrapping call: `Gen.wrapLost`) is dropped -/
def declUnitReaching (lost : List String) (f : Form) (declared : UnitT) : UnitT :=
  match f with
  | .wrapped => if lost.contains "unit" then none else declared
  | _ => declared

/-- the (kind, unit) of a shortcut function `ss.days / years / perday / peryear` from the regenerated table; a shortcut
    that does not forward its value or the parent keywords is not understood -/
def shortcutOf (table : List (String × String × String × Bool)) (name : String) : Option (String × String) :=
  match table.find? (fun r => r.1 == name) with
  | some (_, cls, unit, true) => some (cls, unit)
  | _ => none

/-- the object a declaration creates (`TimePar.__init__`: `self_dt = 1`, no parent yet) -/
def declare (lost : List String) (f : Form) (k : Kind) (v : Val Rat) (declared : UnitT) : Except Err (TP Rat) :=
  mk k v (declUnitReaching lost f declared) none none (some 1)

/-- the declaration after `Module.init_time` linked it to the module timeline `(pu, pdt)` -/
def declareInit (lost : List String) (f : Form) (k : Kind) (v : Val Rat) (declared : UnitT) (pu : UnitT) (pdt : Option Rat) (updVals : Bool) :
    Except Err (TP Rat) :=
  match declare lost f k v declared with
  | .error e => .error e
  | .ok t =>
    match init ratOps t true pu pdt none updVals true with
    | (t', .ok ()) => .ok t'
    | (_, .error e) => .error e

/-- `MixingPool.step`: `if isinstance(beta, T): beta = beta.<field>` — which attribute of the time parameter is multiplied into
    the acquisition probability (`Gen.poolBetaField`, regenerated): `values` is the per-step probability, `v` the declared
    per-unit-time number -/
def poolBeta (field : String) (t : TP Rat) : Except Err (Val Rat) :=
  if field = "values" then (match t.values with | some x => .ok x | none => .error .type)
  else if field = "v" then .ok t.v
  else .error .type

/-- `p = beta * trans * acq` for one destination agent -/
def poolProb (field : String) (t : TP Rat) (trans acq : Rat) : Except Err (Val Rat) :=
  match poolBeta field t with
  | .error e => .error e
  | .ok b => .ok (b.map (fun x => x * trans * acq))

/-! ### Round 4: the step counter that schedules / triggers recovery; the step length in years of a timeline -/

/-- the value of a step counter when the MODULE executes its step `k` (module step length `m`, sim step length `s`, same time unit):
    the module's own index is `k`; the sim's index at that moment is `⌈k·m/s⌉` (the loop runs the module steps of the
    interval `((i-1)·s, i·s]` while `sim.ti = i`; measured on the real loop by the correspondence) -/
def clockAt (clock : String) (m s : Rat) (k : Nat) : Except Err Int :=
  if clock = "module" then .ok (k : Int)
  else if clock = "sim" then (if s = 0 then .error .zeroDiv else .ok (Rat.ceil ((k : Rat) * m / s)))
  else .error .type

/-- `set_prognoses` at step 0 stores `ti_recovered = <sched clock> + d` (d = duration in MODULE steps, already converted);
    `step_state` at module step `k` recovers when `ti_recovered <= <recover clock>` -/
def recoveredAt (sched recover : String) (m s d : Rat) (k : Nat) : Except Err Bool :=
  match clockAt sched m s 0, clockAt recover m s k with
  | .ok t0, .ok tk => .ok (decide ((t0 : Rat) + d ≤ (tk : Rat)))
  | .error e, _ => .error e
  | _, .error e => .error e

/-- `Time.init`: `dt_year` of a timeline `(unit, dt)`; `kind` is the regenerated form of the expression for a numeric / calendar axis:
    "ratio" = `time_ratio(unit, dt, 'year', 1.0)`, "dt" = the raw step count -/
def dtYearOf (kind : String) (unit : UnitT) (dt : Option Rat) : Except Err Rat :=
  if kind = "ratio" then timeRatio unit dt (some "year") (some 1)
  else if kind = "dt" then (match dt with | some d => .ok d | none => .error .type)
  else .error .type

def dtYear (numeric : Bool) (unit : UnitT) (dt : Option Rat) : Except Err Rat :=
  dtYearOf (if numeric then Gen.dtYearNumeric else Gen.dtYearDate) unit dt

/-! ### Round 5: a user-supplied value merged into a parameter whose DEFAULT is a time parameter (`Pars.update` →
    `Pars._update_timepar`), e.g. `ss.SIR(beta=0.02)`, `ss.SIS(waning=0.1)`, `dict(type='sis', waning=[0.1, 'day'])` -/

/-- what a module parameter holds after construction: a time parameter — found and linked to the module's timeline by
    `Module.init_time` — or a bare number, which `init_time` never sees and which is therefore applied AS IS on every step -/
inductive Par where
  | tp (t : TP Rat)
  | raw (x : Rat)

/-- the value the user supplies: a plain number, a list `[x]` / `[x, unit]`, or a time parameter of their own -/
inductive NewVal where
  | number (x : Rat)
  | list (x : Rat) (unit : UnitT)
  | timepar (t : TP Rat)

def NewVal.ty : NewVal → String
  | .number _ => "Number"
  | .list _ _ => "list"
  | .timepar _ => "TimePar"

/-- the action of the first branch of the regenerated `_update_timepar` table that matches the type (none: the final `raise`) -/
def updAction (table : List (String × String)) (ty : String) : String :=
  (table.lookup ty).getD ((table.lookup "*").getD "raise")

/-- the handler `Pars.update` dispatches a parameter to whose CURRENT value is a time parameter (a class listed in
    `atomic_classes` would be overwritten directly) -/
def updHandler (dispatch : List (String × String)) (atomic : List String) : String :=
  if atomic.contains "TimePar" then "direct" else (dispatch.lookup "TimePar").getD ((dispatch.lookup "*").getD "direct")

/-- `old.set(v, unit)` on the (not yet initialised) default -/
def setDefault (old : TP Rat) (v : Val Rat) (unit : UnitT) : Except Err Par :=
  match setPars ratOps old (some v) unit none none none false with
  | (t, .ok ()) => .ok (.tp t)
  | (_, .error e) => .error e

/-- `Pars._update_timepar(key, old, new)` with the regenerated branch table: `set` keeps the default's class and unit and
    replaces the number inside it, `replace` stores the new value itself (for a plain number: the bare number) -/
def mergeTimepar (table : List (String × String)) (old : TP Rat) (new : NewVal) : Except Err Par :=
  match new with
  | .number x =>
      if updAction table "Number" = "set" then setDefault old (.scalar x) none
      else if updAction table "Number" = "replace" then .ok (.raw x)
      else .error .type
  | .list x u => if updAction table "list" = "set*" then setDefault old (.scalar x) u else .error .type
  | .timepar t => if updAction table "TimePar" = "replace" then .ok (.tp t) else .error .type

/-- `Module.init_time` on what the parameter holds: a time parameter is linked to the module timeline `(pu, pdt)`, a bare number is not touched -/
def parInit (p : Par) (pu : UnitT) (pdt : Option Rat) (updVals : Bool) : Except Err Par :=
  match p with
  | .raw x => .ok (.raw x)
  | .tp t =>
    match init ratOps t true pu pdt none updVals true with
    | (t', .ok ()) => .ok (.tp t')
    | (_, .error e) => .error e

/-- the amount the module applies in ONE step -/
def Par.perStep : Par → Except Err (Val Rat)
  | .raw x => .ok (.scalar x)
  | .tp t => match t.values with | some v => .ok v | none => .error .type

/-- declaration of the default (plain spelling) → user override → `init_time` on the module timeline -/
def overrideInit (table : List (String × String)) (k : Kind) (v0 : Val Rat) (declared : UnitT) (new : NewVal)
    (pu : UnitT) (pdt : Option Rat) (updVals : Bool) : Except Err Par :=
  match declare Gen.wrapLost .plain k v0 declared with
  | .error e => .error e
  | .ok old =>
    match mergeTimepar table old new with
    | .error e => .error e
    | .ok p => parInit p pu pdt updVals


/-! ## Round 6: the index columns of a data table between the table as WRITTEN and the lookup (`ss.standardize_data`) -/

/-- operations of `standardize_data` that leave the written values of a present column as they are -/
def indexOpKeeps (op : String) : Bool := op == "copy" || op == "default" || op == "move"

/-- every statement that writes column `col` (or all columns) keeps the written values -/
def columnKept (ops : List (String × String)) (col : String) : Bool :=
  ops.all (fun kop => !(kop.1 == col || kop.1 == "*") || indexOpKeeps kop.2)

/-- the values of column `col` the lookup sees: the written ones, or — when some statement rewrites the column — whatever that
    statement makes of them (`f`, arbitrary) -/
def standardizeCol (ops : List (String × String)) (col : String) (f : Rat → Rat) (written : List Rat) : List Rat :=
  if columnKept ops col then written else written.map f

/-- the row `Deaths` / `Births` apply at time `now`: nearest of the STORED reference times -/
def tableRow (ops : List (String × String)) (f : Rat → Rat) (written : List Rat) (now : Rat) : Nat :=
  nearest (standardizeCol ops "year" f written) now

/-- the age bin applied to an agent: over the STORED age starts -/
def tableBin (ops : List (String × String)) (f : Rat → Rat) (written : List Rat) (age : Rat) : Nat :=
  ageBin (standardizeCol ops "age" f written) age

end StarsimModel.Hazard
