/-
Model of the population bookkeeping of starsim (starsim/people.py) on top of Model/Arr.lean:
`People.grow`, `request_death`, `step_die`, `remove_dead`, `update_results`, `finish_step` (+ the clock tick of
`Sim.finish_step`), late registration of a state (`Arr.link_people` + `Arr.init_vals`).

Every array of the population is a `Model/Arr` array, and every operation is written with the same array
operations the Python code uses (`ti_dead[uids] = ti`, `(ti_dead <= ti).uids`, `alive[uids] = False`,
`(~alive).uids`, `np.count_nonzero(alive)`, `np.count_nonzero(ti_dead == ti)`).
Core Lean only.
-/
import StarsimModel.Model.Arr

namespace StarsimModel.People
open StarsimModel.Arr

structure People where
  uid : Arr
  slot : Arr
  parent : Arr
  auids : List Nat
  alive : Arr              -- `ss.State('alive', default=True)`
  tiDead : Arr             -- `ss.FloatArr('ti_dead')`
  states : List Arr        -- every other state in `People._states` (core, module, intervention, network)
  ti : Int                 -- `sim.ti`
  nAlive : List (Int × Nat)      -- `results.n_alive[ti]` written so far
  newDeaths : List (Int × Nat)   -- `results.new_deaths[ti]`

/-- number of identifiers created so far (`People.n_uids = uid.len_used`) -/
def People.n (p : People) : Nat := p.uid.lenUsed

def tiVal (ti : Int) : Val := .num (ti : Rat)

/-- the registry loop of `People.grow`: `for state in self._states.values(): state.grow(new_uids)` (first error wins) -/
def growAll : List Arr → List Nat → Except Err (List Arr)
  | [], _ => .ok []
  | a :: rest, us =>
      match grow a us none with
      | .error e => .error e
      | .ok a' =>
          match growAll rest us with
          | .error e => .error e
          | .ok rest' => .ok (a' :: rest')

/-- `People.__init__(n)` followed by `init_vals`: `n` agents, all active, alive, no death scheduled.
    `extra` are the additional states with their kinds / nan / defaults. -/
def init (n : Nat) (extra : List Arr) : Except Err People := do
  let ids := newIds 0 n
  let idVals : Rhs := .list (ids.map (fun (u : Nat) => Val.num (u : Rat)))
  let uid ← grow (fresh .index (.num (-1)) .unset) ids (some idVals)
  let slot ← grow (fresh .index (.num (-1)) .unset) ids (some idVals)
  let parent ← grow (fresh .index (.num (-1)) .unset) ids (some (.list (List.replicate n (.num (-1)))))
  let alive ← grow (fresh .bool (.bool false) (.const (.bool true))) ids none
  let tiDead ← grow (fresh .float .nan .unset) ids none
  let states ← growAll extra ids
  pure { uid := uid, slot := slot, parent := parent, auids := ids, alive := alive, tiDead := tiDead, states := states,
         ti := 0, nAlive := [], newDeaths := [] }

/-- `new_slots if new_slots is not None else new_uids` -/
def slotRhs (slots : Option (List Nat)) (idVals : Rhs) : Rhs :=
  match slots with
  | some s => .list (s.map (fun (u : Nat) => Val.num (u : Rat)))
  | none => idVals

/-- `People.grow(n, new_slots)`; `n = 0` returns at once. -/
def growPeople (p : People) (k : Nat) (slots : Option (List Nat)) : Except Err People :=
  if k = 0 then .ok p else do
  let new := newIds p.n k
  let idVals : Rhs := .list (new.map (fun (u : Nat) => Val.num (u : Rat)))
  let slotVals : Rhs := slotRhs slots idVals
  let uid ← grow p.uid new (some idVals)
  let slot ← grow p.slot new (some slotVals)
  let parent ← grow p.parent new (some (.scalar p.parent.nan))
  let alive ← grow p.alive new none
  let tiDead ← grow p.tiDead new none
  let states ← growAll p.states new
  pure { p with uid := uid, slot := slot, parent := parent, alive := alive, tiDead := tiDead, states := states,
                auids := p.auids ++ new }

/-- `People.request_death(uids)`: `self.ti_dead[uids] = self.sim.ti` -/
def requestDeath (p : People) (us : List Nat) : Except Err People := do
  let td ← setItem codeVariant p.auids p.tiDead (.uids us) (.scalar (tiVal p.ti))
  pure { p with tiDead := td }

/-- the identifiers `step_die` resolves: `(self.ti_dead <= self.sim.ti).uids` -/
def deathUids (p : People) : List Nat := trueUids p.auids (cmpScalar p.auids p.tiDead .le (tiVal p.ti))

/-- `People.step_die()`: `self.alive[death_uids] = False` -/
def stepDie (p : People) : Except Err People := do
  let al ← setItem codeVariant p.auids p.alive (.uids (deathUids p)) (.scalar (.bool false))
  pure { p with alive := al }

/-- `People.dead.uids = (~self.alive).uids` -/
def deadUids (p : People) : Except Err (List Nat) := do
  let d ← invert p.auids p.alive
  pure (trueUids p.auids d)

/-- `People.remove_dead()`: `auids = auids[isin(auids, unique(dead), invert=True)]` when there is someone to remove -/
def removeDead (p : People) : Except Err People := do
  let dead ← deadUids p
  if dead.isEmpty then pure p
  else pure { p with auids := removeActive p.auids (Uids.unique dead) }

/-- `People.update_results()` -/
def updateResults (p : People) : People :=
  -- `res[ti] = …` overwrites an entry already written for this step
  { p with nAlive := p.nAlive.filter (fun e => e.1 != p.ti) ++ [(p.ti, count p.auids p.alive)],
           newDeaths := p.newDeaths.filter (fun e => e.1 != p.ti) ++
             [(p.ti, count p.auids (cmpScalar p.auids p.tiDead .eq (tiVal p.ti)))] }

/-- `People.finish_step()` (= `remove_dead`; ageing is outside this property) followed by the clock tick of
    `Sim.finish_step` -/
def finishStep (p : People) : Except Err People := do
  let p' ← removeDead p
  pure { p' with ti := p'.ti + 1 }

/-- registration of a further state at run time: `state.link_people(people); state.init_vals()`, i.e.
    `self.grow(self.people.uid)` where the IndexArr stands for its active values -/
def registerState (p : People) (a : Arr) : Except Err People := do
  let a' ← grow a p.auids none
  pure { p with states := p.states ++ [a'] }

inductive Op where
  | grow (k : Nat) (slots : Option (List Nat))
  | requestDeath (us : List Nat)
  | stepDie
  | updateResults
  | removeDead
  | finishStep
  deriving Repr

def stepE (p : People) : Op → Except Err People
  | .grow k s => growPeople p k s
  | .requestDeath us => requestDeath p us
  | .stepDie => stepDie p
  | .updateResults => .ok (updateResults p)
  | .removeDead => removeDead p
  | .finishStep => finishStep p

/-- an operation the code rejects raises and leaves the population unchanged -/
def step (p : People) (op : Op) : People :=
  match stepE p op with
  | .ok p' => p'
  | .error _ => p

def run (p : People) (ops : List Op) : People := ops.foldl step p

/-- number of living agents as `update_results` counts them -/
def aliveCount (p : People) : Nat := count p.auids p.alive

end StarsimModel.People
