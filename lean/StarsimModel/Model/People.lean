/-
Model of the population bookkeeping of starsim (starsim/people.py) on top of Model/Arr.lean:
`People.grow`, `request_death`, `step_die`, `remove_dead`, `update_results`, `finish_step` (+ the clock tick of
`Sim.finish_step`), late registration of a state (`Arr.link_people` + `Arr.init_vals`).

Every array of the population is a `Model/Arr` array, and every operation is written with the same array
operations the Python code uses (`ti_dead[uids] = ti`, `(ti_dead <= ti).uids`, `alive[uids] = False`,
`(~alive).uids`, `np.count_nonzero(alive)`, `np.count_nonzero(ti_dead == ti)`).
Core Lean only.
-/
import StarsimModel.Model.Arr
import StarsimModel.Generated.PeoplePlan

namespace StarsimModel.People
open StarsimModel.Arr

structure People where
  uid : Arr
  slot : Arr
  parent : Arr
  auids : List Nat
  alive : Arr              -- `ss.State('alive', default=True)`
  tiDead : Arr             -- `ss.FloatArr('ti_dead')`
  states : List Arr        -- every other state in `People._states` (core, module, intervention, network)
  ti : Int                 -- `sim.ti`
  nAlive : List (Int × Nat)      -- `results.n_alive[ti]` written so far
  newDeaths : List (Int × Nat)   -- `results.new_deaths[ti]`

/-- number of identifiers created so far (`People.n_uids = uid.len_used`) -/
def People.n (p : People) : Nat := p.uid.lenUsed

def tiVal (ti : Int) : Val := .num (ti : Rat)

/-- the registry loop of `People.grow`: `for state in self._states.values(): state.grow(new_uids)` (first error wins) -/
def growAll : List Arr → List Nat → Except Err (List Arr)
  | [], _ => .ok []
  | a :: rest, us =>
      match grow a us none with
      | .error e => .error e
      | .ok a' =>
          match growAll rest us with
          | .error e => .error e
          | .ok rest' => .ok (a' :: rest')

/-- `People.__init__(n)` followed by `init_vals`: `n` agents, all active, alive, no death scheduled.
    `extra` are the additional states with their kinds / nan / defaults. -/
def init (n : Nat) (extra : List Arr) : Except Err People := do
  let ids := newIds 0 n
  let idVals : Rhs := .list (ids.map (fun (u : Nat) => Val.num (u : Rat)))
  let uid ← grow (fresh .index (.num (-1)) .unset) ids (some idVals)
  let slot ← grow (fresh .index (.num (-1)) .unset) ids (some idVals)
  let parent ← grow (fresh .index (.num (-1)) .unset) ids (some (.list (List.replicate n (.num (-1)))))
  let alive ← grow (fresh .bool (.bool false) (.const (.bool true))) ids none
  let tiDead ← grow (fresh .float .nan .unset) ids none
  let states ← growAll extra ids
  pure { uid := uid, slot := slot, parent := parent, auids := ids, alive := alive, tiDead := tiDead, states := states,
         ti := 0, nAlive := [], newDeaths := [] }

/-- `new_slots if new_slots is not None else new_uids` -/
def slotRhs (slots : Option (List Nat)) (idVals : Rhs) : Rhs :=
  match slots with
  | some s => .list (s.map (fun (u : Nat) => Val.num (u : Rat)))
  | none => idVals

/-- `People.grow(n, new_slots)`; `n = 0` returns at once. -/
def growPeople (p : People) (k : Nat) (slots : Option (List Nat)) : Except Err People :=
  if k = 0 then .ok p else do
  let new := newIds p.n k
  let idVals : Rhs := .list (new.map (fun (u : Nat) => Val.num (u : Rat)))
  let slotVals : Rhs := slotRhs slots idVals
  let uid ← grow p.uid new (some idVals)
  let slot ← grow p.slot new (some slotVals)
  let parent ← grow p.parent new (some (.scalar p.parent.nan))
  let alive ← grow p.alive new none
  let tiDead ← grow p.tiDead new none
  let states ← growAll p.states new
  pure { p with uid := uid, slot := slot, parent := parent, alive := alive, tiDead := tiDead, states := states,
                auids := p.auids ++ new }

/-- `People.request_death(uids)`: `self.ti_dead[uids] = self.sim.ti` -/
def requestDeath (p : People) (us : List Nat) : Except Err People := do
  let td ← setItem codeVariant p.auids p.tiDead (.uids us) (.scalar (tiVal p.ti))
  pure { p with tiDead := td }

/-- the identifiers `step_die` resolves: `(self.ti_dead <= self.sim.ti).uids` -/
def deathUids (p : People) : List Nat := trueUids p.auids (cmpScalar p.auids p.tiDead .le (tiVal p.ti))

/-- `People.step_die()`: `self.alive[death_uids] = False` -/
def stepDie (p : People) : Except Err People := do
  let al ← setItem codeVariant p.auids p.alive (.uids (deathUids p)) (.scalar (.bool false))
  pure { p with alive := al }

/-- `People.dead.uids = (~self.alive).uids` -/
def deadUids (p : People) : Except Err (List Nat) := do
  let d ← invert p.auids p.alive
  pure (trueUids p.auids d)

/-- `People.remove_dead()`: `auids = auids[isin(auids, unique(dead), invert=True)]` when there is someone to remove -/
def removeDead (p : People) : Except Err People := do
  let dead ← deadUids p
  if dead.isEmpty then pure p
  else pure { p with auids := removeActive p.auids (Uids.unique dead) }

/-- `People.update_results()` -/
def updateResults (p : People) : People :=
  -- `res[ti] = …` overwrites an entry already written for this step
  { p with nAlive := p.nAlive.filter (fun e => e.1 != p.ti) ++ [(p.ti, count p.auids p.alive)],
           newDeaths := p.newDeaths.filter (fun e => e.1 != p.ti) ++
             [(p.ti, count p.auids (cmpScalar p.auids p.tiDead .eq (tiVal p.ti)))] }

/-- `People.finish_step()` (= `remove_dead`; ageing is outside this property) followed by the clock tick of
    `Sim.finish_step` -/
def finishStep (p : People) : Except Err People := do
  let p' ← removeDead p
  pure { p' with ti := p'.ti + 1 }

/-- `People.update_post()` with ageing on: `self.age[self.alive.uids] += dt` — read the ages of the living active agents,
    add `dt`, write them back (dead and removed agents keep the age they died with) -/
def agePost (au : List Nat) (alive age : Arr) (dt : Rat) : Except Err Arr :=
  let us := trueUids au alive
  setItem codeVariant au age (.uids us) (.list (us.map (fun u => arithVal .add (age.cell u) (.num dt))))

/-- registration of a further state at run time: `state.link_people(people); state.init_vals()`, i.e.
    `self.grow(self.people.uid)` where the IndexArr stands for its active values -/
def registerState (p : People) (a : Arr) : Except Err People := do
  let a' ← grow a p.auids none
  pure { p with states := p.states ++ [a'] }

inductive Op where
  | grow (k : Nat) (slots : Option (List Nat))
  | requestDeath (us : List Nat)
  | stepDie
  | updateResults
  | removeDead
  | finishStep
  deriving Repr, DecidableEq

def stepE (p : People) : Op → Except Err People
  | .grow k s => growPeople p k s
  | .requestDeath us => requestDeath p us
  | .stepDie => stepDie p
  | .updateResults => .ok (updateResults p)
  | .removeDead => removeDead p
  | .finishStep => finishStep p

/-- an operation the code rejects raises and leaves the population unchanged -/
def step (p : People) (op : Op) : People :=
  match stepE p op with
  | .ok p' => p'
  | .error _ => p

def run (p : People) (ops : List Op) : People := ops.foldl step p

/-- number of living agents as `update_results` counts them -/
def aliveCount (p : People) : Nat := count p.auids p.alive

/-! ### Specification-level definitions used by the theorems (Props/C10.lean) -/

/-- The bookkeeping invariant of a population with `n = uid.len_used` identifiers. -/
structure Inv (p : People) : Prop where
  uid : WF p.n p.uid
  slot : WF p.n p.slot
  parent : WF p.n p.parent
  alive : WF p.n p.alive
  tiDead : WF p.n p.tiDead
  states : ∀ a ∈ p.states, WF p.n a
  statesDefault : ∀ a ∈ p.states, ∀ us, (defaultVals a us).length = us.length
  dense : ∀ u, u < p.n → p.uid.cell u = .num (u : Rat)
  active : ∀ u ∈ p.auids, u < p.n
  nodup : p.auids.Nodup
  aliveKind : p.alive.kind = .bool ∧ p.alive.default = .const (.bool true)
  tiDeadDefault : p.tiDead.default = .unset
  tiDeadKind : p.tiDead.kind = .float
  aliveBool : ∀ u, u < p.n → ∃ b, p.alive.cell u = .bool b
  removedDead : ∀ u, u < p.n → u ∉ p.auids → p.alive.cell u = .bool false

/-- operations the code accepts: explicit slots come one per new agent; death requests name created agents -/
def OpOk (p : People) : Op → Prop
  | .grow k slots => ∀ s, slots = some s → s.length = k
  | .requestDeath us => ∀ u ∈ us, u < p.n
  | _ => True

/-- the population before anybody exists: every array freshly constructed (`extra` = all further registered states) -/
def emptyPeople (extra : List Arr) : People :=
  { uid := fresh .index (.num (-1)) .unset, slot := fresh .index (.num (-1)) .unset, parent := fresh .index (.num (-1)) .unset,
    auids := [], alive := fresh .bool (.bool false) (.const (.bool true)), tiDead := fresh .float .nan .unset,
    states := extra, ti := 0, nAlive := [], newDeaths := [] }

/-- a history the code accepts (stated along the run) -/
def ValidRun : People → List Op → Prop
  | _, [] => True
  | p, op :: ops => OpOk p op ∧ ValidRun (step p op) ops

/-- the number of agents `step_die` newly kills -/
def diedNow (p : People) : Nat := ((deathUids p).filter (fun u => (p.alive.cell u).truthy)).length

/-- what `update_results` records as `new_deaths[ti]` -/
def recordedDeaths (p : People) : Nat := count p.auids (cmpScalar p.auids p.tiDead .eq (tiVal p.ti))

/-- the decidable hypothesis that excludes the defect: no active agent carries a death stamp from an *earlier* step
    (every request was made before the death resolution of its own step, so its agent died and was removed then) -/
def NoStaleStamp (p : People) : Bool :=
  p.auids.all (fun u => !(cmpVal .le (p.tiDead.cell u) (tiVal p.ti)).truthy || (cmpVal .eq (p.tiDead.cell u) (tiVal p.ti)).truthy)

def AllActiveAlive (p : People) : Bool := p.auids.all (fun u => (p.alive.cell u).truthy)

/-! ### The per-step plan of the simulation loop (`Loop.collect_funcs`, regenerated as `Gen.planRows`)

The population is only consistent if EVERY sim — whatever its module set — runs, once per step and in this order: the
module code that may create agents and request deaths, `people.step_die`, `people.update_results`, the module code that
runs after death resolution, `people.finish_step` and at once the clock tick of `sim.finish_step`. -/

/-- a row of the plan: (container, method, guard); guard `""` = scheduled in every sim -/
abbrev PlanRow := String × String × String

/-- what a row of the plan is for the population -/
inductive Slot where
  | people (op : Op)                       -- `sim.people.step_die / update_results / finish_step`
  | peopleOther (method : String)          -- another People method: not understood by the model
  | simStart                               -- `sim.start_step`
  | tick                                   -- `sim.finish_step` (fused into `Op.finishStep`, which it must follow at once)
  | simOther (method : String)
  | modules (container method : String)    -- code of the modules: may grow the population and request deaths
  deriving Repr, DecidableEq

def slotOf (r : PlanRow) : Slot :=
  if r.1 = "sim.people" then
    if r.2.1 = "step_die" then .people .stepDie
    else if r.2.1 = "update_results" then .people .updateResults
    else if r.2.1 = "finish_step" then .people .finishStep
    else .peopleOther r.2.1
  else if r.1 = "sim" then
    if r.2.1 = "start_step" then .simStart else if r.2.1 = "finish_step" then .tick else .simOther r.2.1
  else .modules r.1 r.2.1

/-- the rows scheduled in a sim whose module set makes the guards evaluate as `g` says -/
def scheduled (g : String → Bool) (rows : List PlanRow) : List PlanRow :=
  rows.filter (fun r => r.2.2 = "" || g r.2.2)

/-- the operations on the population one pass through the plan issues, when the module code at row
    (container, method) issues `acts container method` -/
def planOps (acts : String → String → List Op) (rows : List PlanRow) : List Op :=
  rows.flatMap (fun r => match slotOf r with
    | .people op => [op]
    | .modules c m => acts c m
    | _ => [])

/-- module code changes the population only by creating agents and requesting deaths -/
def IsModuleOp : Op → Bool
  | .grow _ _ => true
  | .requestDeath _ => true
  | _ => false

/-- one step of the loop: what the modules do before death resolution, death resolution, results, what the modules do
    after it, removal + clock tick -/
def stepOps (pre post : List Op) : List Op := pre ++ [.stepDie, .updateResults] ++ post ++ [.finishStep]

/-- the rows of the plan before `people.step_die`, between `people.update_results` and `people.finish_step`, and the rest -/
def isRow (c m : String) (r : PlanRow) : Bool := r.1 == c && r.2.1 == m
def preRows (rows : List PlanRow) : List PlanRow := rows.takeWhile (fun r => !isRow "sim.people" "step_die" r)
def postRows (rows : List PlanRow) : List PlanRow :=
  ((rows.dropWhile (fun r => !isRow "sim.people" "update_results" r)).drop 1).takeWhile (fun r => !isRow "sim.people" "finish_step" r)

/-- agents created by a list of module operations -/
def created : List Op → Nat
  | [] => 0
  | .grow k _ :: rest => k + created rest
  | _ :: rest => created rest

/-- agent `u` carries a death stamp that the next death resolution acts on (`ti_dead[u] <= ti`) -/
def Stamped (p : People) (u : Nat) : Bool := (cmpVal .le (p.tiDead.cell u) (tiVal p.ti)).truthy


/-! ### Finalisation of the recorded series (`Sim.finalize`, mode and dtypes regenerated as `Gen.finalizeSim`, `Gen.simResults`)

After the run every series that scales with the population is multiplied by `pop_scale` (the sim stands for
`n_agents × pop_scale` people).  The product is exact when the series is REPLACED by it (a float series); when it is
written into the existing array and that array holds integers, every entry is truncated towards zero. -/

/-- assignment of a real into an integer array: truncation towards zero -/
def truncRat (r : Rat) : Rat := ((r.num.tdiv (r.den : Int) : Int) : Rat)

/-- does finalisation truncate the sim-level series `name`?  (what the code does: regenerated) -/
def seriesTruncates (name : String) : Bool :=
  Gen.finalizeSim.1 == "inplace" && Gen.simResults.any (fun r => r.1 == name && r.2.1 == "int")

/-- the recorded value of a count after finalisation -/
def finalizeVal (truncates : Bool) (s : Rat) (c : Nat) : Rat := if truncates then truncRat ((c : Rat) * s) else (c : Rat) * s

/-- a whole series after finalisation -/
def finalizeSeries (name : String) (s : Rat) (l : List (Int × Nat)) : List (Int × Rat) :=
  l.map (fun e => (e.1, finalizeVal (seriesTruncates name) s e.2))


/-! ### The form of a death request, and how module-held arrays reach the registry (round 5) -/

/-- `People.request_death(key)` for ANY key `Arr.__setitem__` accepts (one python / numpy integer, an identifier array, a
    Boolean state, a slice …): `self.ti_dead[key] = self.sim.ti`, dispatched as `Arr._convert_key` does under variant `v`
    (`codeVariant` = what the regenerated `_convert_key` table says about integers) -/
def requestDeathKey (v : Variant) (p : People) (k : Key) : Except Err People := do
  let td ← setItem v p.auids p.tiDead k (.scalar (tiVal p.ti))
  pure { p with tiDead := td }

/-- a Boolean test on the outcome of an operation that may raise (`false` when it raises) -/
def okAnd (r : Except Err People) (f : People → Bool) : Bool :=
  match r with
  | .ok p => f p
  | .error _ => false

/-- the arrays a module holds as attributes, in attribute order: (state name, array); names may repeat -/
abbrev Held := List (String × Arr)

/-- a mapping keyed by the state name keeps one array per name (the last one) -/
def lastByName : Held → Held
  | [] => []
  | h :: rest => if rest.any (fun r => r.1 == h.1) then lastByName rest else h :: lastByName rest

/-- `Module.states`: the enumeration mode is regenerated (`Gen.moduleStatesEnum`) -/
def enumStates (mode : String) (held : Held) : Held := if mode = "all-attributes" then held else lastByName held

/-- `link_people` + `init_vals` for a list of arrays, one after the other (first error wins) -/
def registerAll (p : People) : List Arr → Except Err People
  | [] => .ok p
  | a :: rest =>
      match registerState p a with
      | .error e => .error e
      | .ok p' => registerAll p' rest

/-- `l'` are, pairwise and in order, the allocations (`init_vals` = grow by the active agents) of the arrays `l` -/
def Allocated (au : List Nat) : List Arr → List Arr → Prop
  | [], [] => True
  | a :: l, a' :: l' => grow a au none = .ok a' ∧ Allocated au l l'
  | _, _ => False

/-- `People.add_module(m)` + `m.init_post()`: every ENUMERATED array of the module is linked, registered and allocated -/
def addModule (mode : String) (p : People) (held : Held) : Except Err People :=
  registerAll p ((enumStates mode held).map (fun h => h.2))


end StarsimModel.People
