/-
Model of how starsim records, scales, summarises and exports results (property C15).  Core Lean only.

Anchors (pinned tree):
  people.py   People.update_results        n_alive / new_deaths / cum_deaths
  disease.py  Disease.update_results       n_<state> = state.sum()
              Infection.update_results     prevalence / new_infections / cum_infections
  demographics.py  Births/Deaths/Pregnancy update_results, finalize (cumulative = cumsum(new), cmr / cbr)
  modules.py  Module.finalize_results      scale the flagged results by pop_scale
  sim.py      Sim.finalize / summarize / to_df / to_json / shrink / save
  parameters.py  SimPars.validate_total_pop

Slices of the cumulative results, scale flags, the scaling guards and the `how` table of `summarize` are NOT written
here: they are read from Generated/ResultsTable.lean, which is regenerated from the source on every run.
-/
import StarsimModel.Generated.ResultsTable

namespace StarsimModel.Results

inductive Err
  | alreadyRun      -- AlreadyRunError (second finalize; running a completed sim)
  | notReady        -- RuntimeError of check_results_ready
  | value           -- ValueError (total_pop and pop_scale both given)
  | key             -- unknown result key
  | index           -- write outside the result array
  | other
deriving Repr, DecidableEq

/-! ## Arrays of results -/

/-- `np.zeros(npts)` -/
def zeros (npts : Nat) : List Rat := List.replicate npts 0

/-- `np.sum(arr[:n])` -/
def sumTo (arr : List Rat) (n : Nat) : Rat := (arr.take n).sum

/-- `np.cumsum(arr)` -/
def cumsumFrom (acc : Rat) : List Rat → List Rat
  | [] => []
  | x :: xs => (acc + x) :: cumsumFrom (acc + x) xs

def cumsum (arr : List Rat) : List Rat := cumsumFrom 0 arr

/-- number of list elements satisfying `p`, as the rational the code stores -/
def count {α} (p : α → Bool) (l : List α) : Nat := (l.filter p).length

/-! ## A flow series and its cumulative companion

`new[ti] = x ; cum[ti] = np.sum(new[:ti + off])` with `off = 1` for the slice `[:ti+1]`, `off = 0` for `[:ti]`. -/

structure Flow where
  new : List Rat
  cum : List Rat
deriving Repr, DecidableEq

def sliceOff (inclusive : Bool) : Nat := if inclusive then 1 else 0

def Flow.init (npts : Nat) : Flow := ⟨zeros npts, zeros npts⟩

def Flow.record (off : Nat) (f : Flow) (ti : Nat) (x : Rat) : Flow :=
  let new' := f.new.set ti x
  ⟨new', f.cum.set ti (sumTo new' (ti + off))⟩

/-- The history of one owner (people or a module): its own steps `0, 1, 2, …` in order, newest first. -/
def Flow.runRev (off npts : Nat) : List Rat → Flow
  | [] => Flow.init npts
  | x :: earlier => (Flow.runRev off npts earlier).record off earlier.length x

def Flow.run (off npts : Nat) (xs : List Rat) : Flow := Flow.runRev off npts xs.reverse

/-- A series written pointwise: `arr[ti] = x` at the owner's steps `0, 1, 2, …` -/
def pointRunRev (npts : Nat) : List Rat → List Rat
  | [] => zeros npts
  | x :: earlier => (pointRunRev npts earlier).set earlier.length x

def pointRun (npts : Nat) (xs : List Rat) : List Rat := pointRunRev npts xs.reverse

/-! ## The cumulative slices the code uses (from the regenerated table) -/

/-- `some true` = `[:ti+1]` or full `cumsum`, `some false` = `[:ti]`, `none` = no such row -/
def cumInclusive (cls result : String) : Option Bool :=
  (Gen.cumRows.find? (fun r => r.cls == cls && r.result == result)).map (·.inclusive)

/-- variant flag for a cumulative row: what the code does today, or the documented running sum -/
inductive Variant | asis | spec
deriving Repr, DecidableEq

def offOf (v : Variant) (cls result : String) : Nat :=
  match v with
  | .spec => 1
  | .asis => sliceOff ((cumInclusive cls result).getD true)

/-! ## People.update_results -/

/-- One *active* agent (in `auids`) as `People.update_results` sees it -/
structure Person where
  alive : Bool
  tiDead : Option Int          -- `ti_dead` (nan = none)
deriving Repr, DecidableEq

structure PeopleRes where
  nAlive : List Rat
  deaths : Flow                -- new_deaths / cum_deaths
deriving Repr, DecidableEq

def PeopleRes.init (npts : Nat) : PeopleRes := ⟨zeros npts, Flow.init npts⟩

def nAliveOf (ppl : List Person) : Nat := count (·.alive) ppl
def newDeathsOf (ti : Nat) (ppl : List Person) : Nat := count (fun p => p.tiDead == some (ti : Int)) ppl

def peopleUpdate (off : Nat) (r : PeopleRes) (ti : Nat) (ppl : List Person) : PeopleRes :=
  ⟨r.nAlive.set ti (nAliveOf ppl), r.deaths.record off ti (newDeathsOf ti ppl)⟩

def peopleRunRev (off npts : Nat) : List (List Person) → PeopleRes
  | [] => PeopleRes.init npts
  | s :: earlier => peopleUpdate off (peopleRunRev off npts earlier) earlier.length s

def peopleRun (off npts : Nat) (snaps : List (List Person)) : PeopleRes := peopleRunRev off npts snaps.reverse

/-! ## Disease.update_results / Infection.update_results -/

/-- One active agent as an `Infection` module's `update_results` sees it -/
structure DAgent where
  alive : Bool
  flags : List Bool            -- the module's boolean states, in `_disease_states` order
  tiInfected : Option Int
deriving Repr, DecidableEq

def flagOf (i : Nat) (a : DAgent) : Bool := a.flags.getD i false

structure DisRes where
  nState : List (List Rat)     -- one series per state
  prevalence : List Rat
  inf : Flow                   -- new_infections / cum_infections
deriving Repr, DecidableEq

def DisRes.init (nStates npts : Nat) : DisRes := ⟨List.replicate nStates (zeros npts), zeros npts, Flow.init npts⟩

def nStateOf (i : Nat) (ags : List DAgent) : Nat := count (flagOf i) ags
def nAliveD (ags : List DAgent) : Nat := count (·.alive) ags
def newInfOf (ti : Nat) (ags : List DAgent) : Nat := count (fun a => a.tiInfected == some (ti : Int)) ags

/-- `res.n_infected[ti] / np.count_nonzero(people.alive)`; `infIdx` = position of `infected` among the states -/
def prevalenceOf (infIdx : Nat) (ags : List DAgent) : Rat := (nStateOf infIdx ags : Rat) / (nAliveD ags : Rat)

def setStates (ns : List (List Rat)) (ti : Nat) (ags : List DAgent) : List (List Rat) :=
  ns.zipIdx.map (fun (arr, i) => arr.set ti (nStateOf i ags))

def diseaseUpdate (off infIdx : Nat) (r : DisRes) (ti : Nat) (ags : List DAgent) : DisRes :=
  ⟨setStates r.nState ti ags, r.prevalence.set ti (prevalenceOf infIdx ags), r.inf.record off ti (newInfOf ti ags)⟩

def diseaseRunRev (off infIdx nStates npts : Nat) : List (List DAgent) → DisRes
  | [] => DisRes.init nStates npts
  | s :: earlier => diseaseUpdate off infIdx (diseaseRunRev off infIdx nStates npts earlier) earlier.length s

def diseaseRun (off infIdx nStates npts : Nat) (snaps : List (List DAgent)) : DisRes :=
  diseaseRunRev off infIdx nStates npts snaps.reverse

/-! ## Demographic rates computed in `finalize` (`Deaths.cmr`, `Pregnancy.cbr`): `new / n_alive / units` where `n_alive > 0` -/

def rateSeries (units : Rat) (new nAlive : List Rat) : List (Option Rat) :=
  (new.zip nAlive).map (fun (d, a) => if 0 < a then some (d / a / units) else none)   -- `where=n_alive>0`, no `out=`: undefined otherwise

/-! ## The result store, finalize, exports -/

structure Series where
  key : String                 -- flattened key, e.g. `sir_n_infected`, `n_alive`
  scale : Bool                 -- the `scale` flag of the Result
  cumOf : Option String        -- filled in `finalize` as `np.cumsum(<key>)` (Births/Deaths `cumulative`)
  vals : List Rat
deriving Repr, DecidableEq

structure Sim where
  popScale : Rat
  ready : Bool                 -- `results_ready` (set by finalize; `complete` coincides with it in a full run)
  store : List Series
  summary : List (String × Rat)
deriving Repr, DecidableEq

inductive Op
  | write (key : String) (ti : Nat) (v : Rat)   -- an `update_results` assignment during the run
  | finalize
  | summarize
  | toDf | toJson | shrink | saveLoad
deriving Repr, DecidableEq

def lookup (st : List Series) (key : String) : Option Series := st.find? (·.key == key)

def writeStore (st : List Series) (key : String) (ti : Nat) (v : Rat) : List Series :=
  st.map (fun s => if s.key == key then { s with vals := s.vals.set ti v } else s)

/-- scaling loop of `Sim.finalize` / `Module.finalize_results`; `flaggedOnly` is the guard extracted from the source -/
def scaleSeries (flaggedOnly : Bool) (k : Rat) (s : Series) : Series :=
  if s.scale || !flaggedOnly then { s with vals := s.vals.map (· * k) } else s

def scaleStore (flaggedOnly : Bool) (k : Rat) (st : List Series) : List Series := st.map (scaleSeries flaggedOnly k)

/-- `self.results.cumulative[:] = np.cumsum(self.results.new)` after the scaling -/
def fillDerived (st : List Series) : List Series :=
  st.map (fun s => match s.cumOf with
    | none => s
    | some src => match lookup st src with
      | some t => { s with vals := cumsum t.vals }
      | none => s)

def isInfix (p : List Char) : List Char → Bool
  | [] => p.isEmpty
  | c :: cs => p.isPrefixOf (c :: cs) || isInfix p cs

/-- `hkey in key` -/
def hasInfix (p key : String) : Bool := isInfix p.toList key.toList
def hasPrefix (p key : String) : Bool := p.toList.isPrefixOf key.toList

/-- `get_func`: the first entry of `how` whose key matches the result key -/
def summaryFunc (how : List (String × String)) (substring : Bool) (dflt : String) (key : String) : String :=
  match how.find? (fun h => if substring then hasInfix h.1 key else hasPrefix h.1 key) with
  | some h => h.2
  | none => dflt

def mean (l : List Rat) : Rat := l.sum / (l.length : Rat)

def summaryEntry (func : String) (vals : List Rat) : Option Rat :=
  if func = "mean" then some (mean vals)
  else if func = "last" then vals.getLast?
  else none

def summarize (st : List Series) : List (String × Rat) :=
  st.filterMap (fun s =>
    (summaryEntry (summaryFunc Gen.summaryHow Gen.summaryMatchSubstring Gen.summaryDefault s.key) s.vals).map (fun v => (s.key, v)))

def finalStore (flaggedOnly : Bool) (k : Rat) (st : List Series) : List Series := fillDerived (scaleStore flaggedOnly k st)

/-- what an export shows: (key, values) of every series -/
def view (s : Sim) : List (String × List Rat) := s.store.map (fun x => (x.key, x.vals))

def step (s : Sim) : Op → Except Err Sim
  | .write key ti v =>
      if s.ready then .error .alreadyRun          -- `Sim.run` / `start_step` raise AlreadyRunError once complete
      else match lookup s.store key with
        | none => .error .key
        | some x => if ti < x.vals.length then .ok { s with store := writeStore s.store key ti v } else .error .index
  | .finalize =>
      if s.ready && Gen.simFinalizeGuarded then .error .alreadyRun
      else
        let st := finalStore (Gen.moduleScalesFlaggedOnly && Gen.simScalesFlaggedOnly) s.popScale s.store
        .ok { s with ready := Gen.simFinalizeSetsReady, store := st, summary := summarize st }
  | .summarize => .ok { s with summary := summarize s.store }
  | .toDf => if s.ready then .ok s else .error .notReady
  | .toJson => .ok s
  | .shrink => .ok s
  | .saveLoad => .ok s

def runOps (s : Sim) : List Op → Except Err Sim
  | [] => .ok s
  | op :: ops => match step s op with
    | .error e => .error e
    | .ok s' => runOps s' ops

/-- the raw (unscaled) store: only the writes -/
def rawWrites (st : List Series) : List Op → List Series
  | [] => st
  | .write key ti v :: ops => rawWrites (writeStore st key ti v) ops
  | _ :: ops => rawWrites st ops

def errOf (r : Except Err Sim) : Option Err := match r with | .error e => some e | .ok _ => none

def countFinalize (ops : List Op) : Nat := count (· == Op.finalize) ops

/-! ## SimPars.validate_total_pop -/

/-- returns `(total_pop, pop_scale)` -/
def validateTotalPop (nAgents : Nat) (totalPop popScale : Option Rat) : Except Err (Rat × Rat) :=
  match totalPop, popScale with
  | some _, some _ => .error .value
  | some tp, none => .ok (tp, tp / (nAgents : Rat))
  | none, some ps => .ok (ps * (nAgents : Rat), ps)
  | none, none => .ok ((nAgents : Rat), (nAgents : Rat) / (nAgents : Rat))

end StarsimModel.Results

/-! ## Population flows: agents created and removed per step (People.grow / request_death / step_die / remove_dead)

One sim step `ti` as far as the flows are concerned (loop order of `Loop.collect_funcs`):
  1. demographic modules create agents (`Births.step`, `Pregnancy.make_embryos` -> `People.grow`): `born` fresh living agents
  2. modules request deaths (`People.request_death`: `ti_dead = ti`) for the positions selected by `req`
  3. `People.step_die`: `alive = False` where `ti_dead <= ti`
  4. `update_results` — this is the snapshot the recorders above read
  5. `finish_step` of the modules may still request deaths (`late`, e.g. `Pregnancy.finish_step`: `ti_dead = ti`, after the recording)
  6. `People.finish_step` -> `remove_dead`: the agents that are not alive leave `auids`. -/
namespace StarsimModel.Results

structure PopStep where
  born : Nat
  req : List Nat              -- positions (in the active list after growth) whose death is requested before resolution
  late : List Nat             -- positions whose death is requested after the recording
deriving Repr, DecidableEq

def fresh : Person := ⟨true, none⟩

def markDead (ti : Nat) (sel : List Nat) (l : List Person) : List Person :=
  l.zipIdx.map (fun (p, i) => if sel.contains i then { p with tiDead := some (ti : Int) } else p)

def resolve (ti : Nat) (l : List Person) : List Person :=
  l.map (fun p => match p.tiDead with
    | some d => if d ≤ (ti : Int) then { p with alive := false } else p
    | none => p)

/-- the active agents as `update_results` sees them at step `ti` -/
def popSnapshot (ti : Nat) (act : List Person) (s : PopStep) : List Person :=
  resolve ti (markDead ti s.req (act ++ List.replicate s.born fresh))

/-- the active agents at the start of step `ti + 1` -/
def popNext (ti : Nat) (act : List Person) (s : PopStep) : List Person :=
  (markDead ti s.late (popSnapshot ti act s)).filter (·.alive)

/-- the snapshots of a whole history (newest first) together with the active list after it -/
def popRunRev (act0 : List Person) : List PopStep → List (List Person) × List Person
  | [] => ([], act0)
  | s :: earlier =>
      let (snaps, act) := popRunRev act0 earlier
      (popSnapshot earlier.length act s :: snaps, popNext earlier.length act s)

def popRun (act0 : List Person) (steps : List PopStep) : List (List Person) × List Person :=
  let (snaps, act) := popRunRev act0 steps.reverse
  (snaps.reverse, act)

/-- agents that leave the active set at the end of the step: active and not alive at the recording -/
def removedOf (snap : List Person) : Nat := count (fun p => !p.alive) snap

/-! ## Rates computed in `finalize` (`Deaths.cmr`, `Pregnancy.cbr`) from the final store -/

/-- a rate that `finalize` computes from two (already scaled) series: `new / n_alive[inds] / units` -/
structure RateSpec where
  key : String
  newKey : String
  aliveKey : String
  units : Rat
  inds : List Nat            -- `match_time_inds()`; `[]` = same timeline (Ellipsis)
deriving Repr, DecidableEq

def gather (inds : List Nat) (l : List Rat) : List Rat :=
  if inds.isEmpty then l else inds.map (fun i => l.getD i 0)

def rateOf (st : List Series) (r : RateSpec) : Option (List (Option Rat)) :=
  match lookup st r.newKey, lookup st r.aliveKey with
  | some n, some a => some (rateSeries r.units n.vals (gather r.inds a.vals))
  | _, _ => none

end StarsimModel.Results
