/-
Footprint model (C01, C02, C18): a run is a fold of scheduled functions over a pair
(simulation state σ, hidden process environment ε).  ε stands for everything outside the Sim object graph
that a function could read: the global NumPy RandomState, numba's generator, Python's `random`, the
interpreter hash seed, wall clock.  For C02 the simulation state is split into named components.
Core Lean only.
-/
namespace StarsimModel.Footprint

/-- A scheduled function: new simulation state and new environment. -/
structure Func (σ ε : Type) where
  run : σ → ε → σ × ε

/-- Run a plan from `(s, e)`; `pert i` perturbs the environment just before the `i`-th function
    (other sims running in between, draws from the global generator, a different process …). -/
def runPlan {σ ε : Type} (pert : Nat → ε → ε) : Nat → List (Func σ ε) → σ → ε → σ × ε
  | _, [], s, e => (s, e)
  | i, f :: fs, s, e =>
      let r := f.run s (pert i e)
      runPlan pert (i + 1) fs r.1 r.2

/-- The function's effect on the simulation state does not depend on the environment. -/
def EnvIndependent {σ ε : Type} (f : Func σ ε) : Prop := ∀ s e e', (f.run s e).1 = (f.run s e').1

/-! ### Components (C02): the state is a family of components indexed by `ι` -/

/-- `g` writes only component `b`. -/
def Owns {ι C : Type} (g : (ι → C) → (ι → C)) (b : ι) : Prop := ∀ s i, i ≠ b → g s i = s i

/-- what `f` does to the components other than `b` does not depend on component `b`. -/
def Ignores {ι C : Type} (f : (ι → C) → (ι → C)) (b : ι) : Prop :=
  ∀ s s', (∀ i, i ≠ b → s i = s' i) → ∀ i, i ≠ b → f s i = f s' i

/-- a plan whose entries are tagged: `true` = belongs to the added component -/
def runTagged {ι C : Type} (keepB : Bool) : List (Bool × ((ι → C) → (ι → C))) → (ι → C) → (ι → C)
  | [], s => s
  | (isB, f) :: fs, s => if isB && !keepB then runTagged keepB fs s else runTagged keepB fs (f s)

/-! ### Paths (C02): a distribution's name is the path of attribute names / keys from the sim to it -/

/-- The seed of the distribution found at `path`: `str2int (join path) + base`.  `str2int` is uninterpreted. -/
def seedOf (str2int : String → Nat) (base : Nat) (path : List String) : Nat :=
  str2int ("_".intercalate path) + base

/-- registry of distributions: path ↦ payload, as produced by the depth-first search -/
abbrev Registry (α : Type) := List (List String × α)

/-- adding a component: its distributions appear under the new prefix, at position `k` of the search order -/
def addComponent {α : Type} (reg : Registry α) (k : Nat) (pre : List String) (sub : Registry α) : Registry α :=
  reg.take k ++ sub.map (fun e => (pre ++ e.1, e.2)) ++ reg.drop k

/-- the distributions owned by module `m` are jumped by `m.start_step`; `owner` maps a registry entry to its module -/
def startStep {α : Type} (owner : List String → String) (jump : α → α) (m : String) (reg : Registry α) : Registry α :=
  reg.map (fun e => if owner e.1 = m then (e.1, jump e.2) else e)

end StarsimModel.Footprint
