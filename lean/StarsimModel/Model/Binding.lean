/-
Object-graph level of "copy and original can both be continued independently" (C09, round 5).

Model/RunState.lean treats a restore as the identity on ONE abstract state.  This file models what that hides: a *world* of
several sim objects, each with its own plan of scheduled functions, every scheduled function holding a reference to the
object it acts on (`recv`: the receiver of the bound method `mod.step`, the module inside `functools.partial(step, mod)`
whose `mod.sim` is looked up at call time, or — `Callee.closure` — the sim held in a closure cell of a plain function).

* `execOne w i`  = `w[i].loop.run_one_step()`: the function under `w[i]`'s cursor is applied to the state of ITS receiver
  (which may be another object of the world), then `w[i]`'s cursor advances.
* `deepcopy w i` = `sc.dcp(w[i])` (`Loop.__deepcopy__` copies the plan WITH the memo): a new object is appended whose
  `method` slots pointing at the copied object are rebuilt over the copy, whose `closure` slots are kept as they are
  (`copy.deepcopy` treats function objects as atomic).
* `byValue w i`  = pickle round trip / `sim.save` + `ss.load` (dill serialises closure cells by value inside the same graph):
  every slot pointing at the copied object is rebuilt over the copy.

Core Lean only.
-/
namespace StarsimModel.Binding

/-- what a scheduled function is, as far as copying is concerned -/
inductive Callee where
  /-- a bound method, or a `partial` over a module of the graph -/
  | method
  /-- a function object whose closure cells hold the sim / module -/
  | closure
  deriving DecidableEq, Repr

/-- one scheduled function of some object's plan: its kind and the object (index into the world) it acts on -/
structure Slot where
  callee : Callee
  recv : Nat
  deriving DecidableEq, Repr

structure Obj (σ : Type) where
  st : σ
  index : Nat
  plan : List Slot

abbrev World (σ : Type) := List (Obj σ)

variable {σ : Type}

/-- every scheduled function of object `i` acts on object `i` -/
def wellBound (i : Nat) (o : Obj σ) : Prop := ∀ sl ∈ o.plan, sl.recv = i

/-- no scheduled function of the object is a closure over the sim -/
def allMethod (o : Obj σ) : Prop := ∀ sl ∈ o.plan, sl.callee = Callee.method

/-- apply `f` to the state of object `j` -/
def updSt (w : World σ) (j : Nat) (f : σ → σ) : World σ :=
  match w[j]? with
  | some o => w.set j { o with st := f o.st }
  | none => w

/-- advance the cursor of object `i` -/
def bumpIdx (w : World σ) (i : Nat) : World σ :=
  match w[i]? with
  | some o => w.set i { o with index := o.index + 1 }
  | none => w

/-- `w[i].loop.run_one_step()`; `step s k` = the effect of plan function number `k` on a state -/
def execOne (step : σ → Nat → σ) (w : World σ) (i : Nat) : World σ :=
  match w[i]? with
  | none => w
  | some o =>
    match o.plan[o.index]? with
    | none => w
    | some sl => bumpIdx (updSt w sl.recv (fun s => step s o.index)) i

/-- `n` calls of `w[i].loop.run_one_step()` -/
def runN (step : σ → Nat → σ) (w : World σ) (i : Nat) : Nat → World σ
  | 0 => w
  | n + 1 => runN step (execOne step w i) i n

/-- the plan of a deep copy of object `i`, the copy being object `new` -/
def rebindDeep (i new : Nat) (sl : Slot) : Slot :=
  match sl.callee with
  | .method => if sl.recv = i then { sl with recv := new } else sl
  | .closure => sl

/-- the plan of a by-value copy (pickle, dill) -/
def rebindValue (i new : Nat) (sl : Slot) : Slot :=
  if sl.recv = i then { sl with recv := new } else sl

def deepcopy (w : World σ) (i : Nat) : World σ :=
  match w[i]? with
  | some o => w ++ [{ o with plan := o.plan.map (rebindDeep i w.length) }]
  | none => w

def byValue (w : World σ) (i : Nat) : World σ :=
  match w[i]? with
  | some o => w ++ [{ o with plan := o.plan.map (rebindValue i w.length) }]
  | none => w

/-- the state an object reaches by executing its plan functions `k, k+1, …, k+n-1` on itself -/
def foldFrom (step : σ → Nat → σ) (s : σ) (k : Nat) : Nat → σ
  | 0 => s
  | n + 1 => foldFrom step (step s k) (k + 1) n

end StarsimModel.Binding
