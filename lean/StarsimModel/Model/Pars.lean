/-
C17 — executable model of starsim's parameter handling (starsim/parameters.py `Pars.update` and helpers,
modules.py `Module.update_pars`, parameters.py `SimPars.convert_modules`, sim.py `Sim.__init__` input copying).

The `isinstance` chains themselves are NOT written here: they are regenerated from /repo on every run into
`Generated/ParsDispatch.lean` (`Gen.updateTree`, `Gen.keyMismatchTree`, `Gen.updateParsSteps`, `Gen.convertSteps`, …)
and interpreted by `evalTree` below over value *kinds*.  What is hand-written is the meaning of the kinds
(which Python classes a kind is an instance of — cross-checked against live objects by the harness on every run)
and the meaning of the actions.  Core Lean only.
-/
import StarsimModel.Generated.ParsDispatch

namespace StarsimModel.Pars

instance instDecEqExcept {ε α} [DecidableEq ε] [DecidableEq α] : DecidableEq (Except ε α)
  | .ok a, .ok b => if h : a = b then isTrue (by rw [h]) else isFalse (by intro h'; injection h' with h'; exact h h')
  | .error a, .error b => if h : a = b then isTrue (by rw [h]) else isFalse (by intro h'; injection h' with h'; exact h h')
  | .ok _, .error _ => isFalse (by intro h; cases h)
  | .error _, .ok _ => isFalse (by intro h; cases h)

/-! ## Value kinds -/

/-- First parameter of an existing distribution (`old.pars[0]`) -/
inductive Par0 where
  | plain | dur | nondur
  deriving DecidableEq, Repr

/-- Kind of the value already stored under a key -/
inductive OKind where
  | num | str | list | array | series | dataframe | nil      -- instances of the atomic classes
  | pars | ndictEmpty | ndictFull | module
  | timepar (isDur : Bool) | beta
  | dist (bern : Bool) (p0 : Par0)
  | callable | dict | other
  deriving DecidableEq, Repr

/-- Kind of a supplied value.  `listLong`, `dictNoTypeBad`, `dictTypeBad` are the malformed twins of `list`,
    `dictNoType`, `dictType false`: same classes, but more elements than the target has parameters / a name that is
    not a parameter of the target / a `type` that is not in `dist_list`. -/
inductive NKind where
  | number | list | listLong | dictNoType | dictNoTypeBad | dictType (bern : Bool) | dictTypeBad
  | dist (bern : Bool) | timepar (isDur : Bool)
  | series | dataframe | func | nil | str | cls | array
  deriving DecidableEq, Repr

def OKind.all : List OKind :=
  [.num, .str, .list, .array, .series, .dataframe, .nil, .pars, .ndictEmpty, .ndictFull, .module,
   .timepar true, .timepar false, .beta,
   .dist false .plain, .dist false .dur, .dist false .nondur, .dist true .plain, .dist true .dur, .dist true .nondur,
   .callable, .dict, .other]

def NKind.all : List NKind :=
  [.number, .list, .listLong, .dictNoType, .dictNoTypeBad, .dictType true, .dictType false, .dictTypeBad,
   .dist true, .dist false, .timepar true, .timepar false, .series, .dataframe, .func, .nil, .str, .cls, .array]

def Par0.isA : Par0 → Cls → Bool
  | .plain, .number => true
  | .dur, .timePar | .dur, .dur | .nondur, .timePar => true
  | _, _ => false

/-- `isinstance(old, c)` -/
def OKind.isA : OKind → Cls → Bool
  | .num, .number | .str, .str | .list, .list | .array, .ndarray | .series, .series
  | .dataframe, .dataframe | .nil, .noneType => true
  | .pars, .pars | .pars, .dict => true
  | .ndictEmpty, .ndict | .ndictEmpty, .dict | .ndictFull, .ndict | .ndictFull, .dict => true
  | .module, .module => true
  | .timepar _, .timePar => true
  | .timepar d, .dur => d
  | .beta, .timePar | .beta, .beta => true
  | .dist _ _, .dist => true
  | .dist b _, .bernoulli => b
  | .dict, .dict => true
  | _, _ => false

/-- `callable(old)`: functions, and every class with `__call__` (ndict, Module, Dist) -/
def OKind.isCallable : OKind → Bool
  | .callable | .ndictEmpty | .ndictFull | .module | .dist _ _ => true
  | _ => false

def OKind.par0 : OKind → Option Par0
  | .dist _ p => some p
  | _ => none

/-- `not len(old)`: decided only for the containers the code asks it of; `len()` of a number / None raises -/
def OKind.empty : OKind → Option Bool
  | .ndictEmpty => some true
  | .ndictFull => some false
  | .pars | .dict | .str | .list | .array | .series | .dataframe | .timepar _ | .beta => some false
  | _ => none

/-- `isinstance(new, c)` -/
def NKind.isA : NKind → Cls → Bool
  | .number, .number | .list, .list | .listLong, .list => true
  | .dictNoType, .dict | .dictNoTypeBad, .dict | .dictType _, .dict | .dictTypeBad, .dict => true
  | .dist _, .dist => true
  | .dist b, .bernoulli => b
  | .timepar _, .timePar => true
  | .timepar d, .dur => d
  | .series, .series | .dataframe, .dataframe | .nil, .noneType | .str, .str | .array, .ndarray => true
  | _, _ => false

def NKind.isCallable : NKind → Bool
  | .func | .cls | .dist _ => true
  | _ => false

/-- `sc.isfunc(new)` -/
def NKind.isFunc : NKind → Bool
  | .func => true
  | _ => false

def NKind.isDict : NKind → Bool
  | .dictNoType | .dictNoTypeBad | .dictType _ | .dictTypeBad => true
  | _ => false

/-- `new.get('type') is None` (only dicts and pandas objects have `.get`) -/
def NKind.typeNone : NKind → Option Bool
  | .dictNoType | .dictNoTypeBad | .series | .dataframe => some true
  | .dictType _ | .dictTypeBad => some false
  | _ => none

/-- `new.get('type') != s`; the model only knows whether the type is `'bernoulli'` -/
def NKind.typeNe (s : String) : NKind → Option Bool
  | .dictNoType | .dictNoTypeBad | .series | .dataframe => some true
  | .dictType b => if s = "bernoulli" then some (!b) else none
  | .dictTypeBad => if s = "bernoulli" then some true else none
  | _ => none

/-! ## Interpreter of the regenerated decision trees -/

/-- `none` = evaluating the test raises -/
def evalTest (o : OKind) (n : NKind) (mm : Bool) : Test → Option Bool
  | .oldIs cs => some (cs.any o.isA)
  | .newIs cs => some (cs.any n.isA)
  | .par0Is cs => o.par0.map (fun p => cs.any p.isA)
  | .oldCallable => some o.isCallable
  | .newCallable => some n.isCallable
  | .newIsFunc => some n.isFunc
  | .oldEmpty => o.empty
  | .newTypeNone => n.typeNone
  | .newTypeNe s => n.typeNe s
  | .durMismatch => o.par0.map (fun p => p.isA .dur != n.isA .dur)
  | .hasMismatch => some mm
  | .not t => (evalTest o n mm t).map (!·)
  | .and a b => match evalTest o n mm a with
      | some true => evalTest o n mm b
      | r => r
  | .or a b => match evalTest o n mm a with
      | some false => evalTest o n mm b
      | r => r

def evalTree (o : OKind) (n : NKind) (mm : Bool) : Tree → Action
  | .leaf a => a
  | .ite t a b => match evalTest o n mm t with
      | some true => evalTree o n mm a
      | some false => evalTree o n mm b
      | none => .raise .other

/-- The action `Pars.update` takes for an existing key holding a value of kind `o` when given a value of kind `n` -/
def dispatch (o : OKind) (n : NKind) : Action := evalTree o n false Gen.updateTree

/-- The complete (old kind, new kind) → action table -/
def table : List (OKind × NKind × Action) :=
  OKind.all.flatMap (fun o => NKind.all.map (fun n => (o, n, dispatch o n)))

/-- The action for a key that does not exist yet (reached only when `create` or when the strict check is missing) -/
def newKeyAction (n : NKind) : Action := evalTree .other n false Gen.newKeyTree

/-- `check_key_mismatch(pars)`; `mm` = some supplied key is not an existing key -/
def keyMismatch (mm : Bool) : Action := evalTree .other .nil mm Gen.keyMismatchTree

/-! ## Effects: where the supplied value ends up -/

/-- `spec`: what the property demands; `asis`: what the unchanged code does (DESIGN 4.5).  They differ in one place:
    `Dist.set(**kwargs)` with a name that is not a parameter of the distribution. -/
inductive Variant where
  | spec | asis
  deriving DecidableEq, Repr

inductive Eff (α : Type) where
  | isNew (v : α)       -- pars[key] is the supplied object itself
  | oldFirst (v : α)    -- the old object is kept; its first parameter (a TimePar's `v`) is the supplied value
  | oldArgs (v : α)     -- the old object is kept; its leading parameters are the supplied list's elements, in order
  | oldNamed (v : α)    -- the old object is kept; the parameters named by the supplied dict have its values
  | made (v : α)        -- a new distribution built from the supplied dict specification
  | nested (v : α)      -- the supplied dict's items were applied to the nested container
  | stray (v : α)       -- stored under a name nothing reads: present, but not in effect
  | kept                -- unchanged: the supplied value is nowhere
  deriving DecidableEq, Repr

/-- The supplied value that is in effect, if any -/
def Eff.token {α} : Eff α → Option α
  | .isNew v | .oldFirst v | .oldArgs v | .oldNamed v | .made v | .nested v => some v
  | .stray _ | .kept => none

/-- Effect of a (leaf-level) action; `none` for actions that are not leaf-level effects -/
def effect {α} (a : Action) (v : α) : Option (Eff α) :=
  match a with
  | .set => some (.isNew v)
  | .oldSet => some (.oldFirst v)
  | .oldSetArgs => some (.oldArgs v)
  | .oldSetKwargs => some (.oldNamed v)
  | .makeDist => some (.made v)
  | .recurse | .ndictItems | .moduleItem => some (.nested v)
  | .ignore => some .kept
  | .raise _ => none

/-- An action that either applies the supplied value or rejects it -/
def Action.appliesOrRejects : Action → Bool
  | .ignore => false
  | _ => true

/-- Kind of a supplied value once it is stored as is -/
def NKind.asOld : NKind → OKind
  | .number => .num | .list | .listLong => .list
  | .dictNoType | .dictNoTypeBad | .dictType _ | .dictTypeBad => .dict
  | .dist b => .dist b .plain
  | .timepar d => .timepar d
  | .series => .series | .dataframe => .dataframe
  | .func | .cls => .callable
  | .nil => .nil | .str => .str | .array => .array

/-- Kind of the stored value after a successful leaf action -/
def kindAfter (a : Action) (o : OKind) (n : NKind) : OKind :=
  match a, o, n with
  | .set, _, n => n.asOld
  | .oldSet, .dist b _, .timepar d => .dist b (if d then .dur else .nondur)
  | .oldSet, .dist b _, _ => .dist b .plain
  | .oldSetArgs, .dist b _, _ => .dist b .plain
  | .makeDist, _, .dictType b => .dist b .plain
  | .makeDist, _, _ => .dist false .plain
  | _, o, _ => o

/-- Value-level outcome of an action (what `old.set` / `make_dist` do with a malformed value).
    Returns the effect constructor to use. -/
def outcome (var : Variant) (o : OKind) (n : NKind) : Except Err Action :=
  match dispatch o n with
  | .raise e => .error e
  | .oldSetArgs =>
      if n = .listLong then .error (if o.isA .dist then .other else .type) else .ok .oldSetArgs
  | .oldSetKwargs =>
      if o.isA .timePar then
        (if n = .dictNoType then .ok .oldSetKwargs else .error .type)     -- TimePar.set(**unknown) -> TypeError
      else if n = .dictNoTypeBad then
        (match var with
         | .asis => .ok .ignore          -- Dist.set(**{'foo': 5}): stored as a stray entry of dist.pars, nothing rejects it
         | .spec => .error .value)
      else .ok .oldSetKwargs
  | .makeDist => if n = .dictTypeBad then .error .other else .ok .makeDist
  | .moduleItem => .error .type      -- `old[key]` on a Module: modules are not subscriptable, the branch always raises
  | a => .ok a

/-! ## Flat parameter sets (one `Pars` object whose values are not containers) -/

structure Slot where
  kind : OKind
  eff : Eff Nat
  deriving DecidableEq, Repr

abbrev Leaves := List (String × Slot)
/-- key, kind of the supplied value, token identifying the supplied value -/
abbrev Item := String × NKind × Nat

def lookup {β} (k : String) : List (String × β) → Option β
  | [] => none
  | (k', v) :: rest => if k' = k then some v else lookup k rest

def replace {β} (k : String) (v : β) : List (String × β) → List (String × β)
  | [] => []
  | (k', v') :: rest => if k' = k then (k', v) :: rest else (k', v') :: replace k v rest

def keysOf {β} (p : List (String × β)) : List String := p.map (·.1)

/-- leaf effect of an action on a slot -/
def leafEff (var : Variant) (a : Action) (o : OKind) (n : NKind) (tok : Nat) : Eff Nat :=
  match a with
  | .ignore => if var = .asis ∧ n = .dictNoTypeBad ∧ o.isA .dist then .stray tok else .kept
  | a => (effect a tok).getD .kept

/-- one supplied value applied to one existing non-container slot -/
def applyLeaf (var : Variant) (s : Slot) (n : NKind) (tok : Nat) : Except Err Slot :=
  match outcome var s.kind n with
  | .error e => .error e
  | .ok a => .ok ⟨kindAfter a s.kind n, leafEff var a s.kind n tok⟩

/-- the strict-mode guard of `Pars.update` -/
def strictCheck (create : Bool) (keys newKeys : List String) : Except Err Unit :=
  if create || !Gen.strictUnlessCreate then .ok ()
  else match keyMismatch (newKeys.any (fun k => !keys.contains k)) with
    | .raise e => .error e
    | _ => .ok ()

/-- the loop body of `Pars.update` for one item -/
def setLeaf (var : Variant) (p : Leaves) (it : Item) : Except Err Leaves :=
  match lookup it.1 p with
  | none =>
      match newKeyAction it.2.1 with
      | .raise e => .error e
      | a => .ok (p ++ [(it.1, ⟨kindAfter a .other it.2.1, leafEff var a .other it.2.1 it.2.2⟩)])
  | some s =>
      match applyLeaf var s it.2.1 it.2.2 with
      | .error e => .error e
      | .ok s' => .ok (replace it.1 s' p)

def setLeaves (var : Variant) : Leaves → List Item → Except Err Leaves
  | p, [] => .ok p
  | p, it :: rest =>
      match setLeaf var p it with
      | .error e => .error e
      | .ok p' => setLeaves var p' rest

/-- `Pars.update(items, create)` on a flat parameter set -/
def updateLeaves (var : Variant) (create : Bool) (p : Leaves) (items : List Item) : Except Err Leaves :=
  match strictCheck create (keysOf p) (keysOf items) with
  | .error e => .error e
  | .ok _ => setLeaves var p items

/-! ## Nested parameter sets: sim.pars with module parameter sets and module containers -/

inductive PVal where
  | leaf (s : Slot)
  | sub (p : Leaves)                        -- a nested `Pars` (sim.pars[module name] = module.pars)
  | mods (m : List (String × Leaves))       -- a non-empty `ndict` of modules (name ↦ that module's pars)
  deriving Repr

/-- a supplied value for one parameter set: a whole value, or a dict of leaf items -/
inductive MVal where
  | atom (k : NKind) (tok : Nat)                              -- any value treated as a whole
  | dict (k : NKind) (items : List Item) (tok : Nat)          -- a dict (of kind `k`) of leaf items
  deriving Repr

inductive NVal where
  | one (v : MVal)
  | dict2 (items : List (String × MVal)) (tok : Nat)          -- a dict of per-module values (ndict route)
  deriving Repr

def MVal.kind : MVal → NKind
  | .atom k _ => k
  | .dict k _ _ => k

def MVal.tok : MVal → Nat
  | .atom _ t | .dict _ _ t => t

def NVal.kind : NVal → NKind
  | .one v => v.kind
  | .dict2 _ _ => .dictNoType

def NVal.tok : NVal → Nat
  | .one v => v.tok
  | .dict2 _ t => t

/-- `old.update(new, create)` on a nested Pars: `None` and `{}` supply nothing; a non-dict cannot be iterated -/
def recurseInto (var : Variant) (create : Bool) (p : Leaves) : MVal → Except Err Leaves
  | .dict _ items _ => updateLeaves var create p items
  | .atom .nil _ => .ok p
  | .atom .series _ | .atom .dataframe _ => .error .keyNotFound      -- dict(series) has the index as keys
  | .atom .str _ => .error .value
  | .atom _ _ => .error .type

/-- `for k, v in new.items(): old[k].pars.update(v)` -/
def ndictItems (var : Variant) : List (String × Leaves) → List (String × MVal) → Except Err (List (String × Leaves))
  | m, [] => .ok m
  | m, (k, v) :: rest =>
      match lookup k m with
      | none => .error .keyNotFound
      | some p =>
          match recurseInto var false p v with
          | .error e => .error e
          | .ok p' => ndictItems var (replace k p' m) rest

/-- one supplied value applied to one existing top-level entry -/
def applyTop (var : Variant) (create : Bool) (old : PVal) (new : NVal) : Except Err PVal :=
  match old with
  | .leaf s => (applyLeaf var s new.kind new.tok).map .leaf
  | .sub p =>
      match dispatch .pars new.kind with
      | .recurse =>
          match new with
          | .one v => (recurseInto var create p v).map .sub
          | .dict2 _ _ => .error .other
      | .raise e => .error e
      | .set => .ok (.leaf ⟨new.kind.asOld, .isNew new.tok⟩)
      | _ => .error .other
  | .mods m =>
      match dispatch .ndictFull new.kind with
      | .ndictItems =>
          match new with
          | .dict2 items _ => (ndictItems var m items).map .mods
          | .one (.dict _ items _) => (ndictItems var m (items.map (fun it => (it.1, MVal.atom it.2.1 it.2.2)))).map .mods
          | .one (.atom _ _) => .error .other
      | .raise e => .error e
      | .set => .ok (.leaf ⟨new.kind.asOld, .isNew new.tok⟩)
      | _ => .error .other

abbrev Top := List (String × PVal)

def setTop (var : Variant) (create : Bool) (p : Top) (k : String) (new : NVal) : Except Err Top :=
  match lookup k p with
  | none =>
      match newKeyAction new.kind with
      | .raise e => .error e
      | a => .ok (p ++ [(k, .leaf ⟨kindAfter a .other new.kind, leafEff var a .other new.kind new.tok⟩)])
  | some old =>
      match applyTop var create old new with
      | .error e => .error e
      | .ok v => .ok (replace k v p)

def setTops (var : Variant) (create : Bool) : Top → List (String × NVal) → Except Err Top
  | p, [] => .ok p
  | p, (k, v) :: rest =>
      match setTop var create p k v with
      | .error e => .error e
      | .ok p' => setTops var create p' rest

/-- `Pars.update` on a parameter set that may hold nested parameter sets and module containers -/
def updateTop (var : Variant) (create : Bool) (p : Top) (items : List (String × NVal)) : Except Err Top :=
  match strictCheck create (keysOf p) (keysOf items) with
  | .error e => .error e
  | .ok _ => setTops var create p items

/-! ## `Module.update_pars` -/

structure ModState where
  pars : Leaves
  metad : List (String × Nat)       -- name / label: token of the supplied value in effect
  time : List (String × Nat)       -- start / stop / dt / unit
  deriving DecidableEq, Repr

structure UState where
  ms : ModState
  matched : List Item
  rest : List Item
  deriving Repr

/-- metadata / time arguments: the supplied (non-None) value if present, else the module parameter of that name -/
def argToken (us : UState) (k : String) : Option (NKind × Nat) :=
  match lookup k us.rest with
  | some (n, t) => if n = .nil then none else some (n, t)
  | none => match lookup k us.ms.pars with
      | some s => s.eff.token.map (fun t => (.str, t))
      | none => none

def setArgs (checked : Bool) (us : UState) : List String → List (String × Nat) → Except Err (List (String × Nat))
  | [], acc => .ok acc
  | k :: ks, acc =>
      match argToken us k with
      | none => setArgs checked us ks acc
      | some (n, t) =>
          if checked && n ≠ .str then .error .type
          else setArgs checked us ks (if (lookup k acc).isSome then replace k t acc else acc ++ [(k, t)])

def uStep (var : Variant) (us : UState) : UStep → Except Err UState
  | .merge => .ok us
  | .matchPop =>
      let ks := keysOf us.ms.pars
      .ok { us with matched := us.rest.filter (fun it => ks.contains it.1),
                    rest := us.rest.filter (fun it => !ks.contains it.1) }
  | .parsUpdate =>
      match updateLeaves var false us.ms.pars us.matched with
      | .error e => .error e
      | .ok p => .ok { us with ms := { us.ms with pars := p } }
  | .setMetadata =>
      match setArgs Gen.metadataTypeChecked us Gen.moduleArgs us.ms.metad with
      | .error e => .error e
      | .ok m => .ok { us with ms := { us.ms with metad := m } }
  | .timeUpdate =>
      match setArgs false us Gen.timeArgs us.ms.time with
      | .error e => .error e
      | .ok t => .ok { us with ms := { us.ms with time := t } }
  | .leftover a =>
      let remaining := us.rest.filter (fun it => !(Gen.moduleArgs ++ Gen.timeArgs).contains it.1)
      if remaining.isEmpty then .ok us
      else match a with
        | .raise e => .error e
        | _ => .ok us

def uSteps (var : Variant) : UState → List UStep → Except Err UState
  | us, [] => .ok us
  | us, s :: rest =>
      match uStep var us s with
      | .error e => .error e
      | .ok us' => uSteps var us' rest

/-- `module.update_pars(items)`: the regenerated step list interpreted in source order -/
def updatePars (var : Variant) (ms : ModState) (items : List Item) : Except Err ModState :=
  (uSteps var ⟨ms, [], items⟩ Gen.updateParsSteps).map (·.ms)

/-! ## `SimPars.convert_modules` and `Sim.__init__` input copying -/

inductive ModKey where
  | networks | demographics | diseases | interventions | analyzers | connectors
  deriving DecidableEq, Repr

def ModKey.isIA : ModKey → Bool
  | .interventions | .analyzers => true
  | _ => false

/-- the `type` entry of a dict specification -/
inductive TyRef where
  | name (s : String)
  | cls (c : Nat)
  deriving DecidableEq, Repr

/-- One entry of a module list, in any of the spellings the API accepts -/
inductive Spec where
  | str (s : String)                                   -- 'sir'
  | dict (ty : Option TyRef) (kw : List Item)          -- dict(type='sir', dur_inf=6) / dict(type=ss.SIR, ...)
  | cls (c : Nat)                                      -- ss.SIR (a class object)
  | inst (c : Nat) (ms : ModState) (id : Nat)          -- a module instance: class, effective state, object identity
  | func (f : Nat)                                     -- a plain function
  | funcInst (f : Nat)                                 -- `expected_cls.from_func(f)`
  | other
  deriving DecidableEq, Repr

/-- The live package as the model sees it: which lower-case names / classes a module list accepts, which classes are
    subclasses of the list's expected class, the default state of a fresh instance of a class. -/
structure Registry where
  byName : ModKey → String → Option Nat
  inVals : ModKey → Nat → Bool
  expected : ModKey → Nat → Bool
  fresh : Nat → ModState

/-- `modcls(**kw)`: a fresh instance whose constructor runs `update_pars(kw)`; `id` = a new object identity -/
def construct (var : Variant) (r : Registry) (c : Nat) (kw : List Item) (id : Nat) : Except Err Spec :=
  match updatePars var (r.fresh c) kw with
  | .error e => .error e
  | .ok ms => .ok (.inst c ms id)

def cStep (var : Variant) (r : Registry) (mk : ModKey) (id : Nat) (m : Spec) : CStep → Except Err Spec
  | .strToDict => match m with
      | .str s => .ok (.dict (some (.name s)) [])
      | m => .ok m
  | .classToInstanceIA => match m with
      | .cls c => if mk.isIA then construct var r c [] id else .ok m
      | m => .ok m
  | .dictToModule => match m with
      | .dict none _ => .error .value
      | .dict (some (.name s)) kw =>
          match r.byName mk s.toLower with
          | some c => construct var r c kw id
          | none => .error .type
      | .dict (some (.cls c)) kw => if r.inVals mk c then construct var r c kw id else .error .type
      | m => .ok m
  | .iaClassOrFunc => match m with
      | .cls c => if mk.isIA && r.expected mk c then construct var r c [] id else .ok m
      | .func f => if mk.isIA then .ok (.funcInst f) else .ok m
      | m => .ok m
  | .finalCheck => match m with
      | .inst _ _ _ | .funcInst _ => .ok m
      | _ => .error .type
  | .store => .ok m

def cSteps (var : Variant) (r : Registry) (mk : ModKey) (id : Nat) : Spec → List CStep → Except Err Spec
  | m, [] => .ok m
  | m, s :: rest =>
      match cStep var r mk id m s with
      | .error e => .error e
      | .ok m' => cSteps var r mk id m' rest

/-- `convert_modules` on one entry of the list `mk`; `id` is the identity a newly created instance gets -/
def convert (var : Variant) (r : Registry) (mk : ModKey) (id : Nat) (m : Spec) : Except Err Spec :=
  cSteps var r mk id m Gen.convertSteps

/-- `sc.mergedicts(..., _copy=copy_inputs)`: what the Sim holds for a user-supplied entry -/
def simInput (copy : Option Bool) (freshId : Nat) (m : Spec) : Spec :=
  let c := (copy.getD Gen.simCopyDefault) && Gen.simCopyForwarded
  match m with
  | .inst cl ms id => .inst cl ms (if c then freshId else id)
  | m => m

def Spec.ident : Spec → Option Nat
  | .inst _ _ id => some id
  | _ => none

end StarsimModel.Pars
