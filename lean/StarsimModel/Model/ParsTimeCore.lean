/-
C17 (round 5) — vocabulary of `TimePar.set` / `TimePar.__init__` / `validate_units`, shared by the regenerated statement lists
(Generated/ParsTimePar.lean) and the model (Model/ParsTime.lean).  Core Lean only.
-/
namespace StarsimModel.ParsTime

/-- the fields of a time parameter that `set()` / the constructor accept -/
inductive Field where
  | v | unit | parentUnit | parentDt | selfDt
  deriving DecidableEq, Repr

/-- statements of `TimePar.set` / `TimePar.__init__`, in source order -/
inductive SetStep where
  | assignIfGiven (f : Field)   -- `if f is not None: self.f = f`   (the supplied object, unchanged)
  | store (f : Field)           -- `self.f = f`                      (constructor)
  | updateCachedIfLive          -- `if self.initialized or force: self.update_cached()`
  | validate                    -- `self.validate_units()`
  deriving DecidableEq, Repr

end StarsimModel.ParsTime
