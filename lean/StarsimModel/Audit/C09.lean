import StarsimModel.Props.C09
open StarsimModel.C09
#print axioms C09_guards_extracted
#print axioms C09_stop_condition_extracted
#print axioms C09_split
#print axioms C09_split_executed
#print axioms C09_any_op_sequence
#print axioms C09_until
#print axioms C09_rerun_refused
#print axioms C09_refinalize_refused
#print axioms C09_scaled_at_most_once
#print axioms C09_twins
#print axioms C09_restores_transparent
#print axioms C09_restores_commute
#print axioms C09_uninterrupted
#print axioms C09_no_escaping_closure_over_objects
#print axioms C09_plan_copied_with_memo
#print axioms C09_bound_twins
#print axioms C09_bound_twins_by_value
#print axioms C09_closure_copy_counterexample
