import StarsimModel.Props.C14
open StarsimModel.C14
#print axioms C14_source_filters
#print axioms C14_init_good
#print axioms C14_columns_equal_length
#print axioms C14_mask_keeps_lengths
#print axioms C14_append_missing_key
#print axioms C14_endpoints_active
#print axioms C14_active_alive_after_removal
#print axioms C14_endpoints_active_asis_partial
#print axioms C14_endpoints_active_asis_counterexample
#print axioms C14_removed_vanish
#print axioms C14_removed_never_return
#print axioms C14_end_pairs_rows
#print axioms C14_timed_edges
#print axioms C14_dead_endpoint_ends
#print axioms C14_static_only_shrinks
#print axioms C14_static_changes_only_through_death
#print axioms C14_eligible_only
#print axioms C14_monogamy
#print axioms C14_random_degree
