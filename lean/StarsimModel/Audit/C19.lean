import StarsimModel.Props.C19
open StarsimModel.C19
#print axioms C19_source_flags
#print axioms C19_exclusive
#print axioms C19_fresh_exclusive
#print axioms C19_fresh_inv
#print axioms C19_links_all_histories
#print axioms C19_edges_join_all_histories
#print axioms C19_conception_eligible
#print axioms C19_conception_eligible_modelled
#print axioms C19_age_mask_both_forms
#print axioms C19_probability_zeroed
#print axioms C19_no_conception_in_pregnant
#print axioms C19_links
#print axioms C19_parent_never_rewritten
#print axioms C19_child_link_lifetime
#print axioms C19_delivers_iff
#print axioms C19_delivery_time
#print axioms C19_delivery_flags
#print axioms C19_ageing
#print axioms C19_ageing_k
#print axioms C19_newborn_age
#print axioms C19_burnin_age
#print axioms C19_prenatal_edges
#print axioms C19_prenatal_edges_added
#print axioms C19_postnatal_edges
#print axioms C19_postnatal_edges_added
