import StarsimModel.Props.C06
open StarsimModel.C06
#print axioms C06_unit_lengths_positive
