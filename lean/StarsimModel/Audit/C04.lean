import StarsimModel.Props.C04
open StarsimModel.C04
#print axioms C04_stride_positive
#print axioms C04_delta_positive
#print axioms C04_loop_jumps_unforced
#print axioms C04_jump_target_is_model
#print axioms C04_monotone
#print axioms C04_no_state_twice
#print axioms C04_init_coherent
#print axioms C04_auto_draw
#print axioms C04_formula
#print axioms C04_jumpDt_lands
#print axioms C04_stride_overflow_errors
#print axioms C04_checkSeeds_aux
#print axioms C04_checkSeeds
#print axioms C04_global_unique
#print axioms C04_uninitialised_refuses
#print axioms C04_strict_second_draw_refuses
#print axioms C04_strict_draw_after_jump
#print axioms C04_backward_jump_refused
#print axioms C04_forced_jump_allowed
#print axioms C04_set_does_not_rearm
#print axioms C04_negative_indices_distinct
#print axioms C04_empty_request_no_state_change
#print axioms C04_reset_reuses_state
