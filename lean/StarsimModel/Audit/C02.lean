import StarsimModel.Props.C02
open StarsimModel.C02
#print axioms C02_frame
#print axioms C02_permutation
#print axioms C02_swap_in_plan
#print axioms C02_trace_stable
#print axioms C02_trace_stable_exact
#print axioms C02_seed_from_path
#print axioms C02_jump_own
#print axioms C02_start_step_jumps_own
#print axioms C02_no_shared_defaults
#print axioms C02_search_frame
#print axioms C02_search_frame_static
#print axioms C02_search_rename_counterexample
#print axioms C02_streams_frame
#print axioms C02_streams_frame_front
