import StarsimModel.Props.C16
open StarsimModel.C16
#print axioms C16_number_factors_are_year_ratio
#print axioms C16_births_timepar_factor_is_one
#print axioms C16_ageing_increment_is_dt_year
#print axioms C16_deaths_timepar_factor_variant
#print axioms C16_delivery_dt_variant
#print axioms year_ratio_known
#print axioms C16_births_linear
#print axioms C16_deaths_number_linear
#print axioms C16_fertility_linear
#print axioms C16_events_per_year_linear
#print axioms C16_births_timepar
#print axioms C16_deaths_spec
#print axioms C16_deaths_asis
#print axioms C16_deaths_partial
#print axioms C16_deaths_asis_counterexample
#print axioms C16_ageing
#print axioms C16_duration_steps
#print axioms C16_table_lookup
#print axioms C16_coverage_conversion
#print axioms C16_coverage_partial
#print axioms C16_coverage_counterexample
#print axioms C16_net_beta_compound
#print axioms C16_events_per_year_compound
