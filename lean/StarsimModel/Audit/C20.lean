import StarsimModel.Props.C20
open StarsimModel.C20
#print axioms C20_capacity_offset
