import StarsimModel.Props.C08
open StarsimModel.C08
#print axioms C08_phase_order_is_documented
#print axioms C08_table_understood
#print axioms C08_table_finish_last
#print axioms C08_table_has_finish
#print axioms C08_eps_matches_rounding
#print axioms C08_modules_chain_is_model
#print axioms C08_clock_writes
#print axioms C08_people_follow_sim
#print axioms C08_collect_wellformed
#print axioms C08_makePlan_isPlan
#print axioms C08_makePlanI_isPlan
#print axioms C08_plan_perm
#print axioms C08_plan_time_sorted
#print axioms C08_plan_phase_sorted
#print axioms C08_plan_unique
#print axioms C08_clock
#print axioms C08_final_clocks
#print axioms C08_loop
#print axioms C08_checks_sound
#print axioms C08_tiebreak_counterexample
#print axioms C08_tiebreak_times
