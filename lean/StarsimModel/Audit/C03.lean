import StarsimModel.Props.C03
open StarsimModel.C03
#print axioms foldl_max_ge
#print axioms foldl_max_mem
#print axioms lt_reqSize
#print axioms C03_rvs_refines
#print axioms C03_popsize_indep
#print axioms C03_subset
#print axioms C03_perm
#print axioms C03_dynamic_refines
#print axioms filterMap_zip_map
#print axioms filterMap_ite
#print axioms rat_lt_of_lt_of_le
#print axioms C03_filter_sound
#print axioms C03_filter_mono
#print axioms C03_pairwise
#print axioms jumpTo_flags
#print axioms step_loop_flags
#print axioms run_loop_flags
#print axioms C03_history_indep
#print axioms C03_draw_indep_of_history
#print axioms getsInfected_extension
#print axioms C03_extension_invariance
#print axioms C03_grow_slots_before_defaults
#print axioms C03_newborn_default_by_slot
#print axioms C03_newborn_default_world_independent
#print axioms C03_grow_order_counterexample
