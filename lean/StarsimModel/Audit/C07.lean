import StarsimModel.Props.C07
open StarsimModel.C07
#print axioms C07_grid_float_counterexample
