import StarsimModel.Props.C01
open StarsimModel.C01
#print axioms C01_noninterference
#print axioms C01_twin
#print axioms C01_reader_counterexample
#print axioms C01_readers_are_known
#print axioms C01_no_shared_mutable_state
#print axioms C01_writes_are_reseeding
#print axioms C01_stream_deterministic
#print axioms C01_seed_derivation
#print axioms C01_seed_formula_is_model
#print axioms C01_seed_formula
#print axioms C01_seed_changes_all
#print axioms C01_seed_changes_every_stream_partial
#print axioms C01_self_seeded_ignores_sim_seed
#print axioms C01_seed_changes_every_stream_counterexample
#print axioms C01_dists_exist_before_seeding
#print axioms C01_only_dists_own_generators
#print axioms C01_seed_reinit_partial
#print axioms C01_seed_reinit_counterexample
