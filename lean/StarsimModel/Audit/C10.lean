import StarsimModel.Props.C10
open StarsimModel.C10
#print axioms C10_grow_covers_everything
#print axioms Inv_empty
#print axioms step_inv
#print axioms run_inv
#print axioms C10_aligned
#print axioms C10_dense_ids
#print axioms C10_values_preserved
#print axioms C10_active
#print axioms C10_death_timing_same_step
#print axioms C10_death_timing_next_step
#print axioms C10_death_permanent
#print axioms C10_multi_request
#print axioms C10_flow_partial
#print axioms C10_balance
#print axioms C10_flow_counterexample
#print axioms C10_aligned_from
#print axioms C10_ageing
#print axioms C10_init
#print axioms C10_step_resolves
#print axioms C10_step_balance
#print axioms C10_plan_shape
#print axioms C10_plan_every_module_set
#print axioms C10_life_status_single_writer
#print axioms C10_finalize_exact
#print axioms C10_step_balance_recorded
