/-
C18 — Parallel and multi-run execution equals independent serial runs.

Property theorems only (helper lemmas: Lemmas/MultiRun.lean; model: Model/MultiRun.lean).  The reseeding
expression, the `reseed` defaults and the statistics stored by `MultiSim.reduce` come from
Generated/RunFacts.lean, regenerated from /repo/starsim/run.py on every run.

Every theorem is for an arbitrary simulation function `simulate : κ → Int → ρ`, arbitrary member lists,
schedules (any interleaving of atomic member runs), worker assignments and worker counts.
-/
import StarsimModel.Lemmas.MultiRun

namespace StarsimModel.C18
open StarsimModel.MultiRun

section Run
variable {κ ρ : Type} (simulate : κ → Int → ρ)

/-! ### Schedule independence -/

/-- **Schedule independence.** If every task operates on its own copy (`Private`), then for every
    schedule — any order of the atomic member runs, any assignment of runs to any number of workers — in
    which each task runs exactly once, the pool returns exactly what the serial loop over private copies
    returns, in member order. -/
theorem C18_schedule_independent (tasks : List (Task κ ρ)) (share : Nat → Nat) (sched : List (Nat × Nat))
    (out : List (Sim κ ρ))
    (hpriv : Private tasks.length share)
    (hperm : (sched.map (·.2)).Perm (List.range tasks.length))
    (hser : execSerial simulate tasks = .ok out) :
    execPar simulate tasks share sched = .ok out := by
  obtain ⟨hlen, hall⟩ := mapM_eq_ok (runAlone simulate) tasks out hser
  have hmem : ∀ i, i ∈ sched.map (·.2) ↔ i < tasks.length := fun i => by
    rw [hperm.mem_iff, List.mem_range]
  have hlt : ∀ e ∈ sched, e.2 < tasks.length := fun e he => (hmem e.2).mp (List.mem_map_of_mem he)
  have hnd : (sched.map (·.2)).Nodup := hperm.nodup_iff.mpr List.nodup_range
  have hrunAt : ∀ i (hi : i < tasks.length), ∃ s, out[i]? = some s ∧ runAt simulate tasks i = .ok s := by
    intro i hi
    obtain ⟨b, hb, hf⟩ := hall i hi
    exact ⟨b, hb, by simp [runAt, List.getElem?_eq_getElem hi, hf]⟩
  obtain ⟨p', hp', hinv⟩ := runSchedule_ok simulate tasks share hpriv sched [] Pool.empty
    (poolInv_empty simulate tasks share) hlt hnd (fun _ _ h => absurd h List.not_mem_nil)
    (fun e he => by obtain ⟨s, _, hs⟩ := hrunAt e.2 (hlt e he); exact ⟨s, hs⟩)
  have hcollect : collect tasks.length share p' = .ok out := by
    apply mapM_ok_of_getElem
    · simpa using hlen
    · intro i hi
      have hi' : i < tasks.length := by simpa using hi
      obtain ⟨s, hs, hc⟩ := (hinv i hi').1 (by simpa using (hmem i).mpr hi')
      obtain ⟨s', hs', hr'⟩ := hrunAt i hi'
      have : s = s' := by rw [hs] at hr'; exact Except.ok.inj hr'
      subst this
      exact ⟨s, hs', by simp [hc]⟩
  simp only [execPar, runSchedule] at *
  simp only [hp', bind, Except.bind, hcollect]

/-- A member that fails alone (a sim that was already run) makes every schedule fail: no schedule turns
    an error into results. -/
theorem C18_schedule_independent_error (tasks : List (Task κ ρ)) (share : Nat → Nat) (sched : List (Nat × Nat))
    (er : Err)
    (hpriv : Private tasks.length share)
    (hperm : (sched.map (·.2)).Perm (List.range tasks.length))
    (hser : execSerial simulate tasks = .error er) :
    ∃ er', execPar simulate tasks share sched = .error er' := by
  obtain ⟨t, ht, e', hte⟩ := mapM_error_of (runAlone simulate) tasks er hser
  obtain ⟨i, hi, hti⟩ := List.getElem_of_mem ht
  have hmem : ∀ i, i ∈ sched.map (·.2) ↔ i < tasks.length := fun i => by
    rw [hperm.mem_iff, List.mem_range]
  have hlt : ∀ e ∈ sched, e.2 < tasks.length := fun e he => (hmem e.2).mp (List.mem_map_of_mem he)
  have hnd : (sched.map (·.2)).Nodup := hperm.nodup_iff.mpr List.nodup_range
  obtain ⟨e, he, hei⟩ := List.mem_map.mp ((hmem i).mpr hi)
  obtain ⟨er', her'⟩ := runSchedule_error simulate tasks share hpriv sched [] Pool.empty
    (poolInv_empty simulate tasks share) hlt hnd (fun _ _ h => absurd h List.not_mem_nil)
    ⟨e, he, e', by simp [hei, runAt, List.getElem?_eq_getElem hi, hti, hte]⟩
  exact ⟨er', by simp only [execPar, runSchedule] at *; simp only [her', bind, Except.bind]⟩

/-- Two schedules (different orders, different workers, different worker counts) agree. -/
theorem C18_any_two_schedules_agree (tasks : List (Task κ ρ)) (share : Nat → Nat) (s₁ s₂ : List (Nat × Nat))
    (out : List (Sim κ ρ)) (hpriv : Private tasks.length share)
    (h₁ : (s₁.map (·.2)).Perm (List.range tasks.length)) (h₂ : (s₂.map (·.2)).Perm (List.range tasks.length))
    (hser : execSerial simulate tasks = .ok out) :
    execPar simulate tasks share s₁ = execPar simulate tasks share s₂ := by
  rw [C18_schedule_independent simulate tasks share s₁ out hpriv h₁ hser,
      C18_schedule_independent simulate tasks share s₂ out hpriv h₂ hser]

theorem private_sharePrivate (n : Nat) : Private n sharePrivate := fun _ _ _ _ h => h

/-- a list of distinct objects is private whatever the chunk size -/
theorem private_shareList (chunk n : Nat) : Private n (shareList chunk n id) := by
  intro i j hi hj h
  simp only [shareList, id] at h
  have h1 := congrArg (· % (n + 1)) h
  simp only [Nat.mul_add_mod_self_right] at h1
  rwa [Nat.mod_eq_of_lt (by omega), Nat.mod_eq_of_lt (by omega)] at h1

/-- `multi_run(parallel=True)` equals `multi_run(parallel=False)` whenever copies are private: always in
    the `spec` variant, and for a list of sims in the code as it is. -/
theorem C18_parallel_eq_serial (v : Variant) (tg : Target κ ρ) (a : Args κ) (chunk : Nat)
    (sched : List (Nat × Nat)) (tasks : List (Task κ ρ)) (out : List (Sim κ ρ))
    (hv : v = .spec ∨ (a.ident = id ∧ ∃ l, tg = .list l))
    (ht : tasksOf tg a = .ok tasks)
    (hperm : (sched.map (·.2)).Perm (List.range tasks.length))
    (hser : multiRun simulate v tg a false chunk [] = .ok out) :
    multiRun simulate v tg a true chunk sched = .ok out := by
  have hlenT : ∀ l, tg = .list l → tasks.length = l.length := by
    intro l hl
    subst hl
    cases hn : nRunsOf a with
    | error e => simp [tasksOf, hn, bind, Except.bind] at ht
    | ok n =>
        simp only [tasksOf, hn, bind, Except.bind, pure, Except.pure] at ht
        have := Except.ok.inj ht
        subst this
        simp
  have hpriv : Private tasks.length (shareOf v tg chunk a.ident) := by
    rcases hv with h | ⟨hid, l, h⟩
    · subst h; cases tg <;> exact private_sharePrivate _
    · subst h
      cases v with
      | spec => exact private_sharePrivate _
      | asis =>
          simp only [shareOf, hid, hlenT l rfl]
          exact private_shareList chunk l.length
  simp only [multiRun, ht, bind, Except.bind, Bool.false_eq_true, ↓reduceIte] at hser ⊢
  exact C18_schedule_independent simulate tasks _ sched out hpriv hperm hser

/-! ### Seeds -/

/-- The regenerated reseeding expression is `seed + ind`. (Obligation on Generated/RunFacts.lean.) -/
theorem C18_reseed_expr (seed ind : Int) : Gen.reseedSeed seed ind = seed + ind := by
  simp [Gen.reseedSeed]

/-- Replicates are reseeded by default, lists of sims are not. (Obligation on Generated/RunFacts.lean.) -/
theorem C18_reseed_defaults : Gen.reseedDefaultSingle = true ∧ Gen.reseedDefaultList = false ∧ Gen.serialCopies = true := by
  decide

/-- The result of one fresh member with configuration `c` run alone with seed `s`. -/
def ranWith (c : κ) (s : Int) : Sim κ ρ := ⟨c, s, some s, some (simulate c s)⟩

/-- **Seeds, replicates.** Replicating a fresh sim `n` times (default `reseed`, no `iterpars`): member `i`
    is exactly that configuration run alone with seed `base + i`. -/
theorem C18_seeds (c : κ) (base : Int) (n : Nat) :
    multiRun simulate .spec (.single (Sim.fresh c base)) { nRuns := n } false 1 [] =
      .ok ((List.range n).map fun (i : Nat) => ranWith simulate c (base + (i : Int))) := by
  simp only [multiRun, tasksOf, nRunsOf, bind, Except.bind, pure, Except.pure, Bool.false_eq_true, ↓reduceIte,
    execSerial]
  rw [mapM_ok (runAlone simulate) (fun t => ranWith simulate c (base + t.ind))]
  · simp [List.map_map, Function.comp_def]
  · intro t ht
    obtain ⟨i, _, rfl⟩ := List.mem_map.mp ht
    simp [runAlone, singleRun, newSeed, Sim.fresh, ranWith, C18_reseed_expr, C18_reseed_defaults.1]

/-- The same under every schedule, worker assignment and worker count. -/
theorem C18_seeds_parallel (c : κ) (base : Int) (n : Nat) (chunk : Nat) (sched : List (Nat × Nat))
    (hperm : (sched.map (·.2)).Perm (List.range n)) :
    multiRun simulate .spec (.single (Sim.fresh c base)) { nRuns := n } true chunk sched =
      .ok ((List.range n).map fun (i : Nat) => ranWith simulate c (base + (i : Int))) := by
  apply C18_parallel_eq_serial simulate .spec _ _ chunk sched
    ((List.range n).map fun i => ⟨Sim.fresh c base, i, true, none, none, true⟩) _ (Or.inl rfl)
  · simp [tasksOf, nRunsOf, bind, Except.bind, pure, Except.pure, C18_reseed_defaults.1]
  · simpa using hperm
  · exact C18_seeds simulate c base n

/-- **Seeds, `iterpars={'rand_seed': seeds}`**: the number of runs is the length of the list and member `i`
    runs with `seeds[i]` (the explicit value replaces the reseeded one). -/
theorem C18_seeds_iterpars (c : κ) (base : Int) (seeds : List Int) (nRuns : Nat) :
    multiRun simulate .spec (.single (Sim.fresh c base)) { nRuns := nRuns, iterSeeds := some seeds } false 1 [] =
      .ok (seeds.map fun s => ranWith simulate c s) := by
  simp only [multiRun, tasksOf, nRunsOf, bind, Except.bind, pure, Except.pure, Bool.false_eq_true, ↓reduceIte,
    execSerial]
  rw [mapM_ok (runAlone simulate) (fun t => ranWith simulate c (t.seedArg.getD 0))]
  · congr 1
    apply List.ext_getElem?
    intro i
    by_cases hi : i < seeds.length
    · simp [hi, Option.bind]
    · simp [hi]
  · intro t ht
    obtain ⟨i, hi, rfl⟩ := List.mem_map.mp ht
    have hi' : i < seeds.length := List.mem_range.mp hi
    simp [runAlone, singleRun, newSeed, Sim.fresh, ranWith, Option.bind, hi']

/-- **Seeds, list of sims.** A list of fresh sims is run as given: member `i` is its own configuration run
    alone with its own seed; nothing is reseeded. -/
theorem C18_seeds_list (members : List (κ × Int)) (a : Args κ) (hr : a.reseed = none) (hd : a.doRun = true)
    (hi : a.iterSeeds = none ∨ a.iterCfgs = none) (hss : a.simSeed = none) (hsc : a.simCfg = none) :
    multiRun simulate .spec (.list (members.map fun m => Sim.fresh m.1 m.2)) a false 1 [] =
      .ok (members.map fun m => ranWith simulate m.1 m.2) := by
  have hn : ∃ n, nRunsOf a = .ok n := by
    rcases hi with h | h <;> cases h1 : a.iterSeeds <;> cases h2 : a.iterCfgs <;> simp_all [nRunsOf]
  obtain ⟨n, hn⟩ := hn
  simp only [multiRun, tasksOf, hn, bind, Except.bind, pure, Except.pure, Bool.false_eq_true, ↓reduceIte,
    execSerial, hr, hd]
  rw [mapM_ok (runAlone simulate) (fun t => ranWith simulate t.sim.cfg t.sim.seed)]
  · congr 1
    apply List.ext_getElem?
    intro i
    by_cases hi : i < members.length
    · simp [hi, Sim.fresh]
    · simp [hi]
  · intro t ht
    obtain ⟨⟨i, s⟩, hmem, rfl⟩ := List.mem_map.mp ht
    have hs := (List.of_mem_zip hmem).2
    obtain ⟨m, _, rfl⟩ := List.mem_map.mp hs
    simp [runAlone, singleRun, newSeed, Sim.fresh, ranWith, C18_reseed_defaults.2.1, hss, hsc]

/-- **Known finding (pre-initialised base sim).** The model as the code is: if the base sim was initialised
    before being replicated, `rand_seed += ind` no longer reaches the already seeded distributions — every
    replicate reproduces the base seed's results although its `rand_seed` reads `base + i`. -/
theorem C18_seeds_initialised_counterexample (c : κ) (base : Int) :
    multiRun simulate .asis (.single ⟨c, base, some base, none⟩) { nRuns := 3 } false 1 [] =
      .ok [⟨c, base + 0, some base, some (simulate c base)⟩, ⟨c, base + 1, some base, some (simulate c base)⟩,
           ⟨c, base + 2, some base, some (simulate c base)⟩] := by
  simp [multiRun, tasksOf, nRunsOf, bind, Except.bind, pure, Except.pure, execSerial, runAlone, singleRun, newSeed,
    C18_reseed_expr, C18_reseed_defaults.1, List.range, List.range.loop]

/-! ### Shared copies: the code as it is (known finding), kernel-checked witnesses -/

/-- 8 replicates on one worker: `Pool.map` uses chunks of `poolChunk 8 1 = 2`, the two tasks of a chunk get
    the same unpickled sim, and the second run of that object raises `AlreadyRunError`. -/
theorem C18_chunk_shared_counterexample :
    poolChunk 8 1 = 2 ∧
    errOf (multiRun (fun (c : Nat) (s : Int) => (c, s)) .asis (.single (Sim.fresh 7 100)) { nRuns := 8 } true (poolChunk 8 1)
      ((List.range 8).map fun i => (0, i))) = some .alreadyRun ∧
    (multiRun (fun (c : Nat) (s : Int) => (c, s)) .spec (.single (Sim.fresh 7 100)) { nRuns := 8 } true (poolChunk 8 1)
      ((List.range 8).map fun i => (0, i))).toOption.map (·.map (·.seed)) = some [100, 101, 102, 103, 104, 105, 106, 107] := by
  refine ⟨by decide, by decide, by decide⟩

/-- The same sharing without running (`MultiSim(sim, n_runs=8, initialize=True)` → `do_run=False`): no error,
    but the seeds accumulate within a chunk and both members of a chunk are one object:
    `base+0+1, base+0+1, base+2+3, base+2+3, …` instead of `base, base+1, …`. -/
theorem C18_chunk_shared_seeds_counterexample :
    (multiRun (fun (c : Nat) (s : Int) => (c, s)) .asis (.single (Sim.fresh 7 3)) { nRuns := 8, doRun := false } true 2
      ((List.range 8).map fun i => (0, i))).toOption.map (·.map (·.seed)) = some [4, 4, 8, 8, 12, 12, 16, 16] := by
  decide

/-- The two-step path inherits the defect: `MultiSim(sim, n_runs=6, initialize=True, n_cpus=1).run()` — the prepared
    list holds each chunk's object twice, and running it fails (the pinned code), while the repaired variant gives
    the six members. -/
theorem C18_init_then_run_chunk_counterexample :
    errOf (msimInitRun (fun (c : Nat) (s : Int) => (c, s)) .asis (.single (Sim.fresh 7 3)) { nRuns := 6 } .parallel true 2
      ((List.range 6).map fun i => (0, i)) ((List.range 6).map fun i => (0, i))) = some .alreadyRun ∧
    (msimInitRun (fun (c : Nat) (s : Int) => (c, s)) .spec (.single (Sim.fresh 7 3)) { nRuns := 6 } .parallel true 2
      ((List.range 6).map fun i => (0, i)) ((List.range 6).map fun i => (0, i))).toOption.map (·.sims.map (·.seed)) =
      some [3, 4, 5, 6, 7, 8] := by
  constructor <;> decide

/-- The same object twice in a list: private copies when the two entries fall in different chunks (both run),
    one shared copy — and `AlreadyRunError` — when they fall in the same chunk. -/
theorem C18_aliased_list_counterexample :
    (multiRun (fun (c : Nat) (s : Int) => (c, s)) .asis (.list [Sim.fresh 7 3, Sim.fresh 7 4, Sim.fresh 7 3])
      { ident := fun i => if i = 2 then 0 else i } true 1 [(0, 0), (0, 1), (0, 2)]).toOption.map (·.map (·.seed)) = some [3, 4, 3] ∧
    errOf (multiRun (fun (c : Nat) (s : Int) => (c, s)) .asis (.list [Sim.fresh 7 3, Sim.fresh 7 4, Sim.fresh 7 3])
      { ident := fun i => if i = 2 then 0 else i } true 3 [(0, 0), (0, 1), (0, 2)]) = some .alreadyRun := by
  constructor <;> decide

/-! ### MultiSim.run: in-place hand-over, debug mode -/

/-- **In place.** For a list of sims run serially or under any schedule: with `inplace` the caller's own
    objects are exactly the run members (same order); without it they are untouched; `msim.sims` holds the run
    members either way. -/
theorem C18_inplace (v : Variant) (l : List (Sim κ ρ)) (a : Args κ) (mode : Mode) (hm : mode ≠ .debug) (inplace : Bool)
    (chunk : Nat) (sched : List (Nat × Nat)) (out : List (Sim κ ρ))
    (hrun : multiRun simulate v (.list l) a (mode == .parallel) chunk sched = .ok out) (hlen : out.length = l.length) :
    msimRun simulate v (.list l) a mode inplace chunk sched =
      .ok ⟨if inplace then out else l, out⟩ := by
  cases mode with
  | debug => exact absurd rfl hm
  | parallel => cases inplace <;> simp_all [msimRun, bind, Except.bind, pure, Except.pure]
  | serial => cases inplace <;> simp_all [msimRun, bind, Except.bind, pure, Except.pure]

/-- A replicated single sim is never modified: the caller's base sim stays as it was. -/
theorem C18_inplace_single (v : Variant) (s : Sim κ ρ) (a : Args κ) (mode : Mode) (hm : mode ≠ .debug) (inplace : Bool)
    (chunk : Nat) (sched : List (Nat × Nat)) (out : List (Sim κ ρ))
    (hrun : multiRun simulate v (.single s) a (mode == .parallel) chunk sched = .ok out) :
    msimRun simulate v (.single s) a mode inplace chunk sched = .ok ⟨[s], out⟩ := by
  cases mode with
  | debug => exact absurd rfl hm
  | parallel => simp_all [msimRun, bind, Except.bind, pure, Except.pure, callersOf]
  | serial => simp_all [msimRun, bind, Except.bind, pure, Except.pure, callersOf]

/-- The number of run members of a list equals the number of members (so the in-place rule applies). -/
theorem C18_list_length (l : List (Sim κ ρ)) (a : Args κ) (out : List (Sim κ ρ))
    (hrun : multiRun simulate .spec (.list l) a false 1 [] = .ok out) : out.length = l.length := by
  cases hn : nRunsOf a with
  | error e => simp [multiRun, tasksOf, hn, bind, Except.bind] at hrun
  | ok n =>
      simp only [multiRun, tasksOf, hn, bind, Except.bind, pure, Except.pure, Bool.false_eq_true, ↓reduceIte,
        execSerial] at hrun
      have := (mapM_eq_ok _ _ _ hrun).1
      simpa using this

/-! ### init_sims / initialize=True, ss.parallel -/

/-- `single_run(do_run=False)` does not initialise the sim. (Obligation on Generated/RunFacts.lean: an `else` branch of
    `if do_run:` flips it.) Initialising in the preparing process would detach `Sim.init`'s seeding of the
    process-global generator from the process that later runs the member. -/
theorem C18_do_run_false_skips_init : Gen.doRunFalseSkipsInit = true := by decide

/-- `init_sims` of a fresh sim: `n` fresh (not initialised, not run) copies with seeds `base + i`. -/
theorem C18_init_sims (c : κ) (base : Int) (n : Nat) :
    initSims simulate .spec (.single (Sim.fresh c base)) { nRuns := n } false 1 [] =
      .ok ((List.range n).map fun (i : Nat) => (Sim.fresh c (base + (i : Int)) : Sim κ ρ)) := by
  simp only [initSims, multiRun, tasksOf, nRunsOf, bind, Except.bind, pure, Except.pure, Bool.false_eq_true, ↓reduceIte,
    execSerial]
  rw [mapM_ok (runAlone simulate) (fun t => (Sim.fresh c (base + t.ind) : Sim κ ρ))]
  · simp [List.map_map, Function.comp_def]
  · intro t ht
    obtain ⟨i, _, rfl⟩ := List.mem_map.mp ht
    simp [runAlone, singleRun, newSeed, Sim.fresh, C18_reseed_expr, C18_reseed_defaults.1, C18_do_run_false_skips_init]

/-- **Prepare, then run** (`MultiSim(sim, n_runs=n, initialize=True).run()`): exactly the members of the one-step
    run — member `i` is the configuration run alone with `base + i` — and the caller's base sim is untouched. -/
theorem C18_init_then_run (c : κ) (base : Int) (n : Nat) (inplace : Bool) :
    msimInitRun simulate .spec (.single (Sim.fresh c base)) { nRuns := n } .serial inplace 1 [] [] =
      .ok ⟨[Sim.fresh c base], (List.range n).map fun (i : Nat) => ranWith simulate c (base + (i : Int))⟩ := by
  have h1 := C18_init_sims simulate c base n
  have h2 := C18_seeds_list simulate ((List.range n).map fun (i : Nat) => (c, base + (i : Int)))
    { nRuns := n, ident := shareOf .spec (.single (Sim.fresh c base : Sim κ ρ)) 1 id } rfl rfl (Or.inl rfl) rfl rfl
  simp only [List.map_map, Function.comp_def] at h2
  simp only [msimInitRun, show ((Mode.serial != Mode.serial) = false) from rfl, h1, bind, Except.bind, msimRun,
    show ((Mode.serial == Mode.parallel) = false) from rfl, h2, pure, Except.pure, callersOf]

/-- `ss.parallel` always hands `MultiSim` a list. (Obligation on Generated/RunFacts.lean.) -/
theorem C18_parallel_wraps_list : Gen.parallelWrapsList = true := by decide

/-- `ss.parallel(*sims)` is `MultiSim(sims).run()` on the list — for every number of sims, one included. -/
theorem C18_parallel_is_multisim (v : Variant) (sims : List (Sim κ ρ)) (a : Args κ) (mode : Mode) (inplace : Bool)
    (chunk : Nat) (sched : List (Nat × Nat)) :
    parallelCall simulate v sims a mode inplace chunk sched = msimRun simulate v (.list sims) a mode inplace chunk sched := by
  simp [parallelCall, C18_parallel_wraps_list]

/-- In particular a single sim given to `ss.parallel` is updated in place like any other list member. -/
theorem C18_parallel_single_inplace (c : κ) (s : Int) :
    parallelCall simulate .spec [Sim.fresh c s] {} .serial true 1 [] =
      .ok ⟨[ranWith simulate c s], [ranWith simulate c s]⟩ := by
  rw [C18_parallel_is_multisim]
  have h := C18_seeds_list simulate [(c, s)] {} rfl rfl (Or.inl rfl) rfl rfl
  simp only [List.map_cons, List.map_nil] at h
  simp only [msimRun, show ((Mode.serial == Mode.parallel) = false) from rfl, h, bind, Except.bind, pure, Except.pure]
  simp

/-- **Known finding (debug mode).** As the code is, `MultiSim(..., debug=True).run()` raises for every input. -/
theorem C18_debug_asis_raises (tg : Target κ ρ) (a : Args κ) (inplace : Bool) (chunk : Nat) (sched : List (Nat × Nat)) :
    ∃ e, msimRun simulate .asis tg a .debug inplace chunk sched = .error e := by
  cases tg <;> exact ⟨_, rfl⟩

/-- Debug mode as documented (serial) returns the same members as the serial mode. -/
theorem C18_debug_spec (tg : Target κ ρ) (a : Args κ) (inplace : Bool) (chunk : Nat) (sched : List (Nat × Nat)) :
    (msimRun simulate .spec tg a .debug inplace chunk sched).map (·.sims) =
    (msimRun simulate .spec tg a .serial inplace chunk sched).map (·.sims) := by
  cases tg <;> simp only [msimRun, multiRun] <;>
    cases tasksOf _ a <;> simp [bind, Except.bind, pure, Except.pure] <;>
    cases execSerial simulate _ <;> simp [Except.map]

end Run

/-! ### Independence of the hosting process's global generators (modules that draw from `np.random`) -/

section HostState
variable {κ ρ : Type} (env : GEnv κ ρ)

/-- `Sim.init` starts by resetting the process-global generators from the sim's own seed, unconditionally — on every path
    through `init` (population created or supplied by the caller). (Obligation on Generated/RunFacts.lean.) -/
theorem C18_init_seeds_global : Gen.initSeedsGlobalFirst = true := by decide

/-- **No process-level state outside the generators.** No class of the package keeps a mutable container as a class attribute
    (it would be ONE object shared by every instance — every member — that runs in a process), nothing is memoised, and the
    module-level containers are the reviewed constant look-up tables. (Obligation on Generated/RunFacts.lean; the frame
    theorems below depend on it through `initResetsProcessState`.) -/
theorem C18_no_process_level_state :
    Gen.classLevelMutables = [] ∧ Gen.processMemos = [] ∧
    Gen.moduleLevelContainers = ["__init__.py:reqs", "arrays.py:type_def", "arrays.py:type_map", "distributions.py:dist_list",
      "modules.py:module_args", "time.py:default_start", "time.py:time_args", "time.py:time_units", "time.py:unit_mapping",
      "time.py:unit_mapping_reverse"] := by decide

theorem C18_init_resets_process_state : initResetsProcessState = true := by decide

/-- **Frame, one member.** A not yet initialised member run in a process whose global generators are in ANY state
    gives the sim the pure model gives: the configuration run alone with its seed. -/
theorem C18_host_state_frame_single (t : Task κ ρ) (g : GState) (ht : t.sim.initSeed = none) :
    (singleRunG env t.sim t g).map Prod.fst = runAlone env.pure t := by
  rcases singleRunG_refines env t.sim t g (Or.inl ht) with ⟨er, h1, h2⟩ | ⟨r, g', h1, h2, _⟩
  · simp [runAlone, h1, h2, Except.map]
  · simp [runAlone, h1, h2, Except.map]

/-- **Frame, parallel.** For all initial worker states (inherited from the parent at fork time), all effects of runs on
    them, all schedules, worker assignments and copy policies: the pool whose runs READ the worker's generators returns
    what the pure model returns. -/
theorem C18_host_state_frame (tasks : List (Task κ ρ)) (share : Nat → Nat) (sched : List (Nat × Nat)) (w0 : Nat → GState)
    (hfresh : ∀ t ∈ tasks, t.sim.initSeed = none) :
    execParG env tasks share sched w0 = execPar env.pure tasks share sched :=
  execParG_eq_execPar env tasks share sched w0 (fun t ht => Or.inl (hfresh t ht))

/-- **Frame, serial loop** (the caller's process; member `k` starts from what member `k-1` left). -/
theorem C18_host_state_frame_serial (tasks : List (Task κ ρ)) (g0 : GState) (hfresh : ∀ t ∈ tasks, t.sim.initSeed = none) :
    (execSerialG env tasks g0).map Prod.fst = execSerial env.pure tasks :=
  execSerialG_eq_execSerial env tasks g0 (fun t ht => Or.inl (hfresh t ht))

/-- **Members do not depend on the hosting process.** Private copies, any schedule running each task once, any initial
    states of the workers and of the caller's process: the parallel run equals the serial loop, and both equal the
    members run alone with their seeds. -/
theorem C18_members_independent_of_host_state (tasks : List (Task κ ρ)) (share : Nat → Nat) (sched : List (Nat × Nat))
    (out : List (Sim κ ρ)) (w0 : Nat → GState) (g0 : GState)
    (hfresh : ∀ t ∈ tasks, t.sim.initSeed = none)
    (hpriv : Private tasks.length share)
    (hperm : (sched.map (·.2)).Perm (List.range tasks.length))
    (hser : (execSerialG env tasks g0).map Prod.fst = .ok out) :
    execParG env tasks share sched w0 = .ok out ∧ tasks.mapM (runAlone env.pure) = .ok out := by
  rw [C18_host_state_frame_serial env tasks g0 hfresh] at hser
  rw [C18_host_state_frame env tasks share sched w0 hfresh]
  exact ⟨C18_schedule_independent env.pure tasks share sched out hpriv hperm hser, hser⟩

/-- **Counterexample for initialised members.** A sim that was initialised before being handed to the multi-run is not
    initialised again by `run()`: its steps continue whatever the worker's generators hold, so a module reading them makes
    the member depend on the hosting process; a fresh sim does not. (Why `hfresh` is needed.) -/
theorem C18_initialised_reads_host_counterexample :
    ((singleRunG (⟨fun _ _ g => g, fun _ _ g => g, id⟩ : GEnv Nat GState) ⟨1, 5, some 5, none⟩
        ⟨⟨1, 5, some 5, none⟩, 0, false, none, none, true⟩ (.host 1)).toOption.map (·.1.results) ≠
     (singleRunG (⟨fun _ _ g => g, fun _ _ g => g, id⟩ : GEnv Nat GState) ⟨1, 5, some 5, none⟩
        ⟨⟨1, 5, some 5, none⟩, 0, false, none, none, true⟩ (.host 2)).toOption.map (·.1.results)) ∧
    ((singleRunG (⟨fun _ _ g => g, fun _ _ g => g, id⟩ : GEnv Nat GState) (Sim.fresh 1 5)
        ⟨Sim.fresh 1 5, 0, false, none, none, true⟩ (.host 1)).toOption.map (·.1.results) =
     (singleRunG (⟨fun _ _ g => g, fun _ _ g => g, id⟩ : GEnv Nat GState) (Sim.fresh 1 5)
        ⟨Sim.fresh 1 5, 0, false, none, none, true⟩ (.host 2)).toOption.map (·.1.results)) := by
  refine ⟨by decide, by decide⟩

/-- Non-vacuity: three fresh members whose "results" record the global state they were stepped from; two workers out of
    order starting from different states, and one worker in order from another state, return the same members — each
    stepped from `seeded <own seed>`. -/
example :
    (execParG (⟨fun c s g => (c, s, g), fun _ _ _ => .host 7, fun _ => .host 8⟩ : GEnv Nat (Nat × Int × GState))
      [⟨Sim.fresh 1 10, 0, false, none, none, true⟩, ⟨Sim.fresh 1 20, 1, false, none, none, true⟩, ⟨Sim.fresh 2 30, 2, false, none, none, true⟩]
      sharePrivate [(1, 2), (0, 0), (1, 1)] (fun w => .host w)).toOption.map (·.map (·.results)) =
      some [some (1, 10, .seeded 10), some (1, 20, .seeded 20), some (2, 30, .seeded 30)] ∧
    (execParG (⟨fun c s g => (c, s, g), fun _ _ _ => .host 7, fun _ => .host 8⟩ : GEnv Nat (Nat × Int × GState))
      [⟨Sim.fresh 1 10, 0, false, none, none, true⟩, ⟨Sim.fresh 1 20, 1, false, none, none, true⟩, ⟨Sim.fresh 2 30, 2, false, none, none, true⟩]
      sharePrivate [(0, 0), (0, 1), (0, 2)] (fun _ => .host 99)).toOption.map (·.map (·.results)) =
      some [some (1, 10, .seeded 10), some (1, 20, .seeded 20), some (2, 30, .seeded 30)] := by
  refine ⟨by decide, by decide⟩

end HostState

/-! ### Reduced statistics -/

/-- **Permutation invariance, one time point.** Mean, variance (hence the `mean ± k·std` bounds for whatever
    `sqrt` is), median and both quantile bounds of a row do not depend on the order of the members. -/
theorem C18_reduce_perm_invariant_row (sqrtF : Rat → Rat) (useMean : Bool) (k qlo qhi : Rat) {r₁ r₂ : List Rat}
    (h : r₁.Perm r₂) :
    mean r₁ = mean r₂ ∧ variance 0 r₁ = variance 0 r₂ ∧ median r₁ = median r₂ ∧
    quantile qlo r₁ = quantile qlo r₂ ∧ quantile qhi r₁ = quantile qhi r₂ ∧
    reduceRow sqrtF useMean k qlo qhi r₁ = reduceRow sqrtF useMean k qlo qhi r₂ := by
  refine ⟨mean_perm h, variance_perm 0 h, quantile_perm _ h, quantile_perm _ h, quantile_perm _ h, ?_⟩
  simp only [reduceRow, evalStat_perm sqrtF k qlo qhi _ h]

/-- **Permutation invariance.** `reduce` of any permutation of the members (all of the same length, as
    result series are) is the same list of bands. -/
theorem C18_reduce_perm_invariant (sqrtF : Rat → Rat) (useMean : Bool) (k qlo qhi : Rat) (T : Nat)
    {m₁ m₂ : List (List Rat)} (h : m₁.Perm m₂) (hlen : ∀ m ∈ m₁, m.length = T) :
    reduce sqrtF useMean k qlo qhi m₁ = reduce sqrtF useMean k qlo qhi m₂ := by
  have hrow : ∀ t, (rowAt m₁ t).Perm (rowAt m₂ t) := fun t => h.map _
  cases m₁ with
  | nil => rw [List.nil_perm.mp h]
  | cons a as =>
      cases m₂ with
      | nil => exact absurd h.symm (by simp)
      | cons b bs =>
          have ha : a.length = T := hlen a (List.mem_cons_self ..)
          have hb : b.length = T := hlen b (h.mem_iff.mpr (List.mem_cons_self ..))
          simp only [reduce, ha, hb]
          apply List.map_congr_left
          intro t _
          exact (C18_reduce_perm_invariant_row sqrtF useMean k qlo qhi (hrow t)).2.2.2.2.2

/-- `summarize(method='mean')` is permutation invariant too. -/
theorem C18_summarize_perm_invariant (v : Variant) (qs : List Rat) {r₁ r₂ : List Rat} (h : r₁.Perm r₂) :
    summarize v .mean qs r₁ = summarize v .mean qs r₂ ∧ summarize .spec .median qs r₁ = summarize .spec .median qs r₂ := by
  constructor
  · simp only [summarize, mean_perm h, variance_perm 0 h, h.length_eq]
  · simp only [summarize, quantile_perm _ h]

/-- **The reduced arrays are the stated statistics.** With the statistic expressions regenerated from
    `MultiSim.reduce`: `use_mean` stores the mean and `mean ∓ k·sqrt(variance with ddof 0)`; otherwise the
    median (quantile ½) and the `low` / `high` quantiles. (Obligation on Generated/RunFacts.lean.) -/
theorem C18_reduce_is_statistic (sqrtF : Rat → Rat) (k qlo qhi : Rat) (row : List Rat) :
    reduceRow sqrtF true k qlo qhi row =
      ⟨mean row, mean row - k * sqrtF (variance 0 row), mean row + k * sqrtF (variance 0 row)⟩ ∧
    reduceRow sqrtF false k qlo qhi row = ⟨median row, quantile qlo row, quantile qhi row⟩ := by
  constructor <;> rfl

/-- When every member series has the sim's number of time points, `reduce` returns the statistics
    (`reduceKey` = `reduce`), in the code as it is and in the repaired variant. -/
theorem C18_reduceKey_partial (v : Variant) (npts : Nat) (sqrtF : Rat → Rat) (useMean : Bool) (k qlo qhi : Rat)
    (members : List (List Rat)) (h : ∀ m ∈ members, m.length = npts) :
    reduceKey v npts sqrtF useMean k qlo qhi members = .ok (reduce sqrtF useMean k qlo qhi members) := by
  cases v with
  | asis =>
      have : members.all (·.length == npts) = true := by
        simp only [List.all_eq_true, beq_iff_eq]; exact h
      simp [reduceKey, this]
  | spec =>
      cases members with
      | nil => simp [reduceKey, reduce]
      | cons m ms =>
          have hm : m.length = npts := h m (List.mem_cons_self ..)
          have : ms.all (·.length == m.length) = true := by
            simp only [List.all_eq_true, beq_iff_eq]
            intro x hx; rw [hm]; exact h x (List.mem_cons_of_mem _ hx)
          simp [reduceKey, this]

/-- Members on different time lines (different numbers of time points) are rejected by `reduce`, as the code is
    and in the repaired variant: there is no common time axis to reduce over. -/
theorem C18_reduce_different_npts_rejected (v : Variant) (npts : Nat) (sqrtF : Rat → Rat) (useMean : Bool)
    (k qlo qhi : Rat) (m₁ m₂ : List Rat) (rest : List (List Rat)) (h : m₁.length ≠ m₂.length) :
    errOf (reduceKey v npts sqrtF useMean k qlo qhi (m₁ :: m₂ :: rest)) = some .valueErr := by
  cases v with
  | asis =>
      have : (m₁ :: m₂ :: rest).all (·.length == npts) = false := by
        by_cases h1 : m₁.length = npts
        · have h2 : m₂.length ≠ npts := fun h2 => h (h1.trans h2.symm)
          simp [h1, h2]
        · simp [h1]
      simp [reduceKey, this, errOf]
  | spec =>
      have : (m₂ :: rest).all (·.length == m₁.length) = false := by
        have : m₂.length ≠ m₁.length := fun e => h e.symm
        simp [this]
      simp [reduceKey, this, errOf]

/-- **Known finding (mixed time steps).** A result series of another length than the sim's time vector (a
    module with its own time step) makes `reduce` raise as the code is. -/
theorem C18_reduce_mixed_timestep_counterexample :
    errOf (reduceKey .asis 11 id false 2 (1/10) (9/10) [[3], [4]]) = some .valueErr ∧
    errOf (reduceKey .spec 11 id false 2 (1/10) (9/10) [[3], [4]]) = none := by
  constructor <;> rfl

/-- **The median is the median.** With NumPy's linear interpolation at `q = 1/2`: for an odd number of members
    the middle element of the sorted members, for an even number the mean of the two middle ones; `q = 0` and
    `q = 1` (the `min`/`max` of `summarize`) are the first and last sorted member. -/
theorem C18_median_spec (l : List Rat) (m : Nat) :
    (l.length = 2 * m + 1 → median l = (sorted l).getD m 0) ∧
    (l.length = 2 * m + 2 → median l = ((sorted l).getD m 0 + (sorted l).getD (m + 1) 0) / 2) ∧
    quantile 0 l = (sorted l).getD 0 0 ∧ quantile 1 l = (sorted l).getD ((sorted l).length - 1) 0 ∧
    (sorted l).Pairwise (· ≤ ·) ∧ (sorted l).Perm l :=
  ⟨median_odd l m, median_even l m, quantile_zero l, quantile_one l, sorted_pairwise l, sorted_perm_self l⟩

/-- **Quantiles are ordered.** NumPy's linear-interpolation quantile is monotone in its level on `[0, 1]`, for
    every member list; hence every quantile lies between the smallest and the largest member, and the reduced band
    of the median branch is ordered `low ≤ median ≤ high` whenever `0 ≤ qlo ≤ 1/2 ≤ qhi ≤ 1`. -/
theorem C18_quantile_monotone (l : List Rat) {q₁ q₂ : Rat} (h0 : 0 ≤ q₁) (h12 : q₁ ≤ q₂) (h1 : q₂ ≤ 1) :
    quantile q₁ l ≤ quantile q₂ l ∧
    (sorted l).getD 0 0 ≤ quantile q₁ l ∧ quantile q₂ l ≤ (sorted l).getD ((sorted l).length - 1) 0 := by
  refine ⟨quantile_mono l h0 h12 h1, ?_, ?_⟩
  · rw [← quantile_zero]; exact quantile_mono l Rat.le_refl h0 (Rat.le_trans h12 h1)
  · rw [← quantile_one]; exact quantile_mono l (Rat.le_trans h0 h12) h1 Rat.le_refl

theorem C18_median_band_ordered (sqrtF : Rat → Rat) (k qlo qhi : Rat) (row : List Rat)
    (h0 : 0 ≤ qlo) (hl : qlo ≤ 1/2) (hh : 1/2 ≤ qhi) (h1 : qhi ≤ 1) :
    (reduceRow sqrtF false k qlo qhi row).low ≤ (reduceRow sqrtF false k qlo qhi row).centre ∧
    (reduceRow sqrtF false k qlo qhi row).centre ≤ (reduceRow sqrtF false k qlo qhi row).high := by
  rw [(C18_reduce_is_statistic sqrtF k qlo qhi row).2]
  exact ⟨quantile_mono row h0 hl (by grind), quantile_mono row (by grind) hh h1⟩

example : (0 : Rat) ≤ Gen.defaultQLow ∧ Gen.defaultQLow ≤ 1/2 ∧ (1/2 : Rat) ≤ Gen.defaultQHigh ∧ Gen.defaultQHigh ≤ 1 := by
  with_unfolding_all decide +kernel

/-- default `bounds` and `quantiles` of `reduce` -/
theorem C18_reduce_defaults : Gen.defaultBounds = 2 ∧ Gen.defaultQLow = 1/10 ∧ Gen.defaultQHigh = 9/10 := by
  refine ⟨rfl, rfl, rfl⟩

/-- **Arguments of `reduce` are used as given**; the defaults apply only when the argument is not given — in
    particular `bounds=0` and the quantile levels `0` and `1` are honoured. (Obligation on the regenerated
    argument-handling expressions: `bounds or 2`-style defaulting makes `boundsArg (some 0) = 0` false.) -/
theorem C18_reduce_args :
    Gen.boundsArg none = Gen.defaultBounds ∧ (∀ b, Gen.boundsArg (some b) = b) ∧
    Gen.quantilesArg none = (Gen.defaultQLow, Gen.defaultQHigh) ∧ (∀ p, Gen.quantilesArg (some p) = p) :=
  ⟨rfl, fun _ => rfl, rfl, fun _ => rfl⟩

/-- `mean(bounds=0)`: low = high = mean; `median(quantiles=(0, 1))`: the min–max envelope of the members. -/
theorem C18_reduce_boundary_args (sqrtF : Rat → Rat) (row : List Rat) :
    reduceRow sqrtF true (Gen.boundsArg (some 0)) 0 0 row = ⟨mean row, mean row, mean row⟩ ∧
    reduceRow sqrtF false 0 (Gen.quantilesArg (some (0, 1))).1 (Gen.quantilesArg (some (0, 1))).2 row =
      ⟨median row, (sorted row).getD 0 0, (sorted row).getD ((sorted row).length - 1) 0⟩ := by
  have h := C18_reduce_args.2.1 0
  have hq := C18_reduce_args.2.2.2 (0, 1)
  constructor
  · rw [h, (C18_reduce_is_statistic sqrtF 0 0 0 row).1]
    simp only [Rat.zero_mul]
    congr 1 <;> grind
  · rw [hq, (C18_reduce_is_statistic sqrtF 0 0 1 row).2, quantile_zero, quantile_one]

/-- The mean is the sum divided by the count: `n · mean = Σ`. -/
theorem C18_mean_spec (l : List Rat) (h : l ≠ []) : mean l * l.length = sum l := by
  have hn : ((l.length : Nat) : Rat) ≠ 0 := by
    have : l.length ≠ 0 := fun h0 => h (List.length_eq_zero_iff.mp h0)
    exact_mod_cast this
  simp only [mean]
  exact Rat.div_mul_cancel hn

/-- The mean-based bounds are symmetric about the mean, and ordered when `k·std ≥ 0`. -/
theorem C18_mean_bounds (sqrtF : Rat → Rat) (k qlo qhi : Rat) (row : List Rat) :
    let b := reduceRow sqrtF true k qlo qhi row
    b.low + b.high = 2 * b.centre ∧ (0 ≤ k * sqrtF (variance 0 row) → b.low ≤ b.centre ∧ b.centre ≤ b.high) := by
  have h := (C18_reduce_is_statistic sqrtF k qlo qhi row).1
  simp only [h]
  constructor
  · grind
  · intro hk; constructor <;> grind

/-! ### The summary of a MultiSim (`reduce` → `msim.summary`, `summarize(method, how)`) -/

/-- The regenerated default table of `Sim.summarize`. (Obligation on Generated/RunFacts.lean.) -/
theorem C18_summarize_how_table :
    Gen.summarizeHow = [("n_", .mean), ("new_", .mean), ("cum_", .last), ("timevec", .last), ("", .mean)] := by decide

/-- `Sim.summarize` is a function of `self.results` alone — it reads no other attribute of the sim (no cached summary, no
    flag), and its only write is `self.summary`. (Obligation on Generated/RunFacts.lean.) -/
theorem C18_summarize_reads_results_only :
    Gen.summarizeSelfReads = ["results"] ∧ Gen.summarizeSelfWrites = ["summary"] := by decide

/-- `MultiSim.reduce` summarises the reduced sim AFTER overwriting its series and hands that summary to the MultiSim.
    (Obligation on Generated/RunFacts.lean.) -/
theorem C18_reduce_summary_recomputed : Gen.reduceSummaryRecomputed = true := by decide

/-- the rule on sample keys (a test of `howFunc` on the regenerated table, not a proof about all keys) -/
example : howFunc Gen.summarizeHow "cum_deaths" = .last ∧ howFunc Gen.summarizeHow "n_alive" = .mean ∧
    howFunc Gen.summarizeHow "new_deaths" = .mean ∧ howFunc Gen.summarizeHow "sir_prevalence" = .mean ∧
    howFunc Gen.summarizeHow "sir_cum_infections" = .last := by decide

/-- **The summary of a reduced MultiSim is invariant to the order of the members.** -/
theorem C18_reduced_summary_perm_invariant (sqrtF : Rat → Rat) (useMean : Bool) (k qlo qhi : Rat) (T : Nat) (key : String)
    {m₁ m₂ : List (List Rat)} (h : m₁.Perm m₂) (hlen : ∀ m ∈ m₁, m.length = T) :
    reducedSummary sqrtF useMean k qlo qhi key m₁ = reducedSummary sqrtF useMean k qlo qhi key m₂ := by
  simp only [reducedSummary, C18_reduce_perm_invariant sqrtF useMean k qlo qhi T h hlen]

/-- **The summary of a reduced MultiSim is the stated statistic of the members**: for a result summarised by its last
    entry (cumulative results) it is the mean (`mean()`) resp. the median (`median()`) of the members' last entries. -/
theorem C18_reduced_summary_last (sqrtF : Rat → Rat) (k qlo qhi : Rat) (key : String) (m : List Rat) (ms : List (List Rat))
    (T : Nat) (hT : m.length = T + 1) (hk : howFunc Gen.summarizeHow key = .last) :
    reducedSummary sqrtF true k qlo qhi key (m :: ms) = mean (rowAt (m :: ms) T) ∧
    reducedSummary sqrtF false k qlo qhi key (m :: ms) = median (rowAt (m :: ms) T) := by
  have hs := fun row => C18_reduce_is_statistic sqrtF k qlo qhi row
  constructor
  · simp only [reducedSummary, simSummary, howTable, hk, applyHow, reduce, hT, List.map_map]
    rw [List.range_succ, List.map_append, List.getLast?_append]
    simp [(hs _).1]
  · simp only [reducedSummary, simSummary, howTable, hk, applyHow, reduce, hT, List.map_map]
    rw [List.range_succ, List.map_append, List.getLast?_append]
    simp [(hs _).2, median]

/-- `MultiSim.summarize(method, how)` is invariant to the order of the members, for every `how`. -/
theorem C18_msim_summarize_perm_invariant (v : Variant) (qs : List Rat) (h : How) (key : String) {m₁ m₂ : List (List Rat)}
    (hp : m₁.Perm m₂) :
    msimSummarize v .mean qs h key m₁ = msimSummarize v .mean qs h key m₂ ∧
    msimSummarize .spec .median qs h key m₁ = msimSummarize .spec .median qs h key m₂ :=
  C18_summarize_perm_invariant v qs (hp.map _)

/-- `summarize(method='mean')` reports the mean of the members' summary numbers, each a function of that member's series -/
theorem C18_msim_summarize_is_statistic (v : Variant) (qs : List Rat) (h : How) (key : String) (members : List (List Rat)) :
    msimSummarize v .mean qs h key members =
      .ok (.meanStd (mean (members.map (simSummary h key))) (variance 0 (members.map (simSummary h key)))
        (variance 0 (members.map (simSummary h key)) / members.length)) ∧
    msimSummarize v .all qs h key members = .ok (.all (members.map (simSummary h key))) := by
  simp [msimSummarize, summarize]

/-- concrete: three members, a cumulative key, `mean()` — the summary is the mean of the last entries (not member 0's) -/
example : reducedSummary id true 2 (1/10) (9/10) "cum_deaths" [[0, 1, 4], [0, 2, 5], [0, 3, 9]] = 6 ∧
    simSummary .default "cum_deaths" [0, 1, 4] = 4 := by
  with_unfolding_all decide +kernel

/-! ### Non-vacuity -/

/-- A concrete non-trivial schedule meeting the hypotheses of `C18_schedule_independent`: 4 tasks, 2 workers,
    order 2,0,3,1 — and the model evaluates to the member-order result. -/
example :
    (execPar (fun (c : Nat) (s : Int) => (c, s))
      ((List.range 4).map fun i => (⟨Sim.fresh 1 10, i, true, none, none, true⟩ : Task Nat (Nat × Int)))
      sharePrivate [(0, 2), (1, 0), (0, 3), (1, 1)]).toOption =
    (execSerial (fun (c : Nat) (s : Int) => (c, s))
      ((List.range 4).map fun i => (⟨Sim.fresh 1 10, i, true, none, none, true⟩ : Task Nat (Nat × Int)))).toOption ∧
    (execSerial (fun (c : Nat) (s : Int) => (c, s))
      ((List.range 4).map fun i => (⟨Sim.fresh 1 10, i, true, none, none, true⟩ : Task Nat (Nat × Int)))).toOption.map
        (·.map (·.seed)) = some [10, 11, 12, 13] := by
  decide

example : ([2, 0, 3, 1].map id).Perm (List.range 4) := by decide

/-- statistics on a concrete row and a permutation of it -/
example : mean [3, 1, 2, 6] = 3 ∧ variance 0 [3, 1, 2, 6] = 7/2 := by
  with_unfolding_all decide +kernel

example : median [3, 1, 2, 6] = 5/2 ∧ median [6, 2, 3, 1] = 5/2 ∧
    quantile (1/10) [3, 1, 2, 6] = 13/10 ∧ quantile 1 [3, 1, 2, 6] = 6 ∧ quantile 0 [3, 1, 2, 6] = 1 := by
  have h₁ : sorted [3, 1, 2, 6] = [1, 2, 3, 6] :=
    sorted_eq_of (by decide) (by with_unfolding_all decide +kernel)
  have h₂ : sorted [6, 2, 3, 1] = [1, 2, 3, 6] :=
    sorted_eq_of (by decide) (by with_unfolding_all decide +kernel)
  simp only [median, quantile, h₁, h₂]
  with_unfolding_all decide +kernel

end StarsimModel.C18
