/-
C10 — Population bookkeeping stays consistent under births and deaths.

Property theorems only (helper lemmas: Lemmas/People.lean, Lemmas/Arr.lean).  Model: Model/People.lean, whose every
array is a Model/Arr.lean array with the reallocation rule regenerated from /repo (Generated/ArrConsts.lean).
-/
import StarsimModel.Lemmas.People
import StarsimModel.Lemmas.SimCore
import StarsimModel.Lemmas.SimCoreLife

set_option maxRecDepth 2000
namespace StarsimModel.C10
open StarsimModel.Arr StarsimModel.People

/-! ### Obligations on regenerated facts -/

/-- `People.grow` grows the three core index arrays explicitly and every registered state through the registry loop. -/
theorem C10_grow_covers_everything :
    "self.uid" ∈ Gen.peopleGrowCore ∧ "self.slot" ∈ Gen.peopleGrowCore ∧ "self.parent" ∈ Gen.peopleGrowCore ∧
    "self._states.values()" ∈ Gen.peopleGrowLoops := by decide

/-! ### The invariant holds along every history -/

theorem Inv_empty (extra : List Arr) (h1 : ∀ a ∈ extra, a.raw = [] ∧ a.lenUsed = 0 ∧ a.lenTot = 0)
    (h2 : ∀ a ∈ extra, ∀ us, (defaultVals a us).length = us.length) : Inv (emptyPeople extra) := by
  have wf0 : ∀ k nv d, WF 0 (fresh k nv d) := fun _ _ _ => ⟨rfl, rfl, by simp [fresh]⟩
  exact { uid := wf0 .., slot := wf0 .., parent := wf0 .., alive := wf0 .., tiDead := wf0 ..,
          states := fun a ha => ⟨(h1 a ha).2.1, by rw [(h1 a ha).2.2, (h1 a ha).1]; rfl, Nat.zero_le _⟩,
          statesDefault := h2, dense := fun u hu => absurd hu (Nat.not_lt_zero u),
          active := by simp [emptyPeople], nodup := by simp [emptyPeople], aliveKind := ⟨rfl, rfl⟩, tiDeadDefault := rfl, tiDeadKind := rfl,
          aliveBool := fun u hu => absurd hu (Nat.not_lt_zero u), removedDead := fun u hu => absurd hu (Nat.not_lt_zero u) }

/-- every accepted operation succeeds and preserves the invariant -/
theorem step_inv (p : People) (op : Op) (inv : Inv p) (hok : OpOk p op) : stepE p op = .ok (step p op) ∧ Inv (step p op) := by
  cases op with
  | grow k s => obtain ⟨p', h, i, _⟩ := grow_step p k s inv hok; simp [step, stepE, h, i]
  | requestDeath us => obtain ⟨p', h, i, _⟩ := request_step p us inv hok; simp [step, stepE, h, i]
  | stepDie => obtain ⟨p', h, i, _⟩ := stepDie_step p inv; simp [step, stepE, h, i]
  | updateResults => exact ⟨rfl, { inv with }⟩
  | removeDead => obtain ⟨p', h, i, _⟩ := removeDead_step p inv; simp [step, stepE, h, i]
  | finishStep =>
      obtain ⟨p', h, i, _⟩ := removeDead_step p inv
      have : stepE p .finishStep = .ok { p' with ti := p'.ti + 1 } := by simp [stepE, finishStep, h, bind, Except.bind, pure, Except.pure]
      simp only [step, this]
      exact ⟨trivial, { i with }⟩

theorem run_inv : ∀ (ops : List Op) (p : People), Inv p → ValidRun p ops → Inv (run p ops)
  | [], _, inv, _ => inv
  | op :: ops, p, inv, hv => by
      simp only [run, List.foldl_cons]
      exact run_inv ops (step p op) (step_inv p op inv hv.1).2 hv.2

/-- **Aligned.** After every accepted history of grow / request_death / step_die / update_results / remove_dead /
    finish_step — starting from nobody, so the initial population is itself a `grow` — every core array and every
    registered state has `len_used = n_uids ≤ len_tot = len(raw)`, also across reallocations. -/
theorem C10_aligned (extra : List Arr) (ops : List Op) (h1 : ∀ a ∈ extra, a.raw = [] ∧ a.lenUsed = 0 ∧ a.lenTot = 0)
    (h2 : ∀ a ∈ extra, ∀ us, (defaultVals a us).length = us.length) (hv : ValidRun (emptyPeople extra) ops) :
    let p := run (emptyPeople extra) ops
    WF p.n p.uid ∧ WF p.n p.slot ∧ WF p.n p.parent ∧ WF p.n p.alive ∧ WF p.n p.tiDead ∧ ∀ a ∈ p.states, WF p.n a := by
  have i := run_inv ops _ (Inv_empty extra h1 h2) hv
  exact ⟨i.uid, i.slot, i.parent, i.alive, i.tiDead, i.states⟩

/-- **Dense identifiers.** Along every accepted history the uid array holds `0 … n-1` in creation order; an operation
    never decreases `n`; `grow k` creates exactly the identifiers `n … n+k-1` (never an existing one) and appends them
    to the active index. -/
theorem C10_dense_ids (p : People) (inv : Inv p) :
    (∀ u, u < p.n → p.uid.cell u = .num (u : Rat)) ∧
    (∀ op, OpOk p op → p.n ≤ (step p op).n) ∧
    (∀ k s, OpOk p (.grow k s) → (step p (.grow k s)).n = p.n + k ∧
        (step p (.grow k s)).auids = p.auids ++ (if k = 0 then [] else newIds p.n k) ∧
        ∀ u ∈ newIds p.n k, p.n ≤ u ∧ u ∉ p.auids) := by
  refine ⟨inv.dense, ?_, ?_⟩
  · intro op hok
    cases op with
    | grow k s => obtain ⟨p', h, _, hn, _⟩ := grow_step p k s inv hok; simp [step, stepE, h, hn]
    | requestDeath us => obtain ⟨p', h, _, hn, _⟩ := request_step p us inv hok; simp [step, stepE, h, hn]
    | stepDie => obtain ⟨p', h, _, hn, _⟩ := stepDie_step p inv; simp [step, stepE, h, hn]
    | updateResults => exact Nat.le_refl _
    | removeDead => obtain ⟨p', h, _, hn, _⟩ := removeDead_step p inv; simp [step, stepE, h, hn]
    | finishStep =>
        obtain ⟨p', h, _, hn, _⟩ := removeDead_step p inv
        have : stepE p .finishStep = .ok { p' with ti := p'.ti + 1 } := by simp [stepE, finishStep, h, bind, Except.bind, pure, Except.pure]
        simp only [step, this]; exact Nat.le_of_eq hn.symm
  · intro k s hok
    obtain ⟨p', h, _, hn, hau, _⟩ := grow_step p k s inv hok
    refine ⟨by simp [step, stepE, h, hn], by simp [step, stepE, h, hau], ?_⟩
    intro u hu
    have := (mem_newIds p.n k u).mp hu
    exact ⟨this.1, fun hmem => by have := inv.active u hmem; omega⟩

/-- **Values preserved.** `grow` keeps every existing entry of `alive`, `ti_dead`, `parent`, `slot` and of every
    registered state, and gives the new agents the defaults (`alive = True`, `ti_dead = nan`, `parent = -1`-nan). -/
theorem C10_values_preserved (p : People) (k : Nat) (s : Option (List Nat)) (inv : Inv p) (hok : OpOk p (.grow k s)) :
    let p' := step p (.grow k s)
    (∀ u, u < p.n → p'.alive.cell u = p.alive.cell u ∧ p'.tiDead.cell u = p.tiDead.cell u ∧ p'.parent.cell u = p.parent.cell u ∧
        p'.slot.cell u = p.slot.cell u) ∧
    (∀ u, p.n ≤ u → u < p.n + k → p'.alive.cell u = .bool true ∧ p'.tiDead.cell u = p.tiDead.nan ∧ p'.parent.cell u = p.parent.nan) ∧
    p'.states.length = p.states.length ∧
    (∀ (i : Nat) (h1 : i < p.states.length) (h2 : i < p'.states.length), ∀ x, x < p.n → (p'.states[i]).cell x = (p.states[i]).cell x) := by
  obtain ⟨p', h, _, _, _, _, _, _, hold, hnew, hst, hlen⟩ := grow_step p k s inv hok
  have e : step p (.grow k s) = p' := by simp [step, stepE, h]
  simp only [e]
  exact ⟨hold, hnew, hlen, hst⟩

/-- **Active set.** The active index never has duplicates and stays inside the uid space; removed agents are dead; and
    after `finish_step` (or `remove_dead`) it is exactly the set of created agents whose `alive` flag is true. -/
theorem C10_active (p : People) (inv : Inv p) :
    p.auids.Nodup ∧ (∀ u ∈ p.auids, u < p.n) ∧
    (∀ u, u ∈ (step p .finishStep).auids ↔ (u < p.n ∧ p.alive.cell u = .bool true)) ∧
    (step p .finishStep).auids.Sublist p.auids := by
  refine ⟨inv.nodup, inv.active, ?_, ?_⟩
  all_goals
    obtain ⟨p', h, _, _, hau, _⟩ := removeDead_step p inv
    have hs : stepE p .finishStep = .ok { p' with ti := p'.ti + 1 } := by simp [stepE, finishStep, h, bind, Except.bind, pure, Except.pure]
    simp only [step, hs, hau]
  · intro u
    simp only [List.mem_filter]
    constructor
    · rintro ⟨hm, ht⟩
      obtain ⟨b, hb⟩ := inv.aliveBool u (inv.active u hm)
      refine ⟨inv.active u hm, ?_⟩
      cases b with
      | true => exact hb
      | false => simp [hb, Val.truthy] at ht
    · rintro ⟨hu, hb⟩
      refine ⟨?_, by simp [hb, Val.truthy]⟩
      by_cases hm : u ∈ p.auids
      · exact hm
      · have := inv.removedDead u hu hm; rw [hb] at this; cases this
  · exact List.filter_sublist

/-- **Death timing, same step.** A request made before death resolution of step `t` (for an active agent) is carried
    out by the `step_die` of step `t`. -/
theorem C10_death_timing_same_step (p : People) (inv : Inv p) (us : List Nat) (hus : ∀ u ∈ us, u < p.n) (u : Nat)
    (hu : u ∈ us) (hact : u ∈ p.auids) :
    (run p [.requestDeath us, .stepDie]).alive.cell u = .bool false := by
  obtain ⟨p1, h1, i1, _, hau, _, hti, _, _, _, htd⟩ := request_step p us inv hus
  obtain ⟨p2, h2, _, _, _, _, _, _, _, _, hal⟩ := stepDie_step p1 i1
  have e : run p [.requestDeath us, .stepDie] = p2 := by simp [run, step, stepE, h1, h2]
  rw [e, hal u]
  have hmem : u ∈ deathUids p1 := by
    simp only [deathUids, trueUids, List.mem_filter, hau]
    refine ⟨hact, ?_⟩
    obtain ⟨i, hi, rfl⟩ := List.getElem_of_mem hact
    have hin : inRange p1.tiDead p1.auids = true := by
      simp only [inRange, List.all_eq_true, decide_eq_true_eq]
      intro x hx; have := i1.active x hx; have := i1.tiDead.le; omega
    have := (C11.C11_compare p1.auids p1.tiDead .le (tiVal p1.ti) i1.nodup hin i (by rw [hau]; exact hi)).1
    simp only [hau] at this
    rw [this, htd _, hti]
    simp [hu, cmpVal, tiVal, Val.isUndef, Val.toRat?, Val.truthy, Rat.le_refl]
  simp [hmem]

/-- **Death timing, next step.** A request made *after* death resolution of step `t` leaves the agent alive through
    the rest of step `t` and is carried out by the `step_die` of step `t+1`. -/
theorem C10_death_timing_next_step (p : People) (inv : Inv p) (us : List Nat) (hus : ∀ u ∈ us, u < p.n) (u : Nat)
    (hu : u ∈ us) (hact : u ∈ p.auids) (halive : p.alive.cell u = .bool true) :
    (run p [.requestDeath us, .finishStep]).alive.cell u = .bool true ∧
    (run p [.requestDeath us, .finishStep]).ti = p.ti + 1 ∧
    (run p [.requestDeath us, .finishStep, .stepDie]).alive.cell u = .bool false := by
  obtain ⟨p1, h1, i1, _, hau, hal1, hti, _, _, _, htd⟩ := request_step p us inv hus
  obtain ⟨p2, h2, i2, _, hau2, hal2, htd2, hti2, _⟩ := removeDead_step p1 i1
  have hf : stepE p1 .finishStep = .ok { p2 with ti := p2.ti + 1 } := by simp [stepE, finishStep, h2, bind, Except.bind, pure, Except.pure]
  have i3 : Inv { p2 with ti := p2.ti + 1 } := { i2 with }
  obtain ⟨p4, h4, _, _, _, _, _, _, _, _, hal4⟩ := stepDie_step _ i3
  have hf' : finishStep p1 = .ok { p2 with ti := p2.ti + 1 } := by simp [finishStep, h2, bind, Except.bind, pure, Except.pure]
  have e2 : run p [.requestDeath us, .finishStep] = { p2 with ti := p2.ti + 1 } := by simp [run, step, stepE, h1, hf']
  have e3 : run p [.requestDeath us, .finishStep, .stepDie] = p4 := by
    simp only [run, List.foldl_cons, List.foldl_nil] at e2 ⊢
    rw [e2]; simp [step, stepE, h4]
  have hact2 : u ∈ p2.auids := by
    rw [hau2, List.mem_filter, hau, hal1]; exact ⟨hact, by simp [halive, Val.truthy]⟩
  refine ⟨by rw [e2]; show p2.alive.cell u = _; rw [hal2, hal1]; exact halive, by rw [e2]; show p2.ti + 1 = _; rw [hti2, hti], ?_⟩
  rw [e3, hal4 u]
  have hmem : u ∈ deathUids { p2 with ti := p2.ti + 1 } := by
    simp only [deathUids, trueUids, List.mem_filter]
    refine ⟨hact2, ?_⟩
    obtain ⟨i, hi, rfl⟩ := List.getElem_of_mem hact2
    have hin : inRange p2.tiDead p2.auids = true := by
      simp only [inRange, List.all_eq_true, decide_eq_true_eq]
      intro x hx; have := i2.active x hx; have := i2.tiDead.le; omega
    have := (C11.C11_compare p2.auids p2.tiDead .le (tiVal (p2.ti + 1)) i2.nodup hin i hi).1
    rw [this, htd2, htd _, hti2, hti]
    have hle : ((p.ti : Int) : Rat) ≤ ((p.ti + 1 : Int) : Rat) := by rw [Rat.intCast_le_intCast]; omega
    have hle' : ((p.ti : Int) : Rat) ≤ ((p.ti : Int) : Rat) + 1 := by simpa using hle
    simp [hu, cmpVal, tiVal, Val.isUndef, Val.toRat?, Val.truthy, hle']
  simp [hmem]

/-- **Death is permanent.** No accepted operation turns a dead agent's `alive` flag back on, and an agent removed from
    the active index never returns. -/
theorem C10_death_permanent (p : People) (inv : Inv p) (op : Op) (hok : OpOk p op) (u : Nat) (hu : u < p.n) :
    (p.alive.cell u = .bool false → (step p op).alive.cell u = .bool false) ∧
    (u ∉ p.auids → u ∉ (step p op).auids) := by
  cases op with
  | grow k s =>
      obtain ⟨p', h, _, _, hau, _, _, _, hold, _⟩ := grow_step p k s inv hok
      have e : step p (.grow k s) = p' := by simp [step, stepE, h]
      rw [e]
      refine ⟨fun hd => by rw [(hold u hu).1]; exact hd, fun hn => ?_⟩
      rw [hau]; simp only [List.mem_append, not_or]
      refine ⟨hn, ?_⟩
      split
      · simp
      · intro hm; have := (mem_newIds p.n k u).mp hm; omega
  | requestDeath us =>
      obtain ⟨p', h, _, _, hau, hal, _⟩ := request_step p us inv hok
      have e : step p (.requestDeath us) = p' := by simp [step, stepE, h]
      rw [e, hau, hal]; exact ⟨id, id⟩
  | stepDie =>
      obtain ⟨p', h, _, _, hau, _, _, _, _, _, hal⟩ := stepDie_step p inv
      have e : step p .stepDie = p' := by simp [step, stepE, h]
      rw [e, hau, hal u]
      refine ⟨fun hd => by split <;> simp [hd], id⟩
  | updateResults => exact ⟨id, id⟩
  | removeDead =>
      obtain ⟨p', h, _, _, hau, hal, _⟩ := removeDead_step p inv
      have e : step p .removeDead = p' := by simp [step, stepE, h]
      rw [e, hau, hal]
      exact ⟨id, fun hn hm => hn (List.mem_filter.mp hm).1⟩
  | finishStep =>
      obtain ⟨p', h, _, _, hau, hal, _⟩ := removeDead_step p inv
      have hs : stepE p .finishStep = .ok { p' with ti := p'.ti + 1 } := by simp [stepE, finishStep, h, bind, Except.bind, pure, Except.pure]
      simp only [step, hs]
      show (p.alive.cell u = _ → p'.alive.cell u = _) ∧ (u ∉ p.auids → u ∉ p'.auids)
      rw [hau, hal]
      exact ⟨id, fun hn hm => hn (List.mem_filter.mp hm).1⟩

/-- **Several requests, one death.** Requesting the same agents again (by the same or another module, in the same step)
    changes nothing further: two requests equal one request for the union, and `step_die` lists every agent once. -/
theorem C10_multi_request (p : People) (inv : Inv p) (a b : List Nat) (ha : ∀ u ∈ a, u < p.n) (hb : ∀ u ∈ b, u < p.n) :
    (∀ x, (run p [.requestDeath a, .requestDeath b]).tiDead.cell x = (run p [.requestDeath (a ++ b)]).tiDead.cell x) ∧
    (deathUids p).Nodup := by
  constructor
  · intro x
    obtain ⟨p1, h1, i1, hn, _, _, hti, _, _, _, htd1⟩ := request_step p a inv ha
    obtain ⟨p2, h2, _, _, _, _, _, _, _, _, htd2⟩ := request_step p1 b i1 (by intro u hu; rw [hn]; exact hb u hu)
    obtain ⟨p3, h3, _, _, _, _, _, _, _, _, htd3⟩ := request_step p (a ++ b) inv (by
      intro u hu; rcases List.mem_append.mp hu with h | h
      · exact ha u h
      · exact hb u h)
    have e1 : run p [.requestDeath a, .requestDeath b] = p2 := by simp [run, step, stepE, h1, h2]
    have e2 : run p [.requestDeath (a ++ b)] = p3 := by simp [run, step, stepE, h3]
    rw [e1, e2, htd2, htd3, htd1, hti]
    by_cases hxa : x ∈ a <;> by_cases hxb : x ∈ b <;> simp [hxa, hxb]
  · exact inv.nodup.sublist (deathUids_sub p)

/-! ### Flow accounting -/

/-- **Flow (partial).** When all active agents are alive at the start of death resolution (true after every
    `finish_step`) and no active agent carries a stamp from an earlier step, the number `update_results` records in
    `new_deaths[ti]` is exactly the number of agents that `step_die` killed in this step. -/
theorem C10_flow_partial (p : People) (inv : Inv p) (h1 : AllActiveAlive p = true) (h2 : NoStaleStamp p = true) :
    recordedDeaths (step p .stepDie) = diedNow p := by
  obtain ⟨p', h, _, _, hau, htd, hti, _⟩ := stepDie_step p inv
  have e : step p .stepDie = p' := by simp [step, stepE, h]
  have hin : inRange p.tiDead p.auids = true := by
    simp only [inRange, List.all_eq_true, decide_eq_true_eq]
    intro x hx; have := inv.active x hx; have := inv.tiDead.le; omega
  rw [e]
  simp only [recordedDeaths, hau, htd, hti, diedNow, (C11.C11_len_count _ _).2, C11.C11_compare_true p.auids p.tiDead .eq (tiVal p.ti) inv.nodup hin,
    deathUids, C11.C11_compare_true p.auids p.tiDead .le (tiVal p.ti) inv.nodup hin, List.filter_filter]
  congr 1
  apply List.filter_congr
  intro u hu
  have a1 : (p.alive.cell u).truthy = true := by simpa [AllActiveAlive] using (List.all_eq_true.mp h1) u hu
  have a2 := (List.all_eq_true.mp h2) u hu
  simp only [Bool.or_eq_true, Bool.not_eq_true'] at a2
  by_cases heq : (cmpVal .eq (p.tiDead.cell u) (tiVal p.ti)).truthy = true
  · simp [heq, a1, cmp_eq_le _ _ heq]
  · rcases a2 with a2 | a2
    · simp [heq, a2]
    · exact absurd a2 heq

/-- **Balance.** Per operation: `grow k` adds `k` living agents, `step_die` removes exactly the agents it newly kills,
    and `request_death`, `update_results`, `remove_dead`, `finish_step` leave the number alive unchanged — so over any
    step `n_alive[t] = n_alive[t-1] + created − died`. -/
theorem C10_balance (p : People) (inv : Inv p) :
    (∀ k s, OpOk p (.grow k s) → aliveCount (step p (.grow k s)) = aliveCount p + k) ∧
    aliveCount (step p .stepDie) + diedNow p = aliveCount p ∧
    (∀ us, OpOk p (.requestDeath us) → aliveCount (step p (.requestDeath us)) = aliveCount p) ∧
    aliveCount (step p .updateResults) = aliveCount p ∧
    aliveCount (step p .removeDead) = aliveCount p ∧
    aliveCount (step p .finishStep) = aliveCount p := balance_ops p inv

/-- **Flow (counterexample, kernel-checked).** Two agents.  Step 0: death resolution, results, then agent 1's death is
    requested (as `Pregnancy.finish_step` does), `finish_step`.  Step 1: `step_die` kills agent 1 (`n_alive` 2 → 1) but
    `new_deaths` is `0` for both steps: the full flow statement is false of today's code. -/
theorem C10_flow_counterexample :
    let p0 := run (emptyPeople []) [.grow 2 none]
    let p := run p0 [.stepDie, .updateResults, .requestDeath [1], .finishStep, .stepDie, .updateResults, .finishStep]
    p.nAlive = [(0, 2), (1, 1)] ∧ p.newDeaths = [(0, 0), (1, 0)] ∧ p.auids = [0] ∧
    NoStaleStamp (run p0 [.stepDie, .updateResults, .requestDeath [1], .finishStep]) = false := by
  decide

/-- with the request made *before* death resolution the same agents give `new_deaths = [1, 0]` -/
example :
    let p0 := run (emptyPeople []) [.grow 2 none]
    let p := run p0 [.requestDeath [1], .stepDie, .updateResults, .finishStep, .stepDie, .updateResults, .finishStep]
    p.nAlive = [(0, 1), (1, 1)] ∧ p.newDeaths = [(0, 1), (1, 0)] ∧ p.auids = [0] ∧
    AllActiveAlive p0 = true ∧ NoStaleStamp p0 = true := by
  decide

/-- non-vacuity: a concrete accepted history (growth across a reallocation with explicit slots, repeated requests,
    removal) and the model's bookkeeping after it -/
example :
    let p := run (emptyPeople [fresh .float .nan (.const (.num 1))])
      [.grow 3 none, .requestDeath [1, 1], .stepDie, .updateResults, .finishStep, .grow 2 (some [0, 0]), .requestDeath [0, 4], .stepDie, .updateResults, .finishStep]
    p.n = 5 ∧ p.auids = [2, 3] ∧ p.uid.lenTot = 5 ∧ p.nAlive = [(0, 2), (1, 2)] ∧ p.newDeaths = [(0, 1), (1, 2)] ∧
    (p.states.map (fun a => (a.lenUsed, a.lenTot))) = [(5, 5)] := by
  decide

/-- **Aligned, from any population.** Starting from *any* population that satisfies the bookkeeping invariant (not only
    from nobody), every accepted history keeps every core array and every registered state aligned with the uid space. -/
theorem C10_aligned_from (p0 : People) (inv : Inv p0) (ops : List Op) (hv : ValidRun p0 ops) :
    let p := run p0 ops
    Inv p ∧ WF p.n p.uid ∧ WF p.n p.slot ∧ WF p.n p.parent ∧ WF p.n p.alive ∧ WF p.n p.tiDead ∧ (∀ a ∈ p.states, WF p.n a) ∧
    p0.n ≤ p.n := by
  have i := run_inv ops p0 inv hv
  refine ⟨i, i.uid, i.slot, i.parent, i.alive, i.tiDead, i.states, ?_⟩
  -- n never decreases along the run
  have mono : ∀ (ops : List Op) (q : People), Inv q → ValidRun q ops → q.n ≤ (run q ops).n := by
    intro ops
    induction ops with
    | nil => intro q _ _; exact Nat.le_refl _
    | cons op ops ih =>
        intro q iq hq
        have h1 := (C10_dense_ids q iq).2.1 op hq.1
        have h2 := ih (step q op) (step_inv q op iq hq.1).2 hq.2
        simp only [run, List.foldl_cons] at h2 ⊢
        exact Nat.le_trans h1 h2
  exact mono ops p0 inv hv

/-- **Ageing.** `update_post` adds `dt` to the age of exactly the living active agents, once each; dead, removed and
    not-yet-created (spare capacity) entries keep their value, and the bookkeeping of the array is untouched. -/
theorem C10_ageing (au : List Nat) (alive age : Arr) (n : Nat) (dt : Rat) (hw : WF n age) (hk : age.kind = .float)
    (hact : ∀ u ∈ au, u < n) (hnd : au.Nodup) :
    ∃ age', agePost au alive age dt = .ok age' ∧ WF n age' ∧ age'.kind = .float ∧
      (∀ u, u ∈ au → (alive.cell u).truthy = true → age'.cell u = arithVal .add (age.cell u) (.num dt)) ∧
      (∀ u, ¬ (u ∈ au ∧ (alive.cell u).truthy = true) → age'.cell u = age.cell u) := by
  have hsub : (trueUids au alive).Sublist au := List.filter_sublist
  have hus : ∀ u ∈ trueUids au alive, u < age.raw.length := fun u hu => by
    have := hact u (hsub.subset hu); have := hw.le; omega
  have hr : inRange age (trueUids au alive) = true := by
    simp only [inRange, List.all_eq_true, decide_eq_true_eq]; exact hus
  have hcast : castRhs age.kind (.list ((trueUids au alive).map (fun u => arithVal .add (age.cell u) (.num dt)))) =
      some (.list ((trueUids au alive).map (fun u => arithVal .add (age.cell u) (.num dt)))) := by
    rw [hk]; simp only [castRhs, castList_float_arith, Option.map_some]
  obtain ⟨a', hset, hlu, hlt, hlen, _, _, hkind, hcell, _⟩ :=
    C11.C11_set_uids codeVariant au age (trueUids au alive) _ _ hcast hr (by simp [rhsOk])
  refine ⟨a', hset, ⟨by rw [hlu]; exact hw.used, by rw [hlt, hlen]; exact hw.tot, by rw [hlen]; exact hw.le⟩, by rw [hkind]; exact hk, ?_, ?_⟩
  · intro u hu ht
    have hm : u ∈ trueUids au alive := List.mem_filter.mpr ⟨hu, ht⟩
    obtain ⟨i, hi, rfl⟩ := List.getElem_of_mem hm
    rw [hcell]
    have := updMany_nodup (trueUids au alive) (rhsVals (trueUids au alive).length (.list ((trueUids au alive).map (fun u => arithVal .add (age.cell u) (.num dt)))))
      age.cell (hnd.sublist hsub) i hi (by simp [rhsVals]; exact hi)
    rw [this]; simp [rhsVals]
  · intro u hnot
    rw [hcell]
    apply updMany_not_mem
    intro hm
    exact hnot (List.mem_filter.mp hm)

/-- **Initial population.** `People(n)` + `init_vals` (with any freshly constructed further states whose defaults yield
    one value per agent) succeeds and produces a population that satisfies the bookkeeping invariant: `n` identifiers
    `0 … n-1`, all active, all alive, nobody scheduled to die — so every theorem above applies to every history of a
    freshly initialised sim. -/
theorem C10_init (n : Nat) (extra : List Arr) (h1 : ∀ a ∈ extra, a.raw = [] ∧ a.lenUsed = 0 ∧ a.lenTot = 0)
    (h2 : ∀ a ∈ extra, ∀ us, (defaultVals a us).length = us.length) :
    ∃ p, init n extra = .ok p ∧ Inv p ∧ p.n = n ∧ p.auids = newIds 0 n ∧ p.ti = 0 ∧
      (∀ u, u < n → p.alive.cell u = .bool true ∧ p.tiDead.cell u = .nan ∧ p.parent.cell u = .num (-1)) ∧
      p.states.length = extra.length := by
  let ids := newIds 0 n
  let idVals : Rhs := .list (ids.map (fun (u : Nat) => Val.num (u : Rat)))
  have hidok : rhsOk ids idVals = true := idVals_ok 0 n ids (by simp [ids])
  have hparok : rhsOk ids (.list (List.replicate n (Val.num (-1)))) = true := by simp [rhsOk, ids]
  have wfe : ∀ a ∈ extra, WF 0 a := fun a ha => ⟨(h1 a ha).2.1, by rw [(h1 a ha).2.2, (h1 a ha).1]; rfl, Nat.zero_le _⟩
  obtain ⟨uid', hu, wu, _, _, _, cu⟩ := grow_spec' (fresh .index (.num (-1)) .unset) 0 n (wf_fresh ..) (some idVals) idVals rfl hidok
  obtain ⟨parent', hp, wp, _, _, _, cp⟩ := grow_spec' (fresh .index (.num (-1)) .unset) 0 n (wf_fresh ..)
    (some (.list (List.replicate n (Val.num (-1))))) _ rfl hparok
  obtain ⟨alive', ha, wa, _, had, hak, ca⟩ := grow_spec' (fresh .bool (.bool false) (.const (.bool true))) 0 n (wf_fresh ..) none
    (.scalar (.bool true)) (by simp [defaultRhs, fresh]) rfl
  obtain ⟨td', ht, wt, _, htd, htk, ct⟩ := grow_spec' (fresh .float .nan .unset) 0 n (wf_fresh ..) none (.scalar .nan)
    (by simp [defaultRhs, fresh]) rfl
  obtain ⟨st', hst, hlen, wst, dst, _⟩ := growAll_spec 0 n extra wfe h2
  simp only [Nat.zero_add] at wu wp wa wt wst cu cp ca ct
  have hn : uid'.lenUsed = n := wu.used
  refine ⟨(People.mk uid' uid' parent' ids alive' td' st' 0 [] []), ?_, ?_, hn, rfl, rfl, ?_, hlen⟩
  · simp only [init, bind, Except.bind]
    simp only [ids, idVals] at hu hp ha ht hst
    simp only [hu, hp, ha, ht, hst]
    rfl
  · have hn' : People.n (People.mk uid' uid' parent' ids alive' td' st' 0 [] []) = n := hn
    constructor
    · rw [hn']; exact wu
    · rw [hn']; exact wu
    · rw [hn']; exact wp
    · rw [hn']; exact wa
    · rw [hn']; exact wt
    · rw [hn']; exact wst
    · exact dst
    · rw [hn']; intro u hu'
      show uid'.cell u = _
      rw [cu u hu']
      have := upd_new (fresh .index (.num (-1)) .unset).cell 0 n (rhsVals n idVals) (by simp [rhsVals, idVals, ids]) u hu'
      simp only [Nat.zero_add] at this
      rw [this, List.getElem_eq_iff]
      have e : rhsVals n idVals = ids.map (fun (u : Nat) => Val.num (u : Rat)) := by simp [rhsVals, idVals, ids]
      have hi' : u < ids.length := by simpa [ids] using hu'
      rw [e, List.getElem?_map, List.getElem?_eq_getElem hi']
      simp only [ids, newIds_getElem, Option.map_some, Nat.zero_add]
    · rw [hn']; intro u hu'; have := ((mem_newIds 0 n u).mp hu').2; simpa using this
    · exact newIds_nodup 0 n
    · exact ⟨by show alive'.kind = _; rw [hak]; rfl, by show alive'.default = _; rw [had]; rfl⟩
    · show td'.default = _; rw [htd]; rfl
    · show td'.kind = _; rw [htk]; rfl
    · rw [hn']; intro u hu'
      show ∃ b, alive'.cell u = _
      rw [ca u hu']
      have := upd_new (fresh .bool (.bool false) (.const (.bool true))).cell 0 n (rhsVals n (.scalar (.bool true))) (by simp [rhsVals]) u hu'
      simp only [Nat.zero_add] at this
      rw [this]; exact ⟨true, by simp [rhsVals]⟩
    · rw [hn']; intro u hu' hnot
      exact absurd ((mem_newIds 0 n u).mpr ⟨Nat.zero_le _, by simpa using hu'⟩) hnot
  · intro u hu'
    refine ⟨?_, ?_, ?_⟩
    · show alive'.cell u = _
      rw [ca u hu']
      have := upd_new (fresh .bool (.bool false) (.const (.bool true))).cell 0 n (rhsVals n (.scalar (.bool true))) (by simp [rhsVals]) u hu'
      simp only [Nat.zero_add] at this
      rw [this]; simp [rhsVals]
    · show td'.cell u = _
      rw [ct u hu']
      have := upd_new (fresh .float .nan .unset).cell 0 n (rhsVals n (.scalar .nan)) (by simp [rhsVals]) u hu'
      simp only [Nat.zero_add] at this
      rw [this]; simp [rhsVals]
    · show parent'.cell u = _
      rw [cp u hu']
      have := upd_new (fresh .index (.num (-1)) .unset).cell 0 n (rhsVals n (.list (List.replicate n (Val.num (-1))))) (by simp [rhsVals]) u hu'
      simp only [Nat.zero_add] at this
      rw [this]; simp [rhsVals]

/-- non-vacuity: the model's initial population of 3 agents with one extra state, and a history on it -/
example :
    (init 3 [fresh .float .nan (.const (.num 1))]).toOption.map
      (fun p => (p.n, p.auids, (run p [.requestDeath [2], .stepDie, .updateResults, .finishStep]).auids, p.states.map (·.lenUsed))) =
    some (3, [0, 1, 2], [0, 1], [3]) := by
  decide

/-! ### Whole steps of the simulation loop (round 3) -/

/-- **A whole step of the loop resolves every death requested before death resolution.**  Whatever the modules do before
    (`pre`) and after (`post`) death resolution — creating agents, requesting deaths, in any number and order — an active
    agent named in a request of `pre` is dead after the step, is no longer active, stays so, and the clock has advanced by one. -/
theorem C10_step_resolves (p : People) (inv : Inv p) (pre post : List Op)
    (hpre : ∀ op ∈ pre, IsModuleOp op = true) (hpost : ∀ op ∈ post, IsModuleOp op = true)
    (hv : ValidRun p (stepOps pre post)) (us : List Nat) (hreq : .requestDeath us ∈ pre) (u : Nat) (hu : u ∈ us) (hact : u ∈ p.auids) :
    (run p (stepOps pre post)).alive.cell u = .bool false ∧ u ∉ (run p (stepOps pre post)).auids ∧
    (run p (stepOps pre post)).ti = p.ti + 1 ∧ Inv (run p (stepOps pre post)) := by
  simp only [stepOps, List.append_assoc] at hv ⊢
  rw [validRun_append] at hv
  obtain ⟨hv1, hv2⟩ := hv
  obtain ⟨i1, t1, _, n1, m1, _, _, r1, _⟩ := moduleOps_run pre p inv hpre hv1
  rw [run_append]
  generalize run p pre = q1 at *
  -- death resolution
  obtain ⟨q2, h2, i2, n2, au2, td2, ti2, _, _, _, al2⟩ := stepDie_step q1 i1
  have hdead : q2.alive.cell u = .bool false := by
    rw [al2 u]; simp [stamped_dies q1 i1 u (m1 u hact) (r1 us hreq u hu)]
  have e2 : step q1 .stepDie = q2 := by simp [step, stepE, h2]
  -- results
  have i3 : Inv (updateResults q2) := { i2 with }
  have hv3 : ValidRun (updateResults q2) (post ++ [.finishStep]) := by
    have := hv2
    simp only [List.cons_append, List.nil_append, ValidRun, e2] at this
    exact this.2.2
  rw [validRun_append] at hv3
  obtain ⟨i4, t4, _, n4, _, _, d4, _, _⟩ := moduleOps_run post (updateResults q2) i3 hpost hv3.1
  have e : run q1 ([.stepDie, .updateResults] ++ (post ++ [.finishStep])) = step (run (updateResults q2) post) .finishStep := by
    simp only [List.cons_append, List.nil_append, run, List.foldl_cons, List.foldl_append, List.foldl_nil]
    rw [e2]; rfl
  rw [e]
  generalize run (updateResults q2) post = q4 at *
  have hlt : u < q2.n := by rw [n2]; exact i1.active u (m1 u hact)
  have hd4 : q4.alive.cell u = .bool false := d4 u hlt hdead
  obtain ⟨q5, h5, i5, _, au5, al5, _, ti5, _⟩ := removeDead_step q4 i4
  have hs : stepE q4 .finishStep = .ok { q5 with ti := q5.ti + 1 } := by simp [stepE, finishStep, h5, bind, Except.bind, pure, Except.pure]
  simp only [step, hs]
  refine ⟨by show q5.alive.cell u = _; rw [al5]; exact hd4, ?_, ?_, { i5 with }⟩
  · show u ∉ q5.auids
    rw [au5, List.mem_filter]; simp [hd4, Val.truthy]
  · show q5.ti + 1 = p.ti + 1
    rw [ti5, t4]; show q2.ti + 1 = _; rw [ti2, t1]

/-- **Balance over a whole step.**  The number recorded in `n_alive[t]` during the step, `c`, is the number alive before
    the step plus the agents the modules created before death resolution minus the agents death resolution killed; and
    the next step starts from `c` plus the agents created after death resolution (nobody else appears or disappears). -/
theorem C10_step_balance (p : People) (inv : Inv p) (pre post : List Op)
    (hpre : ∀ op ∈ pre, IsModuleOp op = true) (hpost : ∀ op ∈ post, IsModuleOp op = true)
    (hv : ValidRun p (stepOps pre post)) :
    ∃ c, (p.ti, c) ∈ (run p (stepOps pre post)).nAlive ∧ c + diedNow (run p pre) = aliveCount p + created pre ∧
      aliveCount (run p (stepOps pre post)) = c + created post := by
  simp only [stepOps, List.append_assoc] at hv ⊢
  rw [validRun_append] at hv
  obtain ⟨hv1, hv2⟩ := hv
  obtain ⟨i1, t1, _, _, _, _, _, _, c1⟩ := moduleOps_run pre p inv hpre hv1
  rw [run_append]
  generalize run p pre = q1 at *
  obtain ⟨q2, h2, i2, _, _, _, ti2, _, _, _, _⟩ := stepDie_step q1 i1
  have e2 : step q1 .stepDie = q2 := by simp [step, stepE, h2]
  have hb := (C10_balance q1 i1).2.1
  rw [e2] at hb
  have i3 : Inv (updateResults q2) := { i2 with }
  have hv3 : ValidRun (updateResults q2) (post ++ [.finishStep]) := by
    have := hv2
    simp only [List.cons_append, List.nil_append, ValidRun, e2] at this
    exact this.2.2
  rw [validRun_append] at hv3
  obtain ⟨i4, _, a4, _, _, _, _, _, c4⟩ := moduleOps_run post (updateResults q2) i3 hpost hv3.1
  have e : run q1 ([.stepDie, .updateResults] ++ (post ++ [.finishStep])) = step (run (updateResults q2) post) .finishStep := by
    simp only [List.cons_append, List.nil_append, run, List.foldl_cons, List.foldl_append, List.foldl_nil]
    rw [e2]; rfl
  rw [e]
  have hfin := (C10_balance (run (updateResults q2) post) i4).2.2.2.2.2
  generalize run (updateResults q2) post = q4 at *
  obtain ⟨q5, h5, _, _, _, _, _, _, na5, _⟩ := removeDead_step q4 i4
  have hs : stepE q4 .finishStep = .ok { q5 with ti := q5.ti + 1 } := by simp [stepE, finishStep, h5, bind, Except.bind, pure, Except.pure]
  refine ⟨aliveCount q2, ?_, by rw [← c1]; exact hb, ?_⟩
  · simp only [step, hs]
    show (p.ti, aliveCount q2) ∈ q5.nAlive
    rw [na5, a4]
    simp only [updateResults, List.mem_append, List.mem_singleton]
    right; rw [ti2, t1]; rfl
  · rw [hfin, c4]; rfl


/-! ### The loop plan (regenerated from `Loop.collect_funcs`) has this shape for every module set -/

/-- The regenerated plan is: module code, `people.step_die`, `people.update_results`, module code, `people.finish_step`
    and at once `sim.finish_step`; the People phases carry no guard (they are scheduled whatever modules the sim has); no
    other row touches `sim.people` or ticks the clock; and the `step` of every kind of module that may create agents or
    request deaths as part of the dynamics (demographics, diseases, connectors, networks, interventions) is scheduled
    before death resolution and never after it. -/
theorem C10_plan_shape :
    Gen.planRows = preRows Gen.planRows ++ [("sim.people", "step_die", ""), ("sim.people", "update_results", "")] ++
      postRows Gen.planRows ++ [("sim.people", "finish_step", ""), ("sim", "finish_step", "")] ∧
    (∀ r ∈ preRows Gen.planRows ++ postRows Gen.planRows, r.1 ≠ "sim.people" ∧ ¬ (r.1 = "sim" ∧ r.2.1 = "finish_step")) ∧
    (∀ c ∈ ["sim.demographics()", "sim.diseases()", "sim.connectors()", "sim.networks()", "sim.interventions()"],
      (preRows Gen.planRows).any (isRow c "step") = true ∧ (postRows Gen.planRows).any (fun r => r.1 == c) = false) := by
  decide

/-- **Every sim runs the death-resolution machinery, once per step, in the same place.**  For every valuation `g` of the
    guards (= every module set) and whatever the module code does (`acts`), one pass through the scheduled rows of the
    regenerated plan issues exactly `stepOps pre post`: the module operations of the rows before death resolution,
    `step_die`, `update_results`, the module operations of the rows after it, `finish_step` (+ clock tick) — and `pre`,
    `post` consist of module operations only, so `C10_step_resolves` and `C10_step_balance` apply to every step of every sim. -/
theorem C10_plan_every_module_set (g : String → Bool) (acts : String → String → List Op)
    (hacts : ∀ c m, ∀ op ∈ acts c m, IsModuleOp op = true) :
    planOps acts (scheduled g Gen.planRows) =
      stepOps (planOps acts (scheduled g (preRows Gen.planRows))) (planOps acts (scheduled g (postRows Gen.planRows))) ∧
    (∀ op ∈ planOps acts (scheduled g (preRows Gen.planRows)), IsModuleOp op = true) ∧
    (∀ op ∈ planOps acts (scheduled g (postRows Gen.planRows)), IsModuleOp op = true) := by
  obtain ⟨hshape, hmod, _⟩ := C10_plan_shape
  refine ⟨?_, ?_, ?_⟩
  · conv => lhs; rw [hshape]
    simp [scheduled, List.filter_append, planOps, List.flatMap_append, stepOps, slotOf]
  · exact planOps_modules acts hacts _ (fun r hr => (hmod r (List.mem_append_left _ (scheduled_sub g _ r hr))).1)
  · exact planOps_modules acts hacts _ (fun r hr => (hmod r (List.mem_append_right _ (scheduled_sub g _ r hr))).1)


/-- Outside class `People` nothing in starsim writes the population's life status (`people.ti_dead`, `people.alive`):
    modules ask through `People.request_death`, which stamps the SIM's clock (not the clock of the asking module), and
    `People.finish_step` removes the dead. -/
theorem C10_life_status_single_writer :
    Gen.lifeStatusWritesOutsidePeople = [] ∧ Gen.requestDeathWrite = ("self.ti_dead[uids]", "self.sim.ti") ∧
    "self.remove_dead" ∈ Gen.peopleFinishCalls := by decide

/-- non-vacuity (kernel-checked): the regenerated plan with a module set whose guards are all false and one whose guards
    are all true, an intervention that requests agents 1 and 3 and a demographics module that creates two agents: the
    requested agents are gone after the step, the books balance (4 + 2 - 2) -/
example :
    let acts : String → String → List Op := fun c m =>
      if c = "sim.interventions()" ∧ m = "step" then [.requestDeath [1, 3]] else if c = "sim.demographics()" ∧ m = "step" then [.grow 2 none] else []
    let p0 := run (emptyPeople []) [.grow 4 none]
    let ok : (String → Bool) → Bool := fun g =>
      planOps acts (scheduled g Gen.planRows) = [.grow 2 none, .requestDeath [1, 3], .stepDie, .updateResults, .finishStep] ∧
      (run p0 (planOps acts (scheduled g Gen.planRows))).auids = [0, 2, 4, 5] ∧
      (run p0 (planOps acts (scheduled g Gen.planRows))).nAlive = [(0, 4)] ∧
      (run p0 (planOps acts (scheduled g Gen.planRows))).newDeaths = [(0, 2)] ∧
      (run p0 (planOps acts (scheduled g Gen.planRows))).ti = 1
    ok (fun _ => false) = true ∧ ok (fun _ => true) = true ∧
    ValidRun p0 (stepOps [.grow 2 none, .requestDeath [1, 3]] []) := by
  decide


/-! ### Finalised (scaled) results (round 4) -/

/-- Regenerated: finalisation does not truncate any of the population series (the series are replaced by the product
    with `pop_scale`, or they are not integer arrays). -/
theorem C10_finalize_exact :
    seriesTruncates "n_alive" = false ∧ seriesTruncates "new_deaths" = false ∧ seriesTruncates "cum_deaths" = false ∧
    (∀ r ∈ Gen.simResults, r.2.2 = "True") ∧ ["n_alive", "new_deaths", "cum_deaths"].all (fun n => Gen.simResults.any (fun r => r.1 == n)) = true := by
  decide

/-- **The recorded balance holds in recorded units.**  For every scale factor `s` (integer, dyadic or not, below or above
    one) and every step of the loop: the finalised `n_alive[t]`, i.e. the count in people, equals the finalised value of
    the previous count plus `s` times the agents created minus `s` times the agents that died — the per-step statement of
    the property on the published series. -/
theorem C10_step_balance_recorded (s : Rat) (p : People) (inv : Inv p) (pre post : List Op)
    (hpre : ∀ op ∈ pre, IsModuleOp op = true) (hpost : ∀ op ∈ post, IsModuleOp op = true)
    (hv : ValidRun p (stepOps pre post)) :
    ∃ c, (p.ti, finalizeVal (seriesTruncates "n_alive") s c) ∈ finalizeSeries "n_alive" s (run p (stepOps pre post)).nAlive ∧
      finalizeVal (seriesTruncates "n_alive") s c + (diedNow (run p pre) : Rat) * s =
        finalizeVal (seriesTruncates "n_alive") s (aliveCount p) + (created pre : Rat) * s := by
  obtain ⟨c, hmem, hbal, _⟩ := C10_step_balance p inv pre post hpre hpost hv
  refine ⟨c, ?_, ?_⟩
  · exact List.mem_map.mpr ⟨(p.ti, c), hmem, rfl⟩
  · simp only [C10_finalize_exact.1, finalizeVal, Bool.false_eq_true, ↓reduceIte]
    exact scaled_balance s _ _ _ _ hbal

/-- why the mode matters (kernel-checked): 118 alive, 2 born, 7 die, 113 alive, 2.5 people per agent.  Exact scaling
    balances (282.5 + 17.5 = 295 + 5); a series truncated at finalisation does not (282 + 17.5 ≠ 295 + 5). -/
example :
    finalizeVal false (5/2) 113 + (7 : Rat) * (5/2) = finalizeVal false (5/2) 118 + (2 : Rat) * (5/2) ∧
    finalizeVal true (5/2) 113 = 282 ∧
    finalizeVal true (5/2) 113 + (7 : Rat) * (5/2) ≠ finalizeVal true (5/2) 118 + (2 : Rat) * (5/2) := by
  decide +kernel


/-! ### Round 5: the form of a death request; every array a module holds reaches the registry -/

theorem allocated_length (au : List Nat) : ∀ (l l' : List Arr), Allocated au l l' → l'.length = l.length
  | [], [], _ => rfl
  | [], _ :: _, h => absurd h (by simp [Allocated])
  | _ :: _, [], h => absurd h (by simp [Allocated])
  | _ :: l, _ :: l', h => by simp [allocated_length au l l' h.2]

theorem registerAll_spec : ∀ (l : List Arr) (p p' : People), registerAll p l = .ok p' →
    p'.auids = p.auids ∧ p'.n = p.n ∧ p'.alive = p.alive ∧ p'.tiDead = p.tiDead ∧
    ∃ l', p'.states = p.states ++ l' ∧ Allocated p.auids l l'
  | [], p, p', h => by
      simp [registerAll] at h; subst h; exact ⟨rfl, rfl, rfl, rfl, [], by simp, trivial⟩
  | a :: rest, p, p', h => by
      simp only [registerAll] at h
      cases hr : registerState p a with
      | error e => rw [hr] at h; simp at h
      | ok q =>
          rw [hr] at h
          simp only [registerState, bind, Except.bind] at hr
          cases hg : grow a p.auids none with
          | error e => rw [hg] at hr; simp at hr
          | ok a' =>
              rw [hg] at hr
              have hq : q = { p with states := p.states ++ [a'] } := by
                simp [pure, Except.pure] at hr; exact hr.symm
              obtain ⟨h1, h2, h3, h4, l', h5, h6⟩ := registerAll_spec rest q p' h
              subst hq
              refine ⟨h1, h2, h3, h4, a' :: l', by simp [h5], hg, h6⟩

/-- **Every array a module holds is registered (regenerated enumeration).**  `Module.states` lists one entry per array OBJECT
    among the module's attributes and `People._states` is keyed by the object, so `add_module` + `init_post` link, register and
    allocate EVERY array the module holds — also arrays that share a state name (with each other or with a built-in state):
    the registry gains exactly `held.length` arrays, pairwise the allocations of the held ones, and nothing else of the
    population changes.  (A state-name-keyed enumeration drops all but one array per name: `C10_by_name_enumeration_drops`.) -/
theorem C10_module_states_registered :
    Gen.moduleStatesEnum = "all-attributes" ∧ Gen.peopleRegistryKey = "id(state)" ∧
    ("link_people", "") ∈ Gen.addModuleCalls ∧ ("init_vals", "not _.initialized") ∈ Gen.initPostCalls ∧
    ∀ (p p' : People) (held : Held), addModule Gen.moduleStatesEnum p held = .ok p' →
      p'.auids = p.auids ∧ p'.n = p.n ∧ p'.alive = p.alive ∧ p'.tiDead = p.tiDead ∧
      ∃ l', p'.states = p.states ++ l' ∧ l'.length = held.length ∧
        Allocated p.auids (held.map (fun h => h.2)) l' := by
  refine ⟨by decide, by decide, by decide, by decide, ?_⟩
  intro p p' held h
  have hm : Gen.moduleStatesEnum = "all-attributes" := by decide
  rw [hm] at h
  simp only [addModule, enumStates, if_true] at h
  obtain ⟨h1, h2, h3, h4, l', h5, h6⟩ := registerAll_spec _ p p' h
  exact ⟨h1, h2, h3, h4, l', h5, by simpa using allocated_length _ _ _ h6, h6⟩

/-- counterexample for the name-keyed enumeration (kernel-checked): of two arrays with the same state name only one is
    enumerated, whatever the arrays are; three agents, two dose counters: one counter never enters the registry -/
theorem C10_by_name_enumeration_drops (a b : Arr) :
    (enumStates "by-name" [("doses", a), ("doses", b)]).length = 1 ∧
    okAnd (init 3 []) (fun p =>
      okAnd (addModule "by-name" p [("doses", fresh .float .nan .unset), ("doses", fresh .float .nan .unset)])
        (fun p' => p'.states.length == 1) &&
      okAnd (addModule "all-attributes" p [("doses", fresh .float .nan .unset), ("doses", fresh .float .nan .unset)])
        (fun p' => p'.states.map (fun x => (x.lenUsed, x.raw.length)) == [(3, 3), (3, 3)])) = true := by
  refine ⟨by simp [enumStates, lastByName], by decide⟩

/-- **A scalar request names an identifier.**  The regenerated `_convert_key` table sends a bare integer straight to storage
    (`Gen.intKeyViaActive = false`), so `request_death(u)` with ONE python / numpy integer is `request_death(ss.uids([u]))`:
    it stamps agent `u`, whoever has been removed before; a Boolean state names its true active agents.  Every timing
    theorem about `requestDeath` (`C10_death_timing_*`, `C10_step_resolves`) therefore holds for these forms. -/
theorem C10_request_scalar_names_identifier :
    codeVariant = .asis ∧
    (∀ (p : People) (u : Nat), Inv p → u < p.n → requestDeathKey codeVariant p (.int u) = requestDeath p [u]) ∧
    (∀ (v : Variant) (p : People) (k : Arr), isBoolKind k = true →
      requestDeathKey v p (.boolArr k) = requestDeath p (trueUids p.auids k)) := by
  have hv : codeVariant = .asis := by decide
  refine ⟨hv, ?_, ?_⟩
  · intro p u inv hu
    have hlen : u < p.tiDead.raw.length := Nat.lt_of_lt_of_le hu inv.tiDead.le
    have hcast : castVal p.tiDead.kind (tiVal p.ti) = some (tiVal p.ti) := by rw [inv.tiDeadKind]; exact castVal_float_num _
    have hpos : pyPos p.tiDead.raw.length (u : Int) = some u := by
      simp only [pyPos]
      have h0 : ¬ ((u : Int) < 0) := by omega
      have h1 : (0 : Int) ≤ (u : Int) ∧ (u : Int) < (p.tiDead.raw.length : Int) := ⟨by omega, by omega⟩
      simp [h0, h1]
    rw [hv]
    simp [requestDeathKey, requestDeath, setItem, convertKey, castRhs, hcast, hpos, rhsOk, inRange, hlen, assignRaw, scatterConst, bind, Except.bind]
  · intro v p k hk
    cases v <;> simp [requestDeathKey, requestDeath, setItem, convertKey, hk]

/-- counterexample for the positional reading (kernel-checked): three agents, agent 0 dies and is removed; a scalar request
    for identifier 1 under the positional variant stamps `auids[1] = 2`: agent 2 dies, agent 1 — the one named — survives;
    under the code's variant agent 1 dies -/
theorem C10_positional_request_counterexample :
    let p := run (emptyPeople []) [.grow 3 none, .requestDeath [0], .stepDie, .updateResults, .finishStep]
    p.auids = [1, 2] ∧
    okAnd (requestDeathKey .spec p (.int 1)) (fun p' => deathUids p' == [2]) = true ∧
    okAnd (requestDeathKey codeVariant p (.int 1)) (fun p' => deathUids p' == [1]) = true := by
  decide

/-! ### Population flow in the composed step model

`SimCore.simStep` (Model/SimCore.lean) is one step of an SIR simulation in the phase order regenerated from
`Loop.collect_funcs`, with the per-agent SIR functions regenerated from `sir.py`; its events (births, death requests of
other modules, infections) are arbitrary.  The statements hold for every initial population in which every active agent is
alive with no death pending, every event history and every number of steps; the model is compared with real runs row by
row and agent by agent on every check of C13 (harness/props/c13_simcore.py). -/
section composed
open StarsimModel.SimCore

/-- **Balance of one step**: `n_alive + new_deaths = active agents before + births`, the active set afterwards has
    exactly the recorded `n_alive` members, and every one of them is alive with no death pending. -/
theorem C10_composed_step_balance (s : Sim) (ev : Events) (h : ∀ a ∈ s.pop, Clean a) :
    ∃ r : Row, (simStep s ev).rows = s.rows ++ [r] ∧
      r.nAlive + r.newDeaths = nPresent s.pop + ev.births ∧
      nPresent (simStep s ev).pop = r.nAlive ∧
      ∀ a ∈ (simStep s ev).pop, Clean a :=
  simStep_flow s ev h

/-- **Balance over whole runs**: consecutive recorded rows satisfy
    `n_alive[t] + new_deaths[t] = n_alive[t-1] + births[t]`, starting from the initial number of active agents. -/
theorem C10_composed_run_balance (s : Sim) (evs : List Events) (h : ∀ a ∈ s.pop, Clean a) :
    ∃ rs : List Row, (run s evs).rows = s.rows ++ rs ∧ flowOK (nPresent s.pop) rs evs ∧
      (∀ a ∈ (run s evs).pop, Clean a) :=
  run_flow evs s h

/-- A death request left pending from before the step (the recorded finding: a request made after deaths were resolved)
    breaks the balance — the agent dies in this step but is not counted in `new_deaths`: the hypothesis is needed. -/
theorem C10_composed_balance_needs_clean :
    let s : Sim := ⟨1, [⟨true, true, some 0, ⟨true, false, false⟩, Gen.Sir.Timers.const none⟩], [], false⟩
    ∃ r, (simStep s ⟨0, [], []⟩).rows = [r] ∧ r.nAlive = 0 ∧ r.newDeaths = 0 ∧ nPresent s.pop = 1 := by
  exact ⟨_, rfl, by decide +kernel, by decide +kernel, by decide +kernel⟩

/-- non-vacuity: a clean population, a birth, a background death -/
example : (∀ a ∈ ([⟨true, true, none, ⟨true, false, false⟩, Gen.Sir.Timers.const none⟩,
                   ⟨false, false, some 0, ⟨false, false, false⟩, Gen.Sir.Timers.const none⟩] : List Agent), Clean a) := by
  intro a ha; simp only [List.mem_cons, List.mem_nil_iff, or_false] at ha
  rcases ha with rfl | rfl <;> intro hp <;> first | exact ⟨rfl, rfl⟩ | cases hp
/-- **Identifiers in the composed model**: after any run, from any population and under any events, the identifier space
    is the initial one plus all births — identifiers are dense, in creation order, and none is ever reused. -/
theorem C10_composed_dense_ids (s : Sim) (evs : List Events) :
    (run s evs).pop.length = s.pop.length + sumNat (evs.map (·.births)) :=
  run_length evs s

/-- the agents created in a step are exactly those at the indices right after the existing ones -/
theorem C10_composed_newborn_ids (s : Sim) (ev : Events) (i : Nat) :
    (s.pop.length ≤ i ∧ i < s.pop.length + ev.births) ↔ (s.pop[i]? = none ∧ (simStep s ev).pop[i]? ≠ none) :=
  simStep_newborn_ids s ev i

/-- **Death is permanent in the composed model** — no hypothesis on population, events, admissibility or run length: every
    identifier keeps naming the same slot, the dead stay dead, and an agent removed from the active set never re-enters. -/
theorem C10_composed_death_permanent (s : Sim) (evs : List Events) (i : Nat) (a : Agent) (h : s.pop[i]? = some a) :
    ∃ a', (run s evs).pop[i]? = some a' ∧ (a.alive = false → a'.alive = false) ∧
      (a.present = false → a'.present = false) :=
  run_life evs s i a h

/-- **A request made before deaths are resolved is carried out in the same step** (demographics-phase requests of other
    modules, or a request already due), and whoever is active when a step ends is alive. -/
theorem C10_composed_request_same_step (s : Sim) (ev : Events) (i : Nat) (a : Agent) (h : s.pop[i]? = some a)
    (hp : a.present = true) (hreq : i ∈ ev.background ∨ due a.pDead s.ti = true) :
    ∃ a', (simStep s ev).pop[i]? = some a' ∧ a'.alive = false ∧ a'.present = false := by
  obtain ⟨a', g, _, _, _, h4⟩ := simStep_life s ev i a h
  exact ⟨a', g, h4 hp hreq⟩

theorem C10_composed_active_alive (s : Sim) (evs : List Events) (hne : evs ≠ []) :
    ∀ a ∈ (run s evs).pop, a.present = true → a.alive = true :=
  run_active_alive evs hne s

/-- **Conservation of agents over whole runs**: (active at the end) + (all recorded deaths) = (active at the start) +
    (all births), with exactly one recorded row per step. -/
theorem C10_composed_conservation (s : Sim) (evs : List Events) (h : ∀ a ∈ s.pop, Clean a) :
    ∃ rs : List Row, (run s evs).rows = s.rows ++ rs ∧ rs.length = evs.length ∧
      nPresent (run s evs).pop + sumNat (rs.map (·.newDeaths)) = nPresent s.pop + sumNat (evs.map (·.births)) :=
  run_conservation evs s h

/-- kernel-evaluated run: two agents, a birth and a background death of uid 0 in step 0, nothing in step 1: three
    identifiers, uid 0 dead and removed for good, uid 2 the newborn -/
example :
    let s : Sim := ⟨0, [newborn, newborn], [], false⟩
    let r := run s [⟨1, [0], []⟩, ⟨0, [], []⟩]
    r.pop.length = 3 ∧ r.pop.map (·.alive) = [false, true, true] ∧ r.pop.map (·.present) = [false, true, true] := by
  decide +kernel
end composed

end StarsimModel.C10
