import StarsimModel.Model.Timeline
namespace StarsimModel.C07
open StarsimModel.Timeline StarsimModel.Calendar
theorem C07_grid_float_counterexample :
    gridSteps .asis (Num.ofRat 0) (Num.ofRat (3/10)) (Num.ofRat (1/10)) = 2 ∧
    gridSteps .spec (Num.ofRat 0) (Num.ofRat (3/10)) (Num.ofRat (1/10)) = 3 := by decide +kernel
end StarsimModel.C07
