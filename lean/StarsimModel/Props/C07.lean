/-
C07 — Every accepted time specification yields a consistent timeline.

Property theorems and non-vacuity examples only (helper lemmas: Lemmas/Calendar.lean, Lemmas/Timeline.lean).
Models: Model/Calendar.lean, Model/Timeline.lean, Model/F64.lean.  The unit table, the defaults, the unit aliases
and `time_eps` are regenerated from /repo on every run (Generated/TimeUnits.lean, Generated/TimeDefaults.lean).

Variants (DESIGN 4.5): `spec` computes the grid length and the calendar placement exactly; `asis` follows today's
code, which takes these decisions in float64 (modelled exactly by Model/F64.lean) and replaces a fractional calendar
step by a constant whole-day step.  For `asis` there is a `_partial` theorem and a kernel-checked counterexample.
-/
import StarsimModel.Lemmas.Timeline

namespace StarsimModel.C07
open StarsimModel StarsimModel.Calendar StarsimModel.Timeline

/-! ### obligations on the regenerated tables -/

/-- `round_tvec` rounds to exactly `time_eps`: `10^decimals · time_eps = 1` -/
theorem C07_eps_decimals : Gen.timeEpsC07 * pow10 = 1 := by decide +kernel

/-- every unit of `time_units` has a positive length, the day is 1 day, and `unitless` has no length -/
theorem C07_units_positive :
    (∀ r ∈ Gen.timeUnits, 0 < r.2) ∧ unitDays? .day = some 1 ∧ (unitDays? .week).isSome = true ∧
    (unitDays? .month).isSome = true ∧ (unitDays? .year).isSome = true ∧ unitDays? .unitless = none := by
  decide +kernel

/-- the defaults are usable: the default unit is a known alias, the default start date is a valid date, the default
    duration is positive, every canonical unit name is its own alias -/
theorem C07_defaults_wellformed :
    (validateUnit Gen.defaultUnit).isSome = true ∧
    (Date.mk Gen.defaultStartDate.1 Gen.defaultStartDate.2.1 Gen.defaultStartDate.2.2).valid = true ∧
    1 ≤ Gen.defaultStartYear ∧ 0 < Gen.defaultDur ∧ 0 < Gen.simDefaultDt ∧
    (∀ u : TUnit, validateUnit u.name = some u) := by
  refine ⟨by decide +kernel, by decide +kernel, by decide +kernel, by decide +kernel, by decide +kernel, ?_⟩
  intro u; cases u <;> decide +kernel

/-! ### the grid (numeric and year-based timelines) -/

/-- **Grid, `spec` variant.**  For every start ≤ stop and dt > 0 the timeline has `⌊(stop−start)/dt⌋ + 1` points;
    the first is the start, consecutive points are exactly `dt` apart, the points are strictly increasing, and the
    last one is the last grid point not after `stop` (`last ≤ stop < last + dt`). -/
theorem C07_grid (a b dt : Num) (hdt : 0 < dt.q) (hab : a.q ≤ b.q) :
    ∃ npts : Nat, gridCount .spec a b dt = .ok npts ∧
      (npts : Int) = ((b.q - a.q) / dt.q).floor + 1 ∧
      (grid a.q dt.q npts).length = npts ∧
      (∀ h : 0 < (grid a.q dt.q npts).length, (grid a.q dt.q npts)[0] = a.q) ∧
      (∀ i (h : i + 1 < (grid a.q dt.q npts).length),
          (grid a.q dt.q npts)[i + 1] - (grid a.q dt.q npts)[i] = dt.q) ∧
      (grid a.q dt.q npts).Pairwise (· < ·) ∧
      (∀ h : npts - 1 < (grid a.q dt.q npts).length,
          (grid a.q dt.q npts)[npts - 1] ≤ b.q ∧ b.q < (grid a.q dt.q npts)[npts - 1] + dt.q) := by
  have hN := floor_nonneg a.q b.q dt.q hdt hab
  have hne : dt.q ≠ 0 := ne_of_gt hdt
  refine ⟨(((b.q - a.q) / dt.q).floor + 1).toNat, ?_, ?_, grid_length _ _ _, ?_, ?_, grid_pairwise _ _ _ hdt, ?_⟩
  · have hlt : ¬ (((b.q - a.q) / dt.q).floor + 1 < 0) := by omega
    simp [gridCount, gridSteps, hne, hlt]
  · rw [Int.toNat_of_nonneg (by omega)]
  · intro h; rw [grid_getElem]; simp
  · intro i h; rw [grid_getElem, grid_getElem]; push_cast; ring
  · intro h
    rw [grid_getElem]
    have hc : (((((b.q - a.q) / dt.q).floor + 1).toNat - 1 : Nat) : Rat) = (((b.q - a.q) / dt.q).floor : Rat) := by
      have : (((((b.q - a.q) / dt.q).floor + 1).toNat - 1 : Nat) : Int) = ((b.q - a.q) / dt.q).floor := by omega
      exact_mod_cast this
    rw [hc]
    obtain ⟨h1, h2⟩ := floor_bounds a.q b.q dt.q hdt
    exact ⟨h1, h2⟩

/-- non-vacuity: start 2000, stop 2010.25, dt 0.5 gives 21 points -/
example : gridCount .spec (Num.ofRat 2000) (Num.ofRat (8041/4)) (Num.ofRat (1/2)) = .ok 21 := by decide +kernel

/-- **Grid, `asis` variant: counterexample.**  The code computes `int((stop-start)/dt)` in float64.  For
    start = 0, stop = 3/10, dt = 1/10 (and start = 1, stop = 41/10, dt = 1/10) the exact quotient is the integer
    3 (30) but the float quotient is just below it and truncates to 2 (29): the timeline loses its last point. -/
theorem C07_grid_float_counterexample :
    gridSteps .asis (Num.ofRat 0) (Num.ofRat (3/10)) (Num.ofRat (1/10)) = 2 ∧
    gridSteps .spec (Num.ofRat 0) (Num.ofRat (3/10)) (Num.ofRat (1/10)) = 3 ∧
    gridSteps .asis (Num.ofRat 1) (Num.ofRat (41/10)) (Num.ofRat (1/10)) = 30 ∧
    gridSteps .spec (Num.ofRat 1) (Num.ofRat (41/10)) (Num.ofRat (1/10)) = 31 ∧
    gridCount .asis (Num.ofRat 0) (Num.ofRat (3/10)) (Num.ofRat (1/10)) = .ok 3 ∧
    gridCount .spec (Num.ofRat 0) (Num.ofRat (3/10)) (Num.ofRat (1/10)) = .ok 4 := by
  decide +kernel

/-- the float model is the IEEE double: 0.1 is 3602879701896397 / 2^55 and 0.3/0.1 rounds to 2.9999999999999996 -/
theorem C07_float_witness :
    F64.rd (1/10) = (3602879701896397 : Rat) / 36028797018963968 ∧
    F64.div (F64.rd (3/10)) (F64.rd (1/10)) = (6755399441055743 : Rat) / 2251799813685248 := by
  decide +kernel

/-- **Grid, `asis` variant, partial.**  Whenever the truncated float quotient equals the exact floor (the decidable
    hypothesis excluding the defect) the code's number of points is the specified one. -/
theorem C07_grid_partial (a b dt : Num) (h : gridSteps .asis a b dt = gridSteps .spec a b dt) :
    gridCount .asis a b dt = gridCount .spec a b dt := by
  simp only [gridCount, h]

example : gridSteps .asis (Num.ofRat 2000) (Num.ofRat 2020) (Num.ofRat (1/5)) =
          gridSteps .spec (Num.ofRat 2000) (Num.ofRat 2020) (Num.ofRat (1/5)) := by decide +kernel

/-- **Start after stop, `spec`.**  When the start lies after the stop by less than one step there is no grid point
    not after `stop`: the specified timeline is empty. -/
theorem C07_grid_empty (a b dt : Num) (hdt : 0 < dt.q) (h1 : b.q < a.q) (h2 : a.q - dt.q ≤ b.q) :
    gridCount .spec a b dt = .ok 0 := by
  have hne : dt.q ≠ 0 := ne_of_gt hdt
  have hfl : ((b.q - a.q) / dt.q).floor = -1 := by
    have hlo : ((-1 : Int) : Rat) ≤ (b.q - a.q) / dt.q := by
      rw [le_div_iff₀ hdt]; push_cast; linarith
    have hhi : (b.q - a.q) / dt.q < ((0 : Int) : Rat) := by
      rw [div_lt_iff₀ hdt]; push_cast; linarith
    have := Rat.le_floor_iff.2 hlo
    have := Rat.floor_lt_iff.2 hhi
    omega
  simp [gridCount, gridSteps, hne, hfl]

/-- **Start after stop, `asis`: counterexample.**  The code truncates the negative quotient toward zero:
    start = 2005, stop = 2004.5, dt = 1 gives one point (at 2005, after stop) where the specification has none. -/
theorem C07_start_after_stop_counterexample :
    gridCount .asis (Num.ofRat 2005) (Num.ofRat (4009/2)) (Num.ofRat 1) = .ok 1 ∧
    gridCount .spec (Num.ofRat 2005) (Num.ofRat (4009/2)) (Num.ofRat 1) = .ok 0 := by
  decide +kernel

/-! ### elapsed time and rounding -/

/-- **tvec.**  `tvec` has one entry per point and `tvec[i] = round_tvec(i·dt)`; when dt is a whole number of
    `time_eps` the rounding is the identity: `tvec[i] = i·dt` exactly. -/
theorem C07_tvec (dt : Rat) (npts : Nat) :
    (tvecOf dt npts).length = npts ∧
    (∀ i (h : i < (tvecOf dt npts).length), (tvecOf dt npts)[i] = round6 ((i : Rat) * dt)) ∧
    (∀ k : Int, dt * pow10 = (k : Rat) →
      ∀ i (h : i < (tvecOf dt npts).length), (tvecOf dt npts)[i] = (i : Rat) * dt) := by
  refine ⟨by simp [tvecOf], fun i h => by simp [tvecOf], fun k hk i h => ?_⟩
  have : (tvecOf dt npts)[i] = round6 ((i : Rat) * dt) := by simp [tvecOf]
  rw [this]
  apply round6_exact _ ((i : Int) * k)
  push_cast
  rw [← hk]; ring

/-- non-vacuity: dt = 1/4 is a whole number of `time_eps` -/
example : (1 / 4 : Rat) * pow10 = ((F64.rhe ((1 / 4 : Rat) * pow10) : Int) : Rat) := by decide +kernel

/-- `round_tvec` moves a value by at most half of `time_eps` and fixes whole multiples of it -/
theorem C07_round (x : Rat) :
    |round6 x - x| ≤ Gen.timeEpsC07 / 2 ∧ (∀ k : Int, x * pow10 = (k : Rat) → round6 x = x) := by
  refine ⟨?_, fun k hk => round6_exact x k hk⟩
  have h := rhe_close (x * pow10)
  have hp := pow10_pos
  have he : Gen.timeEpsC07 = 1 / pow10 := by
    have := C07_eps_decimals
    field_simp
    linarith
  have key : (F64.rhe (x * pow10) : Rat) / pow10 - x = ((F64.rhe (x * pow10) : Rat) - x * pow10) / pow10 := by
    field_simp
  unfold round6
  rw [key, he, abs_le] at *
  obtain ⟨h1, h2⟩ := h
  have e : (1 : Rat) / pow10 / 2 = (1 / 2) / pow10 := by ring
  rw [e]
  constructor
  · rw [← neg_div]; exact div_le_div_of_nonneg_right h1 hp.le
  · exact div_le_div_of_nonneg_right h2 hp.le

/-! ### the calendar -/

/-- **Calendar round trip.**  `fromOrdinal ∘ toOrdinal` is the identity on valid dates, every day number ≥ 1 is the
    number of a valid date, and the day number is strictly monotone in (year, month, day) — for all years ≥ 1. -/
theorem C07_calendar_roundtrip :
    (∀ t : Date, t.valid = true → fromOrdinal (toOrdinal t) = t) ∧
    (∀ n : Nat, 1 ≤ n → (fromOrdinal n).valid = true ∧ toOrdinal (fromOrdinal n) = n) ∧
    (∀ s t : Date, s.valid = true → t.valid = true → Date.lt s t → toOrdinal s < toOrdinal t) :=
  ⟨fromOrdinal_toOrdinal, toOrdinal_fromOrdinal, toOrdinal_lt⟩

example : (Date.mk 2024 2 29).valid = true ∧ toOrdinal ⟨2024, 2, 29⟩ = 738945 ∧
    fromOrdinal 738945 = ⟨2024, 2, 29⟩ ∧ (Date.mk 2023 2 29).valid = false := by decide +kernel

/-- an accepted integer dt on a calendar timeline uses the exact step -/
theorem C07_calendar_integer_branch (v : Variant) (u : TUnit) (a b : Date) (dt : Num)
    (hpos : 0 < dt.q) (hint : dt.q.den = 1) :
    calendarDates v u a b dt = .ok (dateRange (stepDate u dt.q.num.toNat) b (rangeFuel a b) a) := by
  simp [calendarDates, not_le.2 hpos, hint]

/-- **Integer dt on day/week timelines.**  With `w` = 1 (day) or 7 (week) days per unit and an integer step
    `k ≥ 1`: there are `⌊(stop−start)/(k·w)⌋ + 1` dates, date `i` is exactly `i·k·w` days after the start
    (so the first date is the start and the spacing is uniform), and no date lies after `stop`. -/
theorem C07_dates_integer_dt (u : TUnit) (w : Nat) (hu : (u = .day ∧ w = 1) ∨ (u = .week ∧ w = 7))
    (k : Nat) (hk : 1 ≤ k) (a b : Date) (ha : a.valid = true) (hab : toOrdinal a ≤ toOrdinal b) :
    let l := dateRange (stepDate u k) b (rangeFuel a b) a
    l.length = (toOrdinal b - toOrdinal a) / (w * k) + 1 ∧
    (∀ i (h : i < l.length), l[i] = fromOrdinal (toOrdinal a + i * (w * k)) ∧
        toOrdinal l[i] = toOrdinal a + i * (w * k)) ∧
    (∀ d ∈ l, toOrdinal d ≤ toOrdinal b) := by
  have hstep : stepDate u k = fun d => d.addDays ((w * k : Nat) : Int) := by
    rcases hu with ⟨rfl, rfl⟩ | ⟨rfl, rfl⟩
    · funext d; simp [stepDate]
    · funext d; simp [stepDate]
  have hw : 1 ≤ w * k := by
    rcases hu with ⟨_, rfl⟩ | ⟨_, rfl⟩ <;> omega
  intro l
  have hl : l = dateRange (fun d => d.addDays ((w * k : Nat) : Int)) b (rangeFuel a b) a := by
    simp only [l, hstep]
  refine ⟨?_, ?_, ?_⟩
  · rw [hl, dateRange_days_length (w * k) hw b (rangeFuel a b) a ha (by unfold rangeFuel; omega), if_pos hab]
  · intro i h
    have h' : i < (dateRange (fun d => d.addDays ((w * k : Nat) : Int)) b (rangeFuel a b) a).length := by rw [← hl]; exact h
    have e : l[i] = fromOrdinal (toOrdinal a + i * (w * k)) := by
      simp only [hl]
      exact dateRange_days (w * k) b (rangeFuel a b) a ha i h'
    refine ⟨e, ?_⟩
    rw [e]
    exact (toOrdinal_fromOrdinal _ (by have := toOrdinal_pos_of_valid a ha; omega)).2
  · rw [hl]; exact dateRange_le_stop _ b _ a

/-- non-vacuity: weekly dates over the leap day of 2024 -/
example : (dateRange (stepDate .week 1) ⟨2024, 3, 31⟩ (rangeFuel ⟨2024, 2, 15⟩ ⟨2024, 3, 31⟩) ⟨2024, 2, 15⟩).map Date.iso =
    ["2024-02-15", "2024-02-22", "2024-02-29", "2024-03-07", "2024-03-14", "2024-03-21", "2024-03-28"] := by
  decide +kernel

/-- **Integer dt on month timelines.**  Every date after the first is `k` months after its predecessor: the month
    index advances by exactly `k` and the day is the previous day clipped to the length of the new month
    (cumulatively, as `sc.daterange` does); the first date is the start; no date lies after `stop`. -/
theorem C07_dates_integer_dt_month (k : Nat) (a b : Date) :
    let l := dateRange (stepDate .month k) b (rangeFuel a b) a
    (∀ h : 0 < l.length, l[0] = a) ∧
    (∀ i (h : i + 1 < l.length), l[i + 1] = addMonths (l[i]'(by omega)) k) ∧
    (∀ t : Date, 1 ≤ t.m → t.m ≤ 12 →
        monthIndex (addMonths t k) = monthIndex t + k ∧
        (addMonths t k).d = min t.d (monthLen (addMonths t k).y (addMonths t k).m)) ∧
    (∀ d ∈ l, toOrdinal d ≤ toOrdinal b) := by
  intro l
  refine ⟨fun h => dateRange_head _ b _ a h, fun i h => dateRange_step _ b _ a i h, ?_, dateRange_le_stop _ b _ a⟩
  intro t h1 h2
  obtain ⟨e1, e2, _, _⟩ := monthIndex_addMonths t k h1 h2
  exact ⟨e1, e2⟩

/-- non-vacuity: monthly steps from 31 January 2020 clip to 29 February and stay on the 29th -/
example : (dateRange (stepDate .month 1) ⟨2020, 5, 31⟩ (rangeFuel ⟨2020, 1, 31⟩ ⟨2020, 5, 31⟩) ⟨2020, 1, 31⟩).map Date.iso =
    ["2020-01-31", "2020-02-29", "2020-03-29", "2020-04-29", "2020-05-29"] := by decide +kernel

/-- **Fractional dt on calendar timelines, `asis`, partial.**  Today's code advances by the constant whole-day step
    `dd = round(dt · days-per-unit)`.  Date `i` is `i·dd` days after the start; it coincides with the elapsed time
    `tvec[i]·days-per-unit = i·dt·days-per-unit` for every `i` exactly when that step is exact (the decidable
    hypothesis excluding the defect), and otherwise the two drift apart by `i·|dd − dt·days-per-unit|`. -/
theorem C07_fractional_dt_partial (u : TUnit) (a b : Date) (dt : Num) (ha : a.valid = true)
    (hpos : 0 < dt.q) (hfrac : dt.q.den ≠ 1) (hdd : 1 ≤ dayDelta u dt) :
    ∃ l, calendarDates .asis u a b dt = .ok l ∧
      (∀ i (h : i < l.length), toOrdinal l[i] = toOrdinal a + i * (dayDelta u dt).toNat) ∧
      (∀ i (h : i < l.length),
        ((toOrdinal l[i] : Rat) - toOrdinal a) - ((i : Rat) * dt.q) * unitDays u
          = (i : Rat) * ((dayDelta u dt : Rat) - dt.q * unitDays u)) ∧
      ((dayDelta u dt : Rat) = dt.q * unitDays u →
        ∀ i (h : i < l.length), (toOrdinal l[i] : Rat) - toOrdinal a = ((i : Rat) * dt.q) * unitDays u) := by
  have hdd' : ((dayDelta u dt).toNat : Int) = dayDelta u dt := Int.toNat_of_nonneg (by omega)
  have hfun : (fun d : Date => d.addDays (dayDelta u dt)) = fun d => d.addDays (((dayDelta u dt).toNat : Nat) : Int) := by
    funext d; rw [hdd']
  refine ⟨dateRange (fun d => d.addDays (dayDelta u dt)) b (rangeFuel a b) a, ?_, ?_, ?_, ?_⟩
  · simp [calendarDates, not_le.2 hpos, hfrac, hdd]
  · intro i h
    simp only [hfun] at h ⊢
    rw [dateRange_days _ b _ a ha i h]
    exact (toOrdinal_fromOrdinal _ (by have := toOrdinal_pos_of_valid a ha; omega)).2
  · intro i h
    have e : toOrdinal (dateRange (fun d => d.addDays (dayDelta u dt)) b (rangeFuel a b) a)[i]
        = toOrdinal a + i * (dayDelta u dt).toNat := by
      simp only [hfun] at h ⊢
      rw [dateRange_days _ b _ a ha i h]
      exact (toOrdinal_fromOrdinal _ (by have := toOrdinal_pos_of_valid a ha; omega)).2
    rw [e]
    have hc : (((dayDelta u dt).toNat : Nat) : Rat) = (dayDelta u dt : Rat) := by exact_mod_cast hdd'
    push_cast
    rw [hc]; ring
  · intro hex i h
    have e : toOrdinal (dateRange (fun d => d.addDays (dayDelta u dt)) b (rangeFuel a b) a)[i]
        = toOrdinal a + i * (dayDelta u dt).toNat := by
      simp only [hfun] at h ⊢
      rw [dateRange_days _ b _ a ha i h]
      exact (toOrdinal_fromOrdinal _ (by have := toOrdinal_pos_of_valid a ha; omega)).2
    rw [e]
    have hc : (((dayDelta u dt).toNat : Nat) : Rat) = (dayDelta u dt : Rat) := by exact_mod_cast hdd'
    push_cast
    rw [hc, hex]; ring

/-- non-vacuity of the hypotheses (unit = day, dt = 5/2: step 2 days) -/
example : (0 : Rat) < (Num.ofRat (5/2)).q ∧ (Num.ofRat (5/2)).q.den ≠ 1 ∧ dayDelta .day (Num.ofRat (5/2)) = 2 := by
  decide +kernel

/-- **Fractional dt, `asis`: counterexample.**  unit = day, dt = 5/2 from 2020-01-01: the code's dates advance by a
    constant 2 days (`2020-01-01, 01-03, 01-05, 01-07, 01-09, …`) while `tvec` advances by 2.5; at `i = 4` the date
    is 8 days after the start but the elapsed time is 10 days — more than a calendar day apart.  The `spec`
    variant places point 4 on day 10. -/
theorem C07_fractional_dt_counterexample :
    (calendarDates .asis .day ⟨2020, 1, 1⟩ ⟨2020, 1, 31⟩ (Num.ofRat (5/2))).toOption.map (fun l => (l.take 5).map Date.iso)
      = some ["2020-01-01", "2020-01-03", "2020-01-05", "2020-01-07", "2020-01-09"] ∧
    (tvecOf (5/2) 5)[4]? = some 10 ∧
    (calendarDates .spec .day ⟨2020, 1, 1⟩ ⟨2020, 1, 31⟩ (Num.ofRat (5/2))).toOption.map (fun l => (l.take 5).map Date.iso)
      = some ["2020-01-01", "2020-01-03", "2020-01-06", "2020-01-09", "2020-01-11"] ∧
    (calendarDates .asis .day ⟨2020, 1, 1⟩ ⟨2020, 1, 31⟩ (Num.ofRat (5/2))).toOption.map List.length = some 16 ∧
    (calendarDates .spec .day ⟨2020, 1, 1⟩ ⟨2020, 1, 31⟩ (Num.ofRat (5/2))).toOption.map List.length = some 13 := by
  decide +kernel

/-! ### year ↔ date -/

/-- **Representations agree (year ↔ date), `spec`.**  The date `sc.yeartodate` gives for a decimal year lies within
    half a day of the instant the year denotes: `|days after 1 January − fraction·yearlen| ≤ 1/2`. -/
theorem C07_representations_agree (y : Rat) :
    |((yearToDays .spec y).2 : Rat) - (y - ((yearToDays .spec y).1 : Rat)) * (yearLen (yearToDays .spec y).1 : Rat)| ≤ 1 / 2 := by
  simp only [yearToDays]
  exact rhe_close _

/-- for year values that are whole days the conversions are mutually inverse (here: a sample, kernel-checked) -/
example : yearToDate .spec (dateToYear ⟨2024, 10, 1⟩) = ⟨2024, 10, 1⟩ ∧ yearToDate .asis 2020 = ⟨2020, 1, 1⟩ ∧
    yearToDate .asis (40025/20) = ⟨2001, 4, 2⟩ := by decide +kernel

/-! ### placement of a module on the sim's elapsed-time axis -/

/-- **abstvec, numeric timelines.**  When module and sim are both numeric, module point `i` lies at
    `tvec[i]·(module unit / sim unit) + (module start − sim start)` sim units (rounded to `time_eps`); in the same
    unit that is the module's own time minus the sim's start. -/
theorem C07_abstvec_numeric (v : Variant) (m sim : Timeline) (a b : Num) (r : Rat)
    (hm : m.start = .num a) (hs : sim.start = .num b)
    (hu : decide (m.unit = .unitless) = decide (sim.unit = .unitless)) (hr : unitRatio m.unit sim.unit = .ok r)
    (hint : v = .spec ∨ m.dt.int = false) :
    makeAbstvec v m sim = .ok (m.tvec.map (fun t => round6 (t * r + (a.q - b.q)))) ∧
    (m.unit = sim.unit → r = 1) := by
  constructor
  · rcases hint with rfl | hi
    · simp [makeAbstvec, hm, hs, hu, hr, TVal.isNum, bind, Except.bind, pure, Except.pure]
    · simp [makeAbstvec, hm, hs, hu, hr, hi, TVal.isNum, bind, Except.bind, pure, Except.pure]
  · intro h
    simp [unitRatio, h] at hr
    exact hr.symm

/-- **abstvec, year-based sim** (module or sim not numeric): module point `i` lies at `yearvec[i] − sim.yearvec[0]`
    years, the difference of the instants. -/
theorem C07_abstvec_year (v : Variant) (m sim : Timeline)
    (hu : decide (m.unit = .unitless) = false) (hsu : sim.unit = .year)
    (hn : (m.start.isNum && sim.start.isNum) = false) :
    makeAbstvec v m sim = .ok (m.yearvec.map (fun y => round6 (y - sim.yearvec.headD 0))) := by
  simp [makeAbstvec, hu, hsu, hn, pure, Except.pure]

/-- **abstvec, day/week/month sim** (module or sim not numeric): module point `i` lies at
    `(days from the sim's first date to the module's date i) / days-per-sim-unit`. -/
theorem C07_abstvec_days (v : Variant) (m sim : Timeline) (w : Rat)
    (hu : decide (m.unit = .unitless) = false) (hsu : sim.unit ≠ .year) (hsl : sim.unit ≠ .unitless)
    (hw : unitDays? sim.unit = some w) (hn : (m.start.isNum && sim.start.isNum) = false) :
    makeAbstvec v m sim = .ok (m.datevec.map (fun d => round6 ((d.diffDays (sim.datevec.headD default) : Int) *
        (if sim.unit = .day then 1 else 1 / w)))) := by
  have h1 : unitDays? .day = some 1 := C07_units_positive.2.1
  by_cases hd : sim.unit = .day
  · simp [makeAbstvec, hu, hn, hd, unitRatio, bind, Except.bind, pure, Except.pure]
  · have hd' : ¬ (TUnit.day = sim.unit) := fun h => hd h.symm
    simp [makeAbstvec, hu, hsu, hsl, hn, hd, hd', unitRatio, hw, h1, bind, Except.bind, pure, Except.pure]

/-- the placement has one entry per module point -/
theorem C07_abstvec (v : Variant) (m sim : Timeline) (l : List Rat) (h : makeAbstvec v m sim = .ok l)
    (h1 : m.tvec.length = m.npts) (h2 : m.yearvec.length = m.npts) (h3 : m.datevec.length = m.npts) :
    l.length = m.npts := by
  unfold makeAbstvec at h
  simp only [bind, Except.bind, pure, Except.pure, throw, throwThe, MonadExceptOf.throw] at h
  repeat' split at h
  all_goals first
    | (cases h; done)
    | (cases h; simp [h1]; done)
    | (cases h; simp [h2]; done)
    | (cases h; simp [h3])

/-! ### one entry per time point -/

/-- **Vector and result lengths.**  Every accepted specification gives vectors with exactly `npts` entries, and every
    result of the owner is created with `npts` entries. -/
theorem C07_results_len (v : Variant) (s : Spec) (t : Timeline) (h : initTime v s = .ok t) :
    resultLen t = t.npts ∧ t.tvec.length = t.npts ∧ t.yearvec.length = t.npts ∧ t.datevec.length = t.npts ∧
    (t.numeric = true → t.timevec.length = t.npts) := by
  have mapM_len : ∀ (ys : List Rat) (ds : List Date), yearsToDates v ys = .ok ds → ds.length = ys.length := by
    intro ys
    induction ys with
    | nil => intro ds h; simp [yearsToDates, List.mapM_nil, pure, Except.pure] at h; simp [← h]
    | cons y ys ih =>
        intro ds h
        simp only [yearsToDates, List.mapM_cons, bind, Except.bind, pure, Except.pure] at h ih
        split at h
        · cases h
        · rename_i d hd
          split at h
          · cases h
          · rename_i rest hrest
            cases h
            simp [ih rest hrest]
  refine ⟨rfl, ?_⟩
  unfold initTime at h
  simp only [bind, Except.bind, pure, Except.pure, throw, throwThe, MonadExceptOf.throw] at h
  repeat' split at h
  all_goals first
    | (cases h; done)
    | (cases h
       have hm := mapM_len _ _ (by assumption)
       simp [tvecOf, grid] at hm ⊢
       exact hm)
    | (cases h; simp [tvecOf])

/-! ### rejections -/

/-- `stop` and `dur` both given: rejected (ValueError), whatever the rest -/
theorem C07_reject_stop_and_dur (p : SimPars) (stop : TVal) (dur : Num) (u : TUnit)
    (hu : validateUnit (if p.unit = Gen.simUnitPlaceholder then Gen.defaultUnit else p.unit) = some u)
    (hs : p.stop = some stop) (hd : p.dur = some dur) : validateTime p = .error .value := by
  simp [validateTime, hu, hs, hd, bind, Except.bind, pure, Except.pure, throw, throwThe, MonadExceptOf.throw]

/-- an unknown unit is rejected (KeyNotFoundError) -/
theorem C07_reject_unknown_unit (p : SimPars)
    (hu : validateUnit (if p.unit = Gen.simUnitPlaceholder then Gen.defaultUnit else p.unit) = none) :
    validateTime p = .error .key := by
  simp [validateTime, hu, bind, Except.bind, throw, throwThe, MonadExceptOf.throw]

/-- a numeric stop that is not after the start is rejected (`dur <= 0`, ValueError) -/
theorem C07_reject_nonpositive_dur (p : SimPars) (a b : Num) (u : TUnit)
    (hu : validateUnit (if p.unit = Gen.simUnitPlaceholder then Gen.defaultUnit else p.unit) = some u)
    (hst : p.start = some (.num a)) (hs : p.stop = some (.num b)) (hd : p.dur = none) (hle : b.q ≤ a.q) :
    validateTime p = .error .value := by
  have : b.q - a.q ≤ 0 := by linarith
  simp [validateTime, hu, hst, hs, hd, dateDiff, this, bind, Except.bind, pure, Except.pure, throw, throwThe, MonadExceptOf.throw]

/-- a fractional calendar step that rounds to less than one day is rejected (ValueError) -/
theorem C07_reject_small_step (u : TUnit) (a b : Date) (dt : Num)
    (hpos : 0 < dt.q) (hfrac : dt.q.den ≠ 1) (hdd : dayDelta u dt < 1) :
    calendarDates .asis u a b dt = .error .value := by
  simp [calendarDates, not_le.2 hpos, hfrac, not_le.2 hdd]

/-- a module with units in a unitless sim (or the reverse) is rejected (ValueError) -/
theorem C07_reject_mix_unitless (m sim : Timeline)
    (v : Variant) (h : decide (m.unit = .unitless) ≠ decide (sim.unit = .unitless)) : makeAbstvec v m sim = .error .value := by
  simp [makeAbstvec, h, bind, Except.bind, throw, throwThe, MonadExceptOf.throw]

/-- non-vacuity of the rejections, and an accepted neighbour of each -/
example :
    err? (validateTime ⟨"year", some (.num (Num.ofRat 2000)), some (.num (Num.ofRat 2010)), some (Num.ofRat 10), Num.ofRat 1⟩) = some .value ∧
    err? (validateTime ⟨"fortnight", none, none, none, Num.ofRat 1⟩) = some .key ∧
    err? (validateTime ⟨"year", some (.num (Num.ofRat 2000)), some (.num (Num.ofRat 2000)), none, Num.ofRat 1⟩) = some .value ∧
    err? (calendarDates .asis .day ⟨2020, 1, 1⟩ ⟨2020, 2, 1⟩ (Num.ofRat (2/5))) = some .value ∧
    (validateTime ⟨"year", some (.num (Num.ofRat 2000)), some (.num (Num.ofRat 2010)), none, Num.ofRat 1⟩).toOption.isSome = true ∧
    (validateTime ⟨"", none, none, none, Num.ofRat 1⟩).toOption.map (fun s => (s.unit, s.start, s.stop))
      = some (.year, .num (Num.ofNat 2000), .num ⟨2050, 2050, false⟩) := by
  decide +kernel

/-- non-vacuity end to end: the sim `unit='day', start=2020-01-01, dur=30, dt=1` with a module `unit='week', dt=1`:
    31 sim points, 5 module points placed at days 0, 7, 14, 21, 28 -/
example :
    ((simTimeline .asis ⟨"day", some (.date ⟨2020, 1, 1⟩), none, some (Num.ofRat 30), Num.ofRat 1⟩).toOption.bind
      (fun s => (moduleTimeline .asis s ⟨some "week", none, none, some (Num.ofRat 1)⟩).toOption.map
        (fun m => (s.npts, m.npts, m.abstvec)))) = some (31, 5, some [0, 7, 14, 21, 28]) := by
  decide +kernel

/-! ### round 5: the integration loop places every owner at its own instants -/

/-- **Placement in the integration plan.**  A module whose points `make_abstvec` puts at `l` is scheduled by the loop at
    exactly `l`: one call per point of its timeline (`npts` calls), at that point's instant on the sim's elapsed-time axis —
    not at the sim's points, whatever the two lengths are. -/
theorem C07_plan_placement (v : Variant) (m sim : Timeline) (l : List Rat) (h : makeAbstvec v m sim = .ok l)
    (h1 : m.tvec.length = m.npts) (h2 : m.yearvec.length = m.npts) (h3 : m.datevec.length = m.npts) :
    loopPlacement { m with abstvec := some l } = l ∧ (loopPlacement { m with abstvec := some l }).length = m.npts := by
  refine ⟨by simp [loopPlacement], ?_⟩
  simpa [loopPlacement] using C07_abstvec v m sim l h h1 h2 h3

/-- the sim's own functions are scheduled at the sim's `tvec` -/
theorem C07_plan_placement_sim (v : Variant) (p : SimPars) (t : Timeline) (h : simTimeline v p = .ok t) :
    loopPlacement t = t.tvec := by
  unfold simTimeline at h
  simp only [bind, Except.bind, pure, Except.pure, throw, throwThe, MonadExceptOf.throw] at h
  repeat' split at h
  all_goals first
    | (cases h; done)
    | (cases h; simp [loopPlacement])

/-- non-vacuity, and *equal length is not equal placement*: the sim 2000–2010, dt = 1 (11 points at 0, 1, …, 10) with a module
    `start=2005, stop=2010, dt=0.5`: also 11 points, scheduled at 5, 5.5, …, 10 -/
example :
    ((simTimeline .asis ⟨"year", some (.num (Num.ofInt 2000)), some (.num (Num.ofInt 2010)), none, Num.ofRat 1⟩).toOption.bind
      (fun s => (moduleTimeline .asis s ⟨none, some (.num (Num.ofRat 2005)), some (.num (Num.ofRat 2010)), some (Num.ofRat (1/2))⟩).toOption.map
        (fun m => (s.npts, m.npts, loopPlacement s, loopPlacement m))))
      = some (11, 11, [0, 1, 2, 3, 4, 5, 6, 7, 8, 9, 10], [5, 11/2, 6, 13/2, 7, 15/2, 8, 17/2, 9, 19/2, 10]) := by
  decide +kernel

/-! ### round 2: int-typed dt, non-positive dt, numeric offsets, `Time.update`, `Time.now` -/

/-- **A step that does not advance, `spec`: rejected.**  dt ≤ 0 on a day/week/month date timeline is a ValueError. -/
theorem C07_reject_nonpositive_dt (u : TUnit) (a b : Date) (dt : Num) (h : dt.q ≤ 0) :
    calendarDates .spec u a b dt = .error .value := by
  simp [calendarDates, h]

/-- **dt = 0 on a date timeline, `asis`: counterexample (for every unit and every start ≤ stop).**  Today's code hands
    the step to `sc.daterange` unchecked; its loop `curr_date += 0 days` never ends: the constructor does not return. -/
theorem C07_dt_zero_counterexample (u : TUnit) (a b : Date) (hab : toOrdinal a ≤ toOrdinal b) :
    calendarDates .asis u a b (Num.ofRat 0) = .error .hang ∧ calendarDates .asis u a b (Num.ofInt 0) = .error .hang := by
  have h0 : (Num.ofRat 0).q = 0 := by decide +kernel
  have h1 : (Num.ofInt 0).q = 0 := by decide +kernel
  have hn : ¬ (toOrdinal b < toOrdinal a) := by omega
  constructor
  · simp [calendarDates, h0, hn]
  · simp [calendarDates, h1, hn]

/-- end to end: `ss.Sim(unit='day', start='2020-01-01', stop='2020-02-01', dt=0)` hangs; with dt = 1 it has 32 points -/
example :
    err? (simTimeline .asis ⟨"day", some (.date ⟨2020, 1, 1⟩), some (.date ⟨2020, 2, 1⟩), none, Num.ofRat 0⟩) = some .hang ∧
    err? (simTimeline .spec ⟨"day", some (.date ⟨2020, 1, 1⟩), some (.date ⟨2020, 2, 1⟩), none, Num.ofRat 0⟩) = some .value ∧
    (simTimeline .asis ⟨"day", some (.date ⟨2020, 1, 1⟩), some (.date ⟨2020, 2, 1⟩), none, Num.ofRat 1⟩).toOption.map (·.npts) = some 32 := by
  decide +kernel

/-- **int-typed dt, `asis`: counterexample.**  `ss.SIS(dt=2, start=2000.5)` in a sim 2000–2010: with the Python int 2 the
    module's `tvec` is an integer array and `make_abstvec` cannot add the float offset 0.5 to it (NumPy casting
    TypeError); with dt = 2.0 the same specification is accepted (5 points placed at 0.5, 2.5, …). -/
theorem C07_int_dt_counterexample :
    (let sim := simTimeline .asis ⟨"year", some (.num (Num.ofInt 2000)), some (.num (Num.ofInt 2010)), none, Num.ofRat 1⟩
     (sim.toOption.bind (fun s => err? (moduleTimeline .asis s ⟨none, some (.num (Num.ofRat (4001/2))), none, some (Num.ofInt 2)⟩)),
      sim.toOption.bind (fun s => (moduleTimeline .asis s ⟨none, some (.num (Num.ofRat (4001/2))), none, some (Num.ofRat 2)⟩).toOption.map (·.abstvec)),
      sim.toOption.bind (fun s => (moduleTimeline .spec s ⟨none, some (.num (Num.ofRat (4001/2))), none, some (Num.ofInt 2)⟩).toOption.map (·.abstvec))))
    = (some .type, some (some [1/2, 5/2, 9/2, 13/2, 17/2]), some (some [1/2, 5/2, 9/2, 13/2, 17/2])) := by
  decide +kernel

/-- **Numeric offsets, `asis`: counterexample.**  A numeric start is a YEAR in yearvec/datevec (and 0 is the default start
    year), but the offset between a module and its sim is the raw difference of the start numbers in sim units:
    `ss.SIS(start=5.0)` in `ss.Sim(unit='day', start=0, dur=400, dt=5)` is placed 5 days after the sim start although its
    dates start on 0005-01-01 and the sim's on 2000-01-01. -/
theorem C07_numeric_offset_counterexample :
    (let sim := simTimeline .asis ⟨"day", some (.num (Num.ofInt 0)), none, some (Num.ofInt 400), Num.ofRat 5⟩
     sim.toOption.bind (fun s => (moduleTimeline .asis s ⟨none, some (.num (Num.ofRat 5)), none, none⟩).toOption.map
       (fun m => (s.datevec.head?.map Date.iso, m.datevec.head?.map Date.iso, m.abstvec.map (·.take 2)))))
    = some (some "2000-01-01", some "0005-01-01", some [5, 10]) := by
  decide +kernel

/-- **Numeric offsets, partial.**  With equal start numbers there is no offset: module point `i` lies at
    `tvec[i]·(module unit / sim unit)` sim units. -/
theorem C07_numeric_offset_partial (v : Variant) (m sim : Timeline) (a b : Num) (r : Rat)
    (hm : m.start = .num a) (hs : sim.start = .num b) (hab : a.q = b.q)
    (hu : decide (m.unit = .unitless) = decide (sim.unit = .unitless)) (hr : unitRatio m.unit sim.unit = .ok r)
    (hint : v = .spec ∨ m.dt.int = false) :
    makeAbstvec v m sim = .ok (m.tvec.map (fun t => round6 (t * r))) := by
  rw [(C07_abstvec_numeric v m sim a b r hm hs hu hr hint).1, hab]
  simp

/-- **`Time.update`: precedence.**  With `force=None`/`True` a keyword argument wins over everything, then `pars`;
    with `force=False` a value the object already holds is never changed; a value nobody supplies stays `None`. -/
theorem C07_update_precedence (self kw pars : TPars) (parent : Option TPars) :
    (∀ f, f ≠ Force.onlyMissing → ∀ x, kw.start = some x → (update f self kw pars parent).start = some x) ∧
    (∀ f, f ≠ Force.onlyMissing → ∀ x, kw.dt = some x → (update f self kw pars parent).dt = some x) ∧
    (∀ f, f ≠ Force.onlyMissing → kw.stop = none → ∀ x, pars.stop = some x → (update f self kw pars parent).stop = some x) ∧
    (∀ x, self.start = some x → (update .onlyMissing self kw pars parent).start = some x) ∧
    (∀ x, self.dt = some x → (update .onlyMissing self kw pars parent).dt = some x) ∧
    (∀ x, self.unit = some x → (update .onlyMissing self kw pars parent).unit = some x) ∧
    (∀ f, self.stop = none → kw.stop = none → pars.stop = none → parent = none → (update f self kw pars parent).stop = none) := by
  refine ⟨?_, ?_, ?_, ?_, ?_, ?_, ?_⟩
  · intro f hf x hx; cases f <;> simp_all [update, pick, ifelse]
  · intro f hf x hx; cases f <;> simp_all [update, pick, ifelse]
  · intro f hf hk x hx; cases f <;> simp_all [update, pick, ifelse]
  · intro x hx; simp [update, pick, ifelse, hx]
  · intro x hx; simp [update, pick, ifelse, hx]
  · intro x hx; simp [update, pick, ifelse, hx]
  · intro f h1 h2 h3 h4; cases f <;> simp [update, pick, ifelse, h1, h2, h3, h4]

/-- **`Time.update`: the dt a parent offers.**  A parent `Time` in another unit offers `dt = 1.0`, never its own dt; the
    unit compared is the one the object holds BEFORE the update (dt is reconciled before unit). -/
theorem C07_update_parent_dt (self : TPars) (p : TPars) (hdt : self.dt = none) :
    (p.unit ≠ self.unit → (update .current self {} {} (some p)).dt = some (Num.ofRat 1)) ∧
    (p.unit = self.unit → (update .current self {} {} (some p)).dt = p.dt) := by
  constructor
  · intro h; simp [update, pick, ifelse, hdt, h]
  · intro h; simp [update, pick, ifelse, hdt, h]
    cases p.dt <;> simp [ifelse]

/-- consequence (kernel-checked): a child without unit and dt takes the parent's unit but dt = 1.0, not the parent's 0.25;
    and `force=True` is not idempotent — a second identical update then takes the parent's dt -/
theorem C07_update_order_counterexample :
    (let p : TPars := ⟨some (.num (Num.ofInt 1990)), some (.num (Num.ofInt 2010)), some (Num.ofRat (1/4)), some "year"⟩
     let s : TPars := ⟨some (.num (Num.ofInt 2000)), none, none, none⟩
     let u1 := update .parent s {} {} (some p)
     let u2 := update .parent u1 {} {} (some p)
     (u1.unit, u1.dt, u2.dt)) = (some "year", some (Num.ofRat 1), some (Num.ofRat (1/4))) := by
  decide +kernel

/-- **`Time.update` is idempotent for `force=False` and `force=None`** (same arguments twice change nothing more), when the
    parent, if any, does not change which dt it offers (its unit is the unit the object ends up with or holds). -/
theorem C07_update_idempotent (f : Force) (hf : f ≠ .parent) (self kw pars : TPars) :
    update f (update f self kw pars none) kw pars none = update f self kw pars none := by
  simp [update, pick_idem f hf]

/-- **`Time.now`.**  Every representation is read at the same index: the step counter while it is on the timeline, the
    last point afterwards; so `now('year')`, `now('date')` and `now('tvec')` are entries of one and the same time point,
    and for an accepted non-empty timeline all of them exist. -/
theorem C07_now (v : Variant) (s : Spec) (t : Timeline) (h : initTime v s = .ok t) (hn : 0 < t.npts) (ti : Nat) :
    (ti < t.npts → nowIndex t.npts ti = ti) ∧ (t.npts ≤ ti → nowIndex t.npts ti = t.npts - 1) ∧
    nowIndex t.npts ti < t.npts ∧
    (t.nowYear ti).isSome = true ∧ (t.nowDate ti).isSome = true ∧ (t.nowTvec ti).isSome = true := by
  obtain ⟨_, h1, h2, h3, _⟩ := C07_results_len v s t h
  have hi : nowIndex t.npts ti < t.npts := by unfold nowIndex; omega
  refine ⟨fun h => by unfold nowIndex; omega, fun h => by unfold nowIndex; omega, hi, ?_, ?_, ?_⟩
  · simp [Timeline.nowYear, h2, hi]
  · simp [Timeline.nowDate, h3, hi]
  · simp [Timeline.nowTvec, h1, hi]

/-- mixed kinds: a number and a date with unit year are refused (`sc.datetoyear` on a number: AttributeError);
    with another unit the number is read as a year -/
theorem C07_mixed_kinds_year (a : Num) (b : Date) :
    dateDiff (.num a) (.date b) .year = .error .other ∧ dateDiff (.date b) (.num a) .year = .error .other := by
  simp [dateDiff]

example :
    (simTimeline .asis ⟨"day", some (.date ⟨2000, 1, 1⟩), some (.num (Num.ofRat (10001/5))), none, Num.ofRat 1⟩).toOption.map (·.npts) = some 74 ∧
    err? (simTimeline .asis ⟨"day", some (.num (Num.ofInt 2000)), some (.date ⟨2000, 3, 1⟩), none, Num.ofRat 1⟩) = some .type ∧
    -- a negative duration given directly is not checked: one point after stop (asis), rejected downstream (spec)
    (simTimeline .asis ⟨"year", some (.num (Num.ofInt 2000)), none, some (Num.ofRat (-1/2)), Num.ofRat 1⟩).toOption.map (·.npts) = some 1 ∧
    err? (simTimeline .spec ⟨"year", some (.num (Num.ofInt 2000)), none, some (Num.ofRat (-1/2)), Num.ofRat 1⟩) = some .other := by
  decide +kernel

end StarsimModel.C07
