/-
C04 — No random-number generator state is ever used twice in a run.

Property theorems only (helper lemmas are in Lemmas/Rng.lean).  The model is Model/Rng.lean; the stride
`Gen.dtJumpSize`, the default `delta` and the `ti + 1` offset come from Generated/RngConsts.lean, which is
regenerated from /repo/starsim/distributions.py on every run.
-/
import StarsimModel.Lemmas.Rng
import StarsimModel.Generated.SeedFacts
import StarsimModel.Generated.StreamSites

namespace StarsimModel.C04
open StarsimModel.Rng

/-- The stride the code uses must be positive, otherwise successive steps would share a state.
    (Obligation on the regenerated constant.) -/
theorem C04_stride_positive : 0 < Gen.dtJumpSize := by decide

/-- The auto-advance after a draw must move forward. -/
theorem C04_delta_positive : 0 < Gen.jumpDefaultDelta := by decide

/-- The simulation loop advances streams only through `Module.start_step`, whose call — regenerated from the source —
    is the plain, unforced `self.dists.jump_dt()`: the hypothesis `loopOp` of the theorems below (no `force`) is
    what the code does.  (A forced jump there would silently overlap instead of raising when a step over-draws.) -/
theorem C04_loop_jumps_unforced : Gen.Seed.startStepOwn = true ∧ Gen.Seed.startStepForced = false := by decide

/-- The jump target and the default step translated from `Dist.jump_dt` are the model's: `stride * ti`, and the owner's
    `ti + 1` (so draws made during step `ti` start at `stride * (ti + 1)`, never at a step's own window start 0). -/
theorem C04_jump_target_is_model (ti : Int) :
    Gen.jumpDtTarget ti = (Gen.dtJumpSize : Int) * ti ∧ Gen.jumpDtDefaultTi ti = ti + 1 := by
  unfold Gen.jumpDtTarget Gen.jumpDtDefaultTi Gen.dtJumpSize; omega

/-- **Monotone.** For every operation list the simulation loop can issue (jumps, timestep jumps, draws,
    direct generator use; no `force`, no `reset`, no re-`init`), from any state whose generator is not behind
    its index, the positions draws start from are strictly increasing in `(ind, draws since the jump)`. -/
theorem C04_monotone (d : Dist) (ops : List Op) (hops : ∀ op ∈ ops, op.loopOp = true) (hc : Coherent d) :
    (run d ops).2.Pairwise Pos.lt :=
  (run_sorted ops d hops hc).1

/-- **No state twice (one distribution).** -/
theorem C04_no_state_twice (d : Dist) (ops : List Op) (hops : ∀ op ∈ ops, op.loopOp = true) (hc : Coherent d) :
    (run d ops).2.Nodup := by
  have h := C04_monotone d ops hops hc
  exact h.imp (fun hlt => Pos.ne_of_lt hlt)

/-- A freshly initialised distribution is coherent, whatever happened to the object before `init`
    provided its index was not moved backwards (it is 0 for a new object). -/
theorem C04_init_coherent (d : Dist) (o : Nat) (s : Option Nat) (f : Bool) (h : 0 ≤ d.ind) :
    Coherent (step d (.init o s f)).1 := by
  simp [step, Coherent, h]

/-- One non-empty draw on an initialised, ready, auto-advancing distribution: it starts at the current
    position and leaves the distribution one jump further, with nothing drawn since. -/
theorem C04_auto_draw (d : Dist) (n : Nat) (hn : n ≠ 0)
    (hi : d.initialized = true) (ha : d.auto = true) (hr : d.ready = true) :
    (step d (.rvs n false)).2 = .ok (some d.pos) ∧
    (step d (.rvs n false)).1.initialized = true ∧ (step d (.rvs n false)).1.auto = true ∧
    (step d (.rvs n false)).1.ready = true ∧
    (step d (.rvs n false)).1.pos = ⟨d.ind + 1, []⟩ ∧ (step d (.rvs n false)).1.ind = d.ind + 1 := by
  simp [step, hi, ha, hr, hn, doJump, Gen.jumpDefaultDelta]

/-- **Formula.** After `jump_dt` has put an initialised auto-advancing distribution at jump index `j`
    (`j = stride*(ti+1)` in the loop), the `k`-th non-empty draw of the step starts at jump index `j + k`
    with nothing drawn since the jump. -/
theorem C04_formula (sizes : List Nat) (hs : ∀ n ∈ sizes, n ≠ 0) :
    ∀ (d : Dist) (j : Int), d.initialized = true → d.auto = true → d.ready = true → d.pos = ⟨j, []⟩ → d.ind = j →
    (run d (sizes.map (fun n => Op.rvs n false))).2 =
      (List.range sizes.length).map (fun (k : Nat) => (⟨j + (k : Int), []⟩ : Pos)) := by
  induction sizes with
  | nil => intro d j _ _ _ _ _; simp [run]
  | cons n sizes ih =>
      intro d j hi ha hr hp hind
      have hn : n ≠ 0 := hs n (List.mem_cons_self ..)
      have hrest : ∀ m ∈ sizes, m ≠ 0 := fun m hm => hs m (List.mem_cons_of_mem _ hm)
      obtain ⟨h2, hi', ha', hr', hp', hind'⟩ := C04_auto_draw d n hn hi ha hr
      have := ih hrest (step d (.rvs n false)).1 (j + 1) hi' ha' hr' (by rw [hp', hind]) (by rw [hind', hind])
      simp only [List.map_cons, run, h2, Res.start, this, hp, List.length_cons, List.range_succ_eq_map,
        List.map_map]
      congr 1
      · simp
      · apply List.map_congr_left
        intro k _
        simp only [Function.comp, Pos.mk.injEq, and_true]
        omega

/-- `jump_dt(ti)` on an initialised distribution whose index is below `stride*ti` lands exactly there. -/
theorem C04_jumpDt_lands (d : Dist) (ti : Int) (hi : d.initialized = true)
    (hlt : d.ind < (Gen.dtJumpSize : Int) * ti) :
    (step d (.jumpDt ti false)).1.pos = ⟨(Gen.dtJumpSize : Int) * ti, []⟩ ∧
    (step d (.jumpDt ti false)).1.ind = (Gen.dtJumpSize : Int) * ti ∧
    (step d (.jumpDt ti false)).1.ready = true ∧ (step d (.jumpDt ti false)).2 = .ok none := by
  have : ¬ (d.ind ≥ (Gen.dtJumpSize : Int) * ti) := by omega
  simp [step, jumpTo, this, hi, doJump]

/-- **Stride overflow errors rather than overlaps.** If a distribution was drawn from `stride` or more
    times in step `ti` (index ≥ `stride*(ti+1)`), the next `jump_dt(ti+1)` raises and changes nothing. -/
theorem C04_stride_overflow_errors (d : Dist) (ti : Int)
    (h : d.ind ≥ (Gen.dtJumpSize : Int) * (ti + 1)) :
    step d (.jumpDt (ti + 1) false) = (d, .error .seedRepeat) := by
  simp [step, jumpTo, h]

/-- **`check_seeds`** accepts exactly the duplicate-free seed lists. -/
theorem C04_checkSeeds_aux (l : List Nat) : ∀ seen, checkSeeds seen l = .ok () ↔ (l.Nodup ∧ ∀ s ∈ l, s ∉ seen) := by
  induction l with
  | nil => intro seen; simp [checkSeeds]
  | cons s rest ih =>
      intro seen
      simp only [checkSeeds]
      by_cases hs : s ∈ seen
      · simp [hs]
      · simp only [hs, ↓reduceIte, ih, List.nodup_cons, List.mem_cons, forall_eq_or_imp, not_false_eq_true,
          true_and]
        constructor
        · rintro ⟨hn, hall⟩
          refine ⟨⟨fun hmem => ?_, hn⟩, fun x hx => ?_⟩
          · exact (hall s hmem) (Or.inl rfl)
          · intro hxs; exact (hall x hx) (Or.inr hxs)
        · rintro ⟨⟨hns, hn⟩, hall⟩
          refine ⟨hn, fun x hx => ?_⟩
          rintro (rfl | hxs)
          · exact hns hx
          · exact hall x hx hxs

theorem C04_checkSeeds (l : List Nat) : checkSeeds [] l = .ok () ↔ l.Nodup := by
  simp [C04_checkSeeds_aux]

/-- **Global uniqueness.** For any number of distributions with pairwise distinct seeds, any interleaving
    of their loop operations and any run length, no `(seed, position)` pair is used by two draws. -/
theorem C04_global_unique (ds : List Dist) (ops : List (Nat × Op))
    (hops : ∀ o ∈ ops, o.2.loopOp = true) (hc : ∀ d ∈ ds, Coherent d)
    (hseeds : (ds.map (·.seed)).Nodup) :
    ((runMany ds ops).2.map (fun e => ((ds.map (·.seed))[e.1]?, e.2))).Nodup := by
  obtain ⟨hsorted, hvalid, _⟩ := runMany_sorted ops ds hops hc
  rw [List.Nodup, List.pairwise_map]
  -- strengthen Pairwise with membership
  have hmem : (runMany ds ops).2.Pairwise (fun a b => LogRel a b ∧ (∃ d, ds[a.1]? = some d) ∧ (∃ d, ds[b.1]? = some d)) := by
    rw [List.pairwise_iff_forall_sublist] at *
    intro a b hab
    have ha : a ∈ (runMany ds ops).2 := hab.subset (by simp)
    have hb : b ∈ (runMany ds ops).2 := hab.subset (by simp)
    obtain ⟨da, hda, _⟩ := hvalid a ha
    obtain ⟨db, hdb, _⟩ := hvalid b hb
    exact ⟨hsorted hab, ⟨da, hda⟩, ⟨db, hdb⟩⟩
  refine hmem.imp ?_
  rintro a b ⟨hrel, ⟨da, hda⟩, ⟨db, hdb⟩⟩ heq
  simp only [Prod.mk.injEq] at heq
  obtain ⟨hs, hp⟩ := heq
  by_cases hij : a.1 = b.1
  · exact Pos.ne_of_lt (hrel hij) hp
  · have hia : a.1 < ds.length := by
      rcases List.getElem?_eq_some_iff.mp hda with ⟨h, _⟩; exact h
    have hib : b.1 < ds.length := by
      rcases List.getElem?_eq_some_iff.mp hdb with ⟨h, _⟩; exact h
    have hla : a.1 < (ds.map (·.seed)).length := by simpa using hia
    have hlb : b.1 < (ds.map (·.seed)).length := by simpa using hib
    rw [List.getElem?_eq_getElem hla, List.getElem?_eq_getElem hlb] at hs
    have := (List.getElem_inj hseeds).mp (Option.some.inj hs)
    exact hij this

/-! ### Guards -/

/-- An uninitialised distribution refuses to draw. -/
theorem C04_uninitialised_refuses (d : Dist) (n : Nat) (r : Bool) (h : d.initialized = false) :
    step d (.rvs n r) = (d, .error .notInitialized) := by
  simp [step, h]

/-- A strict, non-auto distribution refuses a second draw in a step … -/
theorem C04_strict_second_draw_refuses (d : Dist) (n m : Nat) (hn : n ≠ 0)
    (hi : d.initialized = true) (hr : d.ready = true) (hs : d.strict = true) (ha : d.auto = false) :
    (step (step d (.rvs n false)).1 (.rvs m false)).2 = .error .notReady := by
  simp [step, hi, hr, hs, ha, hn]

/-- … and draws again after a jump. -/
theorem C04_strict_draw_after_jump (d : Dist) (n m : Nat) (hn : n ≠ 0) (hm : m ≠ 0)
    (hi : d.initialized = true) (hr : d.ready = true) (hs : d.strict = true) (ha : d.auto = false) :
    ∃ p, (step (step (step d (.rvs n false)).1 (.jump none 1 false)).1 (.rvs m false)).2 = .ok (some p)
      ∧ p = ⟨d.ind + 1, []⟩ := by
  have h : ¬ (d.ind + 1 ≤ d.ind) := by omega
  simp [step, jumpTo, hi, hr, hs, ha, hn, hm, doJump, h]

/-- Moving a stream backwards (or not forwards) is refused and changes nothing … -/
theorem C04_backward_jump_refused (d : Dist) (to : Int) (delta : Int) (h : to ≤ d.ind) :
    step d (.jump (some to) delta false) = (d, .error .seedRepeat) := by
  simp [step, jumpTo, h]

/-- … unless forced. -/
theorem C04_forced_jump_allowed (d : Dist) (to : Int) (delta : Int) (hi : d.initialized = true) :
    step d (.jump (some to) delta true) = (doJump d to, .ok none) := by
  simp [step, jumpTo, hi]

/-- Changing a distribution's parameters does not make a spent strict distribution drawable again: after a draw,
    `set(...)` and a second draw in the same step, the second draw is still refused. -/
theorem C04_set_does_not_rearm (d : Dist) (n m : Nat) (hn : n ≠ 0)
    (hi : d.initialized = true) (hr : d.ready = true) (hs : d.strict = true) (ha : d.auto = false) :
    (step (step (step d (.rvs n false)).1 .setPars).1 (.rvs m false)).2 = .error .notReady := by
  simp [step, hi, hr, hs, ha, hn]

/-- Negative jump indices (burn-in) are positions like any other: two different negative indices are two different
    positions, and the order theorems above cover them (`ind : Int`). -/
theorem C04_negative_indices_distinct (d : Dist) (i j : Int) (hij : i ≠ j) (hi : d.initialized = true) :
    (step d (.jump (some i) 1 true)).1.pos ≠ (step d (.jump (some j) 1 true)).1.pos := by
  simp [step, jumpTo, hi, doJump, hij]

/-- An empty request returns before touching any state. -/
theorem C04_empty_request_no_state_change (d : Dist) (r : Bool) (hi : d.initialized = true) (hr : d.ready = true) :
    step d (.rvs 0 r) = (d, .ok none) := by
  simp [step, hi, hr]

/-- The documented *exception*: `reset` deliberately re-uses a state (it is not a loop operation). -/
theorem C04_reset_reuses_state :
    ∃ d ops, Coherent d ∧ ¬ (run d ops).2.Nodup :=
  ⟨(step (fresh true false) (.init 7 (some 3) false)).1, [.rvs 4 true, .rvs 4 false], by decide, by decide⟩

/-! ### Code that touches a stream other than through `rvs` / `start_step` (regenerated: Generated/StreamSites.lean) -/

/-- Every place where library code draws directly on a distribution's generator (which does not auto-advance) is followed,
    in the same function, by a plain forward `jump()` on that distribution.  (Obligation on the regenerated table.) -/
theorem C04_direct_sites_advance : ∀ s ∈ Gen.Stream.directSites, Followup.ofCode s.2.2 = .jump := by decide

/-- **Helpers that use the generator directly.** A helper of the shape found at every direct-use site, called any number
    of times with any request sizes from any coherent state (several times within a step included), never starts from a
    state a previous call started from. -/
theorem C04_direct_sites_no_reuse (d : Dist) (sizes : List Nat) (hc : Coherent d) :
    ∀ s ∈ Gen.Stream.directSites, (run d (helperCalls (Followup.ofCode s.2.2) sizes)).2.Nodup := by
  intro s hs
  rw [C04_direct_sites_advance s hs]
  exact C04_no_state_twice d _ (helperCalls_jump_loopOps sizes) hc

/-- The same, interleaved with anything else the loop does: helper calls are loop operations. -/
theorem C04_helper_calls_in_loop (d : Dist) (pre post : List Op) (sizes : List Nat) (hc : Coherent d)
    (hpre : ∀ op ∈ pre, op.loopOp = true) (hpost : ∀ op ∈ post, op.loopOp = true) :
    (run d (pre ++ helperCalls .jump sizes ++ post)).2.Nodup := by
  apply C04_no_state_twice d _ _ hc
  intro op hop
  simp only [List.mem_append] at hop
  rcases hop with (h | h) | h
  · exact hpre op h
  · exact helperCalls_jump_loopOps sizes op h
  · exact hpost op h

/-- Why the follow-up must be a jump: a helper that *resets* after its direct use starts its second call of a step from
    the state the first call of the simulation started from (kernel-checked witness: two calls right after `init`, and two
    calls in a later step). -/
theorem C04_direct_then_reset_counterexample :
    (∃ d sizes, Coherent d ∧ (∀ n ∈ sizes, n ≠ 0) ∧ ¬ (run d (helperCalls .reset sizes)).2.Nodup) ∧
    (∃ d, Coherent d ∧ ¬ (run d (helperCalls .reset [5] ++ [.jumpDt 1 false] ++ helperCalls .reset [5, 5])).2.Nodup) :=
  ⟨⟨(step (fresh true true) (.init 7 (some 3) false)).1, [5, 5], by decide, by decide, by decide⟩,
   ⟨(step (fresh true true) (.init 7 (some 3) false)).1, by decide, by decide⟩⟩

/-- Outside `distributions.py` the library issues exactly one stream operation that is not a loop operation: the forced
    initialisation of all distributions in `Sim.init_dists`.  Every other call site is a loop operation, which is the
    hypothesis `loopOp` of the theorems above; in particular nothing re-initialises, resets or forces a stream between a
    simulation's initialisation and its end, whichever entry point runs it.  (Obligation on the regenerated table.) -/
theorem C04_library_nonloop_ops :
    Gen.Stream.nonLoopSites = [("starsim/sim.py", "Sim.init_dists", "init")] := by decide

/-- **Whole life of a distribution** = that one initialisation followed by loop operations: no state twice, whatever the
    object's history before (its index not negative). -/
theorem C04_life_no_state_twice (d : Dist) (o : Nat) (s : Option Nat) (ops : List Op)
    (hops : ∀ op ∈ ops, op.loopOp = true) (h : 0 ≤ d.ind) :
    (life d o s ops).2.Nodup :=
  C04_no_state_twice _ ops hops (C04_init_coherent d o s true h)

/-- Why a second initialisation inside a life is excluded: re-seeding an initialised distribution with the seed it
    already has (a forced `init`) puts the generator back to the state its first draw started from, while `ind` and
    `called` keep their values — no guard notices (kernel-checked witness). -/
theorem C04_reinit_counterexample :
    ∃ d o s ops, 0 ≤ d.ind ∧ (∀ op ∈ ops, op.loopOp = true) ∧
      ¬ (life d o s (ops ++ [.init o s true] ++ ops)).2.Nodup ∧
      (life d o s (ops ++ [.init o s true])).1.ind = (life d o s ops).1.ind :=
  ⟨fresh true true, 7, some 3, [.rvs 4 false], by decide, by decide, by decide, by decide⟩

example : (life (fresh true true) 7 (some 3) (helperCalls .jump [5, 5] ++ [.jumpDt 1 false] ++ helperCalls .jump [5, 5])).2 =
    [⟨0, []⟩, ⟨1, []⟩, ⟨1000, []⟩, ⟨1001, []⟩] := by decide

/-! ### Non-vacuity: a 3-step, 2-distribution trace (the hypotheses are met by a concrete run) -/

def exDists : List Dist :=
  [ (step (fresh true true) (.init 11 (some 5) false)).1, (step (fresh true true) (.init 12 (some 5) false)).1 ]

def exOps : List (Nat × Op) :=
  [ (0, .jumpDt 1 false), (1, .jumpDt 1 false), (0, .rvs 10 false), (0, .rvs 3 false), (1, .rvs 7 false),
    (0, .jumpDt 2 false), (1, .jumpDt 2 false), (1, .direct 5), (1, .jump none 1 false), (0, .rvs 10 false),
    (0, .jumpDt 3 false), (1, .jumpDt 3 false), (0, .rvs 0 false), (1, .rvs 2 false) ]

example : (∀ o ∈ exOps, o.2.loopOp = true) ∧ (∀ d ∈ exDists, Coherent d) ∧ (exDists.map (·.seed)).Nodup := by
  decide

example : (runMany exDists exOps).2 =
    [ (0, ⟨1000, []⟩), (0, ⟨1001, []⟩), (1, ⟨1000, []⟩), (1, ⟨2000, []⟩), (0, ⟨2000, []⟩), (1, ⟨3000, []⟩) ] := by
  decide

end StarsimModel.C04
