/-
C17 — Parameters are applied exactly as given or rejected, never dropped.

Property theorems only (helper lemmas: Lemmas/Pars.lean; model: Model/Pars.lean).  The `isinstance` chains of
`Pars.update` (+ `_update_ndict/_module/_timepar/_dist`), `check_key_mismatch`, the step lists of
`Module.update_pars` / `SimPars.convert_modules` and the `copy_inputs` facts of `Sim.__init__` come from
Generated/ParsDispatch.lean, regenerated from /repo on every run: every `decide` below is over the COMPLETE
(old kind × new kind) space of the regenerated table, so a code edit that adds a branch ignoring its input, or makes
`check_key_mismatch` return silently, stops these theorems from elaborating.
-/
import StarsimModel.Lemmas.Pars
import StarsimModel.Lemmas.ParsDeep
import StarsimModel.Lemmas.ParsRefs
import StarsimModel.Generated.ParsRefs
import StarsimModel.Model.ParsSim
import StarsimModel.Generated.ParsSimLevel
import StarsimModel.Lemmas.ParsTime
import StarsimModel.Lemmas.ParsModTime
import StarsimModel.Generated.ParsModTime

namespace StarsimModel.C17
open StarsimModel.Pars

/-! ### The dispatch table -/

/-- **No branch ignores its input** (complete regenerated table, 23 × 19 kinds). -/
theorem C17_no_branch_ignores : ∀ o n, (dispatch o n).appliesOrRejects = true := by
  apply forall_kinds; decide

/-- An action other than `ignore` either raises or puts the supplied value in effect: the effective value *contains*
    the supplied value (it can be read back), for every supplied value. -/
theorem C17_action_determined {α} (a : Action) (h : a.appliesOrRejects = true) :
    (∃ e, a = .raise e) ∨ (∀ v : α, ∃ eff, effect a v = some eff ∧ eff.token = some v) := by
  cases a <;> simp_all [Action.appliesOrRejects, effect, Eff.token]

/-- **Applied or rejected.** For EVERY pair (kind of the stored value, kind of the supplied value) `Pars.update` either
    raises, or the effective value is determined by — and lets one recover — the supplied value. -/
theorem C17_applied_or_rejected {α} (o : OKind) (n : NKind) :
    (∃ e, dispatch o n = .raise e) ∨
    (∀ v : α, ∃ eff, effect (dispatch o n) v = some eff ∧ eff.token = some v) :=
  C17_action_determined _ (C17_no_branch_ignores o n)

/-- … hence two different supplied values never give the same effective value (nothing is dropped or defaulted). -/
theorem C17_effective_value_injective {α} (o : OKind) (n : NKind) (v w : α)
    (hok : ∀ e, dispatch o n ≠ .raise e) (h : effect (dispatch o n) v = effect (dispatch o n) w) : v = w := by
  rcases C17_applied_or_rejected (α := α) o n with ⟨e, he⟩ | hap
  · exact absurd he (hok e)
  · obtain ⟨e1, h1, t1⟩ := hap v
    obtain ⟨e2, h2, t2⟩ := hap w
    rw [h1, h2] at h
    injection h with h
    subst h
    rw [t1] at t2
    injection t2

/-- The table is what the code documents (complete regenerated table; every row is checked). -/
theorem C17_table_atomic_set : ∀ n, dispatch .num n = .set ∧ dispatch .str n = .set ∧ dispatch .nil n = .set ∧
    dispatch .list n = .set ∧ dispatch .callable n = .set ∧ dispatch .dict n = .set ∧ dispatch .other n = .set := by
  apply forall_nkinds; decide

/-- A key that does not exist yet is stored as given (reached only with `create=True`). -/
theorem C17_new_key_stored : ∀ n, newKeyAction n = .set := newKey_set

/-! ### Values that cannot stand in for a distribution or a time parameter -/

def notADistValue : List NKind := [.str, .nil, .series, .dataframe, .array, .cls]
def notATimeParValue : List NKind := [.str, .nil, .func, .dist true, .dist false, .cls, .array]

/-- **Bad values rejected**: a string, None, a pandas object, an array or a class for a distribution; a string, None,
    a function, a distribution, a class or an array for a time parameter; a non-Bernoulli distribution (object or dict
    spec) for a Bernoulli parameter; a non-duration for a duration parameter of a distribution and vice versa. -/
theorem C17_bad_values_rejected :
    (∀ b p n, n ∈ notADistValue → dispatch (.dist b p) n = .raise .type) ∧
    (∀ d n, n ∈ notATimeParValue → dispatch (.timepar d) n = .raise .type) ∧
    (∀ n, n ∈ notATimeParValue → dispatch .beta n = .raise .type) ∧
    (∀ p, dispatch (.dist true p) (.dist false) = .raise .type ∧ dispatch (.dist true p) (.dictType false) = .raise .type
        ∧ dispatch (.dist true p) .dictTypeBad = .raise .type) ∧
    (∀ b, dispatch (.dist b .dur) (.timepar false) = .raise .type ∧ dispatch (.dist b .nondur) (.timepar true) = .raise .type) ∧
    (∀ n, n.isDict = false → dispatch .ndictFull n = .raise .type ∧ dispatch .module n = .raise .type) := by
  refine ⟨?_, ?_, ?_, ?_, ?_, ?_⟩
  · intro b p; cases b <;> cases p <;> decide
  · intro d; cases d <;> decide
  · decide
  · intro p; cases p <;> decide
  · intro b; cases b <;> decide
  · apply forall_nkinds; decide

/-- Malformed values that reach `old.set` / `make_dist`: a list longer than the parameter list, an unknown name for a
    time parameter, a `type` that is not a distribution — rejected in both variants; an unknown name for a
    distribution — rejected in the `spec` variant. -/
theorem C17_malformed_rejected (var : Variant) :
    (∀ b p, outcome var (.dist b p) .listLong = .error .other) ∧
    (∀ d, outcome var (.timepar d) .listLong = .error .type ∧ outcome var (.timepar d) .dictNoTypeBad = .error .type) ∧
    (∀ p, outcome var (.dist false p) .dictTypeBad = .error .other) ∧
    (∀ b p, outcome .spec (.dist b p) .dictNoTypeBad = .error .value) := by
  refine ⟨?_, ?_, ?_, ?_⟩
  · intro b p; cases var <;> cases b <;> cases p <;> decide
  · intro d; cases var <;> cases d <;> decide
  · intro p; cases var <;> cases p <;> decide
  · intro b p; cases b <;> cases p <;> decide

/-! ### `Pars.update` on a parameter set -/

/-- **Unknown key rejected (strict mode).** For every parameter set and every supplied dict: if some supplied key does
    not exist, `update(create=False)` raises KeyNotFoundError (and changes nothing: the result is the error). -/
theorem C17_unknown_key_rejected (var : Variant) (p : Leaves) (items : List Item)
    (h : ∃ k ∈ keysOf items, k ∉ keysOf p) :
    updateLeaves var false p items = .error .keyNotFound := by
  simp [updateLeaves, strictCheck_unknown (keysOf p) (keysOf items) h]

/-- The same at the top level (sim.pars), whatever the entries hold. -/
theorem C17_unknown_key_rejected_top (var : Variant) (p : Top) (items : List (String × NVal))
    (h : ∃ k ∈ keysOf items, k ∉ keysOf p) :
    updateTop var false p items = .error .keyNotFound := by
  simp [updateTop, strictCheck_unknown (keysOf p) (keysOf items) h]

/-- … and inside a nested parameter set (`sim.pars.update(sir=dict(foo=1))`, strictness is forwarded). -/
theorem C17_unknown_key_rejected_nested (var : Variant) (p : Leaves) (k : NKind) (items : List Item) (tok : Nat)
    (hk : k.isDict = true) (h : ∃ x ∈ keysOf items, x ∉ keysOf p) :
    applyTop var false (.sub p) (.one (.dict k items tok)) = .error .keyNotFound := by
  have hd : dispatch .pars k = .recurse := by
    revert hk; revert k; apply forall_nkinds; decide
  simp [applyTop, NVal.kind, MVal.kind, hd, recurseInto, updateLeaves, strictCheck_unknown (keysOf p) (keysOf items) h,
    Except.map]

/-- … and through a module container (`pars.update(diseases={'sir': {'foo': 1}})`): the per-module update is strict
    even when the outer update is called with `create=True`. -/
theorem C17_unknown_key_rejected_ndict (var : Variant) (create : Bool) (m : List (String × Leaves)) (name : String)
    (p : Leaves) (k : NKind) (items : List Item) (t t' : Nat)
    (hm : lookup name m = some p) (h : ∃ x ∈ keysOf items, x ∉ keysOf p) :
    applyTop var create (.mods m) (.dict2 [(name, .dict k items t)] t') = .error .keyNotFound := by
  have hd : dispatch .ndictFull .dictNoType = .ndictItems := by decide
  simp [applyTop, NVal.kind, hd, ndictItems, hm, recurseInto, updateLeaves,
    strictCheck_unknown (keysOf p) (keysOf items) h, Except.map]

/-- An unknown module name in that route is rejected too. -/
theorem C17_unknown_module_rejected (var : Variant) (create : Bool) (m : List (String × Leaves)) (name : String)
    (v : MVal) (t' : Nat) (hm : lookup name m = none) :
    applyTop var create (.mods m) (.dict2 [(name, v)] t') = .error .keyNotFound := by
  have hd : dispatch .ndictFull .dictNoType = .ndictItems := by decide
  simp [applyTop, NVal.kind, hd, ndictItems, hm, Except.map]

/-- **`create=True` adds.** A new key is appended holding exactly the supplied value. -/
theorem C17_create_adds (var : Variant) (p : Leaves) (k : String) (n : NKind) (tok : Nat) (h : k ∉ keysOf p) :
    updateLeaves var true p [(k, n, tok)] = .ok (p ++ [(k, ⟨n.asOld, .isNew tok⟩)]) := by
  have hl : lookup k p = none := (lookup_none_iff k p).mpr h
  simp [updateLeaves, strictCheck_create, setLeaves, setLeaf, hl, newKey_set, kindAfter, leafEff, effect]

/-- **Applied exactly as given (whole update).** For every parameter set, every supplied dict (distinct keys) and
    either mode: if `update` returns, EVERY supplied value is in effect under its key.
    `spec` variant: unconditional.  -/
theorem C17_update_applied_spec (create : Bool) (p p' : Leaves) (items : List Item)
    (hnd : (keysOf items).Nodup) (h : updateLeaves .spec create p items = .ok p') :
    ∀ it ∈ items, ∃ s, lookup it.1 p' = some s ∧ s.eff.token = some it.2.2 := by
  unfold updateLeaves at h
  cases hs : strictCheck create (keysOf p) (keysOf items) with
  | error e => simp [hs] at h
  | ok u =>
      simp only [hs] at h
      exact (setLeaves_spec .spec items p p' (fun it _ => by simp [itemGood]) hnd h).1

/-- `asis` variant (`_partial`): under the decidable hypothesis that no supplied value is a dict naming an unknown
    distribution parameter. -/
theorem C17_update_applied_partial (var : Variant) (create : Bool) (p p' : Leaves) (items : List Item)
    (hgood : ∀ it ∈ items, it.2.1 ≠ .dictNoTypeBad)
    (hnd : (keysOf items).Nodup) (h : updateLeaves var create p items = .ok p') :
    ∀ it ∈ items, ∃ s, lookup it.1 p' = some s ∧ s.eff.token = some it.2.2 := by
  unfold updateLeaves at h
  cases hs : strictCheck create (keysOf p) (keysOf items) with
  | error e => simp [hs] at h
  | ok u =>
      simp only [hs] at h
      refine (setLeaves_spec var items p p' (fun it hit => ?_) hnd h).1
      have := hgood it hit
      simp [itemGood, this]

/-- … and keys that were not supplied keep their value (frame). -/
theorem C17_update_frame (var : Variant) (create : Bool) (p p' : Leaves) (items : List Item)
    (hgood : ∀ it ∈ items, it.2.1 ≠ .dictNoTypeBad)
    (hnd : (keysOf items).Nodup) (h : updateLeaves var create p items = .ok p') :
    ∀ k, k ∉ keysOf items → lookup k p' = lookup k p := by
  unfold updateLeaves at h
  cases hs : strictCheck create (keysOf p) (keysOf items) with
  | error e => simp [hs] at h
  | ok u =>
      simp only [hs] at h
      refine (setLeaves_spec var items p p' (fun it hit => ?_) hnd h).2
      have := hgood it hit
      simp [itemGood, this]

/-- The unchanged code (`asis`) violates the full statement: `ss.SIR(init_prev=dict(foo=5))` is accepted and `foo`
    is in effect nowhere (kernel-checked witness; the stored replay of the known finding). -/
def cexPars : Leaves := [("init_prev", ⟨.dist true .plain, .isNew 0⟩)]
def cexItems : List Item := [("init_prev", .dictNoTypeBad, 7)]

theorem C17_update_applied_counterexample :
    ∃ p', updateLeaves .asis false cexPars cexItems = .ok p' ∧
      ¬ (∀ it ∈ cexItems, ∃ s, lookup it.1 p' = some s ∧ s.eff.token = some it.2.2) :=
  ⟨[("init_prev", ⟨.dist true .plain, .stray 7⟩)], by decide, by decide⟩

/-- The repaired variant rejects it. -/
theorem C17_spec_rejects_unknown_dist_par :
    updateLeaves .spec false cexPars cexItems = .error .value := by decide

/-! ### `Module.update_pars` -/

/-- **Leftover rejected.** Whatever the module and the other arguments: if a supplied name is neither a parameter of
    the module nor a metadata / time argument, `update_pars` raises (it never returns). -/
theorem C17_leftover_rejected (var : Variant) (ms : ModState) (items : List Item)
    (h : ∃ it ∈ items, it.1 ∉ keysOf ms.pars ∧ it.1 ∉ Gen.moduleArgs ++ Gen.timeArgs) :
    ∀ ms', updatePars var ms items ≠ .ok ms' := by
  obtain ⟨it, hit, hnp, hna⟩ := h
  intro ms' hok
  -- order-independent: any step list that contains a raising leftover check rejects (the regenerated list does)
  have hmem : UStep.leftover (.raise .value) ∈ Gen.updateParsSteps := by decide
  unfold updatePars at hok
  cases hu : uSteps var ⟨ms, [], items⟩ Gen.updateParsSteps with
  | error e => simp [hu, Except.map] at hok
  | ok us' => exact uSteps_leftover var it .value hna Gen.updateParsSteps ⟨ms, [], items⟩ ⟨hit, hnp⟩ hmem us' hu

/-- A supplied `name` / `label` that is not a string is rejected. -/
theorem C17_metadata_type_checked : Gen.metadataTypeChecked = true := by decide

/-! ### Module specifications -/

/-- **Normal form.** For every registry in which `name` (any capitalisation) denotes class `c` of the list `mk`, all
    spellings — the string, a dict with the string, a dict with the class, and (interventions / analyzers) the bare
    class — convert to the same instance as constructing the class directly; with keyword arguments the two dict
    spellings agree with direct construction. -/
theorem C17_spellings_normal_form (var : Variant) (r : Registry) (mk : ModKey) (id c : Nat) (name : String)
    (kw : List Item) (hn : r.byName mk name.toLower = some c) (hv : r.inVals mk c = true) :
    convert var r mk id (.str name) = construct var r c [] id ∧
    convert var r mk id (.dict (some (.name name)) kw) = construct var r c kw id ∧
    convert var r mk id (.dict (some (.cls c)) kw) = construct var r c kw id ∧
    (mk.isIA = true → convert var r mk id (.cls c) = construct var r c [] id) := by
  have hs : Gen.convertSteps = [.strToDict, .classToInstanceIA, .dictToModule, .iaClassOrFunc, .finalCheck, .store] := by
    decide
  refine ⟨?_, ?_, ?_, ?_⟩
  · unfold convert construct
    simp only [hs, cSteps, cStep, hn, construct]
    cases updatePars var (r.fresh c) [] <;> simp [cSteps, cStep]
  · unfold convert construct
    simp only [hs, cSteps, cStep, hn, construct]
    cases updatePars var (r.fresh c) kw <;> simp [cSteps, cStep]
  · unfold convert construct
    simp only [hs, cSteps, cStep, hv, construct]
    cases updatePars var (r.fresh c) kw <;> simp [cSteps, cStep]
  · intro hia
    unfold convert construct
    simp only [hs, cSteps, cStep, hia, construct]
    cases updatePars var (r.fresh c) [] <;> simp [cSteps, cStep]

/-- An instance is already in normal form, and **`convert` is idempotent**: converting a converted entry changes
    nothing (for every spelling, every list, every registry). -/
theorem C17_convert_instance_fixed (var : Variant) (r : Registry) (mk : ModKey) (id c i : Nat) (ms : ModState) :
    convert var r mk id (.inst c ms i) = .ok (.inst c ms i) := by
  have hs : Gen.convertSteps = [.strToDict, .classToInstanceIA, .dictToModule, .iaClassOrFunc, .finalCheck, .store] := by
    decide
  simp [convert, hs, cSteps, cStep]

theorem C17_convert_result_normal (var : Variant) (r : Registry) (mk : ModKey) (id : Nat) (m m' : Spec)
    (h : convert var r mk id m = .ok m') : (∃ c ms i, m' = .inst c ms i) ∨ (∃ f, m' = .funcInst f) := by
  have hs : Gen.convertSteps = [.strToDict, .classToInstanceIA, .dictToModule, .iaClassOrFunc, .finalCheck, .store] := by
    decide
  -- the final check only lets instances through
  unfold convert at h
  rw [hs] at h
  have key : ∀ x : Spec, cSteps var r mk id x [.finalCheck, .store] = .ok m' →
      (∃ c ms i, m' = .inst c ms i) ∨ (∃ f, m' = .funcInst f) := by
    intro x hx
    cases x <;> simp [cSteps, cStep] at hx
    · exact Or.inl ⟨_, _, _, hx.symm⟩
    · exact Or.inr ⟨_, hx.symm⟩
  simp only [cSteps] at h
  cases h1 : cStep var r mk id m .strToDict with
  | error e => simp [h1] at h
  | ok m1 =>
    simp only [h1] at h
    cases h2 : cStep var r mk id m1 .classToInstanceIA with
    | error e => simp [h2] at h
    | ok m2 =>
      simp only [h2] at h
      cases h3 : cStep var r mk id m2 .dictToModule with
      | error e => simp [h3] at h
      | ok m3 =>
        simp only [h3] at h
        cases h4 : cStep var r mk id m3 .iaClassOrFunc with
        | error e => simp [h4] at h
        | ok m4 =>
          simp only [h4] at h
          exact key m4 (by simpa [cSteps] using h)

theorem C17_convert_idempotent (var : Variant) (r : Registry) (mk : ModKey) (id id' : Nat) (m m' : Spec)
    (h : convert var r mk id m = .ok m') : convert var r mk id' m' = .ok m' := by
  have hs : Gen.convertSteps = [.strToDict, .classToInstanceIA, .dictToModule, .iaClassOrFunc, .finalCheck, .store] := by
    decide
  rcases C17_convert_result_normal var r mk id m m' h with ⟨c, ms, i, rfl⟩ | ⟨f, rfl⟩
  · exact C17_convert_instance_fixed var r mk id' c i ms
  · simp [convert, hs, cSteps, cStep]

/-- A dict specification is validated like a direct construction: an unknown name in it is rejected (nested route). -/
theorem C17_dict_spec_unknown_rejected (var : Variant) (r : Registry) (mk : ModKey) (id c : Nat) (name : String)
    (kw : List Item) (hn : r.byName mk name.toLower = some c)
    (h : ∃ it ∈ kw, it.1 ∉ keysOf (r.fresh c).pars ∧ it.1 ∉ Gen.moduleArgs ++ Gen.timeArgs) :
    ∀ m', convert var r mk id (.dict (some (.name name)) kw) ≠ .ok m' := by
  intro m' hc
  have hs : Gen.convertSteps = [.strToDict, .classToInstanceIA, .dictToModule, .iaClassOrFunc, .finalCheck, .store] := by
    decide
  unfold convert at hc
  simp only [hs, cSteps, cStep, hn, construct] at hc
  cases hu : updatePars var (r.fresh c) kw with
  | error e => simp [hu] at hc
  | ok ms => exact C17_leftover_rejected var (r.fresh c) kw h ms hu

/-! ### Inputs are copied -/

/-- `copy_inputs` defaults to True and is honoured: the instance a Sim holds is a fresh object, so the user's object
    is not the one the Sim mutates, and two Sims built from one user object hold different objects. -/
theorem C17_inputs_copied_by_default (c : Nat) (ms : ModState) (userId f1 f2 : Nat)
    (h1 : f1 ≠ userId) (h2 : f2 ≠ userId) (h12 : f1 ≠ f2) :
    (simInput none f1 (.inst c ms userId)).ident ≠ some userId ∧
    (simInput none f2 (.inst c ms userId)).ident ≠ some userId ∧
    (simInput none f1 (.inst c ms userId)).ident ≠ (simInput none f2 (.inst c ms userId)).ident ∧
    simInput none f1 (.inst c ms userId) = .inst c ms f1 := by
  have hd : Gen.simCopyDefault = true := by decide
  have hf : Gen.simCopyForwarded = true := by decide
  simp [simInput, hd, hf, Spec.ident, h1, h2, h12]

/-- … unless copying is explicitly disabled, in which case the Sim holds the user's object. -/
theorem C17_inputs_shared_only_when_disabled (c : Nat) (ms : ModState) (userId f : Nat) :
    simInput (some false) f (.inst c ms userId) = .inst c ms userId ∧
    simInput (some true) f (.inst c ms userId) = .inst c ms f := by
  have hf : Gen.simCopyForwarded = true := by decide
  simp [simInput, hf]

/-- The merged inputs go through the strict `Pars.update`: `ss.Sim(foo=1)` cannot add a key. -/
theorem C17_sim_inputs_strict : Gen.simStrictUpdate = true ∧ Gen.strictUnlessCreate = true := by decide

/-! ### Non-vacuity -/

/-- a module with a Bernoulli, a duration-valued distribution, a rate and a flag -/
def exPars : Leaves :=
  [("init_prev", ⟨.dist true .plain, .isNew 0⟩), ("dur_inf", ⟨.dist false .dur, .isNew 1⟩),
   ("waning", ⟨.timepar false, .isNew 2⟩), ("log", ⟨.num, .isNew 3⟩)]

def exItems : List Item :=
  [("dur_inf", .number, 10), ("init_prev", .dictType true, 11), ("waning", .timepar true, 12), ("log", .str, 13)]

/-- the hypotheses of `C17_update_applied_partial` are met by a concrete non-trivial update, which succeeds … -/
example : (∀ it ∈ exItems, it.2.1 ≠ .dictNoTypeBad) ∧ (keysOf exItems).Nodup ∧
    updateLeaves .asis false exPars exItems = .ok
      [("init_prev", ⟨.dist true .plain, .made 11⟩), ("dur_inf", ⟨.dist false .plain, .oldFirst 10⟩),
       ("waning", ⟨.timepar true, .isNew 12⟩), ("log", ⟨.str, .isNew 13⟩)] := by decide

/-- … an unknown key meets the hypothesis of `C17_unknown_key_rejected` … -/
example : (∃ k ∈ keysOf [(("foo", .number, 5) : Item)], k ∉ keysOf exPars) ∧
    updateLeaves .asis false exPars [("foo", .number, 5)] = .error .keyNotFound := by decide

/-- … bad values are rejected inside a multi-item update (nothing is half-applied: the result is the error) … -/
example : updateLeaves .asis false exPars [("log", .number, 1), ("dur_inf", .str, 2)] = .error .type := by decide
example : updateLeaves .asis false exPars [("dur_inf", .timepar false, 2)] = .error .type := by decide
example : updateLeaves .asis false exPars [("init_prev", .dist false, 2)] = .error .type := by decide

/-- … `update_pars` with a metadata and a time argument and a leftover … -/
def exMod : ModState := ⟨exPars, [], []⟩
example : updatePars .asis exMod [("dur_inf", .number, 10), ("name", .str, 20), ("dt", .number, 21)] =
    .ok ⟨[("init_prev", ⟨.dist true .plain, .isNew 0⟩), ("dur_inf", ⟨.dist false .plain, .oldFirst 10⟩),
          ("waning", ⟨.timepar false, .isNew 2⟩), ("log", ⟨.num, .isNew 3⟩)], [("name", 20)], [("dt", 21)]⟩ := by decide
example : updatePars .asis exMod [("dur_inf", .number, 10), ("foo", .number, 1)] = .error .value := by decide
example : updatePars .asis exMod [("name", .number, 3)] = .error .type := by decide

/-- … and the spellings of one module in a two-class registry. -/
def exReg : Registry :=
  { byName := fun mk s => if mk = .diseases ∧ s = "sir" then some 0 else if mk = .interventions ∧ s = "vx" then some 1 else none,
    inVals := fun mk c => (mk = .diseases && c = 0) || (mk = .interventions && c = 1),
    expected := fun mk c => (mk = .interventions && c = 1),
    fresh := fun _ => exMod }

example : convert .asis exReg .diseases 9 (.str "SIR") = convert .asis exReg .diseases 9 (.dict (some (.cls 0)) []) ∧
    convert .asis exReg .diseases 9 (.str "SIR") = .ok (.inst 0 exMod 9) ∧
    convert .asis exReg .diseases 9 (.cls 0) = .error .type ∧
    convert .asis exReg .interventions 9 (.cls 1) = .ok (.inst 1 exMod 9) ∧
    convert .asis exReg .interventions 9 (.func 4) = .ok (.funcInst 4) ∧
    convert .asis exReg .diseases 9 (.func 4) = .error .type ∧
    convert .asis exReg .diseases 9 (.dict none []) = .error .value ∧
    convert .asis exReg .diseases 9 (.str "zzz") = .error .type ∧
    convert .asis exReg .diseases 9 (.dict (some (.name "sir")) [("foo", .number, 1)]) = .error .value := by decide +kernel

/-! ## Round 2: merging, `ss.Time`, module containers with duplicates, nesting to any depth -/

/-- **Keywords win** over the positional / `pars=` dict in `Module.update_pars(pars, **kwargs)` (regenerated merge order),
    for every pair of dicts and every key; a key given only once keeps its value. -/
theorem C17_kwargs_win (pars kw : List Item) (k : String) :
    lookup k (mergeParsKw pars kw) = (match lookup k kw with | some w => some w | none => lookup k pars) := by
  have ho : Gen.updateParsMergeOrder = ["pars", "kwargs"] := by decide
  simp only [mergeParsKw, ho, List.foldl, lookup_mergeItems]
  cases h1 : lookup k kw <;> cases h2 : lookup k pars <;> simp [lookup, h1, h2]

/-- `Sim.__init__`: keyword arguments win over the named module arguments, which win over the `pars` dict. -/
theorem C17_sim_merge_precedence (pars args kwargs : List Item) (k : String) :
    lookup k (mergeSim pars args kwargs) =
      (match lookup k kwargs with
       | some w => some w
       | none => (match lookup k args with | some w => some w | none => lookup k pars)) := by
  have ho : Gen.simMergeOrder = ["pars", "args", "kwargs"] := by decide
  simp only [mergeSim, ho, List.foldl, lookup_mergeItems]
  cases h1 : lookup k kwargs <;> cases h2 : lookup k args <;> cases h3 : lookup k pars <;> simp [lookup, h1, h2, h3]

/-! ### `ss.Time(**kwargs)`: module classes that never call `update_pars` -/

/-- a keyword that `ss.Time.__init__` does not name is rejected (Python TypeError) … -/
theorem C17_time_kw_unknown_rejected (var : Variant) (kw pars : List Item)
    (h : ∃ it ∈ kw, it.1 ∉ Gen.timeInitNames) : timeCtor var kw pars = .error .type := by
  obtain ⟨it, hit, hn⟩ := h
  have hv : Gen.timeInitVarKw = false := by decide
  have : kw.any (fun it => !Gen.timeInitNames.contains it.1) = true := by
    simp only [List.any_eq_true]
    exact ⟨it, hit, by simpa using hn⟩
  unfold timeCtor
  rw [hv, this]
  rfl

/-- … but (unchanged code, kernel-checked witness = the stored known finding `C17-pars-dict-to-time`) an entry of
    the `pars=` dict that is not a time argument is accepted and is in effect nowhere … -/
theorem C17_time_pars_counterexample :
    timeCtor .asis [] [("prob", .number, 7)] = .ok [] ∧
    timeCtor .asis [("start", .number, 3)] [("zz", .number, 7), ("dt", .number, 8)] = .ok [("start", 3), ("dt", 8)] := by
  decide

/-- … the repaired variant rejects it, whatever else is supplied … -/
theorem C17_time_pars_spec_rejected (kw pars : List Item) (hk : ∀ it ∈ kw, it.1 ∈ Gen.timeInitNames)
    (h : ∃ it ∈ pars, it.1 ∉ Gen.timeArgs) : timeCtor .spec kw pars = .error .value := by
  obtain ⟨it, hit, hn⟩ := h
  have h1 : kw.any (fun it => !Gen.timeInitNames.contains it.1) = false := by
    simp only [List.any_eq_false]
    intro x hx; simpa using hk x hx
  have h2 : (pars.filter (fun it => !Gen.timeArgs.contains it.1)).isEmpty = false := by
    rw [List.isEmpty_eq_false_iff_exists_mem]
    exact ⟨it, by simp only [List.mem_filter]; exact ⟨hit, by simpa using hn⟩⟩
  unfold timeCtor timeVerdict timeStray
  rw [h1, h2]
  simp

/-- … and (`_partial`) in both variants a `pars=` dict of time arguments only is applied exactly as given. -/
theorem C17_time_pars_applied_partial (var : Variant) (pars : List Item)
    (hk : ∀ it ∈ pars, it.1 ∈ Gen.timeArgs) (hnn : ∀ it ∈ pars, it.2.1 ≠ .nil) (hnd : (keysOf pars).Nodup) :
    ∃ res, timeCtor var [] pars = .ok res ∧ ∀ it ∈ pars, lookup it.1 res = some it.2.2 := by
  have h2 : (pars.filter (fun it => !Gen.timeArgs.contains it.1)).isEmpty = true := by
    rw [List.isEmpty_iff]
    apply List.filter_eq_nil_iff.mpr
    intro x hx; simpa using hk x hx
  refine ⟨timeResult [] pars, ?_, ?_⟩
  · unfold timeCtor timeVerdict timeStray
    rw [h2]
    simp
  intro it hit
  unfold timeResult
  rw [lookup_filterMap_keys (fun k => timePick k [] pars) it.1 Gen.timeArgs (hk it hit)]
  have hl : lookup it.1 pars = some it.2 := lookup_of_mem_nodup pars it.1 it.2 hnd (by cases it; exact hit)
  have hb : Gen.timeCtorParsWin = true := by decide
  have hne := hnn it hit
  simp [timePick, hb, lookup, hl, hne, Option.orElse]

/-- in the constructor the `pars=` dict overrides a keyword naming the same time argument (as-is: `Time.__init__` stores
    the keyword first, `update(pars=…)` then prefers `par_val` to the current value) — the opposite of `update_pars`,
    but deterministic: exactly one of the two supplied values is in effect. -/
theorem C17_time_pars_override_ctor_keyword :
    timeCtor .asis [("dt", .number, 1)] [("dt", .number, 2)] = .ok [("dt", 2)] := by decide

/-- The choices the model of `convert_modules` hard-codes for a dict specification are the ones the source makes
    (read statement by statement on every run): no `type` → ValueError, unknown name / class → TypeError, the name is
    lower-cased, `type` is removed from the dict and the remaining entries are passed to the constructor. -/
theorem C17_convert_dict_content :
    Gen.convertDictNoType = .raise .value ∧ Gen.convertBadName = .raise .type ∧ Gen.convertBadClass = .raise .type ∧
    Gen.convertLowercases = true ∧ Gen.convertPopsType = true ∧ Gen.convertPassesKwargs = true := by decide

/-! ### module containers -/

/-- **Duplicate names.** A list of modules becomes an `ss.ndict` exactly when the names are pairwise distinct; a
    repeated name (two `'sir'`, the same instance twice, a string and a dict spec of one class) is a ValueError. -/
theorem C17_duplicate_names_rejected (names : List String) :
    (names.Nodup → buildNdict [] names = .ok names) ∧ (¬ names.Nodup → buildNdict [] names = .error .value) :=
  ⟨fun h => by simpa using buildNdict_ok names [] (by simpa using h),
   fun h => buildNdict_dup names [] (by simp) (by simpa using h)⟩

/-! ### nesting to ANY depth (Pars inside ndict inside Pars …) -/

/-- **Applied, all depths.** For every nesting depth `n`, every stored value, every supplied value (dict keys
    distinct at every level, no dict naming an unknown distribution parameter in the as-is variant) and either mode:
    if the update returns, every supplied leaf value is in effect at its path. -/
theorem C17_deep_applied (n : Nat) (var : Variant) (create : Bool) (old old' : PT n) (new : NT n)
    (hwf : wfN n var new) (h : applyN n var create old new = .ok old') : inEffectN n old' new :=
  deep_applied n var create old new old' hwf h

/-- **Unknown names rejected, all depths.** In strict mode, if the nested update returns then every name the supplied
    value mentions, at every depth, exists in the stored value — i.e. an unknown name at ANY depth makes it raise. -/
theorem C17_deep_unknown_rejected (n : Nat) (var : Variant) (old old' : PT n) (new : NT n)
    (hnd : nodupN n new) (h : applyN n var false old new = .ok old') : knownN n old new :=
  deep_known n var old new old' hnd h

/-- the same for a whole parameter set of depth-`n` entries -/
theorem C17_deep_update_applied (n : Nat) (var : Variant) (create : Bool) (p p' : List (String × PT n))
    (items : List (String × NT n)) (hnd : (keysOf items).Nodup) (hwf : ∀ it ∈ items, wfN n var it.2)
    (h : updateN n var create p items = .ok p') :
    ∀ it ∈ items, ∃ c, lookup it.1 p' = some c ∧ inEffectN n c it.2 := by
  unfold updateN updateGen at h
  cases hs : strictCheck create (keysOf p) (keysOf items) with
  | error e => simp [hs] at h
  | ok u =>
      simp only [hs] at h
      obtain ⟨h1, h2, _⟩ := setAll_spec _ _ _ items p p' hnd h
      intro it hit
      cases hl : lookup it.1 p with
      | none => exact ⟨_, h2 it hit hl, storeNew_inEffect n it.2⟩
      | some o =>
          obtain ⟨o', hap, hl'⟩ := h1 it hit o hl
          exact ⟨o', hl', deep_applied n var create o it.2 o' (hwf it hit) hap⟩

theorem C17_deep_update_unknown_rejected (n : Nat) (var : Variant) (p : List (String × PT n))
    (items : List (String × NT n)) (h : ∃ k ∈ keysOf items, k ∉ keysOf p) :
    updateN n var false p items = .error .keyNotFound := by
  simp [updateN, updateGen, strictCheck_unknown (keysOf p) (keysOf items) h]

/-- Non-vacuity, depth 3: sim-level pars ⊃ module container ⊃ module pars ⊃ a distribution parameter. -/
def exDeep : List (String × PT 3) :=
  [("n_agents", .inl ⟨.num, .isNew 0⟩),
   ("diseases", .inr (.mods, [("sir", .inr (.pars, [("dur_inf", .inl ⟨.dist false .dur, .isNew 1⟩),
                                                     ("init_prev", .inl ⟨.dist true .plain, .isNew 2⟩)]))]))]

def exDeepNew (key : String) (k : NKind) : List (String × NT 3) :=
  [("diseases", .inr (.dictNoType, 50, [("sir", .inr (.dictNoType, 51, [(key, .inl (k, 52))]))]))]

def isErr {α} (r : Except Err α) (e : Err) : Bool :=
  match r with
  | .error e' => e' == e
  | .ok _ => false

def isOk {α} (r : Except Err α) : Bool :=
  match r with
  | .error _ => false
  | .ok _ => true

example : isOk (updateN 3 .asis false exDeep (exDeepNew "dur_inf" .number)) = true ∧
    isErr (updateN 3 .asis false exDeep (exDeepNew "zz_unknown" .number)) .keyNotFound = true ∧
    isErr (updateN 3 .asis true exDeep (exDeepNew "zz_unknown" .number)) .keyNotFound = true ∧
    isErr (updateN 3 .asis false exDeep (exDeepNew "dur_inf" .str)) .type = true ∧
    isErr (updateN 3 .asis false exDeep (exDeepNew "init_prev" (.dist false))) .type = true ∧
    isErr (updateN 3 .asis false exDeep [("diseases", .inr (.dictNoType, 50, [("zz", .inl (.nil, 51))]))]) .keyNotFound = true := by
  decide +kernel

example : buildNdict [] ["sir", "sis", "sir"] = .error .value ∧ buildNdict [] ["sir", "sis"] = .ok ["sir", "sis"] := by decide

example : updateParsKw .asis exMod [("dur_inf", .number, 10)] [("dur_inf", .number, 11), ("dt", .number, 12)] =
    .ok ⟨[("init_prev", ⟨.dist true .plain, .isNew 0⟩), ("dur_inf", ⟨.dist false .plain, .oldFirst 11⟩),
          ("waning", ⟨.timepar false, .isNew 2⟩), ("log", ⟨.num, .isNew 3⟩)], [], [("dt", 12)]⟩ := by decide

/-! ### Round 3 — name-keyed parameters resolved against the sim (per-network `beta`), ownership of spec dicts

The key comparison of `Infection.validate_beta`, `ss.standardize_netkey` and the table "can the caller's dict be mutated"
are regenerated (Generated/ParsRefs.lean): weakening either direction of the comparison, or letting `make_dist` /
`update_pars` / `Time.update` / `Pars.update` work on the caller's object, stops the theorems below from elaborating. -/

section Refs
open StarsimModel.ParsRefs

deriving instance DecidableEq for Except

/-- the regenerated key comparison of `validate_beta` -/
def genCheck : KeyCheck := ⟨Gen.betaMissingRaises, Gen.betaExtraRaises⟩
/-- the regenerated `ss.standardize_netkey` -/
def genStd : String → String := stdKey Gen.netkeyLower Gen.netkeySuffix
/-- `validate_beta` + what `infect()` reads, as regenerated -/
def genResolve {α} (nets : List String) (b : Beta α) := resolve genStd genCheck Gen.betaBadType nets b

theorem genCheck_both : genCheck = ⟨true, true⟩ := by decide

/-- The regenerated structure facts the model of `resolve` relies on: the dict branch stores every supplied entry under its
    standardized key, the scalar branch serves every network, the validation runs at init, `infect` reads by standardized key,
    an unsupported type is a TypeError. -/
theorem C17_beta_structure :
    Gen.betaDictStandardizes = true ∧ Gen.betaDictKeepsEntries = true ∧ Gen.betaScalarAllNetworks = true ∧
    Gen.betaValidatedAtInit = true ∧ Gen.betaInfectReadsStd = true ∧ Gen.betaBadType = .type := by decide

/-- **An entry that names no network of the sim is rejected** (it could never take effect): for every normalisation `f`,
    every set of networks and every supplied dict. -/
theorem C17_beta_unknown_network_rejected {α} (f : String → String) (bt : Err) (nets : List String)
    (items : List (String × Entry α)) (h : ∃ it ∈ items, f it.1 ∉ nets.map f) :
    ∀ m, resolve f genCheck bt nets (.dict items) ≠ .ok m := by
  intro m
  rw [genCheck_both]
  obtain ⟨it, hit, hn⟩ := h
  have hany : (items.map (fun it => f it.1)).any (fun k => !(nets.map f).contains k) = true := by
    simp only [List.any_eq_true, List.mem_map]
    exact ⟨f it.1, ⟨it, hit, rfl⟩, by simpa using hn⟩
  simp only [resolve, Bool.true_and, hany]
  split <;> simp

/-- **A network without an entry is rejected** (never a KeyError later, never a default). -/
theorem C17_beta_missing_network_rejected {α} (f : String → String) (bt : Err) (nets : List String)
    (items : List (String × Entry α)) (h : ∃ n ∈ nets, f n ∉ items.map (fun it => f it.1)) :
    resolve f genCheck bt nets (.dict items) = .error .value := by
  rw [genCheck_both]
  obtain ⟨n, hn, hk⟩ := h
  have hany : (nets.map f).any (fun n => !(items.map (fun it => f it.1)).contains n) = true := by
    simp only [List.any_eq_true, List.mem_map]
    exact ⟨f n, ⟨n, hn, rfl⟩, by simpa using hk⟩
  simp only [resolve, Bool.true_and, hany, if_true]

/-- a successful resolution passed both directions of the comparison -/
theorem resolve_ok_inv {α} (f : String → String) (bt : Err) (nets : List String) (items : List (String × Entry α))
    (m : List (String × Option (α × α))) (h : resolve f ⟨true, true⟩ bt nets (.dict items) = .ok m) :
    (∀ n ∈ nets, f n ∈ keysOfItems f items) ∧ (∀ it ∈ items, f it.1 ∈ nets.map f) ∧
    m = (nets.map f).map (fun n => (n, betaLookup f items n)) := by
  simp only [resolve, Bool.true_and] at h
  split at h
  · simp at h
  · rename_i h1
    split at h
    · simp at h
    · rename_i h2
      refine ⟨?_, ?_, ?_⟩
      · intro n hn
        simp only [List.any_eq_true, not_exists, not_and, List.mem_map] at h1
        have := h1 (f n) ⟨n, hn, rfl⟩
        simpa [keysOfItems] using this
      · intro it hit
        simp only [List.any_eq_true, not_exists, not_and, List.mem_map] at h2
        have := h2 (f it.1) ⟨it, hit, rfl⟩
        simpa using this
      · injection h with h; exact h.symm

/-- **Applied or rejected, per entry** (partial: standardized keys pairwise distinct).  If the sim initialises, every supplied
    entry is the value `infect()` reads for a network of the sim — under the entry's standardized key, in both directions. -/
theorem C17_beta_entries_applied_partial {α} (f : String → String) (bt : Err) (nets : List String)
    (items : List (String × Entry α)) (m : List (String × Option (α × α)))
    (hnd : (items.map (fun it => f it.1)).Nodup)
    (h : resolve f genCheck bt nets (.dict items) = .ok m) :
    ∀ it ∈ items, (f it.1, some it.2.eff) ∈ m := by
  rw [genCheck_both] at h
  obtain ⟨_, hex, hm⟩ := resolve_ok_inv f bt nets items m h
  intro it hit
  obtain ⟨k, e⟩ := it
  have hl := betaLookup_mem f items (by simpa [keysOfItems] using hnd) k e hit
  subst hm
  refine List.mem_map.mpr ⟨f k, hex (k, e) hit, ?_⟩
  simp [hl]

/-- … the full statement fails on the code as it is: two spellings of ONE network in a dict (`random` and `randomnet`) are
    both accepted and the earlier entry is silently overwritten (known finding `C17-beta-alias-keys`). -/
theorem C17_beta_entries_applied_counterexample :
    ∃ (nets : List String) (items : List (String × Entry Nat)) (m : List (String × Option (Nat × Nat))),
      genResolve nets (.dict items) = .ok m ∧ ∃ it ∈ items, (genStd it.1, some it.2.eff) ∉ m :=
  ⟨["randomnet"], [("random", .scalar 1), ("randomnet", .scalar 2)], [("random", some (2, 2))],
    by decide +kernel, ("random", .scalar 1), by simp, by decide +kernel⟩

/-- **Every network is served**: after a successful resolution `infect()` finds a value for every network of the sim, in
    network order (no KeyError at run time, no network silently without transmission). -/
theorem C17_beta_every_network_served {α} (f : String → String) (bt : Err) (nets : List String)
    (items : List (String × Entry α)) (m : List (String × Option (α × α)))
    (h : resolve f genCheck bt nets (.dict items) = .ok m) :
    m.map (·.1) = nets.map f ∧ ∀ p ∈ m, p.2.isSome = true := by
  rw [genCheck_both] at h
  obtain ⟨hmi, _, hm⟩ := resolve_ok_inv f bt nets items m h
  subst hm
  refine ⟨by simp [List.map_map, Function.comp_def], ?_⟩
  intro p hp
  simp only [List.mem_map] at hp
  obtain ⟨n, ⟨n0, hn0, rfl⟩, rfl⟩ := hp
  exact betaLookup_isSome f items (f n0) (hmi n0 hn0)

/-- **Spellings of a uniform beta**: a dict that gives every network the value `v` (as a scalar or as `[v, v]`, under any
    spelling of the network names, in any order, with repeats) resolves to exactly what the scalar `v` resolves to. -/
theorem C17_beta_scalar_spellings {α} (f : String → String) (bt : Err) (nets : List String) (v : α)
    (items : List (String × Entry α)) (hall : ∀ it ∈ items, it.2.eff = (v, v))
    (hcover : ∀ n ∈ nets, f n ∈ items.map (fun it => f it.1)) (hknown : ∀ it ∈ items, f it.1 ∈ nets.map f) :
    resolve f genCheck bt nets (.dict items) = resolve f genCheck bt nets (.scalar v) := by
  have h1 : (nets.map f).any (fun n => !(items.map (fun it => f it.1)).contains n) = false := by
    rw [Bool.eq_false_iff]; intro h
    simp only [List.any_eq_true, List.mem_map] at h
    obtain ⟨_, ⟨n, hn, rfl⟩, hc⟩ := h
    have := hcover n hn
    simp_all
  have h2 : (items.map (fun it => f it.1)).any (fun k => !(nets.map f).contains k) = false := by
    rw [Bool.eq_false_iff]; intro h
    simp only [List.any_eq_true, List.mem_map] at h
    obtain ⟨_, ⟨it, hit, rfl⟩, hc⟩ := h
    have := hknown it hit
    simp_all
  simp only [resolve, h1, h2, Bool.and_false, Bool.false_eq_true, if_false, List.map_map]
  congr 1
  apply List.map_congr_left
  intro n hn
  have := betaLookup_const f items (v, v) hall (f n) (by simpa [keysOfItems] using hcover n hn)
  simp [this]

/-- **Key spellings**: the outcome depends on the supplied network names only through `ss.standardize_netkey`
    (`random` ≡ `randomnet` ≡ `RandomNet`). -/
theorem C17_beta_key_spellings {α} (f : String → String) (chk : KeyCheck) (bt : Err) (nets : List String)
    (items items' : List (String × Entry α))
    (h : items.map (fun it => (f it.1, it.2)) = items'.map (fun it => (f it.1, it.2))) :
    resolve f chk bt nets (.dict items) = resolve f chk bt nets (.dict items') := by
  rw [resolve_dict_std, resolve_dict_std, h]

/-- a value that is neither a scalar nor a dict is a TypeError; a scalar serves every network in both directions -/
theorem C17_beta_scalar_and_bad {α} (nets : List String) (v : α) :
    genResolve nets (.bad : Beta α) = .error .type ∧
    genResolve nets (.scalar v) = .ok (nets.map (fun n => (genStd n, some (v, v)))) := by
  constructor
  · show resolve genStd genCheck Gen.betaBadType nets .bad = _
    have : Gen.betaBadType = .type := by decide
    simp [resolve, this]
  · rfl

/-- Non-vacuity on the regenerated normalisation: exact keys in three spellings are accepted and every entry is served; an
    extra entry (`mf` without an MF network; a misspelt `randomm`) and a missing entry are ValueErrors. -/
example :
    genResolve ["randomnet", "mfnet"] (.dict [("random", .scalar 1), ("MFNet", .pair 2 3)] : Beta Nat)
      = .ok [("random", some (1, 1)), ("mf", some (2, 3))] ∧
    genResolve ["randomnet"] (.dict [("random", .scalar 1), ("mf", .scalar 2)] : Beta Nat) = .error .value := by
  decide +kernel

example :
    genResolve ["randomnet"] (.dict [("randomnet", .scalar 1), ("randomm", .scalar 2)] : Beta Nat) = .error .value ∧
    genResolve ["randomnet", "mfnet"] (.dict [("mf", .scalar 2)] : Beta Nat) = .error .value := by
  decide +kernel

/-- **Caller-supplied dicts are never consumed**: none of the functions that receive a user dict (`make_dist`,
    `Module.update_pars`, `Time.update`, `Pars.update`, `Pars._update_dist`, `Pars._update_timepar`) can mutate the caller's
    object before rebinding the name to a private copy (regenerated ownership table). -/
theorem C17_caller_dicts_not_consumed : ∀ e ∈ Gen.argMutated, e.2 = false := by decide

/-- whether `make_dist` mutates the caller's spec (absent from the table = unknown = assume it does) -/
def genMakeDistMutates : Bool := (lookupFlag "make_dist" Gen.argMutated).getD true

/-- **A spec dict is left as it was.** -/
theorem C17_make_dist_input_unchanged (spec : List (String × Nat)) : (makeDist genMakeDistMutates spec).2 = spec := by
  have : genMakeDistMutates = false := by decide
  rw [this]; unfold makeDist; split <;> rfl

/-- **The same spec object configures every parameter identically**: using one dict for two parameters gives the second
    exactly what the first got (a new distribution of the supplied type — never the old type with stray entries), and the
    dict is unchanged afterwards. -/
theorem C17_spec_dict_reuse (spec : List (String × Nat)) :
    (useTwice genMakeDistMutates spec).2.1 = (useTwice genMakeDistMutates spec).1 ∧
    (useTwice genMakeDistMutates spec).2.2 = spec := by
  have : genMakeDistMutates = false := by decide
  rw [this]
  unfold useTwice updateDistDict makeDist
  cases h : findKey "type" spec <;> simp [h]

/-- … and this is exactly what the ownership fact buys: a `make_dist` that pops from the caller's dict gives the second
    parameter the OLD distribution type with the remaining entries as parameters. -/
theorem C17_spec_dict_reuse_needs_copy :
    ∃ spec, (useTwice true spec).1 = .made ⟨7, [("loc", 8)]⟩ ∧ (useTwice true spec).2.1 = .oldSet [("loc", 8)] ∧
      (useTwice true spec).2.2 ≠ spec :=
  ⟨[("type", 7), ("loc", 8)], by decide⟩

example : useTwice genMakeDistMutates [("type", 7), ("loc", 8)] =
    (.made ⟨7, [("loc", 8)]⟩, .made ⟨7, [("loc", 8)]⟩, [("type", 7), ("loc", 8)]) := by decide

end Refs

/-! ### Round 4 — sim-level shortcut parameters and the settings derived from them

`SimPars.validate_demographics` is regenerated as an ordered step list (Generated/ParsSimLevel.lean).  The theorems say that
the shortcut spellings (`birth_rate=` / `death_rate=` at the sim level, `demographics=True`) validate to exactly what the
explicit-module spelling validates to — modules AND the derived `use_aging` — so deriving a setting from a partially
expanded configuration (or expanding a shortcut after the setting was derived) stops them from elaborating. -/

section SimLevel
open StarsimModel.ParsSim

/-- `validate_demographics` as regenerated -/
def genValidate (c : Cfg) : Except Err Out := validateDemog Gen.demogSteps c

theorem C17_sim_level_structure : Gen.demogBeforeConvert = true := by decide

/-- **The derived setting is derived from the FINAL configuration**: an explicit `use_aging` is honoured; the default is
    "agents age iff the validated sim has demographics modules" — for every way the modules got there. -/
theorem C17_use_aging_derived (c : Cfg) (o : Out) (h : genValidate c = .ok o) :
    (∀ b, c.aging = some b → o.aging = some b) ∧ (c.aging = none → o.aging = some (!o.mods.isEmpty)) := by
  obtain ⟨dm, b, d, a⟩ := c
  cases dm <;> cases b <;> cases d <;> cases a <;>
    simp [genValidate, validateDemog, Gen.demogSteps, runSteps, step, DIn.add, DIn.isEmptyNdict, DIn.truthy, DIn.list] at h <;>
    (try subst h) <;> simp

/-- **Rate shortcuts ≡ explicit modules**: `Sim(birth_rate=b, death_rate=d, use_aging=a)` validates to exactly what
    `Sim(demographics=[Births(birth_rate=b), Deaths(death_rate=d)], use_aging=a)` validates to (modules, order, derived
    `use_aging`), for every b, d (either may be absent) and every a (including the default). -/
theorem C17_rate_shortcut_equiv (b d : Option Nat) (a : Option Bool) (h : b.isSome = true ∨ d.isSome = true) :
    genValidate ⟨.empty, b, d, a⟩ = genValidate ⟨.mods (explicitMods b d), none, none, a⟩ := by
  cases b <;> cases d <;> cases a <;>
    simp_all [genValidate, validateDemog, Gen.demogSteps, runSteps, step, DIn.add, DIn.isEmptyNdict, DIn.truthy, DIn.list, explicitMods]

/-- **`demographics=True` ≡ `[Births(), Deaths()]`**, with any `use_aging`. -/
theorem C17_true_shortcut_equiv (a : Option Bool) :
    genValidate ⟨.flagTrue, none, none, a⟩ = genValidate ⟨.mods [.births none, .deaths none], none, none, a⟩ := by
  cases a <;> simp [genValidate, validateDemog, Gen.demogSteps, runSteps, step, DIn.isEmptyNdict, DIn.truthy, DIn.list]

/-- **A rate shortcut next to explicit demographics is rejected**, never merged or dropped: any list (even an empty one) and
    `demographics=True`. -/
theorem C17_rate_with_modules_rejected (l : List DMod) (b d : Option Nat) (a : Option Bool)
    (h : b.isSome = true ∨ d.isSome = true) :
    genValidate ⟨.mods l, b, d, a⟩ = .error .value ∧ genValidate ⟨.flagTrue, b, d, a⟩ = .error .value := by
  cases b <;> cases d <;> cases a <;>
    simp_all [genValidate, validateDemog, Gen.demogSteps, runSteps, step, DIn.add, DIn.isEmptyNdict, DIn.truthy, DIn.list]

/-- every supplied rate is carried by exactly one module of the validated sim -/
theorem C17_rate_shortcut_applied (b d : Option Nat) (a : Option Bool) (o : Out)
    (h : genValidate ⟨.empty, b, d, a⟩ = .ok o) : o.mods = explicitMods b d := by
  cases b <;> cases d <;> cases a <;>
    simp [genValidate, validateDemog, Gen.demogSteps, runSteps, step, DIn.add, DIn.isEmptyNdict, DIn.truthy, DIn.list, explicitMods] at h ⊢ <;>
    (subst h; rfl)

/-- Non-vacuity, and why the ORDER is what the theorems pin: with `use_aging` derived before the shortcuts are expanded the
    two spellings of "births at rate 25" validate differently (agents of the shortcut spelling never age). -/
example :
    genValidate ⟨.empty, some 25, some 12, none⟩ = .ok ⟨[.births (some 25), .deaths (some 12)], some true⟩ ∧
    genValidate ⟨.empty, none, none, none⟩ = .ok ⟨[], some false⟩ ∧
    validateDemog [.trueShortcut, .deriveAging, .computeValid, .birthShortcut, .deathShortcut] ⟨.empty, some 25, none, none⟩
      = .ok ⟨[.births (some 25)], some false⟩ ∧
    validateDemog [.trueShortcut, .deriveAging, .computeValid, .birthShortcut, .deathShortcut] ⟨.mods [.births (some 25)], none, none, none⟩
      = .ok ⟨[.births (some 25)], some true⟩ := by decide

end SimLevel


/-! ### Round 5: the FIELDS of a time parameter given in list / dict form

`[v, unit, ...]` reaches `old.set(*new)`, `dict(v=…, unit=…, self_dt=…)` reaches `old.set(**new)`.  `TimePar.set`, the
constructor, the fields `validate_units` maps through the name table, the table (`unit_mapping_reverse`) and `time_units` are
regenerated (Generated/ParsTimePar.lean): storing anything but the supplied object, dropping the final `validate_units()`,
mapping a field leniently, or a table in which a name spells "inherit" stops these theorems from elaborating. -/

section TimeParFields
open StarsimModel.ParsTime
/-- `update_pars(list)` / `(dict)` reach `set` spread positionally / by keyword -/
theorem C17_timepar_forms_reach_set : Gen.tpListSpread = true ∧ Gen.tpDictSpread = true ∧ Gen.tpNumberFirst = true := by decide

/-- the name table: every canonical unit is a name of itself (so validating twice changes nothing), no name spells two
    units, and `None` ("inherit the parent's unit") is spelled by `None` only -/
theorem C17_unit_table_sound :
    (∀ e ∈ Gen.unitTable, lookup Gen.unitTable e.1 = some e.1) ∧
    (Gen.unitTable.flatMap (·.2)).Nodup ∧
    (∀ e ∈ Gen.unitTable, e.1 = none → e.2 = [none]) ∧
    (∀ n ∈ Gen.timeUnitNames, lookup Gen.unitTable (some n) = some (some n)) := by decide

/-- **A supplied name is never turned into "inherit"**: whatever string (or other hashable) is given as a unit, the table
    either does not know it or maps it to a real canonical unit. -/
theorem C17_unit_name_never_inherit (u : String) : lookup Gen.unitTable (some u) ≠ some none := by
  intro h
  obtain ⟨ns, hm, hu⟩ := lookup_mem _ _ _ h
  have := C17_unit_table_sound.2.2.1 (none, ns) hm rfl
  simp at this; subst this; simp at hu

/-- **Every field of a list / dict value is applied as given or the update raises** (for EVERY existing time parameter —
    initialised or not — and EVERY combination of supplied fields): after a `set()` that returns,
    a supplied unit / parent-unit NAME is in effect as the real canonical unit it spells — an unknown name cannot return, and
    no name degrades to "inherit" —, the supplied value, `self_dt` and `parent_dt` are stored as given, and fields that were
    not supplied keep what they had. -/
theorem C17_timepar_fields_applied_or_rejected (st st' : TP) (a : Args) (h : genSet st a = .ok st') :
    (∀ u, a.unit = some u → ∃ c, lookup Gen.unitTable (some u) = some (some c) ∧ st'.unit = some c) ∧
    (∀ u, a.parentUnit = some u → ∃ c, lookup Gen.unitTable (some u) = some (some c) ∧ st'.parentUnit = some c) ∧
    (∀ x, a.v = some x → st'.v = x) ∧ (∀ x, a.selfDt = some x → st'.selfDt = some x) ∧
    (∀ x, a.parentDt = some x → st'.parentDt = some x) ∧
    (a.v = none → st'.v = st.v) ∧ (a.selfDt = none → st'.selfDt = st.selfDt) ∧
    (a.unit = none → lookup Gen.unitTable st.unit = some st'.unit) := by
  have hv := validate_ok _ _ _ (genSet_ok st st' a h)
  obtain ⟨hu, hpu, hvv, hsd, hpd, _⟩ := hv
  obtain ⟨f1, f2, f3, f4, f5, _⟩ := assigned_fields st a
  rw [f2] at hu; rw [f3] at hpu; rw [f1] at hvv; rw [f5] at hsd; rw [f4] at hpd
  refine ⟨?_, ?_, ?_, ?_, ?_, ?_, ?_, ?_⟩
  · intro u hau
    rw [hau] at hu; simp at hu
    cases hc : st'.unit with
    | none => rw [hc] at hu; exact absurd hu (C17_unit_name_never_inherit u)
    | some c => rw [hc] at hu; exact ⟨c, hu, rfl⟩
  · intro u hau
    rw [hau] at hpu; simp at hpu
    cases hc : st'.parentUnit with
    | none => rw [hc] at hpu; exact absurd hpu (C17_unit_name_never_inherit u)
    | some c => rw [hc] at hpu; exact ⟨c, hpu, rfl⟩
  · intro x hx; simp [hvv, hx]
  · intro x hx; simp [hsd, hx]
  · intro x hx; simp [hpd, hx]
  · intro hx; simp [hvv, hx]
  · intro hx; simp [hsd, hx]
  · intro hx; rw [hx] at hu; simpa using hu

/-- **An unknown unit name is rejected**, in whichever field and form it arrives. -/
theorem C17_timepar_unknown_unit_rejected (st : TP) (a : Args) (u : String)
    (hu : lookup Gen.unitTable (some u) = none) (ha : a.unit = some u ∨ a.parentUnit = some u) :
    ∃ e, genSet st a = .error e := by
  cases hr : genSet st a with
  | error e => exact ⟨e, rfl⟩
  | ok st' =>
    have h := C17_timepar_fields_applied_or_rejected st st' a hr
    rcases ha with ha | ha
    · obtain ⟨c, hc, _⟩ := h.1 u ha; rw [hu] at hc; simp at hc
    · obtain ⟨c, hc, _⟩ := h.2.1 u ha; rw [hu] at hc; simp at hc

/-- **List form ≡ dict form ≡ explicit constructor** for a parameter that is not yet initialised (the configure-then-build
    flow): `old.set(fields)` is exactly `type(old)(old's fields overridden by the supplied ones)` — same acceptance, same
    canonical units, same values. -/
theorem C17_timepar_set_equiv_ctor (st : TP) (a : Args) (hi : st.initialized = false) (hf : a.force = false) :
    genSet st a = genCtor (mergeArgs st a) := by
  unfold genSet genCtor tpSet tpCtor
  simp only [Gen.tpSetSteps, Gen.tpCtorSteps, runSteps, stepSet_assign, stepSet_store]
  have hidle := cached_idle genEnv a (assigned st a) (by rw [(assigned_fields st a).2.2.2.2.2]; exact hi) hf
  change (match stepSet genEnv a (assigned st a) .updateCachedIfLive with
          | .ok s => (match stepSet genEnv a s .validate with | .ok s' => Except.ok s' | .error e => .error e)
          | .error e => .error e) = _
  rw [hidle]
  have heq : assigned st a = storeField .selfDt (mergeArgs st a) (storeField .parentDt (mergeArgs st a) (storeField .parentUnit (mergeArgs st a)
      (storeField .unit (mergeArgs st a) (storeField .v (mergeArgs st a) blank)))) := by
    obtain ⟨sv, su, spu, spd, ssd, si⟩ := st
    obtain ⟨av, au, apu, apd, asd, af⟩ := a
    simp at hi; subst hi
    cases av <;> cases au <;> cases apu <;> cases apd <;> cases asd <;> simp [assigned, assignField, storeField, mergeArgs, blank]
  rw [← heq]
  rfl

/-- Non-vacuity: an alias in list / dict form is applied as its canonical unit, a non-name is a ValueError, an unsupplied unit
    is kept, and on an initialised parameter the cached factor is recomputed BEFORE the names are mapped (so an alias that is
    not a key of `time_units` raises there — rejected, never dropped). -/
example :
    genSet ⟨3, none, none, none, some 1, false⟩ { v := some 40, unit := some "wk" } = .ok ⟨40, some "week", none, none, some 1, false⟩ ∧
    genSet ⟨3, none, none, none, some 1, false⟩ { v := some 40, unit := some "wks" } = .error .value ∧
    genSet ⟨3, some "day", none, none, some 1, false⟩ { v := some 40 } = .ok ⟨40, some "day", none, none, some 1, false⟩ ∧
    genSet ⟨3, some "day", none, none, some 1, false⟩ { parentUnit := some "Year" } = .error .value ∧
    genSet ⟨3, some "day", some "year", some 1, some 1, true⟩ { unit := some "week" } = .ok ⟨3, some "week", some "year", some 1, some 1, true⟩ ∧
    genSet ⟨3, some "day", some "year", some 1, some 1, true⟩ { unit := some "weeks" } = .error .keyNotFound ∧
    genCtor { v := some 40, unit := some "wk", selfDt := some 1 } = .ok ⟨40, some "week", none, none, some 1, false⟩ := by decide

end TimeParFields

/-! ## Round 6 — timeline arguments of a module (`unit`, `dt`) in every spelling

`Gen.timeInitSteps` is the head of `Time.init(sim)` in SOURCE ORDER, `Gen.unitTable` the regenerated name table, `Gen.timeMismatchDt` the
constant used when the units differ.  All statements are for EVERY sim timeline, supplied dt and pair of names. -/
section ModuleTime
open StarsimModel.ParsTime StarsimModel.ParsModTime

/-- the head of `Time.init` on the regenerated facts -/
abbrev genTimeInit (s : ST) (m : MT) : Res := timeInit Gen.unitTable Gen.timeMismatchDt s Gen.timeInitSteps m

/-- the unit name is normalised before anything reads it (the regenerated statement order) -/
theorem C17_module_time_structure :
    Gen.timeInitSteps = [.normalizeUnit, .inheritFromSim] ∧ Gen.validateUnitStrict = true := by decide

/-- **All names of a unit are one spelling**: two supplied unit names that the documented table maps to the same unit (`'year'`,
    `'years'`, `'yr'`, `'y'`; two non-names alike) resolve to the SAME module timeline — unit, dt — in every sim, with or without an own dt. -/
theorem C17_module_unit_spellings (s : ST) (n1 n2 : UVal) (dt : Option Rat)
    (h : lookup Gen.unitTable n1 = lookup Gen.unitTable n2) : genTimeInit s ⟨n1, dt⟩ = genTimeInit s ⟨n2, dt⟩ := by
  unfold genTimeInit; rw [C17_module_time_structure.1]; exact timeInit_spellings _ _ _ _ _ _ _ h

/-- **A unit that is a name of the sim's unit (or not given at all) leaves the sim's timeline in effect**: the module's unit is the
    sim's, a supplied dt is kept, and without one the SIM's dt is in effect (never the fallback). -/
theorem C17_module_dt_inherited (s : ST) (n : UVal) (dt : Option Rat)
    (h : lookup Gen.unitTable n = some s.unit ∨ n = none) : genTimeInit s ⟨n, dt⟩ = .ok ⟨s.unit, some (dt.getD s.dt)⟩ := by
  unfold genTimeInit; rw [C17_module_time_structure.1]
  rcases h with h | h
  · exact timeInit_same_unit _ _ _ _ _ h
  · subst h; exact timeInit_not_given _ _ _ _ (by decide)

/-- the explicit spelling of an inherited value is the same configuration: `unit=<any name of the sim's unit>` ≡ no unit; `dt=<sim dt>` ≡ no dt -/
theorem C17_module_explicit_default_equiv (s : ST) (n : UVal) (h : lookup Gen.unitTable n = some s.unit) :
    genTimeInit s ⟨n, none⟩ = genTimeInit s ⟨none, none⟩ ∧ genTimeInit s ⟨n, some s.dt⟩ = genTimeInit s ⟨none, none⟩ := by
  rw [C17_module_dt_inherited s n none (.inl h), C17_module_dt_inherited s n (some s.dt) (.inl h), C17_module_dt_inherited s none none (.inr rfl)]
  simp

/-- a name of ANOTHER unit: that unit is in effect with the supplied dt (else the regenerated fallback); a non-name is rejected -/
theorem C17_module_other_unit_applied (s : ST) (n : UVal) (c : String) (dt : Option Rat)
    (h : lookup Gen.unitTable n = some (some c)) (hne : some c ≠ s.unit) :
    genTimeInit s ⟨n, dt⟩ = .ok ⟨some c, some (dt.getD Gen.timeMismatchDt)⟩ := by
  unfold genTimeInit; rw [C17_module_time_structure.1]; exact timeInit_other_unit _ _ _ _ _ _ h hne

theorem C17_module_unit_unknown_rejected (s : ST) (n : UVal) (dt : Option Rat) (h : lookup Gen.unitTable n = none) :
    genTimeInit s ⟨n, dt⟩ = .err .keyNotFound := by
  unfold genTimeInit; rw [C17_module_time_structure.1]; exact timeInit_unknown _ _ _ _ _ _ h

/-- non-vacuity on the regenerated table, and why the ORDER matters: with "inherit, then normalise" the alias `'years'` in a quarterly
    year-sim compares unequal to the sim's `'year'` and silently gets the fallback dt while `'year'` gets 1/4 -/
example :
    genTimeInit ⟨some "year", 1/4⟩ ⟨some "years", none⟩ = .ok ⟨some "year", some (1/4)⟩ ∧
    genTimeInit ⟨some "year", 1/4⟩ ⟨some "y", none⟩ = genTimeInit ⟨some "year", 1/4⟩ ⟨none, none⟩ ∧
    genTimeInit ⟨some "day", 2⟩ ⟨some "d", some 7⟩ = .ok ⟨some "day", some 7⟩ ∧
    genTimeInit ⟨some "year", 1/4⟩ ⟨some "wk", none⟩ = .ok ⟨some "week", some 1⟩ ∧
    genTimeInit ⟨some "year", 1/4⟩ ⟨some "Years", none⟩ = .err .keyNotFound ∧
    timeInit Gen.unitTable 1 ⟨some "year", 1/4⟩ [.inheritFromSim, .normalizeUnit] ⟨some "years", none⟩ = .ok ⟨some "year", some 1⟩ ∧
    timeInit Gen.unitTable 1 ⟨some "year", 1/4⟩ [.inheritFromSim, .normalizeUnit] ⟨some "year", none⟩ = .ok ⟨some "year", some (1/4)⟩ := by
  decide +kernel

end ModuleTime

end StarsimModel.C17
