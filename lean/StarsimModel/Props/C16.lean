/-
C16 — Per-step hazards and durations are independent of the timestep.

Property theorems and non-vacuity examples only.  Model: Model/Hazard.lean on top of Model/TimePar.lean; the
time-scaling EXPRESSION of every branch of the hazard functions is regenerated from /repo on every run
(Generated/HazardExprs.lean) and interpreted by `factorOf`.
-/
import StarsimModel.Lemmas.Hazard
import StarsimModel.Lemmas.TimeParReal
import Mathlib.Data.Rat.Floor

namespace StarsimModel.C16
open StarsimModel.TimePar StarsimModel.Hazard

/-! ### Obligations on the regenerated expressions -/

/-- plain-number rates of births, deaths and fertility are scaled by the module's step length in YEARS
    — the MODULE's own step, not the sim's (whichever of the equivalent source spellings is used: the
    `time_ratio(self.t.unit, self.t.dt, ...)` call or `self.t.dt_year`; `sim.t.dt_year` is NOT equivalent) -/
theorem C16_number_factors_are_year_ratio (unit : UnitT) (dt : Option Rat) (su : UnitT) (sd : Option Rat) :
    factorOf Gen.birthsNumberFactor unit dt su sd = timeRatio unit dt (some "year") (some 1) ∧
    factorOf Gen.deathsNumberFactor unit dt su sd = timeRatio unit dt (some "year") (some 1) ∧
    factorOf Gen.fertilityNumberFactor unit dt su sd = timeRatio unit dt (some "year") (some 1) := by
  refine ⟨?_, ?_, ?_⟩ <;> (unfold factorOf; rw [if_neg (by decide), if_neg (by decide), if_pos (by decide)])

/-- a TimePar birth rate is not scaled again (the TimePar already converts to the module's step) -/
theorem C16_births_timepar_factor_is_one (unit : UnitT) (dt : Option Rat) (su : UnitT) (sd : Option Rat) :
    factorOf Gen.birthsTimeParFactor unit dt su sd = .ok 1 := by
  unfold factorOf; rw [if_pos (by decide)]

/-- ageing adds the SIM step length in years -/
theorem C16_ageing_increment_is_dt_year (unit : UnitT) (dt : Option Rat) :
    ageIncrement unit dt = timeRatio unit dt (some "year") (some 1) := by
  unfold ageIncrement factorOf; rw [if_neg (by decide), if_neg (by decide), if_neg (by decide), if_pos (by decide)]

/-- the TimePar death-rate branch is one of the two known variants: as is (`self.t.dt`, the defect) or repaired (`1.0`) -/
theorem C16_deaths_timepar_factor_variant : Gen.deathsTimeParFactor = "self.t.dt" ∨ Gen.deathsTimeParFactor = "1.0" := by decide

/-- the routine-delivery exponent is one of the two known variants: as is (`sim.pars.dt`, raw steps) or repaired (years) -/
theorem C16_delivery_dt_variant : Gen.deliveryDt = "sim.pars.dt" ∨ Gen.deliveryDt = "sim.t.dt" ∨ Gen.deliveryDt = "sim.t.dt_year" := by decide

/-- dynamic edges are aged by the network's own step -/
theorem C16_edge_decrement_is_dt : Gen.edgeDecrement = "self.t.dt" := by decide

/-! ### Plain-number rates: probability = rate · units · rel · (step length in years) -/

theorem year_ratio_known {u : String} {lu ly d : Rat} (hlu : unitLen u = some lu) (hly : unitLen "year" = some ly) :
    timeRatio (some u) (some d) (some "year") (some 1) = .ok (d * lu / ly) := by
  rw [timeRatio_known hlu hly one_ne_zero]
  congr 1
  have := ne_of_gt (unitLen_pos hly)
  field_simp

/-- **Births, number form**: per-step probability = rate·units·rel·dt_year (clipped), for every module unit and dt -/
theorem C16_births_linear {u : String} {lu ly d : Rat} (hlu : unitLen u = some lu) (hly : unitLen "year" = some ly) (su : UnitT) (sd : Option Rat) (r ru rel : Rat) :
    birthsNumber (some u) (some d) su sd r ru rel = .ok (clip01 (r * ru * rel * (d * lu / ly))) := by
  unfold birthsNumber numberProb
  rw [(C16_number_factors_are_year_ratio _ _ _ _).1, year_ratio_known hlu hly]

/-- **Deaths, number form** -/
theorem C16_deaths_number_linear {u : String} {lu ly d : Rat} (hlu : unitLen u = some lu) (hly : unitLen "year" = some ly) (su : UnitT) (sd : Option Rat) (r ru rel : Rat) :
    deathsNumber (some u) (some d) su sd r ru rel = .ok (clip01 (r * ru * rel * (d * lu / ly))) := by
  unfold deathsNumber numberProb
  rw [(C16_number_factors_are_year_ratio _ _ _ _).2.1, year_ratio_known hlu hly]

/-- **Fertility, number form**: eligible women get rate·(units·rel)·dt_year, the others 0 -/
theorem C16_fertility_linear {u : String} {lu ly d : Rat} (hlu : unitLen u = some lu) (hly : unitLen "year" = some ly)
    (su : UnitT) (sd : Option Rat) (r ru rel age mn mx : Rat) (fec : Bool) :
    fertilityNumber (some u) (some d) su sd r ru rel age mn mx fec =
      .ok (if fec = true ∧ mn ≤ age ∧ age ≤ mx then clip01 (r * (ru * rel) * (d * lu / ly)) else 0) := by
  unfold fertilityNumber
  rw [(C16_number_factors_are_year_ratio _ _ _ _).2.2, year_ratio_known hlu hly]
  simp only [Except.ok.injEq]
  by_cases hf : fec = true <;> by_cases h1 : age < mn <;> by_cases h2 : mx < age <;>
    simp [hf, h1, h2, not_le.mpr, not_lt.mp]

/-- unclipped range: when the product is a probability the clip is the identity, so the hazard is LINEAR in dt -/
theorem C16_events_per_year_linear {r d : Rat} (hd : d ≠ 0) (h0 : 0 ≤ r * d) (h1 : r * d ≤ 1) :
    clip01 (r * d) / d = r := by
  rw [clip01_of_mem h0 h1]; field_simp

/-! ### TimePar rates: births (holds), deaths (as is: dt twice) -/

/-- **Births, TimePar form**: per-step probability = v·units·rel·(parent step)/(own period), clipped -/
theorem C16_births_timepar {t : TP Rat} {u pu : String} {lu lpu s p r : Rat} (h : RateReady t u pu lu lpu s p) (hv : t.v = .scalar r)
    (unit : UnitT) (dt : Option Rat) (su : UnitT) (sd : Option Rat) (ru rel : Rat) :
    birthsTimePar unit dt su sd t ru rel = .ok (.scalar (clip01 (r * ru * rel * ((p * lpu) / (s * lu))))) := by
  unfold birthsTimePar
  have hfx := C16_births_timepar_factor_is_one unit dt su sd
  rw [timeparProb_rate_scalar h hv _ unit dt su sd hfx]
  have := ne_of_gt (unitLen_pos h.lu); have := ne_of_gt (unitLen_pos h.lpu); have := h.p0; have := h.s0
  congr 3
  field_simp

/-- **Deaths, repaired variant** (`factor = 1.0`): the same law as births — linear in the module's dt -/
theorem C16_deaths_spec {t : TP Rat} {u pu : String} {lu lpu s p r : Rat} (h : RateReady t u pu lu lpu s p) (hv : t.v = .scalar r)
    (unit : UnitT) (dt : Option Rat) (su : UnitT) (sd : Option Rat) (ru rel : Rat) :
    timeparProb "1.0" unit dt su sd t ru rel = .ok (.scalar (clip01 (r * ru * rel * ((p * lpu) / (s * lu))))) := by
  have hfx : factorOf "1.0" unit dt su sd = .ok 1 := by unfold factorOf; simp
  rw [timeparProb_rate_scalar h hv _ unit dt su sd hfx]
  have := ne_of_gt (unitLen_pos h.lu); have := ne_of_gt (unitLen_pos h.lpu); have := h.p0; have := h.s0
  congr 3
  field_simp

/-- **Deaths, as is** (`factor = self.t.dt`): the module's dt enters TWICE -/
theorem C16_deaths_asis {t : TP Rat} {u pu : String} {lu lpu s p r d : Rat} (h : RateReady t u pu lu lpu s p) (hv : t.v = .scalar r)
    (unit : UnitT) (su : UnitT) (sd : Option Rat) (ru rel : Rat) :
    timeparProb "self.t.dt" unit (some d) su sd t ru rel = .ok (.scalar (clip01 (r * ru * rel * d * ((p * lpu) / (s * lu))))) := by
  have hfx : factorOf "self.t.dt" unit (some d) su sd = .ok d := by unfold factorOf; simp
  rw [timeparProb_rate_scalar h hv _ unit (some d) su sd hfx]
  have := ne_of_gt (unitLen_pos h.lu); have := ne_of_gt (unitLen_pos h.lpu); have := h.p0; have := h.s0
  congr 3
  field_simp

/-- **Partial**: as is equals the repaired law exactly when the module's dt is 1 -/
theorem C16_deaths_partial {t : TP Rat} {u pu : String} {lu lpu s p r : Rat} (h : RateReady t u pu lu lpu s p) (hv : t.v = .scalar r)
    (unit : UnitT) (su : UnitT) (sd : Option Rat) (ru rel : Rat) :
    timeparProb "self.t.dt" unit (some 1) su sd t ru rel = timeparProb "1.0" unit (some 1) su sd t ru rel := by
  rw [C16_deaths_asis h hv, C16_deaths_spec h hv, mul_one]

/-- the default death rate `ss.peryear(20)` per 1000 in a module stepping in years with dt = 1/5 -/
def deathsWitness : TP Rat :=
  ⟨.rate, .scalar 20, some "year", some "year", some (1/5), some 1, some 5, some (.scalar 4), true⟩

/-- **Counterexample (kernel-evaluated on the model).** With dt = 1/5 the as-is probability is 1/1250 per step,
    i.e. 1/250 per year instead of 1/50: one fifth of the annual hazard (deaths ∝ dt²); the repaired variant gives 1/250 per step. -/
theorem C16_deaths_asis_counterexample :
    timeparProb "self.t.dt" (some "year") (some (1/5)) (some "year") (some (1/5)) deathsWitness (1/1000) 1 = .ok (.scalar (1/1250)) ∧
    timeparProb "1.0" (some "year") (some (1/5)) (some "year") (some (1/5)) deathsWitness (1/1000) 1 = .ok (.scalar (1/250)) ∧
    (1/1250 : Rat) * 5 = (1/5) * ((20 : Rat) / 1000) := by
  refine ⟨by decide +kernel, by decide +kernel, by decide +kernel⟩

/-! ### Ageing, durations -/

/-- **Ageing**: the increments of the sim steps that make up one year add up to exactly 1 — every sim unit and dt -/
theorem C16_ageing {u : String} {lu ly d : Rat} (hlu : unitLen u = some lu) (hly : unitLen "year" = some ly) (n : Nat)
    (hyear : (n : Rat) * (d * lu) = ly) :
    ∃ inc, ageIncrement (some u) (some d) = .ok inc ∧ (n : Rat) * inc = 1 := by
  have h := C16_ageing_increment_is_dt_year (some u) (some d)
  refine ⟨_, by rw [h, timeRatio_known hlu hly one_ne_zero], ?_⟩
  have := ne_of_gt (unitLen_pos hly)
  field_simp
  linarith

/-- **Durations**: a duration parameter initialised with the module timeline, times the module's step length,
    is the duration itself (both in days) — restated from C06 for the module (parent) timeline -/
theorem C16_duration_steps (t : TP Rat) (hk : t.kind = .dur) {u pu : String} {lu lpu s p : Rat}
    (hu : t.unit = some u) (hpu : t.parentUnit = some pu) (hs : t.selfDt = some s) (hp : t.parentDt = some p)
    (hlu : unitLen u = some lu) (hlpu : unitLen pu = some lpu) (hp0 : p ≠ 0) :
    (updateCached ratOps t true false).1.values = some (t.v.map (· * ((s / p) * (lu / lpu)))) ∧
    ∀ x : Rat, (x * ((s / p) * (lu / lpu))) * (p * lpu) = x * (s * lu) := by
  rw [updateCached_dur t hk hu hpu hs hp hlu hlpu hp0 false]
  refine ⟨rfl, fun x => ?_⟩
  have := ne_of_gt (unitLen_pos hlpu)
  field_simp

/-! ### Table-driven rates -/

/-- **Age bin** = the last bin start `≤ age`: with increasing bin starts, `digitize − 1` selects index `i` such that
    the first `i` starts are `≤ age` and all later ones are `> age` (ages below every start fall in the `-inf` row 0). -/
theorem C16_table_lookup (bins : List Rat) (hs : bins.Pairwise (· < ·)) (age : Rat) :
    (∀ b ∈ bins.take (ageBin bins age), b ≤ age) ∧ (∀ b ∈ bins.drop (ageBin bins age), age < b) ∧ ageBin bins age ≤ bins.length := by
  obtain ⟨h1, h2⟩ := ageBin_take age bins hs
  refine ⟨?_, h2, ?_⟩
  · intro b hb
    rw [← h1] at hb
    simpa using (List.mem_filter.mp hb).2
  · unfold ageBin; exact List.length_filter_le _ _

/-! ### Probabilities that compound: coverage, per-act transmission (ℝ) -/

/-- `1 - (1 - P) ** e` -/
noncomputable def coverage (P e : ℝ) : ℝ := 1 - (1 - P) ^ e

/-- **Coverage conversion (repaired variant)**: with the exponent = step length in years, compounding the per-step
    probability over the `1/e` steps of a year returns the annual probability -/
theorem C16_coverage_conversion {P e : ℝ} (h1 : P ≤ 1) (he : e ≠ 0) : 1 - (1 - coverage P e) ^ (1 / e) = P := by
  unfold coverage
  have hx : (0 : ℝ) ≤ 1 - P := by linarith
  have : (1 : ℝ) - (1 - (1 - P) ^ e) = (1 - P) ^ e := by ring
  rw [this, ← Real.rpow_mul hx, mul_one_div_cancel he, Real.rpow_one]
  ring

/-- **Partial**: in a sim whose unit is the year the raw dt IS the step length in years, so the as-is exponent is right -/
theorem C16_coverage_partial (d : Rat) :
    deliveryExponent "sim.pars.dt" (some "year") (some d) = deliveryExponent "sim.t.dt_year" (some "year") (some d) := by
  have h1 : deliveryExponent "sim.pars.dt" (some "year") (some d) = .ok d := by unfold deliveryExponent; simp
  have h2 : deliveryExponent "sim.t.dt_year" (some "year") (some d) = .ok (d * 1) := by
    unfold deliveryExponent
    simp [timeRatio, dtRatio_some one_ne_zero, unitRatio]
  rw [h1, h2, mul_one]

/-- **Counterexample (as is)**: in a sim stepping in days the exponent is 1 (not 1/365.25): an annual probability is applied
    EVERY DAY — and for 0 < P < 1 that is strictly more than the correct per-step probability -/
theorem C16_coverage_counterexample :
    deliveryExponent "sim.pars.dt" (some "day") (some 1) = .ok 1 ∧
    deliveryExponent "sim.t.dt_year" (some "day") (some 1) ≠ .ok 1 ∧
    ∀ P e : ℝ, 0 < P → P < 1 → 0 < e → e < 1 → coverage P e < coverage P 1 := by
  refine ⟨by decide +kernel, by decide +kernel, ?_⟩
  intro P e h0 h1 he0 he1
  unfold coverage
  have := Real.rpow_lt_rpow_of_exponent_gt (x := 1 - P) (by linarith) (by linarith) he1
  linarith

/-- **Per-act transmission** (`SexualNetwork.net_beta`): the probability of escaping infection over `n` steps of length
    `dt` with `a` acts per unit time is `(1-β)^(a·(n·dt))` — it depends on the elapsed time `n·dt` only, not on dt -/
theorem C16_net_beta_compound {β a dt : ℝ} (h1 : β ≤ 1) (n : ℕ) :
    (1 - (1 - (1 - β) ^ (a * dt))) ^ n = (1 - β) ^ (a * ((n : ℝ) * dt)) := by
  have hx : (0 : ℝ) ≤ 1 - β := by linarith
  have : (1 : ℝ) - (1 - (1 - β) ^ (a * dt)) = (1 - β) ^ (a * dt) := by ring
  rw [this, ← Real.rpow_natCast, ← Real.rpow_mul hx]
  congr 1
  ring

/-- a compounding per-step probability `1-(1-P)^dt` gives `P` per unit time for every dt (exact annual identity);
    this is `C06_timeprob_compound` with `factor = 1/dt` -/
theorem C16_events_per_year_compound {P dt : ℝ} (hP : P < 1) (hdt : dt ≠ 0) :
    1 - (1 - realOps.tpFormula P (1 / dt)) ^ (1 / dt) = P :=
  tp_compound hP (one_div_ne_zero hdt)

/-! ### Round 2: nearest year, fertility table, sampled durations, waning, dynamic edges -/

/-- **Nearest year**: the selected year is one of the tabulated years and no tabulated year is closer to the requested one
    (whatever the spacing of the table and wherever the step falls between two entries) -/
theorem C16_nearest_year_minimal (years : List Rat) (y : Rat) (r : Rat) (h : nearestVal years y = some r) :
    r ∈ years ∧ ∀ x ∈ years, absDiff r y ≤ absDiff x y := by
  cases years with
  | nil => simp [nearestVal] at h
  | cons x xs =>
    simp only [nearestVal, Option.some.injEq] at h
    subst h
    obtain ⟨h1, h2, h3⟩ := nearestValAux_spec y xs x
    constructor
    · rcases h1 with e | m
      · rw [e]; exact List.mem_cons_self ..
      · exact List.mem_cons_of_mem _ m
    · intro z hz
      rcases List.mem_cons.mp hz with rfl | hz
      · exact h2
      · exact h3 z hz

/-- a sim time that IS a tabulated year selects that year -/
theorem C16_nearest_year_exact (years : List Rat) (y : Rat) (hy : y ∈ years) (r : Rat) (h : nearestVal years y = some r) : r = y := by
  have h0 := (C16_nearest_year_minimal years y r h).2 y hy
  have hz : absDiff y y = 0 := by simp [absDiff]
  rw [hz] at h0
  unfold absDiff at h0
  by_cases hn : r - y < 0
  · simp only [hn, if_true] at h0; linarith
  · simp only [hn, if_false] at h0; linarith [not_lt.mp hn]

/-- **Fertility table, infecund re-scaling**: the expected number of conceptions in an age bin is preserved
    (`rate·count` spread over the fecund women only) -/
theorem C16_fertility_rescale (rate : Rat) (count infecund : Nat) (h : (0 : Rat) < (count : Rat) - (infecund : Rat)) :
    rescaleRate rate count infecund * ((count : Rat) - (infecund : Rat)) = rate * (count : Rat) := by
  unfold rescaleRate
  simp only [h, if_true]
  have := ne_of_gt h
  field_simp

/-- the yearly interpolation of the table reproduces the tabulated values at the tabulated years -/
theorem C16_fertility_interpolation_endpoints (y0 r0 y1 r1 : Rat) (h : y0 ≠ y1) : lerp y0 r0 y1 r1 y0 = r0 ∧ lerp y0 r0 y1 r1 y1 = r1 := by
  have : y1 - y0 ≠ 0 := sub_ne_zero.mpr (Ne.symm h)
  constructor
  · simp [lerp]
  · unfold lerp; field_simp; ring

/-- **Sampled durations** (`ss.lognorm_ex(mean=ss.dur(6))`, `ss.days(ss.lognorm_ex(..))`, … of the disease modules): every
    variate, converted by the module's timeline, times the module's step length is the sampled duration (both in days) -/
theorem C16_sampled_duration_steps (t : TP Rat) (hk : t.kind = .dur) {u pu : String} {lu lpu s p : Rat}
    (hu : t.unit = some u) (hpu : t.parentUnit = some pu) (hs : t.selfDt = some s) (hp : t.parentDt = some p)
    (hlu : unitLen u = some lu) (hlpu : unitLen pu = some lpu) (hp0 : p ≠ 0) (draws : List Rat) :
    (scaleDraws ratOps t draws).1.values = some (.array (draws.map (· * ((s / p) * (lu / lpu))))) ∧
    ∀ x ∈ draws, (x * ((s / p) * (lu / lpu))) * (p * lpu) = x * (s * lu) := by
  unfold scaleDraws
  rw [updateCached_dur (t := { t with v := .array draws }) hk hu hpu hs hp hlu hlpu hp0 true]
  refine ⟨rfl, fun x _ => ?_⟩
  have := ne_of_gt (unitLen_pos hlpu)
  field_simp

/-- **Waning / per-unit-time rates of a module** (`SIS.waning = ss.rate(0.05)`, `Cholera.decay_rate`, …): the per-step value
    is the rate times the module's step length expressed in the rate's own period -/
theorem C16_rate_per_step (t : TP Rat) (hk : t.kind = .rate) {u pu : String} {lu lpu s p : Rat}
    (hu : t.unit = some u) (hpu : t.parentUnit = some pu) (hs : t.selfDt = some s) (hp : t.parentDt = some p)
    (hlu : unitLen u = some lu) (hlpu : unitLen pu = some lpu) (hp0 : p ≠ 0) (hs0 : s ≠ 0) :
    (updateCached ratOps t true false).1.values = some (t.v.map (· / ((s / p) * (lu / lpu)))) ∧
    ∀ x : Rat, x / ((s / p) * (lu / lpu)) = x * ((p * lpu) / (s * lu)) := by
  rw [updateCached_rate t hk hu hpu hs hp hlu hlpu hp0 hs0 false]
  refine ⟨rfl, fun x => ?_⟩
  have := ne_of_gt (unitLen_pos hlpu); have := ne_of_gt (unitLen_pos hlu)
  field_simp

/-- **Dynamic edges**: an edge of duration `d` (network units) in a network stepping `dt` is kept for exactly `n = ⌈d/dt⌉`
    calls of `end_pairs`, and `n·dt` is `d` rounded up to the step grid: `d ≤ n·dt < d + dt`; once dropped it stays dropped -/
theorem C16_edge_duration_steps {d dt : Rat} (hd : 0 < d) (hdt : 0 < dt) :
    let n := (Int.ceil (d / dt)).toNat
    (∀ k, k < n → edgeActive d dt k = true) ∧ (∀ k, n ≤ k → edgeActive d dt k = false) ∧
    d ≤ (n : Rat) * dt ∧ (n : Rat) * dt < d + dt := by
  intro n
  have hq : 0 < d / dt := div_pos hd hdt
  have hc : 0 < Int.ceil (d / dt) := Int.ceil_pos.mpr hq
  have hn : ((n : Int) : Rat) = ((Int.ceil (d / dt) : Int) : Rat) := by
    have : (n : Int) = Int.ceil (d / dt) := Int.toNat_of_nonneg (le_of_lt hc)
    rw [this]
  have hnr : (n : Rat) = ((Int.ceil (d / dt) : Int) : Rat) := by exact_mod_cast hn
  have h1 : d / dt ≤ (n : Rat) := by rw [hnr]; exact Int.le_ceil _
  have h2 : (n : Rat) < d / dt + 1 := by rw [hnr]; exact Int.ceil_lt_add_one _
  have e1 : d ≤ (n : Rat) * dt := by rwa [div_le_iff₀ hdt] at h1
  have e2 : (n : Rat) * dt < d + dt := by
    have := mul_lt_mul_of_pos_right h2 hdt
    rw [add_mul, div_mul_cancel₀ _ (ne_of_gt hdt), one_mul] at this
    exact this
  refine ⟨?_, ?_, e1, e2⟩
  · intro k hk
    have hk' : (k : Rat) + 1 ≤ (n : Rat) := by exact_mod_cast hk
    have : (k : Rat) * dt < d := by nlinarith
    simp [edgeActive, edgeDurAfter, this]
  · intro k hk
    have hk' : (n : Rat) ≤ (k : Rat) := by exact_mod_cast hk
    have : d ≤ (k : Rat) * dt := le_trans e1 (mul_le_mul_of_nonneg_right hk' hdt.le)
    simp [edgeActive, edgeDurAfter, this]

/-- the per-act exponent of the sexual network is `acts·dt` (the form `C16_net_beta_compound` is about) -/
theorem C16_net_beta_exponent (acts dt : Rat) (n : Nat) : (n : Rat) * netBetaExponent acts dt = acts * ((n : Rat) * dt) := by
  unfold netBetaExponent; ring

/-! ### Module parameters are linked to the module's own timeline (as is: to the first module's) -/

/-- **Intended** (`reach = false`): the parameters of module `j` are converted for module `j`'s own step -/
theorem C16_module_timeline_spec (mods : List Timeline) (j : Nat) : linkedTimeline false mods j = mods[j]? := rfl

/-- **Partial** (as is): correct for the module that initialises first, and for every module when all modules share one timeline -/
theorem C16_module_timeline_partial (mods : List Timeline) (j : Nat) (h : j = 0 ∨ ∀ a ∈ mods, ∀ b ∈ mods, a = b) :
    linkedTimeline true mods j = mods[j]? := by
  unfold linkedTimeline
  simp only [if_true]
  cases hj : mods[j]? with
  | none => rfl
  | some tj =>
    rcases h with rfl | hall
    · simp only
      cases mods with
      | nil => simp at hj
      | cons a t => simpa using hj
    · simp only
      cases mods with
      | nil => simp at hj
      | cons a t =>
        have hm : tj ∈ a :: t := List.mem_of_getElem? hj
        simp [hall a (List.mem_cons_self ..) tj hm]

/-- **Counterexample** (as is): `SIS(unit='day', dt=2)` initialised after a module on (year, 1): its parameters are
    converted for a one-year step -/
theorem C16_module_timeline_counterexample :
    linkedTimeline true [(some "year", some 1), (some "day", some 2)] 1 = some (some "year", some 1) ∧
    linkedTimeline false [(some "year", some 1), (some "day", some 2)] 1 = some (some "day", some 2) := by
  constructor <;> rfl

/-! ### Round 3: declarations in every spelling, mixing pools -/

/-- `TimePar.__new__` (regenerated signature + wrapping call): every time keyword of the caller reaches the time parameter
    built for a wrapped distribution's first parameter -/
theorem C16_wrap_forwards_time_keywords :
    ∀ k ∈ ["unit", "parent_unit", "parent_dt", "self_dt"], Gen.wrapLost.contains k = false := by decide

/-- hence the DECLARED unit is the object's unit in every spelling (plain, inside a distribution, wrapped around one) -/
theorem C16_declared_unit_reaches (f : Form) (u : UnitT) : declUnitReaching Gen.wrapLost f u = u := by
  cases f
  · rfl
  · rfl
  · unfold declUnitReaching; simp only; rw [if_neg (by decide)]

/-- the shortcut functions mean what their names say (regenerated from their bodies) -/
theorem C16_shortcut_units :
    shortcutOf Gen.shortcuts "days" = some ("dur", "day") ∧ shortcutOf Gen.shortcuts "years" = some ("dur", "year") ∧
    shortcutOf Gen.shortcuts "perday" = some ("rate", "day") ∧ shortcutOf Gen.shortcuts "peryear" = some ("rate", "year") := by
  refine ⟨by decide, by decide, by decide, by decide⟩

/-- the object `declare` creates, for a canonical unit name -/
theorem declare_known (f : Form) (k : Kind) (v : Val Rat) {u : String} (hnu : canonUnit (some u) = .ok (some u)) :
    declare Gen.wrapLost f k v (some u) = .ok ⟨k, v, some u, none, none, some 1, none, none, false⟩ := by
  have hv := validateUnits_of (a := (⟨k, v, some u, none, none, some 1, none, none, false⟩ : TP Rat)) (u := some u) (pu := none) hnu rfl
  unfold declare
  rw [C16_declared_unit_reaches]
  simp only [mk, hv]

/-- **Declared durations (infection / immunity durations, every spelling, scalar or the variates of a distribution)**:
    a duration declared as `v` units `u` and linked to a module stepping `p` units `pu` is `v·len(u)/(p·len(pu))` steps —
    steps × step length = the declared duration, for every declared unit, module unit and dt -/
theorem C16_declared_duration_steps (f : Form) (v : Val Rat) {u pu : String} {lu lpu p : Rat}
    (hlu : unitLen u = some lu) (hlpu : unitLen pu = some lpu) (hp0 : p ≠ 0)
    (hnu : canonUnit (some u) = .ok (some u)) (hnpu : canonUnit (some pu) = .ok (some pu)) :
    (∃ t', declareInit Gen.wrapLost f .dur v (some u) (some pu) (some p) true = .ok t' ∧
      t'.unit = some u ∧ t'.parentUnit = some pu ∧ t'.parentDt = some p ∧
      t'.values = some (v.map (· * ((1 / p) * (lu / lpu))))) ∧
    ∀ x : Rat, (x * ((1 / p) * (lu / lpu))) * (p * lpu) = x * lu := by
  refine ⟨⟨⟨.dur, v, some u, some pu, some p, some 1, some ((1 / p) * (lu / lpu)), some (v.map (· * ((1 / p) * (lu / lpu)))), true⟩, ?_, rfl, rfl, rfl, rfl⟩, ?_⟩
  · unfold declareInit
    rw [declare_known f .dur v hnu]
    simp only [init, Option.isSome, Bool.and_false, Bool.false_eq_true, if_false]
    rw [updateCached_dur (u := u) (pu := pu) (s := 1) (p := p) (lu := lu) (lpu := lpu) _ rfl rfl rfl rfl rfl hlu hlpu hp0]
    simp only
    rw [validateUnits_of (u := some u) (pu := some pu) hnu hnpu]
    rfl
  · intro x
    have := ne_of_gt (unitLen_pos hlpu)
    field_simp

/-- **Declared rates (waning, shedding, …, every spelling)**: per-step value = `v · (p·len(pu)) / len(u)` -/
theorem C16_declared_rate_per_step (f : Form) (v : Val Rat) {u pu : String} {lu lpu p : Rat}
    (hlu : unitLen u = some lu) (hlpu : unitLen pu = some lpu) (hp0 : p ≠ 0)
    (hnu : canonUnit (some u) = .ok (some u)) (hnpu : canonUnit (some pu) = .ok (some pu)) :
    (∃ t', declareInit Gen.wrapLost f .rate v (some u) (some pu) (some p) true = .ok t' ∧
      t'.unit = some u ∧ t'.parentUnit = some pu ∧ t'.parentDt = some p ∧
      t'.values = some (v.map (· / ((1 / p) * (lu / lpu))))) ∧
    ∀ x : Rat, x / ((1 / p) * (lu / lpu)) = x * ((p * lpu) / lu) := by
  refine ⟨⟨⟨.rate, v, some u, some pu, some p, some 1, some ((1 / p) * (lu / lpu)), some (v.map (· / ((1 / p) * (lu / lpu)))), true⟩, ?_, rfl, rfl, rfl, rfl⟩, ?_⟩
  · unfold declareInit
    rw [declare_known f .rate v hnu]
    simp only [init, Option.isSome, Bool.and_false, Bool.false_eq_true, if_false]
    rw [updateCached_rate (u := u) (pu := pu) (s := 1) (p := p) (lu := lu) (lpu := lpu) _ rfl rfl rfl rfl rfl hlu hlpu hp0 one_ne_zero]
    simp only
    rw [validateUnits_of (u := some u) (pu := some pu) hnu hnpu]
    rfl
  · intro x
    have := ne_of_gt (unitLen_pos hlpu); have := ne_of_gt (unitLen_pos hlu)
    field_simp

/-- what would happen if the wrapper dropped the unit (the model is sensitive to the regenerated fact): a 10-day duration in a
    weekly module would be 10 steps = 10 weeks instead of 10/7 steps -/
theorem C16_wrap_lost_unit_is_wrong :
    (declareInit ["unit"] .wrapped .dur (.scalar 10) (some "day") (some "week") (some 1) true).map (·.values) = .ok (some (.scalar 10)) ∧
    (declareInit [] .wrapped .dur (.scalar 10) (some "day") (some "week") (some 1) true).map (·.values) = .ok (some (.scalar (10/7))) := by
  refine ⟨by decide +kernel, by decide +kernel⟩

/-- the built-in declarations (regenerated table): known spellings and kinds only, and every `dur_*` parameter is a duration -/
theorem C16_builtin_declarations_wellformed :
    ∀ d ∈ Gen.builtinDecls, d.2.2.1 ∈ ["plain", "inside", "wrapped"] ∧ d.2.2.2.1 ∈ ["dur", "rate", "time_prob", "rate_prob", "beta"] ∧
      (d.2.2.2.2.2 = true → d.2.2.2.1 = "dur") := by decide

/-- **Mixing pools**: the beta multiplied into the acquisition probability is the PER-STEP value of the time parameter
    (`Gen.poolBetaField`, regenerated from `MixingPool.step`), so `p = beta_per_step · trans · acq` -/
theorem C16_pool_prob_per_step (t : TP Rat) (vals : Val Rat) (h : t.values = some vals) (trans acq : Rat) :
    poolProb Gen.poolBetaField t trans acq = .ok (vals.map (fun x => x * trans * acq)) := by
  unfold poolProb poolBeta
  rw [if_pos (by decide), h]

/-- … and with everybody infectious and one effective contact, compounding it over the `f` steps of beta's unit gives beta
    back, whatever the step (exact; `C06_timeprob_compound`) -/
theorem C16_pool_compound {β f : ℝ} (hβ : β < 1) (hf : f ≠ 0) : 1 - (1 - realOps.tpFormula β f * 1 * 1) ^ f = β := by
  rw [mul_one, mul_one]; exact tp_compound hβ hf

/-- a beta of 1/2 per year in a pool stepping a quarter of a year (observed per-step value 3/20, rounded for the example) -/
def poolWitness : TP Rat := ⟨.beta, .scalar (1/2), some "year", some "year", some (1/4), some 1, some 4, some (.scalar (3/20)), true⟩

/-- the field matters: the raw per-year number would be applied on every step -/
theorem C16_pool_raw_value_is_wrong :
    poolProb "values" poolWitness (1/2) 1 = .ok (.scalar (3/40)) ∧ poolProb "v" poolWitness (1/2) 1 = .ok (.scalar (1/4)) := by
  refine ⟨by decide +kernel, by decide +kernel⟩

/-! ### Round 4: recovery fires on the clock it was scheduled on; the step length in years does not depend on the form of the axis -/

/-- `Time.init` (regenerated): for a numeric AND for a calendar time axis `dt_year` is the step length in years -/
theorem C16_dt_year_is_step_in_years (numeric : Bool) (unit : UnitT) (dt : Option Rat) :
    dtYear numeric unit dt = timeRatio unit dt (some "year") (some 1) := by
  cases numeric <;> (unfold dtYear dtYearOf; simp only [Bool.false_eq_true, if_false, if_true]; rw [if_pos (by decide)])

/-- hence the ageing increment (`sim.t.dt_year`) is `dtYear` of the sim's timeline, numeric or not -/
theorem C16_ageing_any_axis (numeric : Bool) (unit : UnitT) (dt : Option Rat) : ageIncrement unit dt = dtYear numeric unit dt := by
  rw [C16_ageing_increment_is_dt_year, C16_dt_year_is_step_in_years]

/-- what the raw-`dt` form would do on a numeric day axis (sensitivity of the model to the regenerated fact): one year per daily step -/
theorem C16_dt_year_raw_is_wrong : dtYearOf "dt" (some "day") (some 1) = .ok 1 ∧ dtYearOf "ratio" (some "day") (some 1) ≠ .ok 1 := by
  refine ⟨by decide +kernel, by decide +kernel⟩

/-- SIS (regenerated): recovery is scheduled and triggered on the MODULE's step counter -/
theorem C16_sis_recovery_on_module_clock : Gen.sisSchedClock = "module" ∧ Gen.sisRecoverClock = "module" := by decide

/-- SIR (regenerated): as is — scheduled on the module's counter, triggered on the SIM's (the defect) — or consistent -/
theorem C16_sir_recovery_clock_variant :
    (Gen.sirSchedClock = "module" ∧ Gen.sirRecoverClock = "sim") ∨ (Gen.sirSchedClock = "module" ∧ Gen.sirRecoverClock = "module") := by decide

theorem recoveredAt_module (m s d : Rat) (k : Nat) : recoveredAt "module" "module" m s d k = .ok (decide (d ≤ (k : Rat))) := by
  simp [recoveredAt, clockAt]

/-- **Realised duration, consistent clocks**: an infection of `d` module steps (d = D / step) is over at module step `n = ⌈d⌉` and not
    before; in time, `D ≤ n·step < D + step` — for every module step `m` and whatever the sim's step `s` is -/
theorem C16_realised_duration_steps {d m : Rat} (hd : 0 < d) (hm : 0 < m) (s : Rat) :
    let n := (Int.ceil d).toNat
    (∀ k, k < n → recoveredAt "module" "module" m s d k = .ok false) ∧ (∀ k, n ≤ k → recoveredAt "module" "module" m s d k = .ok true) ∧
    d * m ≤ (n : Rat) * m ∧ (n : Rat) * m < d * m + m := by
  intro n
  obtain ⟨h1, h2, h3, h4⟩ := C16_edge_duration_steps hd (show (0 : Rat) < 1 by norm_num)
  simp only [div_one, mul_one] at h1 h2 h3 h4
  refine ⟨?_, ?_, by nlinarith, by nlinarith⟩
  · intro k hk
    have := h1 k hk
    simp only [edgeActive, edgeDurAfter, mul_one, decide_eq_true_eq] at this
    rw [recoveredAt_module]; congr 1; simp; linarith
  · intro k hk
    have := h2 k hk
    simp only [edgeActive, edgeDurAfter, mul_one, decide_eq_false_iff_not, not_lt] at this
    rw [recoveredAt_module]; congr 1; simp; linarith

/-- **Partial** (as-is SIR): when the module steps in lockstep with the sim (`m = s`) the sim's counter IS the module's -/
theorem C16_sir_recovery_partial {m : Rat} (hm : m ≠ 0) (d : Rat) (k : Nat) :
    recoveredAt "module" "sim" m m d k = recoveredAt "module" "module" m m d k := by
  have hf : Rat.ceil (k : Rat) = (k : Int) := by simpa using Rat.ceil_intCast (k : Int)
  simp [recoveredAt, clockAt, hm, hf]

/-- **Counterexample** (as-is SIR, kernel-evaluated): module step 1, sim step 1/2, duration 10 module steps — recovered at module step 5
    (after half the duration); and with module step 1, sim step 2 still infected at module step 18 (sim.ti = 9) -/
theorem C16_sir_recovery_counterexample :
    recoveredAt "module" "sim" 1 (1/2) 10 5 = .ok true ∧ recoveredAt "module" "module" 1 (1/2) 10 5 = .ok false ∧
    recoveredAt "module" "sim" 1 2 10 18 = .ok false ∧ recoveredAt "module" "module" 1 2 10 18 = .ok true := by
  refine ⟨by decide +kernel, by decide +kernel, by decide +kernel, by decide +kernel⟩

/-! ### Non-vacuity -/

/-- `deathsWitness` is a `RateReady` object (the default `ss.peryear(20)` in a yearly module with dt = 1/5) -/
example : ∃ ly, RateReady deathsWitness "year" "year" ly ly 1 (1/5) := by
  cases hy : unitLen "year" with
  | none => exact absurd hy (by decide +kernel)
  | some ly =>
    exact ⟨ly, ⟨rfl, rfl, rfl, rfl, rfl, rfl, by decide +kernel, by decide +kernel, hy, hy, by norm_num, by norm_num⟩⟩

/-- nearest year on a 5-yearly table at a sub-annual time; an edge of 2.5 units with dt = 1 lives 3 steps -/
example : nearestVal [1995, 2000, 2005, 2010] (8009/4) = some 2000 ∧ nearestVal [1995, 2000, 2005, 2010] (4005/2) = some 2000 ∧
    nearest [1995, 2000, 2005, 2010] 2003 = 2 ∧ edgeActive (5/2) 1 2 = true ∧ edgeActive (5/2) 1 3 = false := by
  refine ⟨by decide +kernel, by decide +kernel, by decide +kernel, by decide +kernel, by decide +kernel⟩

/-- increasing bins exist and the lookup is non-trivial: ages 7 and −2 in bins 0,1,5,10 -/
example : ageBin [0, 1, 5, 10] 7 = 3 ∧ ageBin [0, 1, 5, 10] (-2) = 0 ∧ [(0:Rat), 1, 5, 10].Pairwise (· < ·) := by
  refine ⟨by decide +kernel, by decide +kernel, by decide +kernel⟩

/-- a week-stepping sim: 1461/28 weekly… no integer number of weeks makes a year, but 1461 four-week steps make 112 years;
    the hypothesis of `C16_ageing` is met e.g. by a daily sim with dt = 1/4 over 1461 steps when year = 365.25 days -/
example : ∃ lu ly, unitLen "day" = some lu ∧ unitLen "year" = some ly := by
  cases hd : unitLen "day" with
  | none => exact absurd hd (by decide +kernel)
  | some lu =>
    cases hy : unitLen "year" with
    | none => exact absurd hy (by decide +kernel)
    | some ly => exact ⟨lu, ly, rfl, rfl⟩

/-- the hypotheses of the declaration theorems are met by the real unit table: days declared, weeks stepped -/
example : ∃ lu lpu, unitLen "day" = some lu ∧ unitLen "week" = some lpu ∧
    canonUnit (some "day") = .ok (some "day") ∧ canonUnit (some "week") = .ok (some "week") := by
  cases hd : unitLen "day" with
  | none => exact absurd hd (by decide +kernel)
  | some lu =>
    cases hw : unitLen "week" with
    | none => exact absurd hw (by decide +kernel)
    | some lpu => exact ⟨lu, lpu, rfl, rfl, by decide +kernel, by decide +kernel⟩

/-- `poolWitness` has per-step values, so `C16_pool_prob_per_step` applies to it -/
example : poolWitness.values = some (.scalar (3/20)) := rfl

/-- `C16_realised_duration_steps` is not vacuous: 20 days in a module stepping 2 days = 10 steps; 7/2 steps round up to 4 -/
example : recoveredAt "module" "module" 2 1 10 9 = .ok false ∧ recoveredAt "module" "module" 2 1 10 10 = .ok true ∧
    recoveredAt "module" "module" 1 1 (7/2) 3 = .ok false ∧ recoveredAt "module" "module" 1 1 (7/2) 4 = .ok true := by
  refine ⟨by decide +kernel, by decide +kernel, by decide +kernel, by decide +kernel⟩

/-! ### Round 5: user overrides of a parameter whose default is a time parameter -/

/-- `Pars.update` (regenerated dispatch + `atomic_classes`): a parameter whose current value is a time parameter is merged by
    `_update_timepar`, not overwritten directly -/
theorem C16_timepar_default_goes_through_update_timepar :
    updHandler Gen.updDispatch Gen.updAtomic = "_update_timepar" := by decide

/-- `Pars._update_timepar` (regenerated branch table): a plain number / a list is SET INSIDE the default (class and unit kept),
    a time parameter replaces it -/
theorem C16_override_actions :
    updAction Gen.updBranches "Number" = "set" ∧ updAction Gen.updBranches "list" = "set*" ∧
    updAction Gen.updBranches "TimePar" = "replace" := by
  refine ⟨by decide, by decide, by decide⟩

/-- the default a plain declaration creates, for any canonical unit (including no unit) -/
theorem declare_plain (k : Kind) (v : Val Rat) {u : UnitT} (hnu : canonUnit u = .ok u) :
    declare Gen.wrapLost .plain k v u = .ok ⟨k, v, u, none, none, some 1, none, none, false⟩ := by
  have hv := validateUnits_of (a := (⟨k, v, u, none, none, some 1, none, none, false⟩ : TP Rat)) (u := u) (pu := none) hnu rfl
  unfold declare declUnitReaching
  simp only [mk, hv]

/-- `old.set(x, unit)` on a fresh default = the declaration of `x` with that unit (or the default's, if none is given) -/
theorem setDefault_fresh (k : Kind) (v0 : Val Rat) (x : Rat) (u nu : UnitT) (hnu : canonUnit (orElse nu u) = .ok (orElse nu u)) :
    setDefault ⟨k, v0, u, none, none, some 1, none, none, false⟩ (.scalar x) nu =
      .ok (.tp ⟨k, .scalar x, orElse nu u, none, none, some 1, none, none, false⟩) := by
  have hv := validateUnits_of (a := (⟨k, .scalar x, orElse nu u, none, none, some 1, none, none, false⟩ : TP Rat)) (u := orElse nu u) (pu := none) hnu rfl
  unfold setDefault setPars
  simp only [Option.getD, orElse, Bool.or_self, Bool.false_eq_true, if_false]
  simp only [orElse] at hv
  rw [hv]

/-- **A plain-number override is a declaration**: `Cls(par=x)` for a parameter declared `ss.<kind>(v0, unit=u)` is, after
    `init_time`, exactly the object `ss.<kind>(x, unit=u)` would have been — for every kind (beta, rate, dur, …), unit and
    module timeline.  All declaration theorems (`C16_declared_*`) therefore apply to overridden parameters. -/
theorem C16_override_number_is_declaration (k : Kind) (v0 : Val Rat) (x : Rat) {u : UnitT} (hnu : canonUnit u = .ok u)
    (pu : UnitT) (pdt : Option Rat) (b : Bool) :
    overrideInit Gen.updBranches k v0 u (.number x) pu pdt b =
      (declareInit Gen.wrapLost .plain k (.scalar x) u pu pdt b).map Par.tp := by
  unfold overrideInit declareInit
  rw [declare_plain k v0 hnu, declare_plain k (.scalar x) hnu]
  simp only [mergeTimepar]
  rw [if_pos C16_override_actions.1, setDefault_fresh k v0 x u none (by simpa [orElse] using hnu)]
  simp only [parInit, orElse]
  split <;> rfl

/-- the same for the list form `par=[x, unit]`: the declaration of `x` in the GIVEN unit -/
theorem C16_override_list_is_declaration (k : Kind) (v0 : Val Rat) (x : Rat) {u : UnitT} {nu : String} (hnu : canonUnit u = .ok u)
    (hnn : canonUnit (some nu) = .ok (some nu)) (pu : UnitT) (pdt : Option Rat) (b : Bool) :
    overrideInit Gen.updBranches k v0 u (.list x (some nu)) pu pdt b =
      (declareInit Gen.wrapLost .plain k (.scalar x) (some nu) pu pdt b).map Par.tp := by
  unfold overrideInit declareInit
  rw [declare_plain k v0 hnu, declare_plain k (.scalar x) hnn]
  simp only [mergeTimepar]
  rw [if_pos C16_override_actions.2.1, setDefault_fresh k v0 x u (some nu) (by simpa [orElse] using hnn)]
  simp only [parInit, orElse]
  split <;> rfl

/-- **A rate given as a plain number (waning, shedding, decay, …) for a default declared in unit `u`**: the amount applied per
    step is `x · step length / unit` -/
theorem C16_override_rate_per_step (v0 : Val Rat) (x : Rat) {u pu : String} {lu lpu p : Rat}
    (hlu : unitLen u = some lu) (hlpu : unitLen pu = some lpu) (hp0 : p ≠ 0)
    (hnu : canonUnit (some u) = .ok (some u)) (hnpu : canonUnit (some pu) = .ok (some pu)) :
    (overrideInit Gen.updBranches .rate v0 (some u) (.number x) (some pu) (some p) true).bind Par.perStep =
      .ok (.scalar (x * ((p * lpu) / lu))) := by
  rw [C16_override_number_is_declaration .rate v0 x hnu]
  obtain ⟨⟨t', h, _, _, _, hv⟩, hx⟩ := C16_declared_rate_per_step .plain (.scalar x) hlu hlpu hp0 hnu hnpu
  rw [h]
  simp only [Except.map, Except.bind, Par.perStep, hv, Val.map, hx]

/-- **… and for a default declared WITHOUT a unit** (`ss.rate(0.05)`: per unit of the module): per step `x · dt` -/
theorem C16_override_rate_default_unit_per_step (v0 : Val Rat) (x : Rat) {pu : String} {lpu p : Rat}
    (hlpu : unitLen pu = some lpu) (hp0 : p ≠ 0) (hnpu : canonUnit (some pu) = .ok (some pu)) :
    (overrideInit Gen.updBranches .rate v0 none (.number x) (some pu) (some p) true).bind Par.perStep =
      .ok (.scalar (x / ((1 / p) * (lpu / lpu)))) ∧ x / ((1 / p) * (lpu / lpu)) = x * p := by
  constructor
  · rw [C16_override_number_is_declaration .rate v0 x (u := none) rfl]
    unfold declareInit
    rw [declare_plain .rate (.scalar x) (u := none) rfl]
    simp only [init, Option.isSome, Bool.and_false, Bool.false_eq_true, if_false]
    rw [updateCached_rate (u := pu) (pu := pu) (s := 1) (p := p) (lu := lpu) (lpu := lpu) _ rfl rfl rfl rfl rfl hlpu hlpu hp0 one_ne_zero]
    simp only
    rw [validateUnits_of (u := some pu) (pu := some pu) hnpu hnpu]
    rfl
  · have := ne_of_gt (unitLen_pos hlpu)
    field_simp

/-- **A duration given as a plain number**: steps × step length = the number in the default's unit -/
theorem C16_override_duration_steps (v0 : Val Rat) (x : Rat) {u pu : String} {lu lpu p : Rat}
    (hlu : unitLen u = some lu) (hlpu : unitLen pu = some lpu) (hp0 : p ≠ 0)
    (hnu : canonUnit (some u) = .ok (some u)) (hnpu : canonUnit (some pu) = .ok (some pu)) :
    ∃ n : Rat, (overrideInit Gen.updBranches .dur v0 (some u) (.number x) (some pu) (some p) true).bind Par.perStep = .ok (.scalar n) ∧
      n * (p * lpu) = x * lu := by
  rw [C16_override_number_is_declaration .dur v0 x hnu]
  obtain ⟨⟨t', h, _, _, _, hv⟩, hx⟩ := C16_declared_duration_steps .plain (.scalar x) hlu hlpu hp0 hnu hnpu
  refine ⟨x * ((1 / p) * (lu / lpu)), ?_, hx x⟩
  rw [h]
  simp only [Except.map, Except.bind, Par.perStep, hv, Val.map]

/-- sensitivity to the regenerated table: if the `Number` branch stored the value itself (`self[key] = new`), a waning of
    1/10 per year in a module stepping a quarter of a year would be applied as 1/10 PER STEP instead of 1/40 -/
theorem C16_override_raw_number_is_wrong :
    (overrideInit [("TimePar", "replace"), ("Number", "replace")] .rate (.scalar (1/20)) (some "year") (.number (1/10)) (some "year") (some (1/4)) true).bind Par.perStep
      = .ok (.scalar (1/10)) ∧
    (overrideInit Gen.updBranches .rate (.scalar (1/20)) (some "year") (.number (1/10)) (some "year") (some (1/4)) true).bind Par.perStep
      = .ok (.scalar (1/40)) := by
  refine ⟨by decide +kernel, by decide +kernel⟩

/-- non-vacuity: a list override `[2, 'day']` of a rate declared per year, in a weekly module: 14 per step -/
example : (overrideInit Gen.updBranches .rate (.scalar 1) (some "year") (.list 2 (some "day")) (some "week") (some 1) true).bind Par.perStep
    = .ok (.scalar 14) := by decide +kernel


/-! ## Round 6: table index values as written (`ss.standardize_data`, regenerated `Gen.stdIndexOps`) -/

/-- **Obligation on the regenerated statement list**: no statement of `standardize_data` rewrites the reference times or the age
    starts of a table — they are copied from the data, filled in when absent, or re-ordered. Stops elaborating when a statement
    casts / rounds / re-keys the `year` or `age` column. -/
theorem C16_table_index_values_preserved :
    columnKept Gen.stdIndexOps "year" = true ∧ columnKept Gen.stdIndexOps "age" = true := by decide

/-- the lookups see the reference times / age starts exactly as written -/
theorem C16_standardize_keeps_written (f : Rat → Rat) (written : List Rat) :
    standardizeCol Gen.stdIndexOps "year" f written = written ∧ standardizeCol Gen.stdIndexOps "age" f written = written := by
  unfold standardizeCol
  rw [C16_table_index_values_preserved.1, C16_table_index_values_preserved.2]
  simp

/-- **Nearest year of the table as written**: whatever the reference times are (whole years, mid-period stamps, survey dates), the
    row applied at `now` is the one `nearest` selects among the WRITTEN times, so `C16_nearest_year_minimal` speaks about the user's table -/
theorem C16_table_row_is_nearest_written (f : Rat → Rat) (written : List Rat) (now : Rat) :
    tableRow Gen.stdIndexOps f written now = nearest written now := by
  unfold tableRow; rw [(C16_standardize_keeps_written f written).1]

/-- **Age bin of the table as written** (with `C16_table_lookup`: the last written start ≤ age) -/
theorem C16_table_bin_is_written (f : Rat → Rat) (written : List Rat) (age : Rat) :
    tableBin Gen.stdIndexOps f written age = ageBin written age := by
  unfold tableBin; rw [(C16_standardize_keeps_written f written).2]

/-- sensitivity (kernel-evaluated): if one statement stored the reference times as whole numbers, a table stamped 2000.5 / 2001.75
    would apply its SECOND row at 2000.6 (and the age starts 0 / 0.5 would put a 3-month-old into the second bin) -/
theorem C16_rewritten_index_is_wrong :
    tableRow [("*", "copy"), ("year", "rewrite")] (fun y => (y.floor : Rat)) [4001/2, 8007/4] (10003/5) = 1 ∧
    tableRow Gen.stdIndexOps (fun y => (y.floor : Rat)) [4001/2, 8007/4] (10003/5) = 0 ∧
    tableBin [("*", "copy"), ("age", "rewrite")] (fun y => (y.floor : Rat)) [0, 1/2] (1/4) = 2 ∧
    tableBin Gen.stdIndexOps (fun y => (y.floor : Rat)) [0, 1/2] (1/4) = 1 := by
  refine ⟨by decide +kernel, by decide +kernel, by decide +kernel, by decide +kernel⟩

/-- non-vacuity: a mid-year table, queried between its stamps -/
example : tableRow Gen.stdIndexOps id [4001/2, 4003/2, 4005/2] (8005/4) = 1 := by decide +kernel


end StarsimModel.C16
