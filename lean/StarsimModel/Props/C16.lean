/-
C16 — Per-step hazards and durations are independent of the timestep.

Property theorems and non-vacuity examples only.  Model: Model/Hazard.lean on top of Model/TimePar.lean; the
time-scaling EXPRESSION of every branch of the hazard functions is regenerated from /repo on every run
(Generated/HazardExprs.lean) and interpreted by `factorOf`.
-/
import StarsimModel.Lemmas.Hazard
import StarsimModel.Lemmas.TimeParReal

namespace StarsimModel.C16
open StarsimModel.TimePar StarsimModel.Hazard

/-! ### Obligations on the regenerated expressions -/

/-- plain-number rates of births, deaths and fertility are scaled by the module's step length in YEARS
    (whichever of the equivalent source spellings is used: the `time_ratio(...)` call or `dt_year`) -/
theorem C16_number_factors_are_year_ratio (unit : UnitT) (dt : Option Rat) :
    factorOf Gen.birthsNumberFactor unit dt = timeRatio unit dt (some "year") (some 1) ∧
    factorOf Gen.deathsNumberFactor unit dt = timeRatio unit dt (some "year") (some 1) ∧
    factorOf Gen.fertilityNumberFactor unit dt = timeRatio unit dt (some "year") (some 1) := by
  refine ⟨?_, ?_, ?_⟩ <;> (unfold factorOf; rw [if_neg (by decide), if_neg (by decide), if_pos (by decide)])

/-- a TimePar birth rate is not scaled again (the TimePar already converts to the module's step) -/
theorem C16_births_timepar_factor_is_one (unit : UnitT) (dt : Option Rat) : factorOf Gen.birthsTimeParFactor unit dt = .ok 1 := by
  unfold factorOf; rw [if_pos (by decide)]

/-- ageing adds the SIM step length in years -/
theorem C16_ageing_increment_is_dt_year (unit : UnitT) (dt : Option Rat) :
    ageIncrement unit dt = timeRatio unit dt (some "year") (some 1) := by
  unfold ageIncrement factorOf; rw [if_neg (by decide), if_neg (by decide), if_pos (by decide)]

/-- the TimePar death-rate branch is one of the two known variants: as is (`self.t.dt`, the defect) or repaired (`1.0`) -/
theorem C16_deaths_timepar_factor_variant : Gen.deathsTimeParFactor = "self.t.dt" ∨ Gen.deathsTimeParFactor = "1.0" := by decide

/-- the routine-delivery exponent is one of the two known variants: as is (`sim.pars.dt`, raw steps) or repaired (years) -/
theorem C16_delivery_dt_variant : Gen.deliveryDt = "sim.pars.dt" ∨ Gen.deliveryDt = "sim.t.dt" ∨ Gen.deliveryDt = "sim.t.dt_year" := by decide

/-! ### Plain-number rates: probability = rate · units · rel · (step length in years) -/

theorem year_ratio_known {u : String} {lu ly d : Rat} (hlu : unitLen u = some lu) (hly : unitLen "year" = some ly) :
    timeRatio (some u) (some d) (some "year") (some 1) = .ok (d * lu / ly) := by
  rw [timeRatio_known hlu hly one_ne_zero]
  congr 1
  have := ne_of_gt (unitLen_pos hly)
  field_simp

/-- **Births, number form**: per-step probability = rate·units·rel·dt_year (clipped), for every module unit and dt -/
theorem C16_births_linear {u : String} {lu ly d : Rat} (hlu : unitLen u = some lu) (hly : unitLen "year" = some ly) (r ru rel : Rat) :
    birthsNumber (some u) (some d) r ru rel = .ok (clip01 (r * ru * rel * (d * lu / ly))) := by
  unfold birthsNumber numberProb
  rw [(C16_number_factors_are_year_ratio _ _).1, year_ratio_known hlu hly]

/-- **Deaths, number form** -/
theorem C16_deaths_number_linear {u : String} {lu ly d : Rat} (hlu : unitLen u = some lu) (hly : unitLen "year" = some ly) (r ru rel : Rat) :
    deathsNumber (some u) (some d) r ru rel = .ok (clip01 (r * ru * rel * (d * lu / ly))) := by
  unfold deathsNumber numberProb
  rw [(C16_number_factors_are_year_ratio _ _).2.1, year_ratio_known hlu hly]

/-- **Fertility, number form**: eligible women get rate·(units·rel)·dt_year, the others 0 -/
theorem C16_fertility_linear {u : String} {lu ly d : Rat} (hlu : unitLen u = some lu) (hly : unitLen "year" = some ly)
    (r ru rel age mn mx : Rat) (fec : Bool) :
    fertilityNumber (some u) (some d) r ru rel age mn mx fec =
      .ok (if fec = true ∧ mn ≤ age ∧ age ≤ mx then clip01 (r * (ru * rel) * (d * lu / ly)) else 0) := by
  unfold fertilityNumber
  rw [(C16_number_factors_are_year_ratio _ _).2.2, year_ratio_known hlu hly]
  simp only [Except.ok.injEq]
  by_cases hf : fec = true <;> by_cases h1 : age < mn <;> by_cases h2 : mx < age <;>
    simp [hf, h1, h2, not_le.mpr, not_lt.mp]

/-- unclipped range: when the product is a probability the clip is the identity, so the hazard is LINEAR in dt -/
theorem C16_events_per_year_linear {r d : Rat} (hd : d ≠ 0) (h0 : 0 ≤ r * d) (h1 : r * d ≤ 1) :
    clip01 (r * d) / d = r := by
  rw [clip01_of_mem h0 h1]; field_simp

/-! ### TimePar rates: births (holds), deaths (as is: dt twice) -/

/-- **Births, TimePar form**: per-step probability = v·units·rel·(parent step)/(own period), clipped -/
theorem C16_births_timepar {t : TP Rat} {u pu : String} {lu lpu s p r : Rat} (h : RateReady t u pu lu lpu s p) (hv : t.v = .scalar r)
    (unit : UnitT) (dt : Option Rat) (ru rel : Rat) :
    birthsTimePar unit dt t ru rel = .ok (.scalar (clip01 (r * ru * rel * ((p * lpu) / (s * lu))))) := by
  unfold birthsTimePar
  have hfx := C16_births_timepar_factor_is_one unit dt
  rw [timeparProb_rate_scalar h hv _ unit dt hfx]
  have := ne_of_gt (unitLen_pos h.lu); have := ne_of_gt (unitLen_pos h.lpu); have := h.p0; have := h.s0
  congr 3
  field_simp

/-- **Deaths, repaired variant** (`factor = 1.0`): the same law as births — linear in the module's dt -/
theorem C16_deaths_spec {t : TP Rat} {u pu : String} {lu lpu s p r : Rat} (h : RateReady t u pu lu lpu s p) (hv : t.v = .scalar r)
    (unit : UnitT) (dt : Option Rat) (ru rel : Rat) :
    timeparProb "1.0" unit dt t ru rel = .ok (.scalar (clip01 (r * ru * rel * ((p * lpu) / (s * lu))))) := by
  have hfx : factorOf "1.0" unit dt = .ok 1 := by unfold factorOf; simp
  rw [timeparProb_rate_scalar h hv _ unit dt hfx]
  have := ne_of_gt (unitLen_pos h.lu); have := ne_of_gt (unitLen_pos h.lpu); have := h.p0; have := h.s0
  congr 3
  field_simp

/-- **Deaths, as is** (`factor = self.t.dt`): the module's dt enters TWICE -/
theorem C16_deaths_asis {t : TP Rat} {u pu : String} {lu lpu s p r d : Rat} (h : RateReady t u pu lu lpu s p) (hv : t.v = .scalar r)
    (unit : UnitT) (ru rel : Rat) :
    timeparProb "self.t.dt" unit (some d) t ru rel = .ok (.scalar (clip01 (r * ru * rel * d * ((p * lpu) / (s * lu))))) := by
  have hfx : factorOf "self.t.dt" unit (some d) = .ok d := by unfold factorOf; simp
  rw [timeparProb_rate_scalar h hv _ unit (some d) hfx]
  have := ne_of_gt (unitLen_pos h.lu); have := ne_of_gt (unitLen_pos h.lpu); have := h.p0; have := h.s0
  congr 3
  field_simp

/-- **Partial**: as is equals the repaired law exactly when the module's dt is 1 -/
theorem C16_deaths_partial {t : TP Rat} {u pu : String} {lu lpu s p r : Rat} (h : RateReady t u pu lu lpu s p) (hv : t.v = .scalar r)
    (unit : UnitT) (ru rel : Rat) :
    timeparProb "self.t.dt" unit (some 1) t ru rel = timeparProb "1.0" unit (some 1) t ru rel := by
  rw [C16_deaths_asis h hv, C16_deaths_spec h hv, mul_one]

/-- the default death rate `ss.peryear(20)` per 1000 in a module stepping in years with dt = 1/5 -/
def deathsWitness : TP Rat :=
  ⟨.rate, .scalar 20, some "year", some "year", some (1/5), some 1, some 5, some (.scalar 4), true⟩

/-- **Counterexample (kernel-evaluated on the model).** With dt = 1/5 the as-is probability is 1/1250 per step,
    i.e. 1/250 per year instead of 1/50: one fifth of the annual hazard (deaths ∝ dt²); the repaired variant gives 1/250 per step. -/
theorem C16_deaths_asis_counterexample :
    timeparProb "self.t.dt" (some "year") (some (1/5)) deathsWitness (1/1000) 1 = .ok (.scalar (1/1250)) ∧
    timeparProb "1.0" (some "year") (some (1/5)) deathsWitness (1/1000) 1 = .ok (.scalar (1/250)) ∧
    (1/1250 : Rat) * 5 = (1/5) * ((20 : Rat) / 1000) := by
  refine ⟨by decide +kernel, by decide +kernel, by decide +kernel⟩

/-! ### Ageing, durations -/

/-- **Ageing**: the increments of the sim steps that make up one year add up to exactly 1 — every sim unit and dt -/
theorem C16_ageing {u : String} {lu ly d : Rat} (hlu : unitLen u = some lu) (hly : unitLen "year" = some ly) (n : Nat)
    (hyear : (n : Rat) * (d * lu) = ly) :
    ∃ inc, ageIncrement (some u) (some d) = .ok inc ∧ (n : Rat) * inc = 1 := by
  have h := C16_ageing_increment_is_dt_year (some u) (some d)
  refine ⟨_, by rw [h, timeRatio_known hlu hly one_ne_zero], ?_⟩
  have := ne_of_gt (unitLen_pos hly)
  field_simp
  linarith

/-- **Durations**: a duration parameter initialised with the module timeline, times the module's step length,
    is the duration itself (both in days) — restated from C06 for the module (parent) timeline -/
theorem C16_duration_steps (t : TP Rat) (hk : t.kind = .dur) {u pu : String} {lu lpu s p : Rat}
    (hu : t.unit = some u) (hpu : t.parentUnit = some pu) (hs : t.selfDt = some s) (hp : t.parentDt = some p)
    (hlu : unitLen u = some lu) (hlpu : unitLen pu = some lpu) (hp0 : p ≠ 0) :
    (updateCached ratOps t true false).1.values = some (t.v.map (· * ((s / p) * (lu / lpu)))) ∧
    ∀ x : Rat, (x * ((s / p) * (lu / lpu))) * (p * lpu) = x * (s * lu) := by
  rw [updateCached_dur t hk hu hpu hs hp hlu hlpu hp0 false]
  refine ⟨rfl, fun x => ?_⟩
  have := ne_of_gt (unitLen_pos hlpu)
  field_simp

/-! ### Table-driven rates -/

/-- **Age bin** = the last bin start `≤ age`: with increasing bin starts, `digitize − 1` selects index `i` such that
    the first `i` starts are `≤ age` and all later ones are `> age` (ages below every start fall in the `-inf` row 0). -/
theorem C16_table_lookup (bins : List Rat) (hs : bins.Pairwise (· < ·)) (age : Rat) :
    (∀ b ∈ bins.take (ageBin bins age), b ≤ age) ∧ (∀ b ∈ bins.drop (ageBin bins age), age < b) ∧ ageBin bins age ≤ bins.length := by
  obtain ⟨h1, h2⟩ := ageBin_take age bins hs
  refine ⟨?_, h2, ?_⟩
  · intro b hb
    rw [← h1] at hb
    simpa using (List.mem_filter.mp hb).2
  · unfold ageBin; exact List.length_filter_le _ _

/-! ### Probabilities that compound: coverage, per-act transmission (ℝ) -/

/-- `1 - (1 - P) ** e` -/
noncomputable def coverage (P e : ℝ) : ℝ := 1 - (1 - P) ^ e

/-- **Coverage conversion (repaired variant)**: with the exponent = step length in years, compounding the per-step
    probability over the `1/e` steps of a year returns the annual probability -/
theorem C16_coverage_conversion {P e : ℝ} (h1 : P ≤ 1) (he : e ≠ 0) : 1 - (1 - coverage P e) ^ (1 / e) = P := by
  unfold coverage
  have hx : (0 : ℝ) ≤ 1 - P := by linarith
  have : (1 : ℝ) - (1 - (1 - P) ^ e) = (1 - P) ^ e := by ring
  rw [this, ← Real.rpow_mul hx, mul_one_div_cancel he, Real.rpow_one]
  ring

/-- **Partial**: in a sim whose unit is the year the raw dt IS the step length in years, so the as-is exponent is right -/
theorem C16_coverage_partial (d : Rat) :
    deliveryExponent "sim.pars.dt" (some "year") (some d) = deliveryExponent "sim.t.dt_year" (some "year") (some d) := by
  have h1 : deliveryExponent "sim.pars.dt" (some "year") (some d) = .ok d := by unfold deliveryExponent; simp
  have h2 : deliveryExponent "sim.t.dt_year" (some "year") (some d) = .ok (d * 1) := by
    unfold deliveryExponent
    simp [timeRatio, dtRatio_some one_ne_zero, unitRatio]
  rw [h1, h2, mul_one]

/-- **Counterexample (as is)**: in a sim stepping in days the exponent is 1 (not 1/365.25): an annual probability is applied
    EVERY DAY — and for 0 < P < 1 that is strictly more than the correct per-step probability -/
theorem C16_coverage_counterexample :
    deliveryExponent "sim.pars.dt" (some "day") (some 1) = .ok 1 ∧
    deliveryExponent "sim.t.dt_year" (some "day") (some 1) ≠ .ok 1 ∧
    ∀ P e : ℝ, 0 < P → P < 1 → 0 < e → e < 1 → coverage P e < coverage P 1 := by
  refine ⟨by decide +kernel, by decide +kernel, ?_⟩
  intro P e h0 h1 he0 he1
  unfold coverage
  have := Real.rpow_lt_rpow_of_exponent_gt (x := 1 - P) (by linarith) (by linarith) he1
  linarith

/-- **Per-act transmission** (`SexualNetwork.net_beta`): the probability of escaping infection over `n` steps of length
    `dt` with `a` acts per unit time is `(1-β)^(a·(n·dt))` — it depends on the elapsed time `n·dt` only, not on dt -/
theorem C16_net_beta_compound {β a dt : ℝ} (h1 : β ≤ 1) (n : ℕ) :
    (1 - (1 - (1 - β) ^ (a * dt))) ^ n = (1 - β) ^ (a * ((n : ℝ) * dt)) := by
  have hx : (0 : ℝ) ≤ 1 - β := by linarith
  have : (1 : ℝ) - (1 - (1 - β) ^ (a * dt)) = (1 - β) ^ (a * dt) := by ring
  rw [this, ← Real.rpow_natCast, ← Real.rpow_mul hx]
  congr 1
  ring

/-- a compounding per-step probability `1-(1-P)^dt` gives `P` per unit time for every dt (exact annual identity);
    this is `C06_timeprob_compound` with `factor = 1/dt` -/
theorem C16_events_per_year_compound {P dt : ℝ} (hP : P < 1) (hdt : dt ≠ 0) :
    1 - (1 - realOps.tpFormula P (1 / dt)) ^ (1 / dt) = P :=
  tp_compound hP (one_div_ne_zero hdt)

/-! ### Non-vacuity -/

/-- `deathsWitness` is a `RateReady` object (the default `ss.peryear(20)` in a yearly module with dt = 1/5) -/
example : ∃ ly, RateReady deathsWitness "year" "year" ly ly 1 (1/5) := by
  cases hy : unitLen "year" with
  | none => exact absurd hy (by decide +kernel)
  | some ly =>
    exact ⟨ly, ⟨rfl, rfl, rfl, rfl, rfl, rfl, by decide +kernel, by decide +kernel, hy, hy, by norm_num, by norm_num⟩⟩

/-- increasing bins exist and the lookup is non-trivial: ages 7 and −2 in bins 0,1,5,10 -/
example : ageBin [0, 1, 5, 10] 7 = 3 ∧ ageBin [0, 1, 5, 10] (-2) = 0 ∧ [(0:Rat), 1, 5, 10].Pairwise (· < ·) := by
  refine ⟨by decide +kernel, by decide +kernel, by decide +kernel⟩

/-- a week-stepping sim: 1461/28 weekly… no integer number of weeks makes a year, but 1461 four-week steps make 112 years;
    the hypothesis of `C16_ageing` is met e.g. by a daily sim with dt = 1/4 over 1461 steps when year = 365.25 days -/
example : ∃ lu ly, unitLen "day" = some lu ∧ unitLen "year" = some ly := by
  cases hd : unitLen "day" with
  | none => exact absurd hd (by decide +kernel)
  | some lu =>
    cases hy : unitLen "year" with
    | none => exact absurd hy (by decide +kernel)
    | some ly => exact ⟨lu, ly, rfl, rfl⟩

end StarsimModel.C16
