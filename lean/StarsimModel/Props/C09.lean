/-
C09 — Pausing, copying or saving a run never changes its outcome.

Property theorems only (lemmas: Lemmas/RunState.lean; model: Model/RunState.lean over the plan of Model/Loop.lean).
The simulation step is an ARBITRARY deterministic function `step : σ → Entry → σ` on an arbitrary state type;
`restore mode` is the identity on the abstract state (that deepcopy / pickle / save+load are the identity on the
concrete object graph is established by the correspondence, not here: DESIGN section 8, *partial*).
All statements hold for every plan, every time vector, every stop time and every operation sequence.
-/
import StarsimModel.Lemmas.RunState
import StarsimModel.Lemmas.Loop
import StarsimModel.Lemmas.Binding
import StarsimModel.Generated.ClosureFacts

namespace StarsimModel.C09
open StarsimModel.Loop StarsimModel.RunState

variable {σ : Type}

/-! ### Obligations on regenerated facts (Generated/LoopFacts.lean) -/

/-- The run-once guards of `Sim`, in source order: `start_step` and `run` refuse a complete sim, `finalize` refuses a
    finalised one (the model's `run` / `finalize`). -/
theorem C09_guards_extracted :
    Gen.alreadyRunGuards = [("start_step", "self.complete"), ("run", "self.complete"),
                            ("finalize", "self.results_ready")] := by decide

/-- `Loop.run` stops exactly when `until` is truthy and `sim.now > until` (the model's `stopNow`). -/
theorem C09_stop_condition_extracted : Gen.loopRunStop = "until and self.sim.now > until" := by decide

/-- **Split.** For every list of pause points (in any order, repeated, beyond the end — a pause point at or before
    the cursor does nothing), running segment by segment and then to the end executes exactly the plan, in order,
    once: the state is the fold of `step` over the whole plan, the cursor is at the end, the clocks are the final
    clocks. -/
theorem C09_split (c : Cfg σ) (ks : List Nat) :
    let s := runTo c c.plan.length (ks.foldl (fun s k => runTo c k s) (fresh c))
    s.st = c.plan.foldl c.step c.init ∧ s.index = c.plan.length ∧ s.clocks = finalClocks [] c.plan := by
  have hall : ∀ (ks : List Nat) (s : State σ), ReachF c s → ReachF c (ks.foldl (fun s k => runTo c k s) s) := by
    intro ks
    induction ks with
    | nil => intro s h; exact h
    | cons k r ih => intro s h; exact ih _ (runTo_reach c k s h).1
  have h1 := hall ks (fresh c) (reachF_fresh c)
  obtain ⟨h2, h3⟩ := runTo_reach c c.plan.length _ h1
  have hidx : (runTo c c.plan.length (ks.foldl (fun s k => runTo c k s) (fresh c))).index = c.plan.length := by
    rw [h3]; have := h1.le; omega
  have hst := h2.st
  have hclk := h2.clk
  rw [hidx, List.take_length] at hst hclk
  exact ⟨hst, hidx, hclk⟩

/-- …in particular the list of executed plan entries is the plan itself (instance `σ = List Entry`, `step` = record). -/
theorem C09_split_executed (plan : List Entry) (tv : List Rat) (n : Nat) (ks : List Nat) :
    let c : Cfg (List Entry) := ⟨plan, tv, n, fun l e => l ++ [e], []⟩
    (runTo c plan.length (ks.foldl (fun s k => runTo c k s) (fresh c))).st = plan := by
  intro c
  have := (C09_split c ks).1
  rw [this]
  show plan.foldl (fun l e => l ++ [e]) [] = plan
  have h : ∀ (l acc : List Entry), l.foldl (fun l e => l ++ [e]) acc = acc ++ l := by
    intro l; induction l with
    | nil => intro acc; simp
    | cons e r ih => intro acc; simp [ih]
  simpa using h plan []

/-- **Any operation sequence.** After ANY sequence of `run(until)`, `sim.run_one_step`, `loop.run_one_step` and
    restores (no manual `finalize`), a final `run()` — if the run is not complete already — ends exactly in the state
    of an uninterrupted run: every plan function executed once in order, cursor at the end, `complete`, finalised and
    rescaled exactly once (`nScaled = 1`), clocks at their final values; and that last `run()` does not raise. -/
theorem C09_any_op_sequence (c : Cfg σ) (ops : List Op) (hops : ∀ op ∈ ops, op.noFinalize = true) :
    let s := applyAll c (fresh c) ops
    (if s.complete then s else (run c none s).1) = finalState c ∧
    (s.complete = false → (run c none s).2 = .ok ()) := by
  intro s
  have hs : ReachF c s := applyAll_reachF c ops (fresh c) hops (reachF_fresh c)
  by_cases hc : s.complete = true
  · simp only [hc, if_true]
    exact ⟨eq_finalState hs hc, by simp⟩
  · have hc' : s.complete = false := by simpa using hc
    simp only [hc', Bool.false_eq_true, if_false]
    have hr := run_reachF c none s hs
    have hend := loopRun_none_index c s hs.toReach
    have hflags := (loopRun_reach c none s hs.toReach).2.2.2.2
    have hnr : (loopRun c none s).resultsReady = false := by rw [hflags.2.1]; exact (hs.notfin hc').1
    have hcomp : (run c none s).1.complete = true := by
      simp [run, hc', hend, finalize, hnr]
    refine ⟨eq_finalState hr hcomp, fun _ => ?_⟩
    simp [run, hc', hend, finalize, hnr]

/-- **Until.** `run(until=u)` on an unfinished run executes a non-empty prefix of the remaining plan (empty only if
    nothing remains), stops at the end or right after the first function after which `u` is truthy and
    `sim.now > u` — no earlier function had that effect — and leaves a state from which `run()` reaches the
    uninterrupted final state. -/
theorem C09_until (c : Cfg σ) (ops : List Op) (hops : ∀ op ∈ ops, op.noFinalize = true) (u : Option Rat) :
    let s := applyAll c (fresh c) ops
    s.complete = false →
    ∃ l rest, c.plan.drop s.index = l ++ rest ∧ loopRun c u s = l.foldl (exec c) s ∧
      (rest ≠ [] → l ≠ [] ∧ stopNow c (loopRun c u s) u = true) ∧
      (∀ l1 l2, l = l1 ++ l2 → l1 ≠ [] → l2 ≠ [] → stopNow c (l1.foldl (exec c) s) u = false) ∧
      (let t := (run c u s).1; (if t.complete then t else (run c none t).1) = finalState c) := by
  intro s hc
  obtain ⟨l, rest, h1, h2, h3, h4⟩ := loopRunAux_spec c u (c.plan.drop s.index) s
  refine ⟨l, rest, h1, h2, ?_, h4, ?_⟩
  · intro hr
    have hl : l ≠ [] := by
      intro hl
      subst hl
      -- an empty executed prefix with something remaining is impossible: the loop always executes one function
      cases hd : c.plan.drop s.index with
      | nil => rw [hd] at h1; simp at h1; exact hr h1
      | cons e r =>
          have : loopRunAux c u (e :: r) s ≠ s := by
            intro heq
            have hi : (loopRunAux c u (e :: r) s).index = s.index := by rw [heq]
            obtain ⟨l', rest', g1, g2, _, _⟩ := loopRunAux_spec c u r (exec c s e)
            have hs' : ReachF c s := applyAll_reachF c ops (fresh c) hops (reachF_fresh c)
            simp only [loopRunAux] at hi
            split at hi
            · simp [exec] at hi
            · rw [g2] at hi
              have hmono : ∀ (l : List Entry) (t : State σ), (l.foldl (exec c) t).index = t.index + l.length := by
                intro l; induction l with
                | nil => intro t; rfl
                | cons a b ih => intro t; simp only [List.foldl_cons, List.length_cons, ih]; simp only [exec]; omega
              rw [hmono] at hi
              simp only [exec] at hi
              omega
          rw [hd] at h2
          exact this (by simpa using h2)
    exact ⟨hl, by rw [loopRun, h2]; exact h3 hr⟩
  · have := C09_any_op_sequence c (ops ++ [Op.run u]) (by
      intro op hop
      rcases List.mem_append.1 hop with h | h
      · exact hops op h
      · simp at h; subst h; rfl)
    simp only [applyAll, List.foldl_append, List.foldl_cons, List.foldl_nil, apply] at this
    exact this.1

/-- **Re-run refused.** `run` on a complete simulation raises `AlreadyRunError` and changes nothing. -/
theorem C09_rerun_refused (c : Cfg σ) (s : State σ) (u : Option Rat) (h : s.complete = true) :
    run c u s = (s, .error .alreadyRun) := by
  simp [run, h]

/-- **Re-finalise refused.** `finalize` on a finalised simulation raises `AlreadyRunError` and changes nothing: the
    results are never rescaled a second time. -/
theorem C09_refinalize_refused (s : State σ) (h : s.resultsReady = true) :
    finalize s = (s, .error .alreadyRun) := by
  simp [finalize, h]

/-- Along every operation sequence (manual `finalize` included) the results are rescaled at most once, and exactly
    the first `index` plan functions have been executed, in order, once. -/
theorem C09_scaled_at_most_once (c : Cfg σ) (ops : List Op) :
    let s := applyAll c (fresh c) ops
    s.nScaled ≤ 1 ∧ (s.nScaled = 1 ↔ s.resultsReady = true) ∧
    s.st = (c.plan.take s.index).foldl c.step c.init := by
  have key : ∀ (ops : List Op) (s : State σ), Reach c s → (s.nScaled ≤ 1 ∧ (s.nScaled = 1 ↔ s.resultsReady = true)) →
      Reach c (applyAll c s ops) ∧ ((applyAll c s ops).nScaled ≤ 1 ∧
        ((applyAll c s ops).nScaled = 1 ↔ (applyAll c s ops).resultsReady = true)) := by
    intro ops
    induction ops with
    | nil => intro s h1 h2; exact ⟨h1, h2⟩
    | cons op r ih =>
        intro s h1 h2
        simp only [applyAll, List.foldl_cons]
        refine ih _ (apply_reach c s op h1) ?_
        cases op with
        | run u =>
            simp only [apply, run]
            by_cases hc : s.complete = true
            · simp [hc, h2]
            · have hf := (loopRun_reach c u s h1).2.2.2.2
              simp only [hc, Bool.false_eq_true, if_false]
              by_cases hend : (loopRun c u s).index = c.plan.length
              · simp only [hend, if_true, finalize]
                by_cases hr : (loopRun c u s).resultsReady = true
                · simp only [hr, if_true]; rw [hf.2.2.1]; rw [hf.2.1] at hr; simp [hr] at h2 ⊢; omega
                · have hr' : s.resultsReady = false := by rw [← hf.2.1]; simpa using hr
                  simp only [hr, Bool.false_eq_true, if_false]
                  rw [hf.2.2.1]
                  have : s.nScaled = 0 := by
                    rcases h2 with ⟨a, b⟩
                    rcases Nat.lt_or_ge s.nScaled 1 with h | h
                    · omega
                    · have : s.nScaled = 1 := by omega
                      have := b.1 this; simp [hr'] at this
                  simp [this]
              · simp only [hend, if_false]; rw [hf.2.1, hf.2.2.1]; exact h2
        | simStep =>
            have hf := (loopRun_reach c (some (now c s)) s h1).2.2.2.2
            simp only [apply, simRunOneStep]; rw [hf.2.1, hf.2.2.1]; exact h2
        | loopStep =>
            simp only [apply, loopRunOneStep]
            cases c.plan[s.index]? with
            | none => exact h2
            | some e => exact h2
        | restore m => exact h2
        | observe => exact h2
        | finalize =>
            simp only [apply, finalize]
            by_cases hr : s.resultsReady = true
            · simp [hr, h2]
            · have hr' : s.resultsReady = false := by simpa using hr
              have : s.nScaled = 0 := by
                rcases h2 with ⟨a, b⟩
                rcases Nat.lt_or_ge s.nScaled 1 with h | h
                · omega
                · have : s.nScaled = 1 := by omega
                  have := b.1 this; simp [hr'] at this
              simp [hr', this]
  intro s
  have hf := reachF_fresh c
  obtain ⟨h1, h2⟩ := key ops (fresh c) hf.toReach (by simp [fresh])
  exact ⟨h2.1, h2.2, h1.st⟩

/-- **Twins.** After any history `ops0` a restored copy (deepcopy / pickle / save+load: same abstract state) and its
    original, continued independently with arbitrary further operations, both reach the uninterrupted final state. -/
theorem C09_twins (c : Cfg σ) (m : Mode) (ops0 ops1 ops2 : List Op)
    (h0 : ∀ op ∈ ops0, op.noFinalize = true) (h1 : ∀ op ∈ ops1, op.noFinalize = true)
    (h2 : ∀ op ∈ ops2, op.noFinalize = true) :
    let s := applyAll c (fresh c) ops0
    let copy := (apply c s (.restore m)).1
    let a := applyAll c s ops1
    let b := applyAll c copy ops2
    (if a.complete then a else (run c none a).1) = finalState c ∧
    (if b.complete then b else (run c none b).1) = finalState c := by
  intro s copy a b
  have ha := C09_any_op_sequence c (ops0 ++ ops1) (by
    intro op hop; rcases List.mem_append.1 hop with h | h
    · exact h0 op h
    · exact h1 op h)
  have hb := C09_any_op_sequence c (ops0 ++ [.restore m] ++ ops2) (by
    intro op hop
    rcases List.mem_append.1 hop with h | h
    · rcases List.mem_append.1 h with h | h
      · exact h0 op h
      · simp at h; subst h; rfl
    · exact h2 op h)
  simp only [applyAll, List.foldl_append, List.foldl_cons, List.foldl_nil] at ha hb
  exact ⟨ha.1, hb.1⟩

/-- **Restores commute and are transparent** (at the cursor / guard level): any restores — of any modes, in any
    order, a copy of a copy, a pickle of a loaded sim — and any read-only uses (`to_json`, `shrink(inplace=False)`,
    `save(shrink=True)`, …) interleaved anywhere into an operation sequence leave the resulting state exactly what it
    is without them. -/
theorem C09_restores_transparent (c : Cfg σ) (ops : List Op) (s : State σ) :
    applyAll c s ops = applyAll c s (ops.filter (fun op => !op.transparent)) := by
  induction ops generalizing s with
  | nil => rfl
  | cons op r ih =>
      cases op with
      | restore m => simpa [applyAll, Op.transparent, apply] using ih s
      | observe => simpa [applyAll, Op.transparent, apply] using ih s
      | run u => simpa [applyAll, Op.transparent] using ih _
      | simStep => simpa [applyAll, Op.transparent] using ih _
      | loopStep => simpa [applyAll, Op.transparent] using ih _
      | finalize => simpa [applyAll, Op.transparent] using ih _

/-- …in particular two restores commute, and a restore of a restore is a restore. -/
theorem C09_restores_commute (c : Cfg σ) (s : State σ) (m1 m2 : Mode) (ops : List Op) :
    applyAll c s (.restore m1 :: .restore m2 :: ops) = applyAll c s (.restore m2 :: .restore m1 :: ops) ∧
    applyAll c s (.restore m1 :: .restore m2 :: ops) = applyAll c s ops := by
  simp [applyAll, apply]

/-- The uninterrupted run is the special case of the empty history: `run()` on a fresh sim gives `finalState`, whose
    clocks are those of C08 (`C08_final_clocks`) after `Sim.run`'s adjustment. -/
theorem C09_uninterrupted (c : Cfg σ) : (run c none (fresh c)).1 = finalState c := by
  have := (C09_any_op_sequence c [] (by simp)).1
  simpa [applyAll, fresh] using this

/-! ### Non-vacuity: a concrete plan (the mixed-timestep example of C08), concrete pauses -/

def exMods : List Mod :=
  [⟨.demographics, false, 2⟩, ⟨.networks, false, 3⟩, ⟨.diseases, true, 4⟩, ⟨.interventions, false, 5⟩,
   ⟨.analyzers, false, 6⟩]
def exTimes : Times :=
  Times.ofLists [[0, 1000000, 2000000], [0, 1000000, 2000000], [0, 1000000, 2000000],
    [0, 500000, 1000000, 1500000, 2000000], [1000000, 2000000], [0, 2000000], [0, 1000000, 2000000]]
/-- executed entries are recorded as their (time, func_order) -/
def exCfg : Cfg (List (Int × Nat)) :=
  ⟨makePlanI exTimes (collect Gen.loopRows exMods), [2000, 2001, 2002], 6, fun l e => l ++ [(e.time, e.order)], []⟩

/-- `run(until=2000)` stops after the sim's first `finish_step` (22 functions), `loop.run_one_step` adds one,
    `sim.run_one_step` runs to the next sim `finish_step` … -/
example : (applyAll exCfg (fresh exCfg) [.run (some 2000)]).index = 22 := by decide
example : (applyAll exCfg (fresh exCfg) [.run (some 2000), .loopStep, .loopStep]).index = 24 := by decide
example : (applyAll exCfg (fresh exCfg) [.run (some 2000), .loopStep, .restore .pickle, .simStep]).index = 49 := by decide
example : (applyAll exCfg (fresh exCfg) [.run (some 2000), .loopStep, .simStep, .run none]).complete = true := by decide
example : (applyAll exCfg (fresh exCfg) [.run (some 2000), .loopStep, .simStep, .run none]).st
    = (applyAll exCfg (fresh exCfg) [.run none]).st := by decide
example : errOf (apply exCfg (applyAll exCfg (fresh exCfg) [.run none]) (.run none)).2 = some .alreadyRun := by decide
example : errOf (apply exCfg (applyAll exCfg (fresh exCfg) [.run none]) .finalize).2 = some .alreadyRun := by decide
/-- a manual `finalize` in the middle makes the completing `run` raise (the results were already rescaled once) -/
example : errOf (apply exCfg (applyAll exCfg (fresh exCfg) [.run (some 2000), .finalize]) (.run none)).2
    = some .alreadyRun := by decide

/-! ### Round 5: the object graph — which sim a scheduled function acts on (Model/Binding.lean, Generated/ClosureFacts.lean) -/

section Binding
open StarsimModel.Binding

/-- No nested function of the object-graph source files that ESCAPES its enclosing call (stored on a module, passed to
    `partial`, returned) captures a parameter of that call (`self`, `sim`, `mod`, …) in a closure cell: every scheduled
    function is a bound method or a `partial` over a module — `Callee.method`, the hypothesis `allMethod` below.
    (`Module.from_func`'s `step(mod)` takes the module as its ARGUMENT and looks `mod.sim` up when called.) -/
theorem C09_no_escaping_closure_over_objects :
    Gen.nestedCaptures.all (fun r => !r.2.2.2.1 || r.2.2.2.2.isEmpty) = true := by decide

/-- `Loop.__deepcopy__` deep-copies the plan with the memo of the surrounding copy (so the bound methods in it are rebuilt over
    the copied receivers: `rebindDeep` on `Callee.method`). -/
theorem C09_plan_copied_with_memo : Gen.planDeepCopied = true ∧ Gen.planCopySharesMemo = true := by decide

/-- **Twins on the object graph (deep copy).** In any world of sim objects, a deep copy of a sim all of whose scheduled
    functions act on that sim and none of which is a closure is bound to ITSELF: continuing the copy by any number `n` of
    functions and then the original by any number `m` takes each of them exactly where it would have gone alone (state = its
    own functions folded over its own state, cursor advanced by its own count), and no other object of the world moves. -/
theorem C09_bound_twins (step : σ → Nat → σ) (w : World σ) (i : Nat) (o : Obj σ) (hw : w[i]? = some o)
    (hb : wellBound i o) (hm : allMethod o) (n m : Nat) (hn : o.index + n ≤ o.plan.length) (hm' : o.index + m ≤ o.plan.length) :
    let w2 := runN step (runN step (deepcopy w i) w.length n) i m
    (w2[w.length]?.map (fun x => (x.st, x.index))) = some (foldFrom step o.st o.index n, o.index + n) ∧
    (w2[i]?.map (fun x => (x.st, x.index))) = some (foldFrom step o.st o.index m, o.index + m) ∧
    ∀ j, j < w.length → j ≠ i → w2[j]? = w[j]? := by
  intro w2
  have hi : i < w.length := get_lt_of_some w i o hw
  obtain ⟨⟨o', h1, hb', _, hst, hidx, hlen⟩, hold⟩ := deepcopy_spec w i o hw hb hm
  obtain ⟨a1, a2⟩ := runN_spec step n (deepcopy w i) w.length o' h1 hb' (by rw [hidx, hlen]; exact hn)
  have hne : i ≠ w.length := by omega
  have hwi : (runN step (deepcopy w i) w.length n)[i]? = some o := by rw [a2 i hne, hold i hi]; exact hw
  obtain ⟨b1, b2⟩ := runN_spec step m _ i o hwi hb hm'
  refine ⟨?_, ?_, ?_⟩
  · show ((runN step (runN step (deepcopy w i) w.length n) i m)[w.length]?.map _) = _
    rw [b2 w.length (Ne.symm hne), a1]; simp [hst, hidx]
  · show ((runN step (runN step (deepcopy w i) w.length n) i m)[i]?.map _) = _
    rw [b1]; rfl
  · intro j hj hji
    show (runN step (runN step (deepcopy w i) w.length n) i m)[j]? = _
    rw [b2 j hji, a2 j (by omega), hold j hj]

/-- **Twins on the object graph (pickle round trip, save + load).** The same for a by-value copy, whatever the scheduled
    functions are (closures included: dill serialises their cells inside the same graph). -/
theorem C09_bound_twins_by_value (step : σ → Nat → σ) (w : World σ) (i : Nat) (o : Obj σ) (hw : w[i]? = some o)
    (hb : wellBound i o) (n m : Nat) (hn : o.index + n ≤ o.plan.length) (hm' : o.index + m ≤ o.plan.length) :
    let w2 := runN step (runN step (byValue w i) w.length n) i m
    (w2[w.length]?.map (fun x => (x.st, x.index))) = some (foldFrom step o.st o.index n, o.index + n) ∧
    (w2[i]?.map (fun x => (x.st, x.index))) = some (foldFrom step o.st o.index m, o.index + m) ∧
    ∀ j, j < w.length → j ≠ i → w2[j]? = w[j]? := by
  intro w2
  have hi : i < w.length := get_lt_of_some w i o hw
  obtain ⟨⟨o', h1, hb', hst, hidx, hlen⟩, hold⟩ := byValue_spec w i o hw hb
  obtain ⟨a1, a2⟩ := runN_spec step n (byValue w i) w.length o' h1 hb' (by rw [hidx, hlen]; exact hn)
  have hne : i ≠ w.length := by omega
  have hwi : (runN step (byValue w i) w.length n)[i]? = some o := by rw [a2 i hne, hold i hi]; exact hw
  obtain ⟨b1, b2⟩ := runN_spec step m _ i o hwi hb hm'
  refine ⟨?_, ?_, ?_⟩
  · show ((runN step (runN step (byValue w i) w.length n) i m)[w.length]?.map _) = _
    rw [b2 w.length (Ne.symm hne), a1]; simp [hst, hidx]
  · show ((runN step (runN step (byValue w i) w.length n) i m)[i]?.map _) = _
    rw [b1]; rfl
  · intro j hj hji
    show (runN step (runN step (byValue w i) w.length n) i m)[j]? = _
    rw [b2 j hji, a2 j (by omega), hold j hj]

/-- a sim (object 1 of a world of two) with three ordinary scheduled functions, paused after the first -/
def exWorld : World Nat := [⟨100, 0, []⟩, ⟨0, 1, [⟨.method, 1⟩, ⟨.method, 1⟩, ⟨.method, 1⟩]⟩]
/-- the same sim with its second function a closure over the sim (what `def step(): return self.func(sim)` is) -/
def exWorldClosure : World Nat := [⟨100, 0, []⟩, ⟨0, 1, [⟨.method, 1⟩, ⟨.closure, 1⟩, ⟨.method, 1⟩]⟩]
def exStep : Nat → Nat → Nat := fun s k => 10 * s + k + 1

/-- non-vacuity of `C09_bound_twins`: the hypotheses hold on `exWorld`, and the deep copy (object 2) finishes alone -/
example : wellBound 1 ⟨(0 : Nat), 1, [⟨.method, 1⟩, ⟨.method, 1⟩, ⟨.method, 1⟩]⟩ ∧
    allMethod ⟨(0 : Nat), 1, [⟨.method, 1⟩, ⟨.method, 1⟩, ⟨.method, 1⟩]⟩ := by
  constructor <;> (intro sl hsl; simp at hsl; simp [hsl])
example : ((runN exStep (deepcopy exWorld 1) 2 2).map (fun x => (x.st, x.index))) = [(100, 0), (0, 1), (23, 3)] := by decide

/-- **Counterexample without `allMethod`.** With a closure among the scheduled functions a DEEP copy is not independent:
    finishing the copy (object 2) applies the closure's function to the ORIGINAL (object 1: state 0 → 2 while its cursor still
    says "paused after 1") and the copy ends without that function's effect (3 instead of 23) — while a by-value copy of the
    very same sim is fine. -/
theorem C09_closure_copy_counterexample :
    ((runN exStep (deepcopy exWorldClosure 1) 2 2).map (fun x => (x.st, x.index))) = [(100, 0), (2, 1), (3, 3)] ∧
    ((runN exStep (byValue exWorldClosure 1) 2 2).map (fun x => (x.st, x.index))) = [(100, 0), (0, 1), (23, 3)] := by decide

end Binding

end StarsimModel.C09
