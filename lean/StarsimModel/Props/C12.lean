/-
C12 — Infections arise only through admissible transmission events.

Property theorems only (helper lemmas are in Lemmas/Transmission.lean).  The model is Model/Transmission.lean;
its arithmetic (effective factors, compared probability, comparison, `net_beta`, pool probability, Bernoulli
acceptance) is Generated/TransmissionFacts.lean, re-translated from /repo/starsim on every run, so every theorem
below is about the expressions the code contains today.

All theorems hold for ALL route lists, edge lists, agent states, relative factors and random numbers; the only
hypotheses are the ones named: random numbers are not negative (they are uniform on [0,1]); for monotonicity,
relative factors / edge weights / betas are not negative.  That edge endpoints are active agents is C14's
obligation and is not needed by any statement here (the model is total in the uid).
-/
import StarsimModel.Lemmas.TransmissionReal

namespace StarsimModel.C12
open StarsimModel.Transmission

/-! ### Obligations on the regenerated source facts -/

/-- `infect` tries `p1→p2` with `betamap[net][0]`, then `p2→p1` with `betamap[net][1]` — what `Dir`, `Edge.src/trg`
    and `Net.b` of the model encode. -/
theorem C12_directions_as_modelled :
    Gen.infectDirections = [("p1", "p2", 0), ("p2", "p1", 1)] := by decide

/-- The kernel returns `(trg[mask], src[mask])` — targets first. -/
theorem C12_kernel_returns_targets_then_sources : Gen.kernelReturns = ["trg", "src"] := by decide

/-- `infect` removes duplicate targets with `unique(return_index=True)` and takes the sources at the same indices. -/
theorem C12_dedup_present : Gen.infectDedupKeepsFirst = true := by decide

/-- `MixingPool.step` averages over the source group, weighs and filters the destination group. -/
theorem C12_pool_groups_as_modelled : Gen.poolGroups = ["src", "dst", "dst"] := by decide

/-! ### Hypotheses -/

/-- Every random number compared by the kernel is ≥ 0. -/
def NonnegRand (nets : List Net) : Prop := ∀ n ∈ nets, ∀ e ∈ n.edges, ∀ d, 0 ≤ e.r d

/-- The event was produced by edge `e` of route `ev.net` in direction `d`. -/
structure Via (s : DState) (nets : List Net) (ev : Event) (n : Net) (d : Dir) (e : Edge) : Prop where
  route : nets[ev.net]? = some n
  isNetwork : n.isNetwork = true
  edge : e ∈ n.edges
  source : e.src d = ev.source
  target : e.trg d = ev.target
  beta_ne : n.b d ≠ 0
  transmits : transmitsDir s n.kind (n.b d) d e = true

/-- Every reported event comes from some edge of its network in some non-skipped direction. -/
theorem C12_event_has_edge {s : DState} {nets : List Net} {ev : Event} (h : ev ∈ infect s nets) :
    ∃ n d e, Via s nets ev n d e := by
  obtain ⟨n, hn, ha, d, hb, e, he, ht, hs, htg⟩ := mem_allEvents.mp (mem_infect_allEvents h)
  refine ⟨n, d, e, hn, ?_, he, hs, htg, hb, ht⟩
  simp only [Net.active, Bool.and_eq_true] at ha
  exact ha.1

/-! ### The property -/

/-- **Target susceptible.** Every new case was susceptible (with non-zero relative susceptibility) when `infect` ran. -/
theorem C12_target_susceptible {s : DState} {nets : List Net} {ev : Event} (hr : NonnegRand nets)
    (h : ev ∈ infect s nets) : s.susceptible ev.target = true ∧ s.relSus ev.target ≠ 0 := by
  obtain ⟨n, d, e, v⟩ := C12_event_has_edge h
  have hn : n ∈ nets := List.mem_of_getElem? v.route
  obtain ⟨_, _, h3, h4, _⟩ := transmitsDir_factors v.transmits (hr n hn e v.edge d)
  rw [v.target] at h3 h4
  exact ⟨h3, h4⟩

/-- **Source infectious and joined.** The recorded source was infectious with non-zero relative transmissibility,
    and an edge of the recorded network joins it to the target in a direction whose beta is non-zero and whose
    per-step transmissibility on that edge is non-zero. -/
theorem C12_source_infectious_and_joined {s : DState} {nets : List Net} {ev : Event} (hr : NonnegRand nets)
    (h : ev ∈ infect s nets) :
    ∃ n d e, nets[ev.net]? = some n ∧ n.isNetwork = true ∧ e ∈ n.edges ∧ e.src d = ev.source ∧ e.trg d = ev.target ∧
      n.b d ≠ 0 ∧ netBeta n.kind e (n.b d) d ≠ 0 ∧
      s.infectious ev.source = true ∧ s.relTrans ev.source ≠ 0 := by
  obtain ⟨n, d, e, v⟩ := C12_event_has_edge h
  have hn : n ∈ nets := List.mem_of_getElem? v.route
  obtain ⟨h1, h2, _, _, h5⟩ := transmitsDir_factors v.transmits (hr n hn e v.edge d)
  rw [v.source] at h1 h2
  exact ⟨n, d, e, v.route, v.isNetwork, v.edge, v.source, v.target, v.beta_ne, h5, h1, h2⟩

/-- … and when betas are not negative the direction's beta is positive. -/
theorem C12_source_direction_positive {s : DState} {nets : List Net} {ev : Event}
    (hb : ∀ n ∈ nets, ∀ d, 0 ≤ n.b d) (h : ev ∈ infect s nets) :
    ∃ n d e, nets[ev.net]? = some n ∧ e ∈ n.edges ∧ e.src d = ev.source ∧ e.trg d = ev.target ∧ 0 < n.b d := by
  obtain ⟨n, d, e, v⟩ := C12_event_has_edge h
  have hn : n ∈ nets := List.mem_of_getElem? v.route
  exact ⟨n, d, e, v.route, v.edge, v.source, v.target, lt_of_le_of_ne (hb n hn d) (Ne.symm v.beta_ne)⟩

/-- **Once.** The new cases are strictly increasing in the target uid: nobody is infected twice in one call. -/
theorem C12_once (s : DState) (nets : List Net) :
    (infect s nets).Pairwise (fun a b => a.target < b.target) :=
  sortByTarget_sorted (keepFirst_pairwise _)

theorem C12_once_nodup (s : DState) (nets : List Net) : ((infect s nets).map (·.target)).Nodup := by
  rw [List.Nodup, List.pairwise_map]
  exact (C12_once s nets).imp (fun h => Nat.ne_of_lt h)

/-- Without `unique` the same agent can be reported twice (why the dedup obligation above matters). -/
theorem C12_without_unique_duplicates :
    ∃ s nets, ¬ ((infectNoDedup s nets).map (·.target)).Nodup :=
  ⟨⟨fun _ => true, fun _ => true, fun _ => 1, fun _ => 1⟩,
   [{ edges := [{ p1 := 0, p2 := 2 }, { p1 := 1, p2 := 2 }], b0 := 1, b1 := 0 }], by decide +kernel⟩

/-- **Zero factor (edge level).** Over an edge whose source is not infectious, or whose target is not susceptible,
    or with zero relative transmissibility / susceptibility, or with zero per-step transmissibility, nothing is
    transmitted, whatever the (non-negative) random number. -/
theorem C12_zero_factor (s : DState) (k : NetKind) (β : Rat) (d : Dir) (e : Edge) (hr : 0 ≤ e.r d)
    (h : s.infectious (e.src d) = false ∨ s.relTrans (e.src d) = 0 ∨ s.susceptible (e.trg d) = false ∨
         s.relSus (e.trg d) = 0 ∨ netBeta k e β d = 0) :
    transmitsDir s k β d e = false := by
  by_contra hne
  have ht : transmitsDir s k β d e = true := by simpa using hne
  obtain ⟨h1, h2, h3, h4, h5⟩ := transmitsDir_factors ht hr
  rcases h with h | h | h | h | h
  · rw [h1] at h; cases h
  · exact h2 h
  · rw [h3] at h; cases h
  · exact h4 h
  · exact h5 h

/-- **Zero beta.** A direction whose beta is zero is skipped entirely … -/
theorem C12_zero_beta_direction_silent (s : DState) (i : Nat) (n : Net) (d : Dir) (h : n.b d = 0) :
    dirEvents s i n d = [] := by
  simp [dirEvents, h]

/-- … and zero disease beta or zero edge weight give zero per-step transmissibility on plain and sexual networks. -/
theorem C12_netBeta_zero (e : Edge) (β : Rat) (d : Dir) :
    netBeta .plain e 0 d = 0 ∧ netBeta .sexual e 0 d = 0 ∧
    (e.beta = 0 → netBeta .plain e β d = 0 ∧ netBeta .sexual e β d = 0) := by
  refine ⟨by simp [netBeta, gen_netBetaPlain], by simp [netBeta, gen_netBetaSexual], fun h => ?_⟩
  simp [netBeta, gen_netBetaPlain, gen_netBetaSexual, h]

/-- **Zero factor (step level).** If every edge of every route has a zero factor in every direction, nobody is infected. -/
theorem C12_zero_factor_step (s : DState) (nets : List Net) (hr : NonnegRand nets)
    (h : ∀ n ∈ nets, ∀ e ∈ n.edges, ∀ d, n.b d = 0 ∨ s.infectious (e.src d) = false ∨ s.relTrans (e.src d) = 0 ∨
          s.susceptible (e.trg d) = false ∨ s.relSus (e.trg d) = 0 ∨ netBeta n.kind e (n.b d) d = 0) :
    infect s nets = [] := by
  rw [List.eq_nil_iff_forall_not_mem]
  intro ev hev
  obtain ⟨n, d, e, v⟩ := C12_event_has_edge hev
  have hn : n ∈ nets := List.mem_of_getElem? v.route
  rcases h n hn e v.edge d with h0 | h'
  · exact v.beta_ne h0
  · have := C12_zero_factor s n.kind (n.b d) d e (hr n hn e v.edge d) h'
    rw [v.transmits] at this; cases this

/-- **Probability.** The number compared with the edge's random number is exactly
    (infectious·rel_trans of the source) × (susceptible·rel_sus of the target) × the network's per-step
    transmissibility for that edge; the latter is `edge beta × β` on plain networks and
    `edge beta × (1 − (1 − β)^(acts·dt))` on sexual networks. -/
theorem C12_probability (s : DState) (k : NetKind) (β : Rat) (d : Dir) (e : Edge) :
    transmitsDir s k β d e = decide (e.r d <
      (b2r (s.infectious (e.src d)) * s.relTrans (e.src d)) * (b2r (s.susceptible (e.trg d)) * s.relSus (e.trg d))
        * netBeta k e β d) ∧
    netBeta .plain e β d = e.beta * β ∧
    netBeta .sexual e β d = e.beta * (1 - (1 - β) ^ e.acts) :=
  ⟨transmitsDir_eq s k β d e, by simp [netBeta, gen_netBetaPlain], by simp [netBeta, gen_netBetaSexual]⟩

/-- Raising betas: same routes, same edges and random numbers; betas, edge weights not negative. -/
structure NetLe (n n' : Net) : Prop where
  isNetwork : n.isNetwork = n'.isNetwork
  kind : n.kind = n'.kind
  edges : n.edges = n'.edges
  edgeBeta_nonneg : ∀ e ∈ n.edges, 0 ≤ e.beta
  b_nonneg : ∀ d, 0 ≤ n.b d
  b_le : ∀ d, n.b d ≤ n'.b d
  b_le_one : n.kind = .sexual → ∀ d, n'.b d ≤ 1

def NonnegFactors (s : DState) : Prop := ∀ u, 0 ≤ s.relTrans u ∧ 0 ≤ s.relSus u

theorem forall2_get {α β : Type} {R : α → β → Prop} : ∀ {l : List α} {l' : List β}, List.Forall₂ R l l' →
    ∀ {i : Nat} {a : α}, l[i]? = some a → ∃ b, l'[i]? = some b ∧ R a b := by
  intro l l' h
  induction h with
  | nil => intro i a hi; simp at hi
  | cons hab _ ih =>
    intro i a hi
    cases i with
    | zero => simp only [List.getElem?_cons_zero, Option.some.injEq] at hi; subst hi; exact ⟨_, by simp, hab⟩
    | succ i => simp only [List.getElem?_cons_succ] at hi ⊢; exact ih hi

theorem witness_mono {s : DState} (hs : NonnegFactors s) {ev : Event} :
    ∀ {nets nets' : List Net}, List.Forall₂ NetLe nets nets' → Witness s nets ev → Witness s nets' ev := by
  intro nets nets' hle
  rintro ⟨n, hn, ha, d, hb, e, he, ht, hsrc, htrg⟩
  obtain ⟨n', hn', hrel⟩ := forall2_get hle hn
  refine ⟨n', hn', ?_, d, ?_, e, hrel.edges ▸ he, ?_, hsrc, htrg⟩
  · simp only [Net.active] at ha ⊢
    rw [← hrel.isNetwork, ← hrel.edges]; exact ha
  · have h1 := hrel.b_nonneg d
    have h2 := hrel.b_le d
    have : 0 < n.b d := lt_of_le_of_ne h1 (Ne.symm hb)
    exact ne_of_gt (lt_of_lt_of_le this h2)
  · rw [← hrel.kind]
    exact transmitsDir_mono (hs _).1 (hs _).2
      (netBeta_mono (hrel.edgeBeta_nonneg e he) (hrel.b_nonneg d) (hrel.b_le d)
        (fun hk => hrel.b_le_one hk d)) ht

/-- **Monotone in beta.** From the same state and the same random numbers, raising any betas (pointwise, per network
    and direction) can only enlarge the set of agents infected in the call. -/
theorem C12_monotone_beta {s : DState} (hs : NonnegFactors s) {nets nets' : List Net}
    (hle : List.Forall₂ NetLe nets nets') (t : Nat) (h : ∃ ev ∈ infect s nets, ev.target = t) :
    ∃ ev' ∈ infect s nets', ev'.target = t := by
  rw [target_infect_iff] at h ⊢
  obtain ⟨ev, hev, ht⟩ := h
  exact ⟨ev, mem_allEvents.mpr (witness_mono hs hle (mem_allEvents.mp hev)), ht⟩

/-- **First source.** The recorded source and network of a new case are those of the first transmitting event for
    that target in the order: routes in `sim.networks` order, direction `p1→p2` then `p2→p1`, edges in edge order. -/
theorem C12_first_source {s : DState} {nets : List Net} {ev : Event} (h : ev ∈ infect s nets) :
    (allEvents s nets).find? (fun y => decide (y.target = ev.target)) = some ev :=
  mem_infect.mp h

/-- … and conversely every target with a transmitting event is reported (exactly once, by `C12_once`). -/
theorem C12_every_transmission_reported {s : DState} {nets : List Net} {x : Event} (h : x ∈ allEvents s nets) :
    ∃ ev ∈ infect s nets, ev.target = x.target :=
  target_infect_iff.mpr ⟨x, h, rfl⟩

/-! ### Which random numbers the code uses (one `trans_rng` draw per executed kernel call) -/

/-- The same directions are skipped in both route lists. -/
def SameZeros (n n' : Net) : Prop := ∀ d, n.b d = 0 ↔ n'.b d = 0

theorem assignStream_le (rand : Nat → Nat → Nat → Rat) : ∀ {nets nets' : List Net},
    List.Forall₂ (fun n n' => NetLe n n' ∧ SameZeros n n') nets nets' →
    ∀ k, List.Forall₂ NetLe (assignStream rand k nets) (assignStream rand k nets') := by
  intro nets nets' h
  induction h with
  | nil => intro k; simp [assignStream]
  | @cons n n' ns ns' hh _ ih =>
    intro k
    obtain ⟨hle, hz⟩ := hh
    have hact : n.active = n'.active := by simp [Net.active, hle.isNetwork, hle.edges]
    have hz0 : (n.b0 = 0) ↔ (n'.b0 = 0) := hz .fwd
    have hz1 : (n.b1 = 0) ↔ (n'.b1 = 0) := hz .bwd
    simp only [assignStream, ← hact]
    by_cases ha : n.active = true
    · simp only [ha, ↓reduceIte]
      have e0 : (if n'.b0 = 0 then k else k + 1) = (if n.b0 = 0 then k else k + 1) := by
        by_cases h0 : n.b0 = 0
        · simp [h0, hz0.mp h0]
        · have h0' : ¬ n'.b0 = 0 := fun h => h0 (hz0.mpr h)
          simp [h0, h0']
      have e1 : ∀ m, (if n'.b1 = 0 then m else m + 1) = (if n.b1 = 0 then m else m + 1) := by
        intro m
        by_cases h1 : n.b1 = 0
        · simp [h1, hz1.mp h1]
        · have h1' : ¬ n'.b1 = 0 := fun h => h1 (hz1.mpr h)
          simp [h1, h1']
      rw [e0, e1]
      refine List.Forall₂.cons ?_ (ih _)
      refine ⟨hle.isNetwork, hle.kind, by simp [hle.edges], ?_, hle.b_nonneg, hle.b_le, hle.b_le_one⟩
      intro e he
      simp only [List.mem_map] at he
      obtain ⟨e0, he0, rfl⟩ := he
      exact hle.edgeBeta_nonneg e0 he0
    · simp only [ha, Bool.false_eq_true, ↓reduceIte]
      exact List.Forall₂.cons hle (ih _)

/-- **Monotone in beta, as the code draws its random numbers (partial).** With the numbers taken from the stream the
    code uses, monotonicity holds whenever raising the betas does not turn a zero beta into a non-zero one. -/
theorem C12_monotone_beta_stream_partial (rand : Nat → Nat → Nat → Rat) {s : DState} (hs : NonnegFactors s)
    {nets nets' : List Net} (hle : List.Forall₂ (fun n n' => NetLe n n' ∧ SameZeros n n') nets nets') (t : Nat)
    (h : ∃ ev ∈ infectStream rand s nets, ev.target = t) : ∃ ev' ∈ infectStream rand s nets', ev'.target = t :=
  C12_monotone_beta hs (assignStream_le rand hle 0) t h

/-! Witness for the zero→positive case: one network, edges 0–1 and 2–3, everybody infectious and susceptible;
    raising `b0` from 0 to 1/2 moves direction `p2→p1` from stream call 0 to call 1, where its number is larger. -/
def cexState : DState := ⟨fun _ => true, fun _ => true, fun _ => 1, fun _ => 1⟩
def cexRand (call _src _trg : Nat) : Rat := if call = 0 then 1/4 else 3/4
def cexNets (b0 : Rat) : List Net := [{ edges := [{ p1 := 0, p2 := 1 }, { p1 := 2, p2 := 3 }], b0 := b0, b1 := 1/2 }]

/-- **Counterexample (known finding).** Because a zero-beta direction draws no random numbers, raising a beta from
    zero shifts the numbers used by every later direction, and an agent infected at the lower beta can escape at the
    higher one: the literal monotonicity statement is false of the code's own stream discipline. -/
theorem C12_monotone_beta_stream_counterexample :
    List.Forall₂ NetLe (cexNets 0) (cexNets (1/2)) ∧ NonnegFactors cexState ∧
    (∃ ev ∈ infectStream cexRand cexState (cexNets 0), ev.target = 0) ∧
    ¬ (∃ ev' ∈ infectStream cexRand cexState (cexNets (1/2)), ev'.target = 0) := by
  refine ⟨?_, ?_, ?_, ?_⟩
  · refine List.Forall₂.cons ⟨rfl, rfl, rfl, ?_, ?_, ?_, ?_⟩ List.Forall₂.nil
    · decide +kernel
    · intro d; cases d <;> decide +kernel
    · intro d; cases d <;> decide +kernel
    · intro h; cases h
  · intro u; simp [cexState]
  · decide +kernel
  · decide +kernel

/-! ### Mixing pools -/

/-- **Pool admissible.** A new case of a mixing pool belongs to the destination group, was susceptible with non-zero
    relative susceptibility and non-zero contacts, the pool's beta is non-zero, and some member of the source group
    is infectious with non-zero relative transmissibility. -/
theorem C12_pool_admissible {s : DState} {pl : Pool} {r : Nat → Rat} {u : Nat} (hr : 0 ≤ r u)
    (h : u ∈ poolStep s pl r) :
    u ∈ pl.dst ∧ s.susceptible u = true ∧ s.relSus u ≠ 0 ∧ pl.contacts u ≠ 0 ∧ pl.beta ≠ 0 ∧
    ∃ v ∈ pl.src, s.infectious v = true ∧ s.relTrans v ≠ 0 := by
  unfold poolStep at h
  by_cases hb : pl.beta = 0
  · simp [hb] at h
  · by_cases he : (pl.src.isEmpty || pl.dst.isEmpty) = true
    · simp [hb, he] at h
    · simp only [hb, ↓reduceIte, he, Bool.false_eq_true, List.mem_filter, gen_bernoulliAccept, decide_eq_true_eq] at h
      obtain ⟨hd, hp⟩ := h
      have hp0 : poolP s pl u ≠ 0 := ne_of_gt (lt_of_le_of_lt hr hp)
      unfold poolP at hp0
      rw [gen_poolP, gen_poolAcq] at hp0
      have hacq := right_ne_zero_of_mul hp0
      have htr := right_ne_zero_of_mul (left_ne_zero_of_mul hp0)
      have hc := left_ne_zero_of_mul (left_ne_zero_of_mul hacq)
      have hsu := right_ne_zero_of_mul (left_ne_zero_of_mul hacq)
      have hrs := right_ne_zero_of_mul hacq
      unfold poolTrans at htr
      obtain ⟨x, hx, hx0⟩ := mean_ne_zero htr
      simp only [List.mem_map] at hx
      obtain ⟨v, hv, rfl⟩ := hx
      rw [gen_poolTransTerm] at hx0
      exact ⟨hd, b2r_ne_zero.mp hsu, hrs, hc, hb, v, hv, b2r_ne_zero.mp (left_ne_zero_of_mul hx0),
             right_ne_zero_of_mul hx0⟩

/-- The pool probability is exactly `beta × mean_src(infectious·rel_trans) × contacts·susceptible·rel_sus`. -/
theorem C12_pool_probability (s : DState) (pl : Pool) (u : Nat) :
    poolP s pl u = pl.beta * mean (pl.src.map (fun v => b2r (s.infectious v) * s.relTrans v))
      * (pl.contacts u * b2r (s.susceptible u) * s.relSus u) := by
  simp [poolP, poolTrans, gen_poolP, gen_poolAcq, gen_poolTransTerm]

/-- No pool infection with zero beta, an empty group, or nobody infectious in the source group. -/
theorem C12_pool_zero (s : DState) (pl : Pool) (r : Nat → Rat) (hr : ∀ u, 0 ≤ r u)
    (h : pl.beta = 0 ∨ pl.src = [] ∨ pl.dst = [] ∨ ∀ v ∈ pl.src, s.infectious v = false) :
    poolStep s pl r = [] := by
  rw [List.eq_nil_iff_forall_not_mem]
  intro u hu
  obtain ⟨hd, _, _, _, hb, v, hv, hi, _⟩ := C12_pool_admissible (hr u) hu
  rcases h with h | h | h | h
  · exact hb h
  · rw [h] at hv; cases hv
  · rw [h] at hd; cases hd
  · rw [h v hv] at hi; cases hi


/-! ### Group selectors of mixing pools: the destination / source group is the one the user specified -/

/-- `MixingPool.get_uids`: `None` → all active agents, a callable is called with the sim, explicit uids are used as given. -/
theorem C12_get_uids_as_modelled :
    Gen.poolGetUids = [("none", "auids"), ("callable", "call"), ("uids", "same")] := by decide

/-- `MixingPool.step` resolves `src_uids` from `pars.src` and `dst_uids` from `pars.dst`. -/
theorem C12_pool_group_pars_as_modelled :
    Gen.poolGroupPars = [("src_uids", "src"), ("dst_uids", "dst")] := by decide

/-- `MixingPool.remove_uids` sheds the dead from both parameters. -/
theorem C12_pool_remove_keys_as_modelled : "src" ∈ Gen.poolRemoveKeys ∧ "dst" ∈ Gen.poolRemoveKeys := by decide

/-- `MixingPools.init_pre` builds pool (i, j) from source group i, destination group j and `contacts[i, j]`. -/
theorem C12_pools_wiring_as_modelled :
    Gen.poolsWiring = [("contacts", "src-index,dst-index"), ("dst", "dst"), ("src", "src")] := by decide

/-- the recompute branch of `AgeGroup.__call__` stores both the uids and the step they were computed on -/
theorem C12_agegroup_stores_as_modelled : Gen.ageGroupStores = ["ti_cache", "uids"] := by decide

/-- a new `AgeGroup` holds a cache stamp that is no step of any sim -/
theorem C12_agegroup_init : Gen.ageGroupInitTiCache < 0 := by decide

/-- **Membership.** The uids an age group computes are exactly the active agents whose age lies in `[low, high)`. -/
theorem C12_agegroup_members (low : Rat) (high : Option Rat) (p : People) (u : Nat) :
    u ∈ members low high p ↔ u ∈ p.auids ∧ low ≤ p.age u ∧ ∀ h, high = some h → p.age u < h := mem_members

/-- **No cache.** An `AgeGroup(do_cache=False)` returns the current membership on EVERY call: whatever was computed
    before, at whichever step, however the population changed in between (also within one step). -/
theorem C12_agegroup_nocache_fresh (g : AgeGroup) (ti : Int) (p : People) (h : g.doCache = false) :
    (g.call ti p).2 = members g.low g.high p := by
  unfold AgeGroup.call
  rw [h, gen_recompute_nocache]
  rfl

/-- a newly constructed group (any bounds, either cache setting) satisfies the invariant -/
theorem C12_agegroup_new_inv (P : Int → People) (low : Rat) (high : Option Rat) (dc : Bool) :
    AgeGroup.Inv P { low := low, high := high, doCache := dc } := Or.inl C12_agegroup_init

/-- **One call.** If the population is a function of the step (`P ti`), a call at step `ti ≥ 0` returns the membership
    of that step and re-establishes the invariant — for either cache setting. -/
theorem C12_agegroup_fresh_call (P : Int → People) (g : AgeGroup) (ti : Int) (hi : AgeGroup.Inv P g) (ht : 0 ≤ ti) :
    (g.call ti (P ti)).2 = members g.low g.high (P ti) ∧ AgeGroup.Inv P (g.call ti (P ti)).1 := by
  by_cases hr : Gen.ageGroupRecompute g.doCache g.tiCache ti g.uids.isNone = true
  · unfold AgeGroup.call
    simp only [hr, ↓reduceIte, true_and]
    exact Or.inr rfl
  · have htc : g.tiCache = ti := by
      by_contra hne
      exact hr (gen_recompute_stale _ _ hne)
    unfold AgeGroup.call
    simp only [hr, Bool.false_eq_true, ↓reduceIte]
    rcases hi with hneg | hc
    · omega
    · refine ⟨?_, Or.inr hc⟩
      rw [hc, htc]; rfl

/-- **All histories.** Whatever sequence of steps an `AgeGroup` object is called at (any length, repeated calls within
    a step, either cache setting), every call returns the membership of the population of that step. -/
theorem C12_agegroup_fresh (P : Int → People) : ∀ (tis : List Int) (g : AgeGroup), AgeGroup.Inv P g →
    (∀ t ∈ tis, 0 ≤ t) → g.calls P tis = tis.map (fun t => members g.low g.high (P t))
  | [], _, _, _ => rfl
  | ti :: tis, g, hi, ht => by
    obtain ⟨h1, h2⟩ := C12_agegroup_fresh_call P g ti hi (ht ti (by simp))
    have ih := C12_agegroup_fresh P tis (g.call ti (P ti)).1 h2 (fun t h => ht t (by simp [h]))
    simp only [AgeGroup.calls, List.map_cons, h1, ih, call_low, call_high]

/-- The hypothesis "the population is a function of the step" is needed for a caching group: if ages change between two
    calls within one step the second call returns the stale membership (a `do_cache=False` group does not, see above). -/
theorem C12_agegroup_same_step_cache_witness :
    ∃ (g : AgeGroup) (p p' : People), g.doCache = true ∧ ((g.call 0 p).1.call 0 p').2 ≠ members g.low g.high p' :=
  ⟨{ low := 0, high := some 15 }, ⟨[0, 1], fun _ => 10⟩, ⟨[0, 1], fun _ => 20⟩, by decide, by decide +kernel⟩

/-- **Resolution = specification.** `get_uids` returns the group the parameter denotes on the current population. -/
theorem C12_group_resolve_spec (P : Int → People) (ti : Int) (g : Group) (hf : g.Fresh P ti) (ht : 0 ≤ ti) :
    (g.resolve ti (P ti)).2 = g.spec (P ti) := by
  cases g with
  | all => rfl
  | age a => exact (C12_agegroup_fresh_call P a ti hf ht).1
  | fn f => rfl
  | explicit l =>
    simp only [Group.resolve, Group.spec]
    exact (List.filter_eq_self.mpr (fun u hu => by simpa using hf u hu)).symm

/-- resolving keeps a group fresh for further calls in the same or a later step -/
theorem C12_group_resolve_fresh (P : Int → People) (ti : Int) (g : Group) (hf : g.Fresh P ti) (ht : 0 ≤ ti) :
    (g.resolve ti (P ti)).1.Fresh P ti := by
  cases g with
  | all => trivial
  | age a => exact (C12_agegroup_fresh_call P a ti hf ht).2
  | fn f => trivial
  | explicit l => exact hf

/-- **Explicit groups shed the dead.** After `remove_uids(dead)` no removed agent is returned, and nobody is added. -/
theorem C12_explicit_group_sheds_dead (l dead : List Nat) (ti : Int) (p : People) {u : Nat}
    (h : u ∈ (((Group.explicit l).remove dead).resolve ti p).2) : u ∈ l ∧ u ∉ dead := by
  simpa [Group.remove, Group.resolve] using h

/-- … and stays fresh: if every member was active and the active set lost exactly the removed agents. -/
theorem C12_explicit_group_stays_fresh (P : Int → People) (ti ti' : Int) (l dead : List Nat)
    (hf : (Group.explicit l).Fresh P ti) (hp : ∀ u, u ∈ (P ti).auids → u ∉ dead → u ∈ (P ti').auids) :
    ((Group.explicit l).remove dead).Fresh P ti' := by
  intro u hu
  simp only [List.mem_filter, Bool.not_eq_eq_eq_not, Bool.not_true, List.contains_eq_mem, decide_eq_false_iff_not] at hu
  exact hp u (hf u hu.1) hu.2

/-- **Pool targets lie in the SPECIFIED destination group.** For any group parameters (all / age band with either cache
    setting / user function / explicit uids), a new case of the pool step at `ti` belongs to the group the `dst` parameter
    denotes on the population of that step, was susceptible with non-zero relative susceptibility, and some member of
    the group the `src` parameter denotes is infectious with non-zero relative transmissibility. -/
theorem C12_pool_target_in_specified_group {s : DState} {pg : PoolG} {P : Int → People} {ti : Int} {r : Nat → Rat}
    {u : Nat} (hs : pg.src.Fresh P ti) (hd : pg.dst.Fresh P ti) (ht : 0 ≤ ti) (hr : 0 ≤ r u)
    (h : u ∈ (poolStepG s pg ti (P ti) r).2) :
    u ∈ pg.dst.spec (P ti) ∧ s.susceptible u = true ∧ s.relSus u ≠ 0 ∧
    ∃ v ∈ pg.src.spec (P ti), s.infectious v = true ∧ s.relTrans v ≠ 0 := by
  unfold poolStepG at h
  obtain ⟨hdst, hsu, hrs, _, _, v, hv, hvi, hvt⟩ := C12_pool_admissible hr h
  simp only at hdst hv
  rw [C12_group_resolve_spec P ti _ hd ht] at hdst
  rw [C12_group_resolve_spec P ti _ hs ht] at hv
  exact ⟨hdst, hsu, hrs, v, hv, hvi, hvt⟩

/-- Corollary for an age band as destination: the new case is an ACTIVE agent whose age at that step is in `[low, high)`. -/
theorem C12_pool_agegroup_target {s : DState} {pg : PoolG} {P : Int → People} {ti : Int} {r : Nat → Rat} {u : Nat}
    {g : AgeGroup} (hg : pg.dst = .age g) (hs : pg.src.Fresh P ti) (hd : AgeGroup.Inv P g) (ht : 0 ≤ ti) (hr : 0 ≤ r u)
    (h : u ∈ (poolStepG s pg ti (P ti) r).2) :
    u ∈ (P ti).auids ∧ g.low ≤ (P ti).age u ∧ ∀ hi, g.high = some hi → (P ti).age u < hi := by
  have hd' : pg.dst.Fresh P ti := by rw [hg]; exact hd
  have := (C12_pool_target_in_specified_group hs hd' ht hr h).1
  rw [hg] at this
  exact mem_members.mp this

/-- With `do_cache=False` no assumption on the history is needed at all: whatever the group object did before and
    however the population `p` came about, the new cases of the step are active members of the band in `p`. -/
theorem C12_pool_nocache_agegroup_target {s : DState} {pg : PoolG} {p : People} {ti : Int} {r : Nat → Rat} {u : Nat}
    {g : AgeGroup} (hg : pg.dst = .age g) (hc : g.doCache = false) (hr : 0 ≤ r u)
    (h : u ∈ (poolStepG s pg ti p r).2) :
    u ∈ p.auids ∧ g.low ≤ p.age u ∧ ∀ hi, g.high = some hi → p.age u < hi := by
  unfold poolStepG at h
  have hdst := (C12_pool_admissible hr h).1
  simp only [hg, Group.resolve] at hdst
  rw [C12_agegroup_nocache_fresh g ti p hc] at hdst
  exact mem_members.mp hdst

/-! ### `validate_beta` -/

/-! ### Round 5: the plural container `MixingPools`, and the transmissibility in force -/

/-- `MixingPools.remove_uids` forwards the removal to every sub-pool, `MixingPools.step` steps every sub-pool. -/
theorem C12_pools_forward_as_modelled : Gen.poolsRemoveForwards = true ∧ Gen.poolsStepForwards = true := by decide

theorem group_remove_explicit {g : Group} {dead l : List Nat} (h : g.remove dead = .explicit l) :
    ∀ u ∈ l, u ∉ dead := by
  cases g with
  | explicit l0 =>
    simp only [Group.remove, Group.explicit.injEq] at h
    subst h
    intro u hu
    simpa using (List.mem_filter.mp hu).2
  | all => simp [Group.remove] at h
  | age g => simp [Group.remove] at h
  | fn f => simp [Group.remove] at h

/-- **The removal reaches every sub-pool.** After `MixingPools.remove_uids(dead)` no sub-pool of the container — whatever the
    shape of the grid — lists a removed agent in an explicit source or destination group. -/
theorem C12_pools_remove_reaches_every_pool (pools : List PoolG) (dead : List Nat) {pg : PoolG}
    (h : pg ∈ poolsRemove pools dead) {l : List Nat} :
    (pg.src = .explicit l → ∀ u ∈ l, u ∉ dead) ∧ (pg.dst = .explicit l → ∀ u ∈ l, u ∉ dead) := by
  simp only [poolsRemove, List.mem_map] at h
  obtain ⟨q, _, rfl⟩ := h
  exact ⟨fun hs => group_remove_explicit (g := q.src) (by simpa [PoolG.remove] using hs),
         fun hd => group_remove_explicit (g := q.dst) (by simpa [PoolG.remove] using hd)⟩

/-- **The cases of a pool step do not depend on the order in which the destination group is listed** (round 6): for
    every permutation of `dst` the same agents are infected — every per-member quantity (contacts, susceptibility,
    relative susceptibility, uniform number) is attached to the member, not to its position in the list. -/
theorem C12_pool_dst_order_irrelevant {s : DState} {pl : Pool} {dst' : List Nat} {r : Nat → Rat}
    (hp : dst'.Perm pl.dst) (u : Nat) :
    u ∈ poolStep s { pl with dst := dst' } r ↔ u ∈ poolStep s pl r := by
  have hE : dst'.isEmpty = pl.dst.isEmpty := by
    rw [Bool.eq_iff_iff]; simp only [List.isEmpty_iff]
    constructor
    · intro h; subst h; exact List.nil_perm.mp hp
    · intro h; rw [h] at hp; exact List.perm_nil.mp hp
  unfold poolStep poolP
  simp only [hE]
  by_cases hb : pl.beta = 0
  · simp [hb]
  · by_cases he : (pl.src.isEmpty || pl.dst.isEmpty) = true
    · simp [hb, he]
    · simp only [hb, ↓reduceIte, he, Bool.false_eq_true, List.mem_filter, hp.mem_iff]

/-- **A source group without members produces no case** (round 6), whatever the uniforms, the beta and the destination group. -/
theorem C12_pool_empty_source_silent (s : DState) (pl : Pool) (r : Nat → Rat) (h : pl.src = []) :
    poolStep s pl r = [] := by
  unfold poolStep; simp [h]

/-- non-vacuity: a destination group listed out of order, a member (3) whose uniform is too high; the others are infected. -/
example : let s : DState := { susceptible := fun u => u ≥ 2, infectious := fun u => u < 2, relSus := fun _ => 1, relTrans := fun _ => 1 }
    poolStep s { src := [0, 1], dst := [3, 2, 4], beta := 1, contacts := fun _ => 1 } (fun u => if u = 3 then 2 else 0) = [2, 4] := by
  decide +kernel

theorem poolStep_mem_dst {s : DState} {pl : Pool} {r : Nat → Rat} {u : Nat} (h : u ∈ poolStep s pl r) : u ∈ pl.dst := by
  unfold poolStep at h
  by_cases h1 : pl.beta = 0
  · simp [h1] at h
  · by_cases h2 : (pl.src.isEmpty || pl.dst.isEmpty) = true
    · simp [h1, h2] at h
    · rw [if_neg h1, if_neg h2] at h
      exact (List.mem_filter.mp h).1

/-- **No sub-pool infects a removed agent.** A new case of any sub-pool whose destination is an explicit uid list is a listed
    agent that was not removed (any state, any population, any random numbers). -/
theorem C12_pools_target_not_removed {s : DState} {pools : List PoolG} {dead : List Nat} {pg : PoolG} {ti : Int}
    {p : People} {r : Nat → Rat} {u : Nat} {l : List Nat} (h : pg ∈ poolsRemove pools dead) (hd : pg.dst = .explicit l)
    (hu : u ∈ (poolStepG s pg ti p r).2) : u ∈ l ∧ u ∉ dead := by
  have hmem : u ∈ l := by
    have h2 := poolStep_mem_dst (show u ∈ poolStep s _ r from hu)
    simpa [hd, Group.resolve] using h2
  exact ⟨hmem, (C12_pools_remove_reaches_every_pool pools dead h).2 hd u hmem⟩

/-- … and the source group a sub-pool averages over contains no removed agent either. -/
theorem C12_pools_source_not_removed {pools : List PoolG} {dead : List Nat} {pg : PoolG} {ti : Int} {p : People} {l : List Nat}
    (h : pg ∈ poolsRemove pools dead) (hs : pg.src = .explicit l) :
    (pg.src.resolve ti p).2 = l ∧ ∀ u ∈ l, u ∉ dead := by
  refine ⟨by simp [hs, Group.resolve], (C12_pools_remove_reaches_every_pool pools dead h).1 hs⟩

/-- `MixingPools.step`: the cases reported by the container are, pool by pool, those of the sub-pools. -/
theorem C12_pools_step_all (s : DState) (ti : Int) (p : People) (r : Nat → Rat) :
    ∀ (pools : List PoolG), (poolsStep s ti p r pools).2 = pools.map (fun pg => (poolStepG s pg ti p r).2)
  | [] => rfl
  | pg :: rest => by simp [poolsStep, C12_pools_step_all s ti p r rest]

/-- a 2 × 1 grid sharing the destination list [1, 3, 2]: after agent 3 is removed, neither sub-pool lists it -/
example : (poolsRemove [{ src := .explicit [0, 3], dst := .explicit [1, 3, 2], beta := 1/2, contacts := fun _ => 1 },
                        { src := .all, dst := .explicit [1, 3, 2], beta := 1/2, contacts := fun _ => 1 }] [3]).map
            (fun pg => ((pg.src.resolve 0 ⟨[0, 1, 2], fun _ => 20⟩).2, (pg.dst.resolve 0 ⟨[0, 1, 2], fun _ => 20⟩).2))
          = [([0], [1, 2]), ([0, 1, 2], [1, 2])] := by decide +kernel

/-- `TimePar.set` stores every supplied value — the test is "the argument is not None", whatever the value (0 included). -/
theorem gen_timeparSetStores (n z : Bool) : Gen.timeparSetStores n z = !n := by
  cases n <;> cases z <;> rfl

/-- `beta *= f`, `beta * f`, `f * beta`, `beta /= g` go through `set(v=…)`. -/
theorem C12_timepar_scaling_as_modelled :
    ("__imul__", "self.set(v=self.v * other)") ∈ Gen.timeparScaling ∧ ("__mul__", "self.asnew().set(v=self.v * other)") ∈ Gen.timeparScaling ∧
    ("__rmul__", "self.asnew().set(v=other * self.v)") ∈ Gen.timeparScaling ∧ ("__itruediv__", "self.set(v=self.v / other)") ∈ Gen.timeparScaling := by
  decide

/-- **The beta in force is the beta that was set**, for EVERY value, zero included. -/
theorem C12_beta_set_takes_value (old x : Rat) : setBase old (some x) = x := by
  simp [setBase, gen_timeparSetStores]

/-- every user action on a beta yields what it denotes … -/
theorem C12_beta_op_denotes (v : Rat) (op : BetaOp) : op.apply v = op.denote v := by
  cases op <;> simp [BetaOp.apply, BetaOp.denote, scaleBase, C12_beta_set_takes_value]

/-- … and so does every history of actions (any length, any values). -/
theorem C12_beta_history_denotes : ∀ (ops : List BetaOp) (v : Rat), ops.foldl BetaOp.apply v = ops.foldl BetaOp.denote v
  | [], _ => rfl
  | op :: ops, v => by simp [List.foldl, C12_beta_op_denotes, C12_beta_history_denotes ops]

/-- **No infection crosses a transmissibility that was set to zero**: a direction whose beta was set to 0, or scaled by 0,
    produces no event on any edge list, and a pool whose beta was scaled by 0 infects nobody. -/
theorem C12_beta_set_zero_silent (s : DState) (i : Nat) (n : Net) (old : Rat) (pl : Pool) (r : Nat → Rat) :
    dirEvents s i { n with b0 := setBase old (some 0) } .fwd = [] ∧ dirEvents s i { n with b1 := scaleBase old 0 } .bwd = [] ∧
    poolStep s { pl with beta := scaleBase old 0 } r = [] := by
  refine ⟨C12_zero_beta_direction_silent _ _ _ _ ?_, C12_zero_beta_direction_silent _ _ _ _ ?_, ?_⟩
  · simp [Net.b, C12_beta_set_takes_value]
  · simp [Net.b, scaleBase, C12_beta_set_takes_value]
  · simp [poolStep, scaleBase, C12_beta_set_takes_value]

/-- non-vacuity: a default of 1/20 set to 0 is 0; 3/10 scaled by 0 is 0; an argument that is not supplied keeps the value; a
    history ×1/2, set 0, set 4/5 ends at 4/5 -/
example : setBase (1/20) (some 0) = 0 ∧ scaleBase (3/10) 0 = 0 ∧ setBase (1/20) none = 1/20 ∧
    [BetaOp.scale (1/2), .set 0, .set (4/5)].foldl BetaOp.apply (4/5) = 4/5 := by decide +kernel

/-- A scalar beta is applied to both directions of every network. -/
theorem C12_validateBeta_scalar (β : Rat) (keys : List String) (k : String) (hk : k ∈ keys) :
    ∃ m, validateBeta (.scalar β) keys = .ok m ∧ betaPair m k = .ok (β, β) := by
  have key : ∀ (ks : List String) (m0 : List (String × List Rat)),
      (∀ kv ∈ m0, kv.2 = [β, β]) →
      (∀ kv ∈ ks.foldl (fun m k => dictInsert m k [β, β]) m0, kv.2 = [β, β]) ∧
      (∀ x, x ∈ (ks.foldl (fun m k => dictInsert m k [β, β]) m0).map (·.1) ↔ x ∈ m0.map (·.1) ∨ x ∈ ks) := by
    intro ks
    induction ks with
    | nil => intro m0 h; exact ⟨h, fun x => by simp⟩
    | cons a as ih =>
      intro m0 h
      simp only [List.foldl_cons]
      have h1 : ∀ kv ∈ dictInsert m0 a [β, β], kv.2 = [β, β] := by
        intro kv hkv
        unfold dictInsert at hkv
        split at hkv
        · simp only [List.mem_map] at hkv
          obtain ⟨kv0, hkv0, rfl⟩ := hkv
          split
          · rfl
          · exact h kv0 hkv0
        · simp only [List.mem_append, List.mem_singleton] at hkv
          rcases hkv with hkv | rfl
          · exact h kv hkv
          · rfl
      have h2 : ∀ x, x ∈ (dictInsert m0 a [β, β]).map (·.1) ↔ x ∈ m0.map (·.1) ∨ x = a := by
        intro x
        unfold dictInsert
        split
        · rename_i hany
          simp only [List.any_eq_true, decide_eq_true_eq] at hany
          obtain ⟨kv, hkv, hka⟩ := hany
          simp only [List.map_map, List.mem_map, Function.comp]
          constructor
          · rintro ⟨kv0, hkv0, rfl⟩
            by_cases hc : kv0.1 = a
            · right; simp [hc]
            · left; exact ⟨kv0, hkv0, by simp [hc]⟩
          · rintro (⟨kv0, hkv0, rfl⟩ | rfl)
            · exact ⟨kv0, hkv0, by by_cases hc : kv0.1 = a <;> simp [hc]⟩
            · exact ⟨kv, hkv, by simp [hka]⟩
        · simp [List.map_append]
      obtain ⟨r1, r2⟩ := ih (dictInsert m0 a [β, β]) h1
      refine ⟨r1, fun x => ?_⟩
      rw [r2, h2]
      simp only [List.mem_cons]
      tauto
  obtain ⟨hv, hkeys⟩ := key keys [] (by simp)
  set m := keys.foldl (fun m k => dictInsert m k [β, β]) [] with hm
  have hsame : sameKeySet (m.map (·.1)) keys = true := by
    simp only [sameKeySet, Bool.and_eq_true, List.all_eq_true, List.contains_iff_mem]
    exact ⟨fun x hx => by simpa using (hkeys x).mp hx, fun x hx => (hkeys x).mpr (Or.inr hx)⟩
  refine ⟨m, by simp [validateBeta, ← hm, hsame], ?_⟩
  have hkm : k ∈ m.map (·.1) := (hkeys k).mpr (Or.inr hk)
  simp only [List.mem_map] at hkm
  obtain ⟨kv, hkvm, hkvk⟩ := hkm
  unfold betaPair
  have hsome : (m.find? (fun x => decide (x.1 = k))).isSome := by
    rw [List.find?_isSome]; exact ⟨kv, hkvm, by simp [hkvk]⟩
  obtain ⟨y, hy⟩ := Option.isSome_iff_exists.mp hsome
  have hy2 : y.2 = [β, β] := hv y (List.mem_of_find?_eq_some hy)
  rw [hy]
  obtain ⟨y1, y2⟩ := y
  simp only at hy2
  subst hy2
  rfl

/-- A beta dict whose keys are not exactly the network keys is rejected; a non-number, non-dict is rejected. -/
theorem C12_validateBeta_rejects :
    validateBeta (.perNet [("random", .scalar (1/10))]) ["random", "mf"] = .error .keyMismatch ∧
    validateBeta (.perNet [("random", .scalar (1/10)), ("mf", .list [1/5, 0])]) ["random", "mf"] =
      .ok [("random", [1/10, 1/10]), ("mf", [1/5, 0])] ∧
    validateBeta .invalid ["random"] = .error .invalidType := by
  refine ⟨by decide +kernel, by decide +kernel, by decide +kernel⟩

/-! ### `set_outcomes` (congenital split) and the infection log -/

/-- `set_congenital` gets `uids[congenital]`, `set_prognoses` gets `uids[~congenital]`. -/
theorem C12_outcome_split_as_modelled :
    Gen.outcomeSplit = ["set_congenital:congenital", "set_prognoses:~congenital"] := by decide

theorem gen_isCongenital (a : Rat) : Gen.isCongenital a = decide (a ≤ 0) := by
  unfold Gen.isCongenital
  apply decide_eq_decide.mpr
  constructor <;> intro h <;> linarith

/-- **Outcomes.** Every new case is handed to exactly one of `set_congenital` (age ≤ 0) and `set_prognoses` (age > 0);
    nothing is dropped, nothing is handled twice. -/
theorem C12_outcomes_partition (age : Nat → Rat) (evs : List Event) :
    (∀ e, e ∈ evs ↔ e ∈ congenitalCases age evs ∨ e ∈ prognosisCases age evs) ∧
    (∀ e, ¬ (e ∈ congenitalCases age evs ∧ e ∈ prognosisCases age evs)) ∧
    (congenitalCases age evs).length + (prognosisCases age evs).length = evs.length ∧
    (∀ e ∈ congenitalCases age evs, age e.target ≤ 0) ∧ (∀ e ∈ prognosisCases age evs, 0 < age e.target) := by
  refine ⟨?_, ?_, ?_, ?_, ?_⟩
  · intro e
    simp only [congenitalCases, prognosisCases, List.mem_filter]
    constructor
    · intro h
      by_cases hc : Gen.isCongenital (age e.target) = true
      · exact Or.inl ⟨h, hc⟩
      · exact Or.inr ⟨h, by simpa using hc⟩
    · rintro (h | h) <;> exact h.1
  · intro e
    simp only [congenitalCases, prognosisCases, List.mem_filter]
    rintro ⟨⟨_, h1⟩, ⟨_, h2⟩⟩
    rw [h1] at h2; simp at h2
  · induction evs with
    | nil => simp [congenitalCases, prognosisCases]
    | cons e es ih =>
      simp only [congenitalCases, prognosisCases, List.filter_cons] at ih ⊢
      by_cases hc : Gen.isCongenital (age e.target) = true
      · simp only [hc, ↓reduceIte, Bool.not_true, Bool.false_eq_true, List.length_cons]; omega
      · have hc' : Gen.isCongenital (age e.target) = false := by simpa using hc
        simp only [hc', Bool.false_eq_true, ↓reduceIte, Bool.not_false, List.length_cons]; omega
  · intro e he
    simp only [congenitalCases, List.mem_filter, gen_isCongenital, decide_eq_true_eq] at he
    exact he.2
  · intro e he
    simp only [prognosisCases, List.mem_filter, gen_isCongenital, Bool.not_eq_true', decide_eq_false_iff_not, not_le] at he
    exact he.2

/-- **Log admissible.** Every entry written to the infection log by a step carries the step's time and is a reported
    transmission event: its source was infectious, its target susceptible (and already born). -/
theorem C12_log_admissible (now : Rat) (age : Nat → Rat) {s : DState} {nets : List Net} (hr : NonnegRand nets) :
    ∀ l ∈ stepLog now age s nets, l.time = now ∧ ∃ ev ∈ infect s nets, ev.source = l.source ∧ ev.target = l.target ∧
      0 < age ev.target ∧ s.susceptible l.target = true ∧ s.infectious l.source = true := by
  intro l hl
  simp only [stepLog, logEntries, List.mem_map] at hl
  obtain ⟨ev, hev, rfl⟩ := hl
  have hpos := (C12_outcomes_partition age (infect s nets)).2.2.2.2 ev hev
  have hin : ev ∈ infect s nets := by
    simp only [prognosisCases, List.mem_filter] at hev; exact hev.1
  obtain ⟨_, _, _, _, _, _, _, _, _, _, hinf, _⟩ := C12_source_infectious_and_joined hr hin
  exact ⟨rfl, ev, hin, rfl, rfl, hpos, (C12_target_susceptible hr hin).1, hinf⟩

/-- **Log complete.** No transmission to a born agent goes unlogged … -/
theorem C12_log_complete (now : Rat) (age : Nat → Rat) (s : DState) (nets : List Net) :
    ∀ ev ∈ infect s nets, 0 < age ev.target → (⟨ev.source, ev.target, now⟩ : LogEntry) ∈ stepLog now age s nets := by
  intro ev hev hage
  simp only [stepLog, logEntries, List.mem_map]
  refine ⟨ev, ?_, rfl⟩
  simp only [prognosisCases, List.mem_filter, gen_isCongenital, Bool.not_eq_true', decide_eq_false_iff_not, not_le]
  exact ⟨hev, hage⟩

/-- … and nobody is logged twice in one step. -/
theorem C12_log_once (now : Rat) (age : Nat → Rat) (s : DState) (nets : List Net) :
    ((stepLog now age s nets).map (·.target)).Nodup := by
  have h : (stepLog now age s nets).map (·.target) = (prognosisCases age (infect s nets)).map (·.target) := by
    simp [stepLog, logEntries, List.map_map, Function.comp_def]
  rw [h]
  exact (C12_once_nodup s nets).sublist (List.filter_sublist.map _)

/-! ### `SexualNetwork.net_beta` for arbitrary (fractional) `acts·dt`, over ℝ -/

/-- The regenerated source expression at `ℝ` (`Real.rpow`): it is `w·(1 − (1 − β)^(acts·dt))`; zero disease beta gives
    zero; for `w ≥ 0`, `acts·dt ≥ 0` it is monotone in `β ≤ 1` and stays within `[0, w]` for `β ∈ [0,1]`; and for whole
    `acts·dt` it is the rational expression used by the executable model. -/
theorem C12_netBeta_sexual_real :
    (∀ w β a dt : ℝ, netBetaSexualR w β a dt = w * (1 - (1 - β) ^ (a * dt))) ∧
    (∀ w a dt : ℝ, netBetaSexualR w 0 a dt = 0) ∧
    (∀ w β β' a dt : ℝ, 0 ≤ w → β ≤ β' → β' ≤ 1 → 0 ≤ a * dt → netBetaSexualR w β a dt ≤ netBetaSexualR w β' a dt) ∧
    (∀ w β a dt : ℝ, 0 ≤ w → 0 ≤ β → β ≤ 1 → 0 ≤ a * dt → 0 ≤ netBetaSexualR w β a dt ∧ netBetaSexualR w β a dt ≤ w) ∧
    (∀ (w β : ℚ) (n : ℕ), netBetaSexualR (w : ℝ) (β : ℝ) (n : ℝ) 1 = ((Gen.netBetaSexual w β n : ℚ) : ℝ)) :=
  ⟨netBetaSexualR_eq, netBetaSexualR_zero, fun _ _ _ _ _ he hle h1 hx => netBetaSexualR_mono he hle h1 hx,
   fun _ _ _ _ he h0 h1 hx => netBetaSexualR_range he h0 h1 hx, netBetaSexualR_nat⟩

/-- **Acts.** A sexual-network edge without acts in the step has ZERO per-step transmissibility (rational model and reals, any
    beta, weight, dt); the per-step transmissibility grows with the number of acts in the step; and below one act per step it
    is at most `w·β` — so no floor on `acts·dt` is admissible. -/
theorem C12_netBeta_sexual_acts :
    (∀ (e : Edge) (β : Rat) (d : Dir), e.acts = 0 → netBeta .sexual e β d = 0) ∧
    (∀ w β dt : ℝ, netBetaSexualR w β 0 dt = 0) ∧ (∀ w β a : ℝ, netBetaSexualR w β a 0 = 0) ∧
    (∀ w β x y dt dt' : ℝ, 0 ≤ w → 0 ≤ β → β ≤ 1 → 0 ≤ x * dt → x * dt ≤ y * dt' →
      netBetaSexualR w β x dt ≤ netBetaSexualR w β y dt') ∧
    (∀ w β a dt : ℝ, 0 ≤ w → 0 ≤ β → β ≤ 1 → 0 ≤ a * dt → a * dt ≤ 1 → netBetaSexualR w β a dt ≤ w * β) :=
  ⟨fun e β d h => by simp [netBeta, gen_netBetaSexual, h], netBetaSexualR_zero_acts, netBetaSexualR_zero_dt,
   fun _ _ _ _ _ _ he h0 h1 hx hxy => netBetaSexualR_mono_acts he h0 h1 hx hxy,
   fun _ _ _ _ he h0 h1 hx hx1 => netBetaSexualR_le_linear he h0 h1 hx hx1⟩

/-- non-vacuity: an edge of weight 1/2 with no acts never reaches a positive probability; with 2 acts at β = 1/2 it has 3/8 -/
example : netBeta .sexual { p1 := 0, p2 := 1, beta := 1/2, acts := 0 } (9/10) .fwd = 0 ∧
    netBeta .sexual { p1 := 0, p2 := 1, beta := 1/2, acts := 2 } (1/2) .fwd = 3/8 := by decide +kernel

/-! ### Non-vacuity: concrete states meeting the hypotheses, with non-trivial outcomes -/

/-- six agents: 0,1 infectious; 2,3,4 susceptible (4 with zero relative susceptibility); 5 recovered -/
def exState : DState :=
  { susceptible := fun u => u = 2 ∨ u = 3 ∨ u = 4
    infectious := fun u => u = 0 ∨ u = 1
    relSus := fun u => if u = 4 then 0 else if u = 3 then 1/2 else 1
    relTrans := fun u => if u = 1 then 2 else 1 }

def exNets (b : Rat) : List Net :=
  [ { edges := [ { p1 := 0, p2 := 2, r0 := 1/10, r1 := 1/10 }, { p1 := 3, p2 := 1, r0 := 0, r1 := 3/10 },
                 { p1 := 0, p2 := 4, r0 := 0, r1 := 0 }, { p1 := 0, p2 := 5, r0 := 0, r1 := 0 } ], b0 := b, b1 := b },
    { isNetwork := false, edges := [ { p1 := 0, p2 := 3 } ], b0 := 1, b1 := 1 },
    { kind := .sexual, edges := [ { p1 := 1, p2 := 2, acts := 2, r0 := 1/100, r1 := 0 },
                                  { p1 := 0, p2 := 3, acts := 3, beta := 1/2, r0 := 1/5, r1 := 0 } ], b0 := 1/2, b1 := 0 } ]

example : NonnegRand (exNets (1/5)) ∧ NonnegFactors exState ∧ (∀ n ∈ exNets (1/5), ∀ d, 0 ≤ n.b d) ∧
    List.Forall₂ NetLe (exNets (1/5)) (exNets (1/2)) := by
  refine ⟨?_, ?_, ?_, ?_⟩
  · intro n hn e he d
    cases d <;> revert e <;> revert n <;> decide +kernel
  · intro u
    simp only [exState]
    constructor <;> split <;> (try split) <;> decide +kernel
  · intro n hn d
    cases d <;> revert n <;> decide +kernel
  · refine List.Forall₂.cons ?_ (List.Forall₂.cons ?_ (List.Forall₂.cons ?_ List.Forall₂.nil))
    all_goals
      refine ⟨rfl, rfl, rfl, by decide +kernel, ?_, ?_, ?_⟩
      · intro d; cases d <;> decide +kernel
      · intro d; cases d <;> decide +kernel
      · intro _ d; cases d <;> decide +kernel

/-- at beta 1/5: agent 2 is infected by 0 over network 0 (not by 1 over network 2, which comes later); agent 3
    (rel_sus 1/2, source rel_trans 2, p = 1/5 ≤ r1 = 3/10 on network 0) is infected over the sexual network 2 only -/
example : infect exState (exNets (1/5)) = [⟨2, 0, 0⟩, ⟨3, 0, 2⟩] := by decide +kernel

/-- at beta 1/2 agent 3 is infected too, by agent 1 over network 0 in direction p2→p1 -/
example : infect exState (exNets (1/2)) = [⟨2, 0, 0⟩, ⟨3, 1, 0⟩] := by decide +kernel

example : allEvents exState (exNets (1/2)) = [⟨2, 0, 0⟩, ⟨3, 1, 0⟩, ⟨2, 1, 2⟩, ⟨3, 0, 2⟩] := by decide +kernel

def exPool : Pool := { src := [0, 1, 5], dst := [2, 3, 4, 5], beta := 1/2, contacts := fun u => if u = 3 then 0 else 2 }

/-- trans = (1 + 2 + 0)/3 = 1; p(2) = 1/2·1·2 = 1; agent 3 has zero contacts, 4 zero rel_sus, 5 is not susceptible -/
example : poolStep exState exPool (fun _ => 9/10) = [2] := by decide +kernel

/-- ages: agent 2 is an unborn child (age −1/4), agent 3 is 30: at beta 1/2 agent 2 goes to `set_congenital`, agent 3 to
    `set_prognoses` and is the only one logged -/
def exAge : Nat → Rat := fun u => if u = 2 then -1/4 else 30

example : congenitalCases exAge (infect exState (exNets (1/2))) = [⟨2, 0, 0⟩] ∧
    prognosisCases exAge (infect exState (exNets (1/2))) = [⟨3, 1, 0⟩] ∧
    stepLog 2001 exAge exState (exNets (1/2)) = [⟨1, 3, 2001⟩] := by decide +kernel

/-- an ageing population with a death and a birth: agents 0..3 aged 13, 14, 30, 60 at step 0, one year per step; agent 3
    is removed and agent 4 born before step 2 -/
def exPeople (ti : Int) : People :=
  { auids := if ti < 2 then [0, 1, 2, 3] else [0, 1, 2, 4]
    age := fun u => if u = 4 then 0 else (if u = 0 then 13 else if u = 1 then 14 else if u = 2 then 30 else 60) + (ti : Rat) }

/-- children `[0, 15)` over the steps 0, 1, 1, 2: agent 1 leaves the band at step 1, agent 0 at step 2 when agent 4 joins;
    the same for a caching and a non-caching group (the hypotheses of `C12_agegroup_fresh` are met: new group, steps ≥ 0) -/
example : (({ low := 0, high := some 15 } : AgeGroup).calls exPeople [0, 1, 1, 2] = [[0, 1], [0], [0], [4]]) ∧
    (({ low := 0, high := some 15, doCache := false } : AgeGroup).calls exPeople [0, 1, 1, 2] = [[0, 1], [0], [0], [4]]) ∧
    (({ low := 15, high := none } : AgeGroup).calls exPeople [0, 2] = [[2, 3], [0, 1, 2]]) := by decide +kernel

/-- adults → children pool at step 2 (after a step-0 call filled the caches): the infectious adult 2 infects the newborn 4;
    agent 0, now 15, is no longer a target although it was in the band when the group was first computed -/
def exPoolG : PoolG := { src := .age { low := 15, high := none }, dst := .age { low := 0, high := some 15 }, beta := 1/2,
                         contacts := fun _ => 2 }
def exStateG : DState := { susceptible := fun u => u ≠ 2, infectious := fun u => u = 2, relSus := fun _ => 1, relTrans := fun _ => 3 }

example : (poolStepG exStateG (poolStepG exStateG exPoolG 0 (exPeople 0) (fun _ => 9/10)).1 2 (exPeople 2) (fun _ => 9/10)).2 = [4] ∧
    (poolStepG exStateG exPoolG 0 (exPeople 0) (fun _ => 9/10)).2 = [0, 1] := by decide +kernel

/-- explicit uid groups: removing the dead agent 3 -/
example : (((Group.explicit [1, 3, 2]).remove [3]).resolve 2 (exPeople 2)).2 = [1, 2] := by decide +kernel

end StarsimModel.C12
