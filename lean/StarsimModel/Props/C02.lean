/-
C02 — Independent components never perturb each other's random streams  (PARTIAL: footprints — which
components a function reads and writes — are validated dynamically by the correspondence, not proved from Python).
-/
import StarsimModel.Model.Footprint
import StarsimModel.Model.Rng
import StarsimModel.Generated.SeedFacts
import StarsimModel.Generated.GlobalReads
import StarsimModel.Lemmas.Search
import StarsimModel.Lemmas.RngFrame

namespace StarsimModel.C02
open StarsimModel.Footprint

/-- **Frame.** Let component `b` belong to an added module B.  If B's functions write only `b`, and what the other
    functions do to the other components does not depend on `b`, then for every position at which B's functions
    are inserted into the plan, the run's projection onto all other components equals the run without B. -/
theorem C02_frame {ι C : Type} (b : ι) (plan : List (Bool × ((ι → C) → (ι → C))))
    (hB : ∀ p ∈ plan, p.1 = true → Owns p.2 b) (hO : ∀ p ∈ plan, p.1 = false → Ignores p.2 b) :
    ∀ (s s' : ι → C), (∀ i, i ≠ b → s i = s' i) →
      ∀ i, i ≠ b → runTagged true plan s i = runTagged false plan s' i := by
  induction plan with
  | nil => intro s s' h i hi; exact h i hi
  | cons p ps ih =>
      intro s s' h i hi
      obtain ⟨isB, f⟩ := p
      have ihB := ih (fun q hq => hB q (List.mem_cons_of_mem _ hq)) (fun q hq => hO q (List.mem_cons_of_mem _ hq))
      cases isB with
      | true =>
          have hown : Owns f b := hB (true, f) (List.mem_cons_self ..) rfl
          simp only [runTagged, Bool.true_and, Bool.not_true, Bool.and_false, Bool.not_false, Bool.false_eq_true, ↓reduceIte]
          exact ihB (f s) s' (fun j hj => by rw [hown s j hj]; exact h j hj) i hi
      | false =>
          have hign : Ignores f b := hO (false, f) (List.mem_cons_self ..) rfl
          simp only [runTagged, Bool.false_and, Bool.false_eq_true, ↓reduceIte]
          exact ihB (f s) (f s') (fun j hj => hign s s' h j hj) i hi

/-- **Reordering.** Two functions of independent modules commute: `f` writes only `a` and does not read `b`,
    `g` writes only `b` and does not read `a` ⇒ `f ∘ g = g ∘ f` on every component. -/
theorem C02_permutation {ι C : Type} (a b : ι) (hab : a ≠ b) (f g : (ι → C) → (ι → C))
    (hfa : Owns f a) (hgb : Owns g b)
    (hf : ∀ s s', (∀ i, i ≠ b → s i = s' i) → f s a = f s' a)
    (hg : ∀ s s', (∀ i, i ≠ a → s i = s' i) → g s b = g s' b) (s : ι → C) :
    ∀ i, f (g s) i = g (f s) i := by
  intro i
  by_cases hia : i = a
  · subst hia
    rw [hgb (f s) i hab]
    exact hf (g s) s (fun j hj => hgb s j hj)
  · by_cases hib : i = b
    · subst hib
      rw [hfa (g s) i hia]
      exact (hg (f s) s (fun j hj => hfa s j hj)).symm
    · rw [hfa (g s) i hia, hgb s i hib, hgb (f s) i hib, hfa s i hia]

/-- hence any permutation of a block of pairwise independent functions can be reached by adjacent swaps, each of
    which leaves the state unchanged (stated for one swap inside an arbitrary plan) -/
theorem C02_swap_in_plan {ι C : Type} (a b : ι) (hab : a ≠ b) (f g : (ι → C) → (ι → C))
    (hfa : Owns f a) (hgb : Owns g b)
    (hf : ∀ s s', (∀ i, i ≠ b → s i = s' i) → f s a = f s' a)
    (hg : ∀ s s', (∀ i, i ≠ a → s i = s' i) → g s b = g s' b)
    (pre post : List ((ι → C) → (ι → C))) (s : ι → C) :
    (pre ++ [f, g] ++ post).foldl (fun st h => h st) s = (pre ++ [g, f] ++ post).foldl (fun st h => h st) s := by
  simp only [List.foldl_append, List.foldl_cons, List.foldl_nil]
  congr 1
  funext i
  exact (C02_permutation a b hab f g hfa hgb hf hg _ i).symm

/-! ### Names and seeds -/

/-- **Trace stability.** Adding a component whose distributions live under a new prefix leaves the path — hence,
    with the seed formula of C01, the seed — of every existing distribution unchanged, wherever in the search
    order the new component appears. -/
theorem C02_trace_stable {α : Type} (reg : Registry α) (k : Nat) (pre : List String) (sub : Registry α)
    (e : List String × α) (he : e ∈ reg) : e ∈ addComponent reg k pre sub := by
  unfold addComponent
  have : e ∈ reg.take k ++ reg.drop k := by rw [List.take_append_drop]; exact he
  rcases List.mem_append.mp this with h | h
  · exact List.mem_append_left _ (List.mem_append_left _ h)
  · exact List.mem_append_right _ h

/-- and no existing entry is renamed: the entries of the extended registry that are not under the new prefix are
    exactly the old ones, in the old order. -/
theorem C02_trace_stable_exact {α : Type} (reg : Registry α) (k : Nat) (pre : List String) (sub : Registry α)
    (hfresh : ∀ e ∈ reg, ¬ pre.isPrefixOf e.1 = true) :
    (addComponent reg k pre sub).filter (fun e => !pre.isPrefixOf e.1) = reg := by
  unfold addComponent
  rw [List.filter_append, List.filter_append]
  have h1 : (reg.take k).filter (fun e => !pre.isPrefixOf e.1) = reg.take k := by
    rw [List.filter_eq_self]; intro e he; simp [hfresh e (List.mem_of_mem_take he)]
  have h2 : (reg.drop k).filter (fun e => !pre.isPrefixOf e.1) = reg.drop k := by
    rw [List.filter_eq_self]; intro e he; simp [hfresh e (List.mem_of_mem_drop he)]
  have h3 : (sub.map (fun e => (pre ++ e.1, e.2))).filter (fun e => !pre.isPrefixOf e.1) = [] := by
    rw [List.filter_eq_nil_iff]
    intro e he
    obtain ⟨x, _, rfl⟩ := List.mem_map.mp he
    simp [List.isPrefixOf_iff_prefix]
  rw [h1, h2, h3, List.append_nil, List.take_append_drop]

/-- same path ⇒ same seed, whatever else is in the simulation -/
theorem C02_seed_from_path (str2int : String → Nat) (base : Nat) (p : List String) :
    seedOf str2int base p = str2int ("_".intercalate p) + base := rfl

/-- **A module's step advances only its own distributions.** -/
theorem C02_jump_own {α : Type} (owner : List String → String) (jump : α → α) (m : String) (reg : Registry α)
    (e : List String × α) (he : e ∈ reg) (hm : owner e.1 ≠ m) : e ∈ startStep owner jump m reg := by
  unfold startStep
  exact List.mem_map.mpr ⟨e, he, by simp [hm]⟩

/-- the code's `start_step` jumps the module's OWN registry, ownership is decided by identity of the owning module,
    and distributions are named by their search path (facts extracted semantically from the source on every run) -/
theorem C02_start_step_jumps_own :
    Gen.Seed.startStepOwn = true ∧ Gen.Seed.ownershipByIdentity = true ∧ Gen.Seed.searchByPath = true ∧
    Gen.Seed.initPassesTraceAndSeed = true := by decide

/-- Components cannot share a distribution (or any other mutable object) by accident: no class-level mutable
    attribute and no mutable default argument exists in the simulation code (regenerated table).  A shared default
    `Dist` would be one object — one stream — in every component built with the default. -/
theorem C02_no_shared_defaults : Gen.sharedMutables = [] := by decide

/-! ### The search that names the distributions (`Dists.init` → `sc.search`, Model/Search.lean) -/

open StarsimModel.Search in
/-- **Adding objects never renames an old distribution.** Let `g1` be the object graph of a simulation, `g2` the graph
    without some added objects (a new module and everything only it refers to), attached anywhere — at any position of any
    container.  If the search of `g1` finishes and, whenever it follows a reference from an added object back to an old
    iterable object, that object has been processed before (`safeRun`, evaluated on every real graph by the
    correspondence), then the search of `g2` finishes and finds exactly the old distributions the larger search found:
    with the same traces — hence the same names and, by `C02_seed_from_path`, the same seeds — and in the same order. -/
theorem C02_search_frame {g1 g2 : Graph} {old : Nat → Bool} (hE : Extends g1 g2 old) (sk : Skips) (root : Nat)
    (hr : old root = true) (n1 : Nat) (hsafe : safeRun g1 sk old n1 (start g1 root) = true)
    (hfin : (steps g1 sk n1 (start g1 root)).final = true) :
    ∃ n2, n2 ≤ n1 ∧ (steps g2 sk n2 (start g2 root)).final = true ∧
      (steps g2 sk n2 (start g2 root)).out = (steps g1 sk n1 (start g1 root)).out.filter (fun o => old o.2) := by
  obtain ⟨n2, hle, hf, hR⟩ := search_frame hE sk n1 _ _ (start_rel hE root hr) hsafe hfin
  exact ⟨n2, hle, hf, hR.out⟩

open StarsimModel.Search in
/-- The same, from a condition on the graph alone: the only old iterable objects an added object refers to (under a key
    and id the search does not skip) are the root — `module.sim`, `dist.sim`. -/
theorem C02_search_frame_static {g1 g2 : Graph} {old : Nat → Bool} (hE : Extends g1 g2 old) (sk : Skips) (root : Nat)
    (hr : old root = true) (hB : backRefsIn g1 sk old [root]) (n1 : Nat)
    (hfin : (steps g1 sk n1 (start g1 root)).final = true) :
    ∃ n2, n2 ≤ n1 ∧ (steps g2 sk n2 (start g2 root)).final = true ∧
      (steps g2 sk n2 (start g2 root)).out = (steps g1 sk n1 (start g1 root)).out.filter (fun o => old o.2) := by
  have hsafe := safeRun_of_backRefs hB n1 (start g1 root) (by intro m hm; simpa [start] using hm)
    (backInv_start g1 sk old root hr)
  exact C02_search_frame hE sk root hr n1 hsafe hfin

namespace SearchEx
open StarsimModel.Search

/-- root 0 = sim {diseases: 1, analyzers: 2};  1 = {sir: 3};  3 = SIR {dur: 4 (a Dist)};  2 = {} -/
def small : Graph := fun x =>
  match x with
  | 0 => ⟨true, false, [("diseases", 1), ("analyzers", 2)]⟩
  | 1 => ⟨true, false, [("sir", 3)]⟩
  | 2 => ⟨true, false, []⟩
  | 3 => ⟨true, false, [("dur", 4), ("sim", 0)]⟩
  | 4 => ⟨true, true, [("sim", 0), ("module", 3)]⟩
  | _ => ⟨false, false, []⟩

/-- the same with an analyzer 5 = Probe {d: 6 (a Dist), sim: 0, watched: 3 (a reference to the disease it reads)} -/
def withProbe (kids0 : List (String × Nat)) : Graph := fun x =>
  match x with
  | 0 => ⟨true, false, kids0⟩
  | 2 => ⟨true, false, [("probe", 5)]⟩
  | 5 => ⟨true, false, [("d", 6), ("sim", 0), ("watched", 3)]⟩
  | 6 => ⟨true, true, [("sim", 0), ("module", 5)]⟩
  | x => small x

def sk : Skips := ⟨["module"], []⟩
def isOld (x : Nat) : Bool := x != 5 && x != 6

/-- analyzers searched AFTER diseases (today's order): the disease's distribution keeps its name, the probe's is new -/
example : (steps (withProbe [("diseases", 1), ("analyzers", 2)]) sk 20 (start (withProbe [("diseases", 1), ("analyzers", 2)]) 0)).out
    = [(["diseases", "sir", "dur"], 4), (["analyzers", "probe", "d"], 6)] := by decide

example : safeRun (withProbe [("diseases", 1), ("analyzers", 2)]) sk isOld 20 (start (withProbe [("diseases", 1), ("analyzers", 2)]) 0) = true := by
  decide

example : (steps small sk 20 (start small 0)).out = [(["diseases", "sir", "dur"], 4)] := by decide

end SearchEx

open StarsimModel.Search SearchEx in
/-- **The safety hypothesis cannot be dropped.** If the container of the added analyzer were searched BEFORE the diseases,
    the reference it holds to the disease would be followed first and the disease's distribution would be found — and
    named, and seeded — under the analyzer's path: `safeRun` is false and the old distribution is renamed. -/
theorem C02_search_rename_counterexample :
    let g1 := withProbe [("analyzers", 2), ("diseases", 1)]
    safeRun g1 sk isOld 20 (start g1 0) = false ∧
    (steps g1 sk 20 (start g1 0)).final = true ∧
    (steps g1 sk 20 (start g1 0)).out.filter (fun o => isOld o.2) = [(["analyzers", "probe", "watched", "dur"], 4)] ∧
    (steps small sk 20 (start small 0)).out = [(["diseases", "sir", "dur"], 4)] := by
  decide

/-! ### The streams themselves: adding distributions never moves an existing one

`Rng.runMany` runs the state machines of all the distributions of a simulation under one interleaved operation list
(`(index, op)` pairs: the per-step `jump_dt` of every module's distributions, the draws, direct generator use by
networks, parameter changes).  An added component brings new distributions (new indices) and new operations addressed
to them, anywhere in the list. -/

open StarsimModel.Rng in
/-- **Stream frame.** Let `extra` be the distributions an added component brings, and `ops'` ANY operation list that
    addresses the old distributions exactly as `ops` does (what is addressed to the new ones, and where it is
    interleaved, is arbitrary).  Then every old distribution logs the same draw positions and ends in the same state as
    in the run without the added component — for every number of distributions, every interleaving, every length. -/
theorem C02_streams_frame (ds extra : List Dist) (ops ops' : List (Nat × Op))
    (hsame : ∀ i, i < ds.length → opsOf i ops' = opsOf i ops) :
    ∀ i, i < ds.length →
      logOf i (runMany (ds ++ extra) ops').2 = logOf i (runMany ds ops).2 ∧
      (runMany (ds ++ extra) ops').1[i]? = (runMany ds ops).1[i]? := by
  intro i hi
  have h1 : ds[i]? = some ds[i] := List.getElem?_eq_getElem hi
  have h2 : (ds ++ extra)[i]? = some ds[i] := by rw [List.getElem?_append_left hi]; exact h1
  exact runMany_frame (ds ++ extra) ds ops' ops i i ds[i] h2 h1 (hsame i hi)

open StarsimModel.Rng in
/-- The same when the added component is listed FIRST (its distributions get the low indices and every old index
    shifts by their number): the old distribution `i` is now `extra.length + i`. -/
theorem C02_streams_frame_front (ds extra : List Dist) (ops ops' : List (Nat × Op))
    (hsame : ∀ i, i < ds.length → opsOf (extra.length + i) ops' = opsOf i ops) :
    ∀ i, i < ds.length →
      logOf (extra.length + i) (runMany (extra ++ ds) ops').2 = logOf i (runMany ds ops).2 ∧
      (runMany (extra ++ ds) ops').1[extra.length + i]? = (runMany ds ops).1[i]? := by
  intro i hi
  have h1 : ds[i]? = some ds[i] := List.getElem?_eq_getElem hi
  have h2 : (extra ++ ds)[extra.length + i]? = some ds[i] := by
    rw [List.getElem?_append_right (by omega)]; simp [h1]
  exact runMany_frame (extra ++ ds) ds ops' ops (extra.length + i) i ds[i] h2 h1 (hsame i hi)

/-- non-vacuity: the two-distribution trace of C04 with a third distribution added and drawn from in between -/
example :
    let ds := [ (Rng.step (Rng.fresh true true) (.init 11 (some 5) false)).1, (Rng.step (Rng.fresh true true) (.init 12 (some 5) false)).1 ]
    let extra := [ (Rng.step (Rng.fresh true true) (.init 99 (some 5) false)).1 ]
    let ops : List (Nat × Rng.Op) := [ (0, .jumpDt 1 false), (1, .jumpDt 1 false), (0, .rvs 10 false), (1, .rvs 7 false), (0, .jumpDt 2 false), (1, .direct 5) ]
    let ops' : List (Nat × Rng.Op) := [ (2, .jumpDt 1 false), (0, .jumpDt 1 false), (1, .jumpDt 1 false), (2, .rvs 4 false), (0, .rvs 10 false), (2, .rvs 4 false),
                                        (1, .rvs 7 false), (0, .jumpDt 2 false), (2, .jumpDt 2 false), (1, .direct 5), (2, .rvs 1 false) ]
    (∀ i, i < ds.length → Rng.opsOf i ops' = Rng.opsOf i ops) ∧
    Rng.logOf 0 (Rng.runMany (ds ++ extra) ops').2 = [⟨1000, []⟩] ∧ Rng.logOf 2 (Rng.runMany (ds ++ extra) ops').2 = [⟨1000, []⟩, ⟨1001, []⟩, ⟨2000, []⟩] := by
  decide

/-! ### Non-vacuity -/

example : ∃ (f g : (Bool → Nat) → (Bool → Nat)), Owns f true ∧ Owns g false ∧
    (∀ s s', (∀ i, i ≠ false → s i = s' i) → f s true = f s' true) :=
  ⟨fun s i => if i = true then s true + 1 else s i, fun s i => if i = false then s false * 2 else s i,
   by intro s i hi; simp [hi], by intro s i hi; simp [hi], by intro s s' h; simp [h true (by decide)]⟩

example : addComponent [(["diseases", "sir", "pars", "dur_inf"], 1), (["networks", "randomnet", "dist"], 2)] 1
    ["interventions", "ghost"] [(["d0"], 9)] =
    [(["diseases", "sir", "pars", "dur_inf"], 1), (["interventions", "ghost", "d0"], 9), (["networks", "randomnet", "dist"], 2)] := by
  decide

end StarsimModel.C02
