/-
C15 — Reported results are exact counts, sums and scalings of agent state.

Property theorems only (helper lemmas: Lemmas/Results.lean; model: Model/Results.lean).
`Gen.*` comes from Generated/ResultsTable.lean, regenerated from /repo on every run: the slices of the cumulative
results, the `scale` flags, the guards of the two scaling loops, the finalise-once guard and the `how` table of
`Sim.summarize`.  The theorems whose name starts with `C15_table_` are obligations on that table.
-/
import StarsimModel.Lemmas.Results
import StarsimModel.Lemmas.SimCore
import StarsimModel.Lemmas.SimCoreLife

namespace StarsimModel.C15
open StarsimModel.Results

/-! ## Obligations on the regenerated table -/

/-- cumulative rows that are known to exclude the current step (known finding C15-cum-deaths-lag) -/
def knownLagging : List (String × String) := [("People", "cum_deaths")]

/-- float results that are known to carry `scale=True` (known finding C15-scaled-rate) -/
def knownScaledFloats : List (String × String) :=
  [("NCD", "prevalence"), ("SIS", "rel_sus"), ("Cholera", "env_prev"), ("Cholera", "env_conc")]

/-- Every statement that fills a cumulative result includes the current step, except the listed finding. -/
theorem C15_table_cumulative_inclusive :
    ∀ r ∈ Gen.cumRows, r.inclusive = true ∨ (r.cls, r.result) ∈ knownLagging := by decide

/-- In particular `cum_infections` of every `Infection` uses `[:ti+1]`, and the demographic flows use `cumsum`. -/
theorem C15_table_cum_infections : offOf .asis "Infection" "cum_infections" = 1 := by decide
theorem C15_table_flows_cumsum :
    cumInclusive "Births" "cumulative" = some true ∧ cumInclusive "Deaths" "cumulative" = some true := by decide

/-- Rates, prevalences and means (float results) are not scaled, except the listed findings. -/
theorem C15_table_rates_unscaled :
    ∀ r ∈ Gen.resultRows, r.isFloat = true → r.scale = false ∨ (r.cls, r.name) ∈ knownScaledFloats := by decide

/-- The prevalence of every `Infection` and the crude birth / death rates are never scaled (no exception). -/
theorem C15_table_prevalence_unscaled :
    ∀ r ∈ Gen.resultRows, (r.cls, r.name) ∈ [("Infection", "prevalence"), ("Births", "cbr"), ("Deaths", "cmr"), ("Pregnancy", "cbr")] →
      r.scale = false := by decide
theorem C15_table_prevalence_present :
    ∀ k ∈ [("Infection", "prevalence"), ("Births", "cbr"), ("Deaths", "cmr"), ("Pregnancy", "cbr")],
      ∃ r ∈ Gen.resultRows, (r.cls, r.name) = k := by decide

/-- Counts and flows (integer results) are all scaled. -/
theorem C15_table_counts_scaled : ∀ r ∈ Gen.resultRows, r.isFloat = false → r.scale = true := by decide

/-- Both scaling loops test the `scale` flag; `Sim.finalize` refuses a second call and sets `results_ready`. -/
theorem C15_table_finalize_guards :
    Gen.moduleScalesFlaggedOnly = true ∧ Gen.simScalesFlaggedOnly = true ∧
    Gen.simFinalizeGuarded = true ∧ Gen.simFinalizeSetsReady = true := by decide

/-- rates whose `np.divide(..., where=n_alive > 0)` has no `out=` (known finding C15-rate-undefined-cmr) -/
def knownUndefinedRates : List (String × String) := [("Deaths", "cmr"), ("Pregnancy", "cbr")]

/-- Every rate that `finalize` computes after the scaling divides a SCALED integer count of the same module by the
    SCALED sim-level `n_alive`, and is itself declared unscaled: the hypotheses of `C15_rates_final` hold for the
    rows of the table (the formula shape itself is enforced by the extractor, which fails closed). -/
theorem C15_table_rates :
    (∀ q ∈ Gen.rateRows,
      (∃ r ∈ Gen.resultRows, r.cls = q.cls ∧ r.name = q.source ∧ r.scale = true ∧ r.isFloat = false) ∧
      (∃ r ∈ Gen.resultRows, r.cls = q.cls ∧ r.name = q.result ∧ r.scale = false)) ∧
    (∃ r ∈ Gen.resultRows, r.cls = "Sim" ∧ r.name = "n_alive" ∧ r.scale = true) := by decide

/-- Entries where nobody is alive are written only if the divide has an `out=` array, except the listed finding. -/
theorem C15_table_rates_where :
    ∀ q ∈ Gen.rateRows, q.hasOut = true ∨ (q.cls, q.result) ∈ knownUndefinedRates := by decide

/-! ## Counts -/

/-- **Counts (people).** For every history of recordings (any length ≤ npts, any slice variant), `n_alive[t]` is the
    number of active agents alive at recording `t` and `new_deaths[t]` the number whose `ti_dead` equals `t`. -/
theorem C15_counts (off npts : Nat) (hoff : off ≤ 1) (snaps : List (List Person)) (hn : snaps.length ≤ npts)
    (t : Nat) (s : List Person) (ht : snaps[t]? = some s) :
    (peopleRun off npts snaps).nAlive[t]? = some ((nAliveOf s : Nat) : Rat) ∧
    (peopleRun off npts snaps).deaths.new[t]? = some ((newDeathsOf t s : Nat) : Rat) := by
  have key : ∀ hist : List (List Person), peopleRunRev off npts hist =
      ⟨pointRunRev npts (histRev (fun _ s => ((nAliveOf s : Nat) : Rat)) hist),
       Flow.runRev off npts (histRev (fun ti s => ((newDeathsOf ti s : Nat) : Rat)) hist)⟩ := by
    intro hist
    induction hist with
    | nil => rfl
    | cons x e ih => simp [peopleRunRev, peopleUpdate, ih, histRev, pointRunRev, Flow.runRev, length_histRev]
  have hl : snaps.reverse.length ≤ npts := by simpa using hn
  simp only [peopleRun, key]
  rw [pointRunRev_eq npts _ (by simpa [length_histRev] using hl),
      Flow.runRev_eq off npts hoff _ (by simpa [length_histRev] using hl)]
  exact ⟨get_append_zeros _ _ _ _ (histRev_get _ snaps t s ht), get_append_zeros _ _ _ _ (histRev_get _ snaps t s ht)⟩

/-- the disease recorder, series by series -/
theorem diseaseRunRev_eq (off infIdx nStates npts : Nat) (hist : List (List DAgent)) :
    (diseaseRunRev off infIdx nStates npts hist).prevalence =
        pointRunRev npts (histRev (fun _ s => prevalenceOf infIdx s) hist) ∧
    (diseaseRunRev off infIdx nStates npts hist).inf =
        Flow.runRev off npts (histRev (fun ti s => ((newInfOf ti s : Nat) : Rat)) hist) ∧
    ∀ i, i < nStates → (diseaseRunRev off infIdx nStates npts hist).nState[i]? =
        some (pointRunRev npts (histRev (fun _ s => ((nStateOf i s : Nat) : Rat)) hist)) := by
  induction hist with
  | nil =>
      refine ⟨rfl, rfl, ?_⟩
      intro i hi
      simp [diseaseRunRev, DisRes.init, histRev, pointRunRev, hi]
  | cons x e ih =>
      obtain ⟨h1, h2, h3⟩ := ih
      refine ⟨?_, ?_, ?_⟩
      · simp [diseaseRunRev, diseaseUpdate, h1, histRev, pointRunRev, length_histRev]
      · simp [diseaseRunRev, diseaseUpdate, h2, histRev, Flow.runRev, length_histRev]
      · intro i hi
        simp [diseaseRunRev, diseaseUpdate, setStates, h3 i hi, histRev, pointRunRev, length_histRev]

/-- **Counts (disease).** `n_<state>[t]` is the number of active agents with that flag at the module's recording `t`;
    `new_infections[t]` the number whose `ti_infected` equals the module's step `t`; for modules on any timeline
    (the history is the module's own sequence of recordings). -/
theorem C15_counts_disease (off infIdx nStates npts : Nat) (hoff : off ≤ 1) (snaps : List (List DAgent))
    (hn : snaps.length ≤ npts) (t : Nat) (s : List DAgent) (ht : snaps[t]? = some s) (i : Nat) (hi : i < nStates) :
    (∃ arr, (diseaseRun off infIdx nStates npts snaps).nState[i]? = some arr ∧ arr[t]? = some ((nStateOf i s : Nat) : Rat)) ∧
    (diseaseRun off infIdx nStates npts snaps).inf.new[t]? = some ((newInfOf t s : Nat) : Rat) := by
  obtain ⟨_, h2, h3⟩ := diseaseRunRev_eq off infIdx nStates npts snaps.reverse
  have hl : snaps.reverse.length ≤ npts := by simpa using hn
  refine ⟨⟨_, h3 i hi, ?_⟩, ?_⟩
  · rw [pointRunRev_eq npts _ (by simpa [length_histRev] using hl)]
    exact get_append_zeros _ _ _ _ (histRev_get _ snaps t s ht)
  · simp only [diseaseRun, h2]
    rw [Flow.runRev_eq off npts hoff _ (by simpa [length_histRev] using hl)]
    exact get_append_zeros _ _ _ _ (histRev_get _ snaps t s ht)

/-! ## Prevalence -/

/-- **Prevalence.** The recorded prevalence is (active agents flagged infected) / (active agents alive) at that
    recording; when the infected are a subset of the living and somebody is alive it lies in [0, 1]. -/
theorem C15_prevalence (off infIdx nStates npts : Nat) (snaps : List (List DAgent)) (hn : snaps.length ≤ npts)
    (t : Nat) (s : List DAgent) (ht : snaps[t]? = some s) :
    (diseaseRun off infIdx nStates npts snaps).prevalence[t]? = some ((nStateOf infIdx s : Rat) / (nAliveD s : Rat)) ∧
    ((∀ a ∈ s, flagOf infIdx a = true → a.alive = true) → 0 < nAliveD s →
       0 ≤ prevalenceOf infIdx s ∧ prevalenceOf infIdx s ≤ 1) := by
  obtain ⟨h1, _, _⟩ := diseaseRunRev_eq off infIdx nStates npts snaps.reverse
  have hl : snaps.reverse.length ≤ npts := by simpa using hn
  refine ⟨?_, ?_⟩
  · simp only [diseaseRun, h1]
    rw [pointRunRev_eq npts _ (by simpa [length_histRev] using hl)]
    exact get_append_zeros _ _ _ _ (histRev_get (fun _ s => prevalenceOf infIdx s) snaps t s ht)
  · intro hsub hpos
    exact ⟨natCast_div_nonneg _ _,
      natCast_div_le_one _ _ (count_le_of_imp _ _ s hsub) hpos⟩

/-- Without the hypothesis the bound fails: an agent that died this step but is still flagged infected
    (a disease without `step_die`, e.g. SIS — known finding C15-infected-dead) gives prevalence 2. -/
theorem C15_prevalence_needs_subset :
    ∃ s : List DAgent, 0 < nAliveD s ∧ ¬ (prevalenceOf 1 s ≤ 1) :=
  ⟨[⟨true, [false, true], some 0⟩, ⟨false, [false, true], some 0⟩], by decide, by decide +kernel⟩

/-! ## Cumulative series -/

/-- **Cumulative (spec).** For every flow history, with the slice `[:ti+1]`, `cum[t] = Σ_{j ≤ t} new[j]` and
    `new[t]` is the value written at step `t`. -/
theorem C15_cumulative_spec (npts : Nat) (xs : List Rat) (hn : xs.length ≤ npts) (t : Nat) (ht : t < xs.length) :
    (Flow.run 1 npts xs).cum[t]? = some (sumTo xs (t + 1)) ∧ (Flow.run 1 npts xs).new[t]? = xs[t]? := by
  have hl : xs.reverse.length ≤ npts := by simpa using hn
  simp only [Flow.run]
  rw [Flow.runRev_eq 1 npts (Nat.le_refl _) _ hl]
  simp only [List.reverse_reverse]
  refine ⟨get_append_zeros _ _ _ _ (prefixSums_get 1 xs t ht), ?_⟩
  rw [List.getElem?_append_left ht]

/-- **Cumulative (as is, slice `[:ti]`).** The series lags: `cum[t] = Σ_{j < t} new[j]`. -/
theorem C15_cumulative_lag (npts : Nat) (xs : List Rat) (hn : xs.length ≤ npts) (t : Nat) (ht : t < xs.length) :
    (Flow.run 0 npts xs).cum[t]? = some (sumTo xs t) := by
  have hl : xs.reverse.length ≤ npts := by simpa using hn
  simp only [Flow.run]
  rw [Flow.runRev_eq 0 npts (Nat.zero_le _) _ hl]
  simp only [List.reverse_reverse]
  exact get_append_zeros _ _ _ _ (prefixSums_get 0 xs t ht)

/-- `cum_infections` as the code computes it today (slice read from the table) is the running sum including the
    current step of the module's own `new_infections`. -/
theorem C15_cum_infections (infIdx nStates npts : Nat) (snaps : List (List DAgent)) (hn : snaps.length ≤ npts)
    (t : Nat) (ht : t < snaps.length) :
    (diseaseRun (offOf .asis "Infection" "cum_infections") infIdx nStates npts snaps).inf.cum[t]? =
      some (sumTo (snaps.zipIdx.map (fun p => ((newInfOf p.2 p.1 : Nat) : Rat))) (t + 1)) := by
  rw [C15_table_cum_infections]
  obtain ⟨_, h2, _⟩ := diseaseRunRev_eq 1 infIdx nStates npts snaps.reverse
  have hl : snaps.reverse.length ≤ npts := by simpa using hn
  simp only [diseaseRun, h2]
  rw [Flow.runRev_eq 1 npts (Nat.le_refl _) _ (by simpa [length_histRev] using hl), histRev_reverse]
  simp only [List.reverse_reverse]
  apply get_append_zeros
  apply prefixSums_get
  simpa using ht

/-- `cum_deaths` with the repaired slice (variant `.spec`) is the running sum including the current step. -/
theorem C15_cum_deaths_spec (npts : Nat) (snaps : List (List Person)) (hn : snaps.length ≤ npts)
    (t : Nat) (ht : t < snaps.length) :
    (peopleRun (offOf .spec "People" "cum_deaths") npts snaps).deaths.cum[t]? =
      some (sumTo (snaps.zipIdx.map (fun p => ((newDeathsOf p.2 p.1 : Nat) : Rat))) (t + 1)) := by
  have key : ∀ hist : List (List Person), (peopleRunRev 1 npts hist).deaths =
       Flow.runRev 1 npts (histRev (fun ti s => ((newDeathsOf ti s : Nat) : Rat)) hist) := by
    intro hist
    induction hist with
    | nil => rfl
    | cons x e ih => simp [peopleRunRev, peopleUpdate, ih, histRev, Flow.runRev, length_histRev]
  have hl : snaps.reverse.length ≤ npts := by simpa using hn
  simp only [offOf, peopleRun, key]
  rw [Flow.runRev_eq 1 npts (Nat.le_refl _) _ (by simpa [length_histRev] using hl), histRev_reverse]
  simp only [List.reverse_reverse]
  apply get_append_zeros
  apply prefixSums_get
  simpa using ht

/-- **Counterexample (as is).** With the slice `[:ti]` (what `People.update_results` uses in the pinned tree) the
    full statement is false: one death at step 0 gives `cum_deaths = [0, 1]` while `Σ_{j≤t} new_deaths = [1, 1]`. -/
theorem C15_cum_deaths_asis_counterexample :
    ∃ (snaps : List (List Person)) (npts t : Nat), snaps.length ≤ npts ∧ t < snaps.length ∧
      (peopleRun (sliceOff false) npts snaps).deaths.cum[t]? ≠
        some (sumTo (peopleRun (sliceOff false) npts snaps).deaths.new (t + 1)) :=
  ⟨[[⟨false, some 0⟩, ⟨true, none⟩], [⟨true, none⟩]], 2, 0, by decide, by decide, by decide +kernel⟩

/-- `np.cumsum` (Births / Deaths `cumulative`, filled in `finalize`) is the inclusive running sum. -/
theorem C15_flows_cumsum (xs : List Rat) : cumsum xs = prefixSums 1 xs := by
  have h : ∀ (xs : List Rat) (acc : Rat),
      cumsumFrom acc xs = (List.range xs.length).map (fun t => acc + sumTo xs (t + 1)) := by
    intro xs
    induction xs with
    | nil => intro _; rfl
    | cons x xs ih =>
        intro acc
        simp only [cumsumFrom, ih, List.length_cons, List.range_succ_eq_map, List.map_cons, List.map_map]
        congr 1
        · simp [sumTo, Rat.add_zero]
        · apply List.map_congr_left
          intro t _
          simp [sumTo, Rat.add_assoc]
  rw [cumsum, h, prefixSums]
  apply List.map_congr_left
  intro t _
  simp [Rat.zero_add]

/-! ## Flows: agents created and removed -/

/-- `n_alive` of the previous recording (the initial population before the first one) -/
def prevAlive (act0 : List Person) (snaps : List (List Person)) : Nat :=
  match snaps with
  | [] => act0.length
  | sn :: _ => nAliveOf sn

theorem popRunRev_length (act0 : List Person) : ∀ hist : List PopStep,
    (popRunRev act0 hist).2.length = prevAlive act0 (popRunRev act0 hist).1 := by
  intro hist
  cases hist with
  | nil => rfl
  | cons s earlier => simp [popRunRev, prevAlive, (popNext_spec _ _ _).1]

/-- **Flow balance.** For every history of steps (any numbers of agents created, any death requests before and after
    the recording): `n_alive[t] + removed[t] = n_alive[t-1] + created[t]`, where `removed[t]` are the active agents that
    are not alive at the recording (they leave `auids` at the end of the step) and `created[t]` the agents grown. -/
theorem C15_flows_balance (act0 : List Person) (earlier : List PopStep) (s : PopStep) :
    nAliveOf (popSnapshot earlier.length (popRunRev act0 earlier).2 s) +
      removedOf (popSnapshot earlier.length (popRunRev act0 earlier).2 s) =
    prevAlive act0 (popRunRev act0 earlier).1 + s.born := by
  rw [popSnapshot_balance, popRunRev_length]

/-- **Totals.** Over a whole history: survivors + all agents removed = initial agents + all agents created. -/
theorem C15_flows_total (act0 : List Person) : ∀ hist : List PopStep,
    (popRunRev act0 hist).2.length + ((popRunRev act0 hist).1.map removedOf).sum =
      act0.length + (hist.map (·.born)).sum := by
  intro hist
  induction hist with
  | nil => simp [popRunRev]
  | cons s earlier ih =>
      have hb := popSnapshot_balance earlier.length (popRunRev act0 earlier).2 s
      have hn := (popNext_spec earlier.length (popRunRev act0 earlier).2 s).1
      simp only [popRunRev, List.map_cons, List.sum_cons, hn]
      omega

theorem popRunRev_noPending (act0 : List Person) (h0 : NoPending act0) : ∀ hist : List PopStep,
    (∀ s ∈ hist, s.late = []) → NoPending (popRunRev act0 hist).2 := by
  intro hist
  induction hist with
  | nil => intro _; exact h0
  | cons s earlier ih =>
      intro h
      have h1 := ih (fun x hx => h x (List.mem_cons_of_mem _ hx))
      simpa [popRunRev] using popNext_noPending earlier.length _ s h1 (h s (List.mem_cons_self ..))

/-- **Death flow (partial).** If every death is requested before the death resolution of its step (no request after
    the recording, none pending initially), `new_deaths[t]` (agents with `ti_dead == t`) is exactly the number of agents
    removed at step `t`. -/
theorem C15_flows_deaths_partial (act0 : List Person) (h0 : NoPending act0) (earlier : List PopStep) (s : PopStep)
    (hl : ∀ x ∈ earlier, x.late = []) :
    removedOf (popSnapshot earlier.length (popRunRev act0 earlier).2 s) =
      newDeathsOf earlier.length (popSnapshot earlier.length (popRunRev act0 earlier).2 s) :=
  removed_eq_newDeaths _ _ s (popRunRev_noPending act0 h0 earlier hl)

/-- **Counterexample (as is).** A death requested after the recording of step 0 (`Pregnancy.finish_step`) is carried out
    at step 1 and counted nowhere: one agent is removed at step 1 while `new_deaths[1] = 0`
    (known finding C15-late-death-not-counted). -/
theorem C15_flows_deaths_asis_counterexample :
    ∃ (act0 : List Person) (earlier : List PopStep) (s : PopStep), NoPending act0 ∧
      removedOf (popSnapshot earlier.length (popRunRev act0 earlier).2 s) ≠
        newDeathsOf earlier.length (popSnapshot earlier.length (popRunRev act0 earlier).2 s) :=
  ⟨[fresh, fresh], [⟨0, [], [0]⟩], ⟨0, [], []⟩, by intro p hp; simp [fresh] at hp; subst hp; exact ⟨rfl, rfl⟩, by decide +kernel⟩

example : NoPending [fresh, fresh, fresh] ∧ (∀ x ∈ [(⟨2, [1], []⟩ : PopStep), ⟨1, [0, 3], []⟩], x.late = []) := by
  refine ⟨?_, by decide⟩
  intro p hp; simp [fresh] at hp; subst hp; exact ⟨rfl, rfl⟩

example : (popRun [fresh, fresh, fresh] [⟨2, [1], []⟩, ⟨1, [0, 3], []⟩]).1.map (fun sn => (nAliveOf sn, removedOf sn)) =
    [(4, 1), (3, 2)] := by decide +kernel

/-! ## Scaling -/

/-- **Scale once.** For every operation sequence the model accepts from a sim that is not yet finalised — writes,
    `finalize`, `summarize`, `to_df`, `to_json`, `shrink`, `save`+`load`, in any order and number — the store is the
    raw store (only the writes) until `finalize`, and afterwards exactly: scalable series = raw × `pop_scale`,
    non-scalable series = raw, `cumsum`-filled series = running sum of the (scaled) source; `finalize` was accepted
    at most once, and exactly once iff `results_ready`. -/
theorem C15_scale_once (ops : List Op) (s s' : Sim) (hr : s.ready = false) (h : runOps s ops = .ok s') :
    s'.store = (if s'.ready then (rawWrites s.store ops).map (specFinal s.popScale (rawWrites s.store ops))
                else rawWrites s.store ops) ∧
    countFinalize ops ≤ 1 ∧ (s'.ready = true ↔ countFinalize ops = 1) ∧ s'.popScale = s.popScale := by
  obtain ⟨g1, g2, g3, g4⟩ := C15_table_finalize_guards
  obtain ⟨hp, hcase⟩ := runOps_inv g3 g4 g1 g2 ops s s' hr h
  rcases hcase with ⟨r, st, c⟩ | ⟨r, st, c⟩
  · simp [r, st, c, hp]
  · simp [r, st, c, hp, finalStore_eq]

/-- what `specFinal` says for an ordinary (not `cumsum`-filled) series -/
theorem C15_scale_values (k : Rat) (raw : List Series) (x : Series) (hc : x.cumOf = none) :
    (specFinal k raw x).vals = (if x.scale then x.vals.map (· * k) else x.vals) ∧
    (specFinal k raw x).key = x.key ∧ (specFinal k raw x).scale = x.scale := by
  by_cases hs : x.scale = true <;> simp [specFinal, hc, hs]

/-- A second `finalize` is an error (and so the factor cannot be applied twice). -/
theorem C15_second_finalize_error (s : Sim) (hr : s.ready = true) : step s .finalize = .error .alreadyRun := by
  simp [step, hr, C15_table_finalize_guards.2.2.1]

/-- Exports after `finalize` (including `shrink` and `save`+`load`) show the same numbers: the view is unchanged. -/
theorem C15_exports_unchanged (ops : List Op) (s s' : Sim) (hr : s.ready = true) (h : runOps s ops = .ok s') :
    view s' = view s := by
  obtain ⟨e, _, _, _⟩ := runOps_ready C15_table_finalize_guards.2.2.1 ops s s' hr h
  simp [view, e]

/-- `to_df` before `finalize` is refused. -/
theorem C15_toDf_needs_ready (s : Sim) (hr : s.ready = false) : step s .toDf = .error .notReady := by
  simp [step, hr]

/-- Rates that `finalize` computes from already scaled series (`Deaths.cmr`, `Pregnancy.cbr`: `new / n_alive / units`
    where `n_alive > 0`) do not depend on a positive scale factor: they equal the rate of the raw series. -/
theorem C15_rates_scale_invariant (units k : Rat) (hk : 0 < k) (new alive : List Rat) :
    rateSeries units (new.map (· * k)) (alive.map (· * k)) = rateSeries units new alive :=
  rateSeries_scale units k hk new alive

example : rateSeries (1/1000) ([2, 3, 1].map (· * 7)) ([100, 0, 50].map (· * 7)) = [some 20, none, some 20] := by
  decide +kernel

/-- **Rates in finalize.** `cmr` / `cbr` are computed by `finalize` from the ALREADY SCALED `new` and `n_alive` series
    (through `match_time_inds` when the module has its own timeline); for every positive factor they equal the rates
    of the raw series, i.e. they are untouched by population scaling. -/
theorem C15_rates_final (k : Rat) (hk : 0 < k) (raw : List Series) (r : RateSpec)
    (hn : PlainScaled raw r.newKey) (ha : PlainScaled raw r.aliveKey) :
    rateOf (finalStore true k raw) r = rateOf raw r :=
  rateOf_final k hk raw r hn ha

example : rateOf (finalStore true 7 [⟨"n_alive", true, none, [10, 0, 5]⟩, ⟨"deaths_new", true, none, [1, 2]⟩])
    ⟨"deaths_cmr", "deaths_new", "n_alive", 1/1000, [0, 2]⟩ = some [some 100, some 400] := by decide +kernel

/-! ## total_pop / pop_scale -/

/-- **pop_scale.** Both given → error; otherwise `total_pop = pop_scale × n_agents`, and the two ways of asking for
    the factor `k` agree. -/
theorem C15_pop_scale (n : Nat) (hn : 0 < n) (k tp ps : Rat) :
    validateTotalPop n (some tp) (some ps) = .error .value ∧
    validateTotalPop n (some (k * (n : Rat))) none = .ok (k * (n : Rat), k) ∧
    validateTotalPop n none (some k) = .ok (k * (n : Rat), k) ∧
    validateTotalPop n none none = .ok ((n : Rat), 1) := by
  have hn' : (0 : Rat) < (n : Rat) := by exact_mod_cast hn
  have hne : (n : Rat) ≠ 0 := by
    intro h0; rw [h0] at hn'; exact Rat.lt_irrefl hn'
  refine ⟨rfl, ?_, rfl, ?_⟩
  · simp [validateTotalPop, Rat.mul_div_cancel hne]
  · simp [validateTotalPop, Rat.div_def, Rat.mul_inv_cancel _ hne]

/-! ## Summary -/

/-- **Summary.** With the `how` table the code uses: a key containing `cum_` (and neither `n_` nor `new_`, which come
    first in the table) is summarised by its last value; a key containing none of `cum_`, `timevec` by its mean. -/
theorem C15_summary (key : String)
    (h1 : hasInfix "n_" key = false) (h2 : hasInfix "new_" key = false) :
    (hasInfix "cum_" key = true →
       summaryFunc Gen.summaryHow Gen.summaryMatchSubstring Gen.summaryDefault key = "last") ∧
    (hasInfix "cum_" key = false → hasInfix "timevec" key = false →
       summaryFunc Gen.summaryHow Gen.summaryMatchSubstring Gen.summaryDefault key = "mean") := by
  constructor
  · intro h3
    simp [summaryFunc, Gen.summaryHow, Gen.summaryMatchSubstring, List.find?, h1, h2, h3]
  · intro h3 h4
    have h5 : hasInfix "" key = true := by
      unfold hasInfix; cases key.toList <;> simp [isInfix]
    simp [summaryFunc, Gen.summaryHow, Gen.summaryMatchSubstring, List.find?, h1, h2, h3, h4, h5]

theorem C15_summary_values (vals : List Rat) :
    summaryEntry "last" vals = vals.getLast? ∧ summaryEntry "mean" vals = some (vals.sum / (vals.length : Rat)) := by
  constructor
  · simp [summaryEntry]
  · simp [summaryEntry, mean]

/-- The standard keys behave as documented … -/
theorem C15_summary_standard_keys :
    (["cum_deaths", "sir_cum_infections", "sis_cum_infections"].map
        (summaryFunc Gen.summaryHow Gen.summaryMatchSubstring Gen.summaryDefault) = ["last", "last", "last"]) ∧
    (["n_alive", "new_deaths", "sir_prevalence", "sir_n_infected", "sir_new_infections", "deaths_cmr"].map
        (summaryFunc Gen.summaryHow Gen.summaryMatchSubstring Gen.summaryDefault) =
        ["mean", "mean", "mean", "mean", "mean", "mean"]) := by decide

/-- … but the match is by substring, in table order: a cumulative series of a module whose name contains `n_`
    (e.g. `strain_a`) is summarised by its MEAN (known finding C15-summary-substring). -/
theorem C15_summary_substring_counterexample :
    hasInfix "cum_" "strain_a_cum_infections" = true ∧
    summaryFunc Gen.summaryHow Gen.summaryMatchSubstring Gen.summaryDefault "strain_a_cum_infections" = "mean" := by decide

/-! ## Non-vacuity -/

def exPeople : List (List Person) :=
  [[⟨true, none⟩, ⟨false, some 0⟩, ⟨true, none⟩], [⟨true, none⟩, ⟨false, some 1⟩], [⟨true, none⟩]]

example : exPeople.length ≤ 4 ∧ exPeople[1]? = some [⟨true, none⟩, ⟨false, some 1⟩] := by decide

example : peopleRun 1 4 exPeople = ⟨[2, 1, 1, 0], ⟨[1, 1, 0, 0], [1, 2, 2, 0]⟩⟩ := by decide +kernel
example : peopleRun 0 4 exPeople = ⟨[2, 1, 1, 0], ⟨[1, 1, 0, 0], [0, 1, 2, 0]⟩⟩ := by decide +kernel

def exDisease : List (List DAgent) :=
  [[⟨true, [true, false], none⟩, ⟨true, [false, true], some 0⟩, ⟨true, [true, false], none⟩],
   [⟨true, [false, true], some 1⟩, ⟨true, [false, true], some 0⟩, ⟨false, [false, false], none⟩]]

example : (∀ a ∈ exDisease[1]!, flagOf 1 a = true → a.alive = true) ∧ 0 < nAliveD exDisease[1]! := by decide

example : diseaseRun 1 1 2 3 exDisease = ⟨[[2, 0, 0], [1, 2, 0]], [1/3, 1, 0], ⟨[1, 1, 0], [1, 2, 0]⟩⟩ := by decide +kernel

def exSim : Sim :=
  ⟨7, false, [⟨"n_alive", true, none, [0, 0]⟩, ⟨"sir_prevalence", false, none, [0, 0]⟩,
              ⟨"deaths_new", true, none, [0, 0]⟩, ⟨"deaths_cumulative", true, some "deaths_new", [0, 0]⟩], []⟩

def exOps : List Op :=
  [.write "n_alive" 0 10, .write "sir_prevalence" 0 (1/2), .write "deaths_new" 0 1, .write "n_alive" 1 9,
   .write "deaths_new" 1 2, .toJson, .finalize, .toDf, .shrink, .saveLoad, .summarize]

example : (runOps exSim exOps).toOption.map view =
    some [("n_alive", [70, 63]), ("sir_prevalence", [1/2, 0]), ("deaths_new", [7, 14]), ("deaths_cumulative", [7, 21])] := by
  decide +kernel

example : errOf (runOps exSim (exOps ++ [.finalize])) = some .alreadyRun := by decide +kernel
example : errOf (runOps exSim [.toDf]) = some .notReady := by decide +kernel

example : PlainScaled exSim.store "deaths_new" ∧ PlainScaled exSim.store "n_alive" :=
  ⟨⟨_, rfl, rfl, rfl⟩, ⟨_, rfl, rfl, rfl⟩⟩

/-! ### Cumulative results over whole runs of the composed step model

`SimCore` (Model/SimCore.lean) is one step of an SIR simulation in the phase order regenerated from `Loop.collect_funcs`;
its rows follow the slicing conventions regenerated into `Gen.cumRows` (`SimCore.cum_conventions`); it is compared with real
runs row by row on every check of C13. -/
section composed

/-- **Cumulative series, any events, any run length**: in every recorded row `cum_infections[t] = Σ_{u ≤ t} new_infections[u]`
    and `cum_deaths[t] = Σ_{u < t} new_deaths[u]` (today's one-step lag of `cum_deaths`, following the source's `sum[:ti]`). -/
theorem C15_composed_cumulative (s : SimCore.Sim) (evs : List SimCore.Events) (h : s.rows = []) :
    ∀ (k : Nat) (r : SimCore.Row), (SimCore.run s evs).rows[k]? = some r →
      r.cumInf = SimCore.sumNat (((SimCore.run s evs).rows.take (k + 1)).map (·.newInf)) ∧
      r.cumDeaths = SimCore.sumNat (((SimCore.run s evs).rows.take k).map (·.newDeaths)) :=
  SimCore.run_cum evs s (by rw [h]; exact SimCore.cumOK_nil)

/-- the conventions the rows follow are the regenerated ones -/
theorem C15_composed_conventions :
    SimCore.cumInclusive "People" "cum_deaths" = some false ∧ SimCore.cumInclusive "Infection" "cum_infections" = some true :=
  SimCore.cum_conventions

/-- every recorded count is the count over the population at recording time (the row of a step, field by field) -/
theorem C15_composed_row_is_count (s : SimCore.Sim) (ev : SimCore.Events) :
    ∃ r : SimCore.Row, (SimCore.simStep s ev).rows = s.rows ++ [r] ∧
      r.nAlive = SimCore.countActive (·.alive) (SimCore.midPop s ev) ∧
      r.nS = SimCore.countActive (·.fl.susceptible) (SimCore.midPop s ev) ∧
      r.nI = SimCore.countActive (·.fl.infected) (SimCore.midPop s ev) ∧
      r.nR = SimCore.countActive (·.fl.recovered) (SimCore.midPop s ev) ∧
      r.newDeaths = SimCore.countActive (fun a => SimCore.isNow a.pDead s.ti) (SimCore.midPop s ev) ∧
      r.newInf = SimCore.countActive (fun a => SimCore.isNow a.tm.ti_infected s.ti) (SimCore.midPop s ev) := by
  obtain ⟨r, h1, _, h3, h4, h5, h6, h7, _, h9, _⟩ := SimCore.simStep_rows s ev
  exact ⟨r, h1, h3, h4, h5, h6, h7, h9⟩

/-- **Prevalence lies in [0,1] in every row of every run** of the composed model: it is recorded as infected / alive with
    `infected ≤ alive` (indeed `S + I + R = alive`), from any population satisfying the partition invariant, under any events,
    unless an inadmissible `set_prognoses` call is reported. -/
theorem C15_composed_prevalence_unit (s : SimCore.Sim) (evs : List SimCore.Events) (hinv : SimCore.Inv s)
    (h0 : s.rows = []) (hb : (SimCore.run s evs).bad = false) :
    ∀ r ∈ (SimCore.run s evs).rows, r.prevNum ≤ r.prevDen ∧ r.prevNum = r.nI ∧ r.prevDen = r.nAlive := by
  intro r hr
  obtain ⟨h1, h2, h3⟩ := SimCore.run_rows_balanced evs s hinv (by rw [h0]; intro r hr; cases hr) hb r hr
  exact ⟨by rw [h2, h3]; omega, h2, h3⟩

/-- **Birth and death flows match the agents actually created or removed, over whole runs**: (active at the end) + (sum of the
    recorded `new_deaths`) = (active at the start) + (agents created), one row per step. -/
theorem C15_composed_flows_match (s : SimCore.Sim) (evs : List SimCore.Events) (h : ∀ a ∈ s.pop, SimCore.Clean a) :
    ∃ rs : List SimCore.Row, (SimCore.run s evs).rows = s.rows ++ rs ∧ rs.length = evs.length ∧
      SimCore.nPresent (SimCore.run s evs).pop + SimCore.sumNat (rs.map (·.newDeaths)) =
        SimCore.nPresent s.pop + SimCore.sumNat (evs.map (·.births)) :=
  SimCore.run_conservation evs s h

/-- kernel-evaluated: two susceptible agents, uid 0 infected in step 0 for 1 step; prevalence 1/2 then 0/2 -/
example :
    let s : SimCore.Sim := ⟨0, [SimCore.newborn, SimCore.newborn], [], false⟩
    let r := SimCore.run s [⟨0, [], [[⟨0, 1, false⟩]]⟩, ⟨0, [], []⟩]
    r.bad = false ∧ r.rows.map (fun x => (x.prevNum, x.prevDen)) = [(1, 2), (0, 2)] := by
  decide +kernel
end composed

end StarsimModel.C15
