import StarsimModel.Model.Intervention
import StarsimModel.Generated.DeliveryConsts

namespace StarsimModel.C20
open StarsimModel.Intervention

theorem C20_capacity_offset : Gen.capSliceOffset ≤ 0 := by decide

end StarsimModel.C20
