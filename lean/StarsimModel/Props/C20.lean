/-
C20 — Interventions reach only eligible agents, on schedule, within capacity.

Property theorems only (helper lemmas: Lemmas/Intervention.lean; model: Model/Intervention.lean).
The constants of the source (`adj_factor` branches, the annual→step conversion expression, the step gates, the
capacity slice, the source of the eligibility each delivering function works with) come from Generated/DeliveryConsts.lean, regenerated from /repo/starsim/interventions.py on every run.
Random streams (`draw`, `effDraw`, `pick`, `fails`) and eligibility rules are arbitrary: every theorem holds for all of them,
for all prior records (= all histories) and, where stated for runs, for all run lengths.
-/
import StarsimModel.Lemmas.Intervention
import StarsimModel.Generated.DeliveryConsts
import Mathlib.Analysis.SpecialFunctions.Pow.Real
import StarsimModel.Props.C12

namespace StarsimModel.C20
open StarsimModel.Intervention

/-! ### The constants of the source, as the model sees them -/

/-- the `adj_factor` constants of the checked-out source -/
def srcAdj : AdjConsts := ⟨Gen.adjThreshold, Gen.adjFineSub, Gen.adjCoarse, Gen.vecPerTimepoint⟩

def gateOf : Gen.GateKind → Gate
  | .simTi => .onTi
  | .ownTi => .onOwnTi
  | .timeObj => .onTimeObj

/-- Vaccination and screening test the SIM's step index against the time points (which are positions on the sim's time
    vector) and look the coverage up with the same index. -/
theorem C20_gates_on_sim_index : Gen.gateVaccination = .simTi ∧ Gen.gateScreening = .simTi := by decide

/-- Triage: today's `sim.t in timepoints` (never delivers) or the repaired `sim.ti in timepoints`. -/
theorem C20_triage_gate_variant : Gen.gateTriage = .timeObj ∨ Gen.gateTriage = .simTi := by decide

/-- Obligations on the regenerated constants: the fine-step branch is `int(1/dt) - 1 if dt < 1`. -/
theorem C20_adj_fine_form : Gen.adjThreshold = 1 ∧ Gen.adjFineSub = 1 := by decide

/-- The source is one of the two known variants: today's (`else 1`, `np.arange` year vector = `asis`) or the repaired one
    (`else 0`, one year-vector entry per time point = `spec`). -/
theorem C20_variant_matched : srcAdj = AdjConsts.asis ∨ srcAdj = AdjConsts.spec := by decide

/-- The capacity slice of `treat_num.get_candidates` is `queue[:max_capacity]` exactly. -/
theorem C20_capacity_slice : Gen.capSliceOffset = 0 := by decide

/-! ### Recipients are eligible (and eligible agents are active) -/

/-- **Vaccination.** Whatever the schedule, gate, stream and prior records: everyone who receives the vaccine was
    returned by the eligibility rule, accepted on the Bernoulli draw at the scheduled per-step probability, and —
    when the rule is absent or a Boolean array — is an active agent. -/
theorem C20_recipients_eligible (g : Gate) (conv : Rat → Rat) (s : Sched) (v : Vaccine) (ti : Clock) (active : List Nat)
    (e : Elig) (draw : Nat → Rat) (r r' : VxRec) (acc : List Nat)
    (h : vxStep g conv s v ti active e draw r = .ok (acc, r')) :
    acc = [] ∨ ∃ el k p, checkEligibility active e = .ok el ∧ gateIndex g s ti = some k ∧ stepProb conv s k = .ok p ∧
      (∀ u ∈ acc, u ∈ el ∧ draw u < p) ∧ ((∀ l, e ≠ .uids l) → ∀ u ∈ acc, u ∈ active) := by
  unfold vxStep at h
  cases hg : gateIndex g s ti with
  | none => simp [hg] at h; exact Or.inl h.1
  | some k =>
    simp only [hg] at h
    cases hp : stepProb conv s k with
    | error err => simp [hp] at h
    | ok p =>
      simp only [hp] at h
      cases he : checkEligibility active e with
      | error err => simp [he] at h
      | ok el =>
        simp only [he, Except.ok.injEq, Prod.mk.injEq] at h
        right
        refine ⟨el, k, p, rfl, rfl, hp, ?_, ?_⟩
        · intro u hu
          rw [← h.1] at hu
          exact (mem_bernoulliFilter p draw el u).1 hu
        · intro hk u hu
          rw [← h.1] at hu
          exact checkEligibility_active active e el he hk u ((mem_bernoulliFilter p draw el u).1 hu).1

/-- A rule that returns uids is taken as given: with a uid that is not active the recipient is not active
    (kernel-checked witness; this is the `partial` boundary of `C20_recipients_eligible`). -/
theorem C20_uids_rule_counterexample :
    ∃ acc r', vxStep .onTi id ⟨[0], [1], false, 1⟩ (.leaky 1) ⟨0, 0⟩ [1, 2] (.uids [7]) (fun _ => 0)
        ⟨fun _ => false, fun _ => 0, fun _ => none, fun _ => 1⟩ = .ok (acc, r') ∧ 7 ∈ acc ∧ 7 ∉ [1, 2] := by
  refine ⟨[7], _, rfl, ?_, ?_⟩ <;> decide

/-- **Screening / triage.** Tested agents come from the eligibility result and accepted on their draw. -/
theorem C20_tested_eligible (hasCov : Bool) (g : Gate) (conv : Rat → Rat) (s : Sched) (prod : DxProduct) (inState : Nat → Nat → Bool)
    (ti : Clock) (active : List Nat) (e : Elig) (draw : Nat → Rat) (pick : Nat → Nat → Nat) (r r' : TestRec) (acc : List Nat)
    (resLen : Option Nat)
    (h : screenStep hasCov g conv s prod inState ti active (checkEligibility active e) draw pick r resLen = .ok (acc, r')) :
    acc = [] ∨ ∃ el, checkEligibility active e = .ok el ∧ (∀ u ∈ acc, u ∈ el) ∧
      ((∀ l, e ≠ .uids l) → ∀ u ∈ acc, u ∈ active) := by
  unfold screenStep at h
  cases hg : gateIndex g s ti with
  | none => simp [hg] at h; exact Or.inl h.1
  | some k =>
    simp only [hg] at h
    unfold deliverTest at h
    cases hp : stepProb conv s k with
    | error err => simp [hp] at h
    | ok p =>
      simp only [hp] at h
      cases he : checkEligibility active e with
      | error err => simp [he] at h
      | ok el =>
        simp only [he] at h
        cases hasCov with
        | false => simp at h
        | true =>
          simp only [Bool.not_true, Bool.false_eq_true, ↓reduceIte] at h
          by_cases hov : resultsOverrun resLen ti = true
          · simp [hov] at h
          simp only [hov, Bool.false_eq_true, ↓reduceIte, Except.ok.injEq, Prod.mk.injEq] at h
          right
          refine ⟨el, rfl, ?_, ?_⟩
          · intro u hu
            rw [← h.1] at hu
            exact ((mem_bernoulliFilter p draw el u).1 hu).1
          · intro hk u hu
            rw [← h.1] at hu
            exact checkEligibility_active active e el he hk u ((mem_bernoulliFilter p draw el u).1 hu).1

/-- **Treatment.** Everyone treated is eligible now and was in the queue or has just been accepted from the
    eligible; everyone who joins the queue was eligible and accepted on the draw. -/
theorem C20_treated_eligible (hiOff : Int) (cap : Option Nat) (p : Rat) (rows : List TxRow) (active eligAdd eligNow : List Nat)
    (draw : Nat → Rat) (effDraw : Nat → Nat → Rat) (st : TreatState) :
    let out := treatNumStep hiOff cap p rows active eligAdd eligNow draw effDraw st
    (∀ u ∈ out.1, u ∈ eligNow ∧ (u ∈ st.queue ∨ (u ∈ eligAdd ∧ draw u < p))) ∧
    (∀ u ∈ out.2.queue, u ∈ st.queue ∨ (u ∈ eligAdd ∧ draw u < p)) := by
  have hq : ∀ u, u ∈ st.queue ++ treatAccept p draw eligAdd → u ∈ st.queue ∨ (u ∈ eligAdd ∧ draw u < p) := by
    intro u hu
    rcases List.mem_append.mp hu with h | h
    · exact Or.inl h
    · unfold treatAccept at h
      by_cases he : eligAdd.isEmpty = true
      · simp [he] at h
      · simp only [he] at h
        exact Or.inr ((mem_bernoulliFilter p draw eligAdd u).1 h)
  have hc : ∀ q u, u ∈ getCandidates hiOff cap q → u ∈ q := by
    intro q u hu
    unfold getCandidates at hu
    by_cases hq : q.isEmpty = true
    · simp [hq] at hu
    · simp only [hq] at hu
      cases cap with
      | none => exact hu
      | some c =>
        by_cases hcl : c > q.length
        · simpa [hcl] using hu
        · simp only [hcl, ↓reduceIte, pySliceTo] at hu
          by_cases hn : 0 ≤ (c : Int) + hiOff
          · simp only [hn, ↓reduceIte] at hu; exact List.mem_of_mem_take hu
          · simp only [hn, ↓reduceIte] at hu; exact List.mem_of_mem_take hu
  intro out
  constructor
  · intro u hu
    have hu' : u ∈ treatSet hiOff cap (st.queue ++ treatAccept p draw eligAdd) eligNow := hu
    unfold treatSet at hu'
    rw [mem_sortU, List.mem_filter] at hu'
    exact ⟨by simpa using hu'.2, hq u (hc _ u hu'.1)⟩
  · intro u hu
    have hu' : u ∈ (st.queue ++ treatAccept p draw eligAdd) := by
      simp only [out, treatNumStep] at hu
      split at hu <;> exact (List.mem_filter.mp hu).1
    exact hq u hu'

/-! ### Schedule: nothing outside the time points, the window -/

/-- **Not outside the time points.** On a step that is not one of the schedule's time points nobody receives anything
    and no record changes — vaccination, screening and triage alike; with the `sim.t in …` gate this is every step. -/
theorem C20_not_outside_timepoints (g : Gate) (conv : Rat → Rat) (s : Sched) (ti : Clock)
    (hti : (g = .onTi ∧ ti.sim ∉ s.timepoints) ∨ (g = .onOwnTi ∧ ti.own ∉ s.timepoints) ∨ g = .onTimeObj) :
    (∀ v active e draw (r : VxRec), vxStep g conv s v ti active e draw r = .ok ([], r)) ∧
    (∀ hc prod inState active elig draw pick (r : TestRec) resLen,
        screenStep hc g conv s prod inState ti active elig draw pick r resLen = .ok ([], r)) ∧
    (∀ hc prod inState active elig draw pick,
        triageStep hc g conv s prod inState ti active elig draw pick = .ok ([], List.replicate prod.nres [])) := by
  have hg : gateIndex g s ti = none := by
    rcases hti with ⟨rfl, h⟩ | ⟨rfl, h⟩ | rfl
    · exact (findFirst_none ti.sim s.timepoints).2 h
    · exact (findFirst_none ti.own s.timepoints).2 h
    · rfl
  refine ⟨?_, ?_, ?_⟩
  · intros; simp [vxStep, hg]
  · intros; simp [screenStep, hg]
  · intros; simp [triageStep, hg]

/-- The time points `init_pre` stores are exactly the integers from the start point to the end point. -/
theorem routine_timepoints (c : AdjConsts) (i : RoutineIn) (s : Sched) (h : routineInit c i = .ok s) :
    ∃ sy ey sp ep, routineWindow i = some (sy, ey) ∧ routinePoints c i sy ey = some (sp, ep) ∧
      ∀ t, t ∈ s.timepoints ↔ (sp : Int) ≤ t ∧ t ≤ ep := by
  unfold routineInit at h
  split at h
  · cases h
  · cases hw : routineWindow i with
    | none => simp [hw] at h
    | some w =>
      obtain ⟨sy, ey⟩ := w
      simp only [hw] at h
      cases hp : routinePoints c i sy ey with
      | none => simp [hp] at h
      | some q =>
        obtain ⟨sp, ep⟩ := q
        simp only [hp] at h
        by_cases hn : ep - (sp : Int) + 1 < 0
        · simp [hn] at h
        · simp only [hn, ↓reduceIte] at h
          cases hr : routineProb c i sy ey (intRange (sp : Int) (ep - (sp : Int) + 1).toNat).length with
          | error e => simp [hr] at h
          | ok pr =>
            simp only [hr, Except.ok.injEq] at h
            refine ⟨sy, ey, sp, ep, rfl, hp, ?_⟩
            intro t
            rw [← h]
            simp only [mem_intRange]
            constructor
            · rintro ⟨h1, h2⟩; constructor <;> omega
            · rintro ⟨h1, h2⟩; constructor <;> omega

/-- year of step `t` on the sim's grid `y0, y0 + dt, …` -/
def yearOf (y0 dt : Rat) (t : Int) : Rat := y0 + (t : Rat) * dt

def gridYears (y0 dt : Rat) (n : Nat) : List Rat := (List.range n).map (fun (k : Nat) => y0 + (k : Rat) * dt)

theorem findFirstClose_getElem (t : Tol) (y : Rat) (l : List Rat) (k : Nat)
    (hsep : ∀ z ∈ l, closeTo t z y = true → z = y) : findFirstClose t y l = some k → l[k]? = some y := by
  induction l generalizing k with
  | nil => simp [findFirstClose]
  | cons z zs ih =>
    simp only [findFirstClose]
    by_cases h : closeTo t z y = true
    · simp only [h, ↓reduceIte, Option.some.injEq]
      intro hk; subst hk
      simp [hsep z (List.mem_cons_self ..) h]
    · simp only [h, Bool.false_eq_true, ↓reduceIte, Option.map_eq_some_iff]
      rintro ⟨j, hj, rfl⟩
      simpa using ih j (fun w hw => hsep w (List.mem_cons_of_mem _ hw)) hj

theorem findFirstClose_grid (t : Tol) (y0 dt : Rat) (n : Nat) (y : Rat) (k : Nat)
    (hsep : ∀ z ∈ gridYears y0 dt n, closeTo t z y = true → z = y)
    (h : findFirstClose t y (gridYears y0 dt n) = some k) : y = y0 + (k : Rat) * dt := by
  have := findFirstClose_getElem t y _ k hsep h
  simp only [gridYears, List.getElem?_map, Option.map_eq_some_iff] at this
  obtain ⟨a, ha, rfl⟩ := this
  by_cases hk : k < n
  · simp [hk] at ha; subst ha; rfl
  · simp [hk] at ha

/-- the matching of the window years on the grid is unambiguous: only the year itself is "close" to it.
    (True for exact matching; for the library tolerances it needs a step larger than `atol + rtol·year`.) -/
def Unambiguous (i : RoutineIn) : Prop :=
  ∀ w, routineWindow i = some w → ∀ z ∈ i.yearvec,
    (closeTo i.tols.find z w.1 = true → z = w.1) ∧ (closeTo i.tols.find z w.2 = true → z = w.2)

theorem unambiguous_exact (i : RoutineIn) (h : i.tols = Tols.exact) : Unambiguous i := by
  intro w _ z _
  have hc : ∀ a b : Rat, closeTo ⟨0, 0⟩ a b = true → a = b := by
    intro a b hab
    simp only [closeTo, zero_mul, add_zero, decide_eq_true_eq, absR] at hab
    by_cases hlt : a - b < 0
    · simp only [hlt, ↓reduceIte] at hab; linarith
    · simp only [hlt, ↓reduceIte] at hab; linarith
  rw [h]
  exact ⟨hc z w.1, hc z w.2⟩

/-- Core of the window theorems: if `adj_factor * dt < 1` and `adj_factor ≥ 0`, every time point of an accepted
    routine schedule lies in `[start_year, end_year + 1)`. -/
theorem window_of_adj (c : AdjConsts) (i : RoutineIn) (y0 : Rat) (n : Nat) (hgrid : i.yearvec = gridYears y0 i.dt n)
    (hdt : 0 < i.dt) (hadj : ((adjFactor c i.dt : Int) : Rat) * i.dt < 1) (hun : Unambiguous i)
    (s : Sched) (h : routineInit c i = .ok s) :
    ∃ sy ey, routineWindow i = some (sy, ey) ∧
      ∀ t ∈ s.timepoints, sy ≤ yearOf y0 i.dt t ∧ yearOf y0 i.dt t < ey + 1 := by
  obtain ⟨sy, ey, sp, ep, hw, hp, htp⟩ := routine_timepoints c i s h
  refine ⟨sy, ey, hw, ?_⟩
  intro t ht
  obtain ⟨h1, h2⟩ := (htp t).1 ht
  have hsepS : ∀ z ∈ gridYears y0 i.dt n, closeTo i.tols.find z sy = true → z = sy :=
    fun z hz => (hun (sy, ey) hw z (hgrid ▸ hz)).1
  have hsepE : ∀ z ∈ gridYears y0 i.dt n, closeTo i.tols.find z ey = true → z = ey :=
    fun z hz => (hun (sy, ey) hw z (hgrid ▸ hz)).2
  unfold routinePoints at hp
  rw [hgrid] at hp
  split at hp
  · cases hp
  · cases hs : findFirstClose i.tols.find sy (gridYears y0 i.dt n) with
    | none => simp [hs] at hp
    | some a =>
      cases he : findFirstClose i.tols.find ey (gridYears y0 i.dt n) with
      | none => simp [hs, he] at hp
      | some b =>
        simp only [hs, he, Option.some.injEq, Prod.mk.injEq] at hp
        obtain ⟨rfl, rfl⟩ := hp
        have hsy := findFirstClose_grid i.tols.find y0 i.dt n sy a hsepS hs
        have hey := findFirstClose_grid i.tols.find y0 i.dt n ey b hsepE he
        have h1' : ((a : Int) : Rat) ≤ (t : Rat) := by exact_mod_cast h1
        have h2' : (t : Rat) ≤ (((b : Int) + adjFactor c i.dt : Int) : Rat) := by exact_mod_cast h2
        push_cast at h1' h2'
        unfold yearOf
        constructor
        · rw [hsy]; nlinarith
        · rw [hey]; nlinarith

/-- **Window (spec).** With the repaired constants (`adj_factor = 0` for `dt ≥ 1`) and exact matching of the window
    years on the grid, for every step size, grid, window, probability vector: every delivery time point of an accepted
    routine schedule lies in `[start_year, end_year + 1)`. -/
theorem C20_window_spec (i : RoutineIn) (y0 : Rat) (n : Nat) (hgrid : i.yearvec = gridYears y0 i.dt n)
    (hdt : 0 < i.dt) (hex : i.tols = Tols.exact) (s : Sched) (h : routineInit .spec i = .ok s) :
    ∃ sy ey, routineWindow i = some (sy, ey) ∧
      ∀ t ∈ s.timepoints, sy ≤ yearOf y0 i.dt t ∧ yearOf y0 i.dt t < ey + 1 := by
  apply window_of_adj .spec i y0 n hgrid hdt _ (unambiguous_exact i hex) s h
  unfold adjFactor AdjConsts.spec
  by_cases h1 : i.dt < 1
  · simp only [h1, ↓reduceIte]; exact adj_fine_lt_one i.dt hdt
  · simp [h1]

/-- The checked-out source has the repaired constants (regenerated on every run). -/
theorem C20_source_is_spec : srcAdj = AdjConsts.spec := by decide

/-- **Window (the checked-out source, library tolerances).** With the constants regenerated from the source and
    `np.isclose` / `sc.findfirst` matching, the window holds for every step size provided the matching is unambiguous
    (the hypothesis that excludes the small-`dt` finding below). -/
theorem C20_window_partial (i : RoutineIn) (y0 : Rat) (n : Nat) (hgrid : i.yearvec = gridYears y0 i.dt n)
    (hdt : 0 < i.dt) (hun : Unambiguous i) (s : Sched) (h : routineInit srcAdj i = .ok s) :
    ∃ sy ey, routineWindow i = some (sy, ey) ∧
      ∀ t ∈ s.timepoints, sy ≤ yearOf y0 i.dt t ∧ yearOf y0 i.dt t < ey + 1 := by
  rw [C20_source_is_spec] at h
  apply window_of_adj .spec i y0 n hgrid hdt _ hun s h
  unfold adjFactor AdjConsts.spec
  by_cases h1 : i.dt < 1
  · simp only [h1, ↓reduceIte]; exact adj_fine_lt_one i.dt hdt
  · simp [h1]

/-- **Small steps: counterexample.** With the library tolerances (`rtol = 1e-5` ⇒ ±0.02 around year 2000) and
    `dt = 1/50`, the start point of the window 2001–2001 is the step BEFORE 2001 (year 2000.98): delivery starts
    before `start_year`. -/
theorem C20_window_small_dt_counterexample :
    ∃ s, routineInit .spec ⟨gridYears 2000 (1/50) 101, 2000, 2002, none, some 2001, some 2001, [1/2], false, 1/50, Tols.lib⟩ = .ok s ∧
      (49 : Int) ∈ s.timepoints ∧ yearOf 2000 (1/50) 49 < 2001 := by
  refine ⟨⟨intRange 49 50, List.replicate 50 (1/2), false, 1/50⟩, by decide +kernel, by decide +kernel, by decide +kernel⟩

/-- **Delivery inside the window.** A vaccination step gated on the sim's step index that delivers to anybody, under
    an accepted routine schedule (repaired constants, unambiguous matching), happens in a year of `[start_year, end_year+1)`. -/
theorem C20_delivery_in_window (i : RoutineIn) (y0 : Rat) (n : Nat) (hgrid : i.yearvec = gridYears y0 i.dt n)
    (hdt : 0 < i.dt) (hun : Unambiguous i) (s : Sched) (hs : routineInit .spec i = .ok s)
    (conv : Rat → Rat) (v : Vaccine) (c : Clock) (active : List Nat) (e : Elig) (draw : Nat → Rat) (r r' : VxRec)
    (acc : List Nat) (h : vxStep .onTi conv s v c active e draw r = .ok (acc, r')) (hne : acc ≠ []) :
    ∃ sy ey, routineWindow i = some (sy, ey) ∧ sy ≤ yearOf y0 i.dt c.sim ∧ yearOf y0 i.dt c.sim < ey + 1 := by
  have hs' : routineInit srcAdj i = .ok s := by rw [C20_source_is_spec]; exact hs
  obtain ⟨sy, ey, hw, hall⟩ := C20_window_partial i y0 n hgrid hdt hun s hs'
  refine ⟨sy, ey, hw, hall c.sim ?_⟩
  by_contra hnot
  have := (C20_not_outside_timepoints .onTi conv s c (Or.inl ⟨rfl, hnot⟩)).1 v active e draw r
  rw [this] at h
  simp only [Except.ok.injEq, Prod.mk.injEq] at h
  exact hne h.1.symm

/-- **Own step counter: counterexample.** Gating on the module's own step counter while the time points are sim indices
    delivers outside the window as soon as the module has its own `dt`: window 2004–2008 on a yearly sim, module called
    every second year — at sim step 10 (year 2010) the module's counter is 5 ∈ timepoints and everybody is vaccinated. -/
theorem C20_own_ti_gate_counterexample :
    (match vxStep .onOwnTi id ⟨[4, 5, 6, 7, 8], [1, 1, 1, 1, 1], false, 1⟩ (.leaky 1) ⟨10, 5⟩ [1, 2] .everyone (fun _ => 0)
        ⟨fun _ => false, fun _ => 0, fun _ => none, fun _ => 1⟩ with
      | .ok (acc, _) => decide (acc = [1, 2])
      | .error _ => false) = true ∧ (10 : Int) ∉ [4, 5, 6, 7, 8] ∧ ¬ (yearOf 2000 1 10 < 2008 + 1) := by
  refine ⟨by decide +kernel, by decide, by decide +kernel⟩

/-- …and is the same as gating on the sim index exactly when the two counters agree (module on the sim's timeline). -/
theorem C20_own_ti_gate_partial (s : Sched) (c : Clock) (h : c.own = c.sim) :
    gateIndex .onOwnTi s c = gateIndex .onTi s c := by
  simp [gateIndex, h]

/-- **Triage as is.** With the `sim.t in timepoints` gate no step ever tests anybody, whatever the configured coverage
    and however many agents are eligible (the coverage clause fails for triage; vacuous for the other clauses). -/
theorem C20_triage_asis_never_delivers (hc : Bool) (conv : Rat → Rat) (s : Sched) (prod : DxProduct) (inState : Nat → Nat → Bool)
    (c : Clock) (active : List Nat) (elig : Except Err (List Nat)) (draw : Nat → Rat) (pick : Nat → Nat → Nat) :
    triageStep hc (gateOf .timeObj) conv s prod inState c active elig draw pick = .ok ([], List.replicate prod.nres []) :=
  (C20_not_outside_timepoints .onTimeObj conv s c (Or.inr (Or.inr rfl))).2.2 hc prod inState active elig draw pick

/-- **Campaign × test as is.** `campaign_screening` / `campaign_triage` have no `coverage_dist`: a scheduled delivery
    step with a probability and a well-typed eligibility result raises AttributeError instead of testing anybody. -/
theorem C20_campaign_test_asis_raises (g : Gate) (conv : Rat → Rat) (s : Sched) (k : Nat) (p : Rat) (prod : DxProduct)
    (inState : Nat → Nat → Bool) (active el : List Nat) (draw : Nat → Rat) (pick : Nat → Nat → Nat) (out : List (List Nat))
    (hp : stepProb conv s k = .ok p) :
    deliverTest false conv s k prod inState active (.ok el) draw pick out = .error .attr := by
  simp [deliverTest, hp]

/-- **Screening on its own coarser timeline (as is).** The step writes its results at `sim.ti`: once the sim's index
    has run past the module's own result arrays, a scheduled delivery step raises IndexError. -/
theorem C20_screening_results_index_asis (g : Gate) (conv : Rat → Rat) (s : Sched) (prod : DxProduct) (inState : Nat → Nat → Bool)
    (c : Clock) (active : List Nat) (elig : Except Err (List Nat)) (draw : Nat → Rat) (pick : Nat → Nat → Nat) (r : TestRec)
    (n : Nat) (hn : (n : Int) ≤ c.sim) (acc : List Nat) (out : List (List Nat)) (k : Nat) (hg : gateIndex g s c = some k)
    (hd : deliverTest true conv s k prod inState active elig draw pick r.outcomes = .ok (acc, out)) :
    screenStep true g conv s prod inState c active elig draw pick r (some n) = .error .index := by
  simp [screenStep, hg, hd, resultsOverrun, hn]

/-- the witness of the known finding: sim 2000–2015, `dt = 1`, window 2005–2010 -/
def witnessIn : RoutineIn :=
  ⟨gridYears 2000 1 16, 2000, 2015, none, some 2005, some 2010, [1/2], true, 1, Tols.lib⟩

/-- **Window (as is): counterexample.** With today's constants (`adj_factor = 1` for `dt ≥ 1`) the schedule for the
    window 2005–2010 at `dt = 1` contains step 11, whose year 2011 is not below `end_year + 1`. -/
theorem C20_window_asis_counterexample :
    ∃ s, routineInit .asis witnessIn = .ok s ∧ routineWindow witnessIn = some (2005, 2010) ∧
      (11 : Int) ∈ s.timepoints ∧ ¬ (yearOf 2000 1 11 < 2010 + 1) := by
  refine ⟨⟨[5, 6, 7, 8, 9, 10, 11], List.replicate 7 (1/2), true, 1⟩, by decide +kernel, by decide +kernel, by decide, by decide +kernel⟩

/-- …and the repaired constants give 5..10 on the same input. -/
theorem C20_window_spec_witness :
    routineInit .spec witnessIn = .ok ⟨[5, 6, 7, 8, 9, 10], List.replicate 6 (1/2), true, 1⟩ := by decide +kernel

theorem routineProb_spec_length (i : RoutineIn) (sy ey : Rat) (ntp : Nat) (pr : List Rat)
    (h : routineProb .spec i sy ey ntp = .ok pr) : pr.length = ntp := by
  unfold routineProb at h
  simp only [AdjConsts.spec, ↓reduceIte] at h
  generalize ((if ey < sy then -((sy - ey).floor) else (ey - sy).floor) + 1 : Int) = nY at h
  by_cases h1 : nY < 0
  · simp [h1] at h
  · simp only [h1, ↓reduceIte] at h
    by_cases h2 : nY.toNat = i.prob.length
    · simp only [h2, ne_eq, not_true_eq_false, ↓reduceIte, Except.ok.injEq] at h
      rw [← h]; simp
    · simp only [ne_eq, h2, not_false_eq_true, ↓reduceIte] at h
      split at h
      · simp only [Except.ok.injEq] at h; rw [← h]; simp
      · cases h

/-- **Spec: every time point has a probability.** With the repaired constants the stored probability vector has exactly
    one entry per time point, so a delivery step never fails for lack of one. -/
theorem C20_spec_prob_total (i : RoutineIn) (s : Sched) (h : routineInit .spec i = .ok s) :
    s.prob.length = s.timepoints.length := by
  unfold routineInit at h
  split at h
  · cases h
  · cases hw : routineWindow i with
    | none => simp [hw] at h
    | some w =>
      obtain ⟨sy, ey⟩ := w
      simp only [hw] at h
      cases hp : routinePoints .spec i sy ey with
      | none => simp [hp] at h
      | some q =>
        obtain ⟨sp, ep⟩ := q
        simp only [hp] at h
        by_cases hn : ep - (sp : Int) + 1 < 0
        · simp [hn] at h
        · simp only [hn, ↓reduceIte] at h
          cases hr : routineProb .spec i sy ey (intRange (sp : Int) (ep - (sp : Int) + 1).toNat).length with
          | error e => simp [hr] at h
          | ok pr =>
            simp only [hr, Except.ok.injEq] at h
            rw [← h]
            simp only
            exact routineProb_spec_length i sy ey _ pr hr

/-- **As is: a time point without a probability.** Years 2005–2008 with four probabilities at `dt = 1`: five time
    points, four probabilities — the step past `end_year` raises IndexError (the other face of the known finding). -/
theorem C20_asis_missing_probability :
    ∃ s, routineInit .asis ⟨gridYears 2000 1 16, 2000, 2015, some [2005, 2006, 2007, 2008], none, none,
        [1/10, 1/5, 2/5, 4/5], true, 1, Tols.lib⟩ = .ok s ∧ s.timepoints = [5, 6, 7, 8, 9] ∧ s.prob.length = 4 ∧
      stepProb id s 4 = .error .index := by
  refine ⟨⟨[5, 6, 7, 8, 9], [1/10, 1/5, 2/5, 4/5], true, 1⟩, by decide +kernel, rfl, rfl, by decide +kernel⟩

/-! ### Capacity -/

/-- **Capacity, FIFO.** With the slice of the source, a `treat_num` step treats at most `max_capacity` agents and only
    agents among the first `max_capacity` entries of the queue (old queue followed by the newly accepted). -/
theorem C20_capacity (c : Nat) (p : Rat) (rows : List TxRow) (active eligAdd eligNow : List Nat)
    (draw : Nat → Rat) (effDraw : Nat → Nat → Rat) (st : TreatState) :
    let out := treatNumStep Gen.capSliceOffset (some c) p rows active eligAdd eligNow draw effDraw st
    out.1.length ≤ c ∧ ∀ u ∈ out.1, u ∈ (st.queue ++ treatAccept p draw eligAdd).take c := by
  intro out
  have hout : out.1 = sortU (((st.queue ++ treatAccept p draw eligAdd).take c).filter (fun u => decide (u ∈ eligNow))) := by
    show treatSet Gen.capSliceOffset (some c) _ eligNow = _
    rw [C20_capacity_slice]
    unfold treatSet
    rw [getCandidates_eq_take]
  rw [hout]
  constructor
  · calc _ ≤ _ := length_sortU_le _
      _ ≤ _ := List.length_filter_le _ _
      _ ≤ c := by simp [List.length_take]
  · intro u hu
    rw [mem_sortU, List.mem_filter] at hu
    exact hu.1

/-- Without a capacity the whole queue is considered. -/
theorem C20_no_capacity (hiOff : Int) (q : List Nat) : getCandidates hiOff none q = q := getCandidates_none hiOff q

/-- The treated leave the queue, everybody else keeps their place (order preserved). -/
theorem C20_queue_rebuilt (hiOff : Int) (cap : Option Nat) (p : Rat) (rows : List TxRow) (active eligAdd eligNow : List Nat)
    (draw : Nat → Rat) (effDraw : Nat → Nat → Rat) (st : TreatState) :
    let out := treatNumStep hiOff cap p rows active eligAdd eligNow draw effDraw st
    out.2.queue = (st.queue ++ treatAccept p draw eligAdd).filter (fun u => decide (u ∉ out.1)) := by
  intro out
  simp only [out, treatNumStep]
  split <;> rfl

/-! ### Coverage conversion (over ℝ) -/

open Real in
/-- value of a regenerated probability expression at annual probability `p` and step `dt` -/
noncomputable def evalR : Gen.PExpr → ℝ → ℝ → ℝ
  | .p, p, _ => p
  | .dt, _, dt => dt
  | .one, _, _ => 1
  | .const c, _, _ => (c : ℝ)
  | .add a b, p, dt => evalR a p dt + evalR b p dt
  | .sub a b, p, dt => evalR a p dt - evalR b p dt
  | .mul a b, p, dt => evalR a p dt * evalR b p dt
  | .div a b, p, dt => evalR a p dt / evalR b p dt
  | .pow a b, p, dt => (evalR a p dt) ^ (evalR b p dt)

/-- the per-step acceptance probability the property asks for -/
noncomputable def stepProbR (p dt : ℝ) : ℝ := 1 - (1 - p) ^ dt

/-- **Coverage conversion.** The expression in the source is `1 − (1 − p)^dt`. -/
theorem C20_coverage_conversion (p dt : ℝ) : evalR Gen.probConversion p dt = stepProbR p dt := by
  simp [Gen.probConversion, evalR, stepProbR]

/-- …which is a probability, … -/
theorem C20_coverage_in_unit (p dt : ℝ) (hp0 : 0 ≤ p) (hp1 : p ≤ 1) (hdt : 0 ≤ dt) :
    0 ≤ stepProbR p dt ∧ stepProbR p dt ≤ 1 := by
  unfold stepProbR
  have h0 : 0 ≤ 1 - p := by linarith
  have h1 : 1 - p ≤ 1 := by linarith
  have := Real.rpow_le_one h0 h1 hdt
  have := Real.rpow_nonneg h0 dt
  constructor <;> linarith

/-- …the identity for `dt = 1`, … -/
theorem C20_coverage_dt_one (p : ℝ) : stepProbR p 1 = p := by
  simp [stepProbR]

/-- …and compounds back to the annual coverage: after `n` steps with `n·dt = 1` the probability of having accepted
    at least once is exactly `p`. -/
theorem C20_coverage_annual (p dt : ℝ) (n : ℕ) (hp1 : p ≤ 1) (h : (n : ℝ) * dt = 1) :
    1 - (1 - stepProbR p dt) ^ n = p := by
  have h1 : 0 ≤ 1 - p := by linarith
  unfold stepProbR
  rw [sub_sub_cancel, ← Real.rpow_natCast, ← Real.rpow_mul h1, mul_comm, h, Real.rpow_one]
  ring

/-- The executable step probability applies the conversion exactly when `annual_prob` is set. -/
theorem C20_stepProb_uses_conversion (conv : Rat → Rat) (s : Sched) (k : Nat) (p : Rat) (hk : s.prob[k]? = some p) :
    stepProb conv s k = .ok (if s.convert then conv p else p) := by
  simp [stepProb, hk]

/-! ### Effects are confined to recipients -/

/-- **Vaccination.** Non-recipients keep every record and their susceptibility; recipients are marked, get one more
    dose, the time stamp (the sim's step index), and their `rel_sus` multiplied by the vaccine's factor (for the
    all-or-nothing vaccine: the binomial variate at the recipient's position among the accepted). -/
theorem C20_effects_confined (g : Gate) (conv : Rat → Rat) (s : Sched) (v : Vaccine) (ti : Clock) (active : List Nat)
    (e : Elig) (draw : Nat → Rat) (r r' : VxRec) (acc : List Nat)
    (h : vxStep g conv s v ti active e draw r = .ok (acc, r')) :
    (∀ u, u ∉ acc → r'.vaccinated u = r.vaccinated u ∧ r'.nDoses u = r.nDoses u ∧ r'.tiVacc u = r.tiVacc u ∧
        r'.relSus u = r.relSus u) ∧
    (∀ u ∈ acc, r'.vaccinated u = true ∧ r'.nDoses u = r.nDoses u + 1 ∧ r'.tiVacc u = some ti.sim ∧
        r'.relSus u = r.relSus u * v.factor (posOf u acc)) := by
  unfold vxStep at h
  cases hg : gateIndex g s ti with
  | none =>
    simp only [hg, Except.ok.injEq, Prod.mk.injEq] at h
    obtain ⟨rfl, rfl⟩ := h
    simp
  | some k =>
    simp only [hg] at h
    cases hp : stepProb conv s k with
    | error err => simp [hp] at h
    | ok p =>
      simp only [hp] at h
      cases he : checkEligibility active e with
      | error err => simp [he] at h
      | ok el =>
        simp only [he, Except.ok.injEq, Prod.mk.injEq] at h
        obtain ⟨rfl, rfl⟩ := h
        constructor
        · intro u hu; simp [vxApply, hu]
        · intro u hu; simp [vxApply, hu]

/-- **Diagnostics.** Every tested agent is listed under exactly one result, nobody else is listed. -/
theorem C20_dx_outcomes (nres : Nat) (hn : 0 < nres) (rows : List DxRow) (inState : Nat → Nat → Bool) (active : List Nat)
    (pick : Nat → Nat → Nat) (uids : List Nat) :
    (∀ l ∈ dxAdminister nres rows inState active pick uids, ∀ u ∈ l, u ∈ uids) ∧
    (∀ u ∈ uids, ∃ k, k < nres ∧ ∀ j, j < nres →
        (u ∈ (dxAdminister nres rows inState active pick uids).getD j [] ↔ j = k)) := by
  have hres : ∀ u, dxResult nres rows inState active pick u < nres := by
    intro u
    unfold dxResult
    generalize rows.zipIdx = l
    have : ∀ (l : List (DxRow × Nat)) (c : Nat), c < nres →
        l.foldl (fun cur (rk : DxRow × Nat) =>
          if inState rk.1.state u && decide (u ∈ active) then min (pick rk.2 u) cur else cur) c < nres := by
      intro l
      induction l with
      | nil => intro c hc; simpa using hc
      | cons x xs ih =>
        intro c hc
        simp only [List.foldl_cons]
        apply ih
        split
        · exact lt_of_le_of_lt (Nat.min_le_right _ _) hc
        · exact hc
    exact this l (nres - 1) (by omega)
  constructor
  · intro l hl u hu
    simp only [dxAdminister, List.mem_map, List.mem_range] at hl
    obtain ⟨k, _, rfl⟩ := hl
    exact (List.mem_filter.mp hu).1
  · intro u hu
    refine ⟨dxResult nres rows inState active pick u, hres u, ?_⟩
    intro j hj
    simp only [dxAdminister, List.getD_eq_getElem?_getD, List.getElem?_map, List.getElem?_range hj, Option.map_some,
      Option.getD_some, List.mem_filter, decide_eq_true_eq]
    constructor
    · rintro ⟨_, h⟩; exact h.symm
    · rintro rfl; exact ⟨hu, rfl⟩

/-- **Screening.** Non-recipients keep their screening records. -/
theorem C20_screening_confined (hasCov : Bool) (g : Gate) (conv : Rat → Rat) (s : Sched) (prod : DxProduct) (inState : Nat → Nat → Bool)
    (ti : Clock) (active : List Nat) (elig : Except Err (List Nat)) (draw : Nat → Rat) (pick : Nat → Nat → Nat) (r r' : TestRec)
    (acc : List Nat) (resLen : Option Nat)
    (h : screenStep hasCov g conv s prod inState ti active elig draw pick r resLen = .ok (acc, r')) :
    ∀ u, u ∉ acc → r'.screened u = r.screened u ∧ r'.screens u = r.screens u ∧ r'.tiScreened u = r.tiScreened u := by
  unfold screenStep at h
  cases hg : gateIndex g s ti with
  | none =>
    simp only [hg, Except.ok.injEq, Prod.mk.injEq] at h
    obtain ⟨rfl, rfl⟩ := h
    simp
  | some k =>
    simp only [hg] at h
    cases hd : deliverTest hasCov conv s k prod inState active elig draw pick r.outcomes with
    | error err => simp [hd] at h
    | ok q =>
      obtain ⟨a, o⟩ := q
      simp only [hd] at h
      by_cases hov : resultsOverrun resLen ti = true
      · simp [hov] at h
      simp only [hov, Bool.false_eq_true, ↓reduceIte, Except.ok.injEq, Prod.mk.injEq] at h
      obtain ⟨rfl, rfl⟩ := h
      intro u hu; simp [hu]

/-- **Treatment product.** `Tx.administer` changes no state of an agent it was not given (or who is not active); the
    successfully treated are among the given, active agents. -/
theorem C20_tx_confined (rows : List TxRow) (active uids : List Nat) (effDraw : Nat → Nat → Rat) (fl : Flags) :
    (∀ u, (u ∉ uids ∨ u ∉ active) → ∀ s, (txAdminister rows active uids effDraw fl).flags s u = fl s u) ∧
    (∀ u ∈ (txAdminister rows active uids effDraw fl).successful, u ∈ uids ∧ u ∈ active) := by
  constructor
  · intro u hu s
    exact txBlocks_frame rows 0 active uids effDraw fl u hu s
  · intro u hu
    simp only [txAdminister, mem_sortU] at hu
    exact txBlocks_succ_sub rows 0 active uids effDraw fl u hu

/-- …and a block does what its table row says: the successfully treated of a block were in the row's state, drew
    below the efficacy, and end up in the row's post-state and (if different) out of the pre-state. -/
theorem C20_tx_row_effect (row : TxRow) (j : Nat) (active uids : List Nat) (effDraw : Nat → Nat → Rat) (fl : Flags) :
    ∀ u ∈ (txBlock row j active uids effDraw fl).1,
      fl row.pre u = true ∧ effDraw j u < row.eff ∧ (txBlock row j active uids effDraw fl).2 row.post u = true ∧
      (row.pre ≠ row.post → (txBlock row j active uids effDraw fl).2 row.pre u = false) := by
  intro u hu
  have h := txBlock_succ_sub row j active uids effDraw fl u hu
  refine ⟨h.2.2.1, h.2.2.2, ?_, ?_⟩
  · simp only [txBlock] at hu ⊢; simp [hu]
  · intro hne
    simp only [txBlock] at hu ⊢; simp [hu, hne]

/-- **`treat_num` step.** Disease states of agents that are not treated in this step are untouched. -/
theorem C20_treatment_confined (hiOff : Int) (cap : Option Nat) (p : Rat) (rows : List TxRow) (active eligAdd eligNow : List Nat)
    (draw : Nat → Rat) (effDraw : Nat → Nat → Rat) (st : TreatState) :
    let out := treatNumStep hiOff cap p rows active eligAdd eligNow draw effDraw st
    ∀ u, u ∉ out.1 → ∀ s, out.2.flags s u = st.flags s u := by
  intro out u hu s
  simp only [out, treatNumStep] at hu ⊢
  split
  · rfl
  · exact (C20_tx_confined rows active _ effDraw st.flags).1 u (Or.inl hu) s

/-- **`syph_treatment` step.** Its extra write clears `infected` for exactly the treated; everything else is the
    `treat_num` step: agents not treated in this step keep all their states, the treated are the `treat_num` treated. -/
theorem C20_syph_treatment_confined (clear : Nat) (hiOff : Int) (cap : Option Nat) (p : Rat) (rows : List TxRow)
    (active eligAdd eligNow : List Nat) (draw : Nat → Rat) (effDraw : Nat → Nat → Rat) (st : TreatState) :
    let out := syphTreatStep clear hiOff cap p rows active eligAdd eligNow draw effDraw st
    out.1 = (treatNumStep hiOff cap p rows active eligAdd eligNow draw effDraw st).1 ∧
    (∀ u, u ∉ out.1 → ∀ s, out.2.flags s u = st.flags s u) ∧ (∀ u ∈ out.1, out.2.flags clear u = false) ∧
    out.2.queue = (treatNumStep hiOff cap p rows active eligAdd eligNow draw effDraw st).2.queue := by
  refine ⟨rfl, ?_, ?_, rfl⟩
  · intro u hu s
    have hu' : u ∉ (treatNumStep hiOff cap p rows active eligAdd eligNow draw effDraw st).1 := hu
    have := C20_treatment_confined hiOff cap p rows active eligAdd eligNow draw effDraw st u hu' s
    simp only [syphTreatStep, hu', and_false, ↓reduceIte]
    exact this
  · intro u hu
    have hu' : u ∈ (treatNumStep hiOff cap p rows active eligAdd eligNow draw effDraw st).1 := hu
    simp [syphTreatStep, hu']

/-! ### A fully effective vaccine -/

/-- **Fully effective vaccine.** Recipients of a vaccine of efficacy 1 (leaky or all-or-nothing) have relative
    susceptibility 0 after the step, whatever it was before. -/
theorem C20_full_vaccine_zero (g : Gate) (conv : Rat → Rat) (s : Sched) (v : Vaccine)
    (hv : v = .leaky 1 ∨ ∃ f, v = .allOrNothing 1 f) (ti : Clock) (active : List Nat)
    (e : Elig) (draw : Nat → Rat) (r r' : VxRec) (acc : List Nat)
    (h : vxStep g conv s v ti active e draw r = .ok (acc, r')) : ∀ u ∈ acc, r'.relSus u = 0 := by
  intro u hu
  have := ((C20_effects_confined g conv s v ti active e draw r r' acc h).2 u hu).2.2.2
  rw [this]
  rcases hv with rfl | ⟨f, rfl⟩ <;> simp [Vaccine.factor]

/-- Susceptibility 0 is never undone by later vaccination steps of any vaccine, for every history. -/
theorem C20_zero_persists (g : Gate) (conv : Rat → Rat) (s : Sched) (v : Vaccine) (hist : List StepIn) :
    ∀ (r r' : VxRec) (accs : List (List Nat)), vxRun g conv s v hist r = .ok (accs, r') →
      ∀ u, r.relSus u = 0 → r'.relSus u = 0 := by
  induction hist with
  | nil =>
    intro r r' accs h u hu
    simp only [vxRun, Except.ok.injEq, Prod.mk.injEq] at h
    rw [← h.2]; exact hu
  | cons x xs ih =>
    intro r r' accs h u hu
    simp only [vxRun] at h
    cases h1 : vxStep g conv s v x.clock x.active x.elig x.draw r with
    | error e => simp [h1] at h
    | ok q =>
      obtain ⟨acc, r1⟩ := q
      simp only [h1] at h
      cases h2 : vxRun g conv s v xs r1 with
      | error e => simp [h2] at h
      | ok q2 =>
        obtain ⟨accs2, r2⟩ := q2
        simp only [h2, Except.ok.injEq, Prod.mk.injEq] at h
        rw [← h.2]
        apply ih r1 r2 accs2 h2 u
        have hc := C20_effects_confined g conv s v x.clock x.active x.elig x.draw r r1 acc h1
        by_cases hm : u ∈ acc
        · rw [(hc.2 u hm).2.2.2, hu]; simp
        · rw [(hc.1 u hm).2.2.2]; exact hu

/-- **Uninfectable.** An agent with relative susceptibility 0 is never infected over an edge, whatever the
    transmission strength and the (non-negative) random draw — the per-edge comparison of the transmission kernel
    (`p = beta·rel_trans·rel_sus`, infected iff `draw < p`; cf. C12). -/
theorem C20_full_vaccine_uninfectable (betaTrans draw : Rat) (hd : 0 ≤ draw) : transmits betaTrans 0 draw = false := by
  simp [transmits]; exact hd

/-- Every step of every vaccination history delivers within the eligible agents of that step. -/
theorem C20_history_recipients (g : Gate) (conv : Rat → Rat) (s : Sched) (v : Vaccine) (hist : List StepIn) :
    ∀ (r r' : VxRec) (accs : List (List Nat)), vxRun g conv s v hist r = .ok (accs, r') →
      List.Forall₂ (fun (x : StepIn) acc => acc = [] ∨ ∃ el, checkEligibility x.active x.elig = .ok el ∧ (∀ u ∈ acc, u ∈ el) ∧
        (g = .onTi → x.clock.sim ∈ s.timepoints) ∧ (g = .onOwnTi → x.clock.own ∈ s.timepoints)) hist accs := by
  induction hist with
  | nil =>
    intro r r' accs h
    simp only [vxRun, Except.ok.injEq, Prod.mk.injEq] at h
    rw [← h.1]; exact List.Forall₂.nil
  | cons x xs ih =>
    intro r r' accs h
    simp only [vxRun] at h
    cases h1 : vxStep g conv s v x.clock x.active x.elig x.draw r with
    | error e => simp [h1] at h
    | ok q =>
      obtain ⟨acc, r1⟩ := q
      simp only [h1] at h
      cases h2 : vxRun g conv s v xs r1 with
      | error e => simp [h2] at h
      | ok q2 =>
        obtain ⟨accs2, r2⟩ := q2
        simp only [h2, Except.ok.injEq, Prod.mk.injEq] at h
        rw [← h.1]
        refine List.Forall₂.cons ?_ (ih r1 r2 accs2 h2)
        rcases C20_recipients_eligible g conv s v x.clock x.active x.elig x.draw r r1 acc h1 with h0 | ⟨el, k, p, he, hg, _, hmem, _⟩
        · exact Or.inl h0
        · right
          refine ⟨el, he, fun u hu => (hmem u hu).1, ?_, ?_⟩
          · rintro rfl
            by_contra hnot
            have := (findFirst_none x.clock.sim s.timepoints).2 hnot
            simp [gateIndex, this] at hg
          · rintro rfl
            by_contra hnot
            have := (findFirst_none x.clock.own s.timepoints).2 hnot
            simp [gateIndex, this] at hg

/-- **Dose records.** Over every vaccination history the dose counter of an agent is its initial value plus the number
    of steps in which the agent was a recipient; `vaccinated` is true exactly if it was before or the agent was a recipient. -/
theorem C20_doses_count (g : Gate) (conv : Rat → Rat) (s : Sched) (v : Vaccine) (hist : List StepIn) :
    ∀ (r r' : VxRec) (accs : List (List Nat)), vxRun g conv s v hist r = .ok (accs, r') →
      ∀ u, r'.nDoses u = r.nDoses u + (accs.filter (fun a => decide (u ∈ a))).length ∧
           (r'.vaccinated u = true ↔ (r.vaccinated u = true ∨ ∃ a ∈ accs, u ∈ a)) := by
  induction hist with
  | nil =>
    intro r r' accs h u
    simp only [vxRun, Except.ok.injEq, Prod.mk.injEq] at h
    rw [← h.1, ← h.2]; simp
  | cons x xs ih =>
    intro r r' accs h u
    simp only [vxRun] at h
    cases h1 : vxStep g conv s v x.clock x.active x.elig x.draw r with
    | error e => simp [h1] at h
    | ok q =>
      obtain ⟨acc, r1⟩ := q
      simp only [h1] at h
      cases h2 : vxRun g conv s v xs r1 with
      | error e => simp [h2] at h
      | ok q2 =>
        obtain ⟨accs2, r2⟩ := q2
        simp only [h2, Except.ok.injEq, Prod.mk.injEq] at h
        rw [← h.1, ← h.2]
        obtain ⟨ihd, ihv⟩ := ih r1 r2 accs2 h2 u
        have hc := C20_effects_confined g conv s v x.clock x.active x.elig x.draw r r1 acc h1
        by_cases hm : u ∈ acc
        · have h3 := hc.2 u hm
          constructor
          · rw [ihd, h3.2.1]; simp [hm]; omega
          · rw [ihv, h3.1]; simp [hm]
        · have h3 := hc.1 u hm
          constructor
          · rw [ihd, h3.2.1]; simp [hm]
          · rw [ihv, h3.1]; simp [hm]

open StarsimModel.Transmission StarsimModel.C12 in
/-- **Uninfectable (through C12's transmission kernel).** Let a vaccination step of an efficacy-1 vaccine have produced
    the records `r'`. In any later transmission step of the disease whose relative susceptibilities are the recorded
    ones, whatever the networks, betas, other factors and (non-negative) random numbers, no recipient is infected. -/
theorem C20_full_vaccine_never_infected (g : Gate) (conv : Rat → Rat) (s : Sched) (v : Vaccine)
    (hv : v = .leaky 1 ∨ ∃ f, v = .allOrNothing 1 f) (c : Clock) (active : List Nat)
    (e : Elig) (draw : Nat → Rat) (r r' : VxRec) (acc : List Nat)
    (h : vxStep g conv s v c active e draw r = .ok (acc, r'))
    (d : DState) (hd : ∀ u, d.relSus u = r'.relSus u) (nets : List Net) (hr : NonnegRand nets) :
    ∀ ev ∈ infect d nets, ev.target ∉ acc := by
  intro ev hev hmem
  have hz := C20_full_vaccine_zero g conv s v hv c active e draw r r' acc h ev.target hmem
  exact (C12_target_susceptible hr hev).2 (by rw [hd, hz])

/-- **Coverage conversion uses the sim's `dt`: counterexample for a module on its own timeline.** An intervention
    called every 2 years in a yearly sim converts annual coverage 1/2 with `dt = 1` (per-call acceptance 1/2), whereas
    the acceptance per own step that compounds to the annual coverage is 3/4. -/
theorem C20_coverage_own_dt_counterexample : stepProbR (1/2) 1 = 1/2 ∧ stepProbR (1/2) 2 = 3/4 := by
  constructor
  · simp [stepProbR]
  · unfold stepProbR
    rw [show (2 : ℝ) = ((2 : ℕ) : ℝ) by norm_num, Real.rpow_natCast]
    norm_num

/-! ### Round 3: the rule's answer on the step of delivery, over rule-driven histories -/

def srcOf : Gen.EligSrcKind → EligSrc
  | .fresh => .fresh
  | .stored => .stored

/-- Every delivering function of the checked-out source (`BaseVaccination.step`, `BaseTest.deliver`,
    `BaseTreatment.get_accept_inds`, the re-check of `BaseTreatment.step`) works with the result of
    `self.check_eligibility()` called in that function, i.e. with the rule as evaluated on the step of delivery —
    not with a value kept on the object by an earlier evaluation. -/
theorem C20_eligibility_evaluated_on_delivery_step :
    Gen.eligSrcVaccination = .fresh ∧ Gen.eligSrcTest = .fresh ∧ Gen.eligSrcTreatAccept = .fresh ∧
      Gen.eligSrcTreatRecheck = .fresh := by decide

/-- **Treatment, every step of every run.** Drive `treat_num` (sources of the two eligibility lists and the capacity
    slice as regenerated from the source) with ANY sequence of rule answers, active sets and random streams, from any
    state (queue, memory).  At every step the treated are within the rule's answer ON THAT STEP — whatever the rule
    answered earlier and whoever is waiting in the queue —, are active when the rule is absent or a Boolean array, and
    number at most `max_capacity`. -/
theorem C20_treat_history_eligible (cap : Option Nat) (p : Rat) (rows : List TxRow) (hist : List TreatRuleIn) :
    ∀ (s s' : TreatRunState) (outs : List (List Nat)),
      treatRuleRun (srcOf Gen.eligSrcTreatAccept) (srcOf Gen.eligSrcTreatRecheck) Gen.capSliceOffset cap p rows hist s
        = .ok (outs, s') →
      List.Forall₂ (fun (x : TreatRuleIn) (t : List Nat) =>
        ∃ el, checkEligibility x.active x.elig = .ok el ∧ (∀ u ∈ t, u ∈ el) ∧
          ((∀ l, x.elig ≠ .uids l) → ∀ u ∈ t, u ∈ x.active) ∧ (∀ c, cap = some c → t.length ≤ c)) hist outs := by
  have hsrc := C20_eligibility_evaluated_on_delivery_step
  induction hist with
  | nil =>
    intro s s' outs h
    simp only [treatRuleRun, Except.ok.injEq, Prod.mk.injEq] at h
    rw [← h.1]; exact List.Forall₂.nil
  | cons x xs ih =>
    intro s s' outs h
    simp only [treatRuleRun] at h
    cases h1 : treatRuleStep (srcOf Gen.eligSrcTreatAccept) (srcOf Gen.eligSrcTreatRecheck) Gen.capSliceOffset cap p rows x s with
    | error e => simp [h1] at h
    | ok q =>
      obtain ⟨t, s1⟩ := q
      simp only [h1] at h
      cases h2 : treatRuleRun (srcOf Gen.eligSrcTreatAccept) (srcOf Gen.eligSrcTreatRecheck) Gen.capSliceOffset cap p rows xs s1 with
      | error e => simp [h2] at h
      | ok q2 =>
        obtain ⟨ts, s2⟩ := q2
        simp only [h2, Except.ok.injEq, Prod.mk.injEq] at h
        rw [← h.1]
        refine List.Forall₂.cons ?_ (ih s1 s2 ts h2)
        unfold treatRuleStep at h1
        cases he : checkEligibility x.active x.elig with
        | error e => simp [he] at h1
        | ok el =>
          simp only [he, hsrc.2.2.1, hsrc.2.2.2, srcOf, eligUsed, Except.ok.injEq, Prod.mk.injEq] at h1
          have ht := h1.1
          have hel := (C20_treated_eligible Gen.capSliceOffset cap p rows x.active el el x.draw x.effDraw s.st).1
          simp only [ht] at hel
          refine ⟨el, rfl, fun u hu => (hel u hu).1, ?_, ?_⟩
          · intro hk u hu
            exact checkEligibility_active x.active x.elig el he hk u (hel u hu).1
          · intro c hc
            subst hc
            have := (C20_capacity c p rows x.active el el x.draw x.effDraw s.st).1
            simp only [ht] at this
            exact this

/-- **Boundary: a re-check against a kept eligibility list.** If `BaseTreatment.step` intersected the candidates with the
    list kept from the previous evaluation instead of this step's (`stored`), a queued agent is treated on a step on
    which the rule returns nobody: queue [4,5,6], capacity 1; the rule answers "everybody", then "nobody"; agent 4 is
    treated on the second step (kernel-checked).  With the source's `fresh` re-check nobody is. -/
theorem C20_stored_eligibility_counterexample :
    (match treatRuleRun .fresh .stored 0 (some 1) 1 [⟨1, 1, 0⟩]
        [⟨[4, 5, 6], .everyone, fun _ => 0, fun _ _ => 0⟩, ⟨[4, 5, 6], .mask (fun _ => false), fun _ => 0, fun _ _ => 0⟩]
        ⟨⟨[4, 5, 6], fun s _ => s == 1, [], []⟩, []⟩ with
      | .ok (outs, _) => decide (outs = [[], [4]])
      | .error _ => false) = true ∧
    checkEligibility [4, 5, 6] (.mask (fun _ => false)) = .ok [] ∧
    (match treatRuleRun .fresh .fresh 0 (some 1) 1 [⟨1, 1, 0⟩]
        [⟨[4, 5, 6], .everyone, fun _ => 0, fun _ _ => 0⟩, ⟨[4, 5, 6], .mask (fun _ => false), fun _ => 0, fun _ _ => 0⟩]
        ⟨⟨[4, 5, 6], fun s _ => s == 1, [], []⟩, []⟩ with
      | .ok (outs, _) => decide (outs = [[4], []])
      | .error _ => false) = true := by
  refine ⟨by decide +kernel, by decide +kernel, by decide +kernel⟩

/-! ### Non-vacuity: concrete states meeting the hypotheses -/

/-- a delivering vaccination step (time point 3 of the schedule; of the active agents 1, 2, 5 the rule excludes 2,
    agent 5 declines on its draw, agent 1 is vaccinated and fully protected) -/
example : (match vxStep .onTi id ⟨[2, 3, 4], [1/2, 1/2, 1/2], false, 1⟩ (.leaky 1) ⟨3, 3⟩ [1, 2, 5] (.mask (fun u => u != 2))
      (fun u => if u = 5 then 9/10 else 1/10) ⟨fun _ => false, fun _ => 0, fun _ => none, fun _ => 1⟩ with
    | .ok (acc, r) => decide (acc = [1]) && decide (r.relSus 1 = 0) && decide (r.relSus 5 = 1) && decide (r.nDoses 1 = 1)
    | .error _ => false) = true := by decide +kernel

/-- hypotheses of `C20_window_spec` / `C20_window_partial`: a half-year grid and an accepted window -/
example : routineInit .spec ⟨gridYears 2000 (1/2) 11, 2000, 2005, none, some 2001, some 2003, [3/10], true, 1/2, Tols.exact⟩ =
    .ok ⟨[2, 3, 4, 5, 6, 7], List.replicate 6 (3/10), true, 1/2⟩ := by decide +kernel

/-- a capacity-limited step: queue [4,5,6], capacity 2, everyone eligible: 4 and 5 are treated, 6 waits -/
example : (treatNumStep 0 (some 2) 1 [⟨1, 1, 0⟩] [4, 5, 6] [] [4, 5, 6] (fun _ => 0) (fun _ _ => 0)
    ⟨[4, 5, 6], fun s _ => s == 1, [], []⟩).1 = [4, 5] := by decide +kernel

example : (treatNumStep 0 (some 2) 1 [⟨1, 1, 0⟩] [4, 5, 6] [] [4, 5, 6] (fun _ => 0) (fun _ _ => 0)
    ⟨[4, 5, 6], fun s _ => s == 1, [], []⟩).2.queue = [6] := by decide +kernel

/-- `C20_treat_history_eligible`: a three-step rule-driven run with a backlog (capacity 1) whose rule closes on the second
    step and reopens on the third: 4 is treated, nobody, then 5 -/
example : (match treatRuleRun (srcOf Gen.eligSrcTreatAccept) (srcOf Gen.eligSrcTreatRecheck) Gen.capSliceOffset (some 1) 1 [⟨1, 1, 0⟩]
      [⟨[4, 5, 6], .everyone, fun _ => 0, fun _ _ => 0⟩, ⟨[4, 5, 6], .uids [], fun _ => 0, fun _ _ => 0⟩,
       ⟨[4, 5, 6], .mask (fun u => u != 4), fun _ => 1, fun _ _ => 0⟩]
      ⟨⟨[], fun s _ => s == 1, [], []⟩, [9]⟩ with
    | .ok (outs, s) => decide (outs = [[4], [], [5]]) && decide (s.st.queue = [6])
    | .error _ => false) = true := by decide +kernel

/-- `C20_coverage_annual`: four quarterly steps -/
example : ((4 : ℕ) : ℝ) * (1 / 4 : ℝ) = 1 := by norm_num

/-- `C20_dx_outcomes`: two results, one block -/
example : dxAdminister 2 [⟨0⟩] (fun _ u => u == 1) [1, 2] (fun _ _ => 0) [1, 2] = [[1], [2]] := by decide +kernel

end StarsimModel.C20
