/-
C05 — Each distribution samples the law its parameters describe  (PARTIAL: see DESIGN §8).

What is proved is everything starsim adds around NumPy's samplers and SciPy's quantile functions, about the
formulas *regenerated from /repo/starsim/distributions.py on every run* (Generated/DistFormulasR.lean):
parameter translation (explicit → implicit lognormal has exactly the requested mean and variance), agreement of
the scalar and per-agent paths reduced to parameter algebra, support and monotonicity of the starsim-defined
quantile functions, Bernoulli monotonicity in p, histogram normalisation and bin-edge completion, emptiness,
time scaling, rejections.  The law of the standard variates themselves is trusted to NumPy / SciPy.
-/
import StarsimModel.Generated.DistFormulasR
import StarsimModel.Model.DistPars
import Mathlib.Tactic.Ring
import Mathlib.Tactic.Linarith
import Mathlib.Tactic.FieldSimp
import Mathlib.Tactic.Positivity
import Mathlib.Algebra.Order.Floor.Ring

namespace StarsimModel.C05
open StarsimModel.Gen.DistR

/-! ### Explicit lognormal: `convert_ex_to_im` gives a lognormal with exactly the requested moments -/

theorem exp_half_log {x : ℝ} (hx : 0 < x) : Real.exp (Real.log x / 2) = Real.sqrt x := by
  symm
  rw [Real.sqrt_eq_iff_mul_self_eq hx.le (Real.exp_pos _).le, ← Real.exp_add]
  rw [show Real.log x / 2 + Real.log x / 2 = Real.log x by ring, Real.exp_log hx]

/-- `exp(μ + σ²/2) = mean`: the mean of `Lognormal(μ, σ)` with the parameters the code computes is the requested mean. -/
theorem C05_lognorm_ex_mean (mean std : ℝ) (hm : 0 < mean) :
    Real.exp (lognormExMeanIm mean std + (lognormExSigmaIm mean std) ^ 2 / 2) = mean := by
  unfold lognormExMeanIm lognormExSigmaIm
  have hm2 : 0 < mean ^ 2 := by positivity
  have hs : 0 < std ^ 2 + mean ^ 2 := by positivity
  have hq : 0 < std ^ 2 / mean ^ 2 + 1 := by positivity
  have hq1 : 1 ≤ std ^ 2 / mean ^ 2 + 1 := by
    have : 0 ≤ std ^ 2 / mean ^ 2 := by positivity
    linarith
  rw [Real.sq_sqrt (Real.log_nonneg hq1)]
  have hsq : 0 < Real.sqrt (std ^ 2 + mean ^ 2) := Real.sqrt_pos.mpr hs
  rw [Real.exp_add, Real.exp_log (by positivity), exp_half_log hq]
  have e1 : std ^ 2 / mean ^ 2 + 1 = (std ^ 2 + mean ^ 2) / mean ^ 2 := by field_simp
  rw [e1, Real.sqrt_div hs.le, Real.sqrt_sq hm.le]
  field_simp

/-- `(exp σ² − 1)·exp(2μ + σ²) = std²`: the variance of that lognormal is the requested variance. -/
theorem C05_lognorm_ex_std (mean std : ℝ) (hm : 0 < mean) :
    (Real.exp ((lognormExSigmaIm mean std) ^ 2) - 1) *
      Real.exp (2 * lognormExMeanIm mean std + (lognormExSigmaIm mean std) ^ 2) = std ^ 2 := by
  unfold lognormExMeanIm lognormExSigmaIm
  have hm2 : 0 < mean ^ 2 := by positivity
  have hs : 0 < std ^ 2 + mean ^ 2 := by positivity
  have hq : 0 < std ^ 2 / mean ^ 2 + 1 := by positivity
  have hq1 : 1 ≤ std ^ 2 / mean ^ 2 + 1 := by
    have : 0 ≤ std ^ 2 / mean ^ 2 := by positivity
    linarith
  rw [Real.sq_sqrt (Real.log_nonneg hq1)]
  have hsq : 0 < Real.sqrt (std ^ 2 + mean ^ 2) := Real.sqrt_pos.mpr hs
  have hpos : 0 < mean ^ 2 / Real.sqrt (std ^ 2 + mean ^ 2) := by positivity
  rw [Real.exp_add, Real.exp_log hq]
  rw [show (2 : ℝ) * Real.log (mean ^ 2 / Real.sqrt (std ^ 2 + mean ^ 2)) =
      Real.log (mean ^ 2 / Real.sqrt (std ^ 2 + mean ^ 2)) + Real.log (mean ^ 2 / Real.sqrt (std ^ 2 + mean ^ 2)) by ring]
  rw [Real.exp_add, Real.exp_log hpos]
  have hss : Real.sqrt (std ^ 2 + mean ^ 2) * Real.sqrt (std ^ 2 + mean ^ 2) = std ^ 2 + mean ^ 2 :=
    Real.mul_self_sqrt hs.le
  have hne : Real.sqrt (std ^ 2 + mean ^ 2) ≠ 0 := hsq.ne'
  field_simp
  nlinarith [hss, sq_nonneg std, sq_nonneg mean]

/-- the code's guard: a scalar mean ≤ 0 is rejected (regenerated fact) -/
theorem C05_lognorm_ex_rejects_nonpositive_mean : lognormExRejectsNonposMean = true := by decide

example : (0 : ℝ) < 2 := by norm_num  -- the hypothesis `0 < mean` is met by the default-style `lognorm_ex(mean=2, std=1)`

/-! ### Scalar path and per-agent path are the same transform (parameter algebra) -/

/-- implicit lognormal: NumPy's `lognormal(mean, sigma)` is `exp(mean + sigma·z)`; SciPy's
    `lognorm(s, loc, scale)` quantile transform is `loc + scale·exp(s·z)`.  With the code's (s, loc, scale) they agree
    for every standard-normal quantile `z`. -/
theorem C05_paths_agree_lognorm_im (mean sigma z : ℝ) :
    lognormImLoc mean sigma + lognormImScale mean sigma * Real.exp (lognormImS mean sigma * z)
      = Real.exp (mean + sigma * z) := by
  unfold lognormImLoc lognormImScale lognormImS
  rw [Real.exp_add]; ring

/-- explicit lognormal: both paths use the implicit parameters computed by the same conversion (previous theorem
    applies with `mean := lognormExMeanIm`, `sigma := lognormExSigmaIm`). -/
theorem C05_paths_agree_lognorm_ex (mean std z : ℝ) :
    lognormImLoc (lognormExMeanIm mean std) (lognormExSigmaIm mean std)
      + lognormImScale (lognormExMeanIm mean std) (lognormExSigmaIm mean std)
        * Real.exp (lognormImS (lognormExMeanIm mean std) (lognormExSigmaIm mean std) * z)
      = Real.exp (lognormExMeanIm mean std + lognormExSigmaIm mean std * z) :=
  C05_paths_agree_lognorm_im _ _ z

/-- Poisson: SciPy's `mu` is NumPy's `lam`. -/
theorem C05_paths_agree_poisson (lam : ℝ) : poissonMu lam = lam := rfl

/-- uniform: `make_rvs` (scalar path) and `ppf` (per-agent path) are the same function of the uniform variate. -/
theorem C05_paths_agree_uniform (u low high : ℝ) : uniformMakeRvs u low high = uniformPpf u low high := by
  unfold uniformMakeRvs uniformPpf; ring

/-- Bernoulli: both paths select exactly when the uniform variate is below `p`. -/
theorem C05_paths_agree_bernoulli (u p : ℝ) : bernoulliMakeRvs u p ↔ bernoulliPpf u p := by
  unfold bernoulliMakeRvs bernoulliPpf; exact Iff.rfl

/-! ### Support and monotonicity of the starsim-defined quantile functions -/

theorem C05_uniform_support (u low high : ℝ) (h0 : 0 ≤ u) (h1 : u < 1) (hlh : low < high) :
    low ≤ uniformPpf u low high ∧ uniformPpf u low high < high := by
  unfold uniformPpf
  have hd : 0 < high - low := by linarith
  constructor
  · nlinarith [mul_nonneg h0 hd.le]
  · nlinarith [mul_lt_mul_of_pos_right h1 hd]

theorem C05_uniform_mono (u u' low high : ℝ) (hu : u ≤ u') (hlh : low ≤ high) :
    uniformPpf u low high ≤ uniformPpf u' low high := by
  unfold uniformPpf
  have hd : 0 ≤ high - low := by linarith
  nlinarith [mul_le_mul_of_nonneg_right hu hd]

/-- Bernoulli selection is the event `u < p` … -/
theorem C05_bernoulli_event (u p : ℝ) : bernoulliPpf u p ↔ u < p := Iff.rfl

/-- … hence, for fixed draws, monotone in `p`; `p ≤ 0` selects nobody and `p ≥ 1` everybody (`u ∈ [0,1)`). -/
theorem C05_bernoulli_mono_p (u p p' : ℝ) (h : p ≤ p') : bernoulliPpf u p → bernoulliPpf u p' := by
  unfold bernoulliPpf; intro hu; linarith

theorem C05_bernoulli_extremes (u p : ℝ) (h0 : 0 ≤ u) (h1 : u < 1) :
    (p ≤ 0 → ¬ bernoulliPpf u p) ∧ (1 ≤ p → bernoulliPpf u p) := by
  unfold bernoulliPpf
  constructor
  · intro hp hu; linarith
  · intro hp; linarith

/-! ### Integer range [low, high)

`randint`'s scalar path is NumPy's `integers(low, high)` = [low, high).  Its per-agent quantile function is
regenerated as `randintPpfRaw` followed by an integer cast.  `C05_randint_support` is stated about the regenerated
formula: it holds exactly when the code uses the width `high − low` and floors. -/

/-- The per-agent path stays inside [low, high) for every uniform variate in [0,1). -/
def RandintSupportOK : Prop :=
  ∀ (u : ℝ) (low high : ℤ), 0 ≤ u → u < 1 → low < high →
    low ≤ ⌊randintPpfRaw u low high⌋ ∧ ⌊randintPpfRaw u low high⌋ < high

/-- **Spec.** With width `high − low` the floor of `u·(high−low)+low` lies in [low, high). -/
theorem C05_randint_support_spec (u : ℝ) (low high : ℤ) (h0 : 0 ≤ u) (h1 : u < 1) (hlh : low < high) :
    low ≤ ⌊u * ((high : ℝ) - low) + low⌋ ∧ ⌊u * ((high : ℝ) - low) + low⌋ < high := by
  have hd : (0 : ℝ) < (high : ℝ) - low := by
    have : (low : ℝ) < high := by exact_mod_cast hlh
    linarith
  constructor
  · rw [Int.le_floor]; nlinarith [mul_nonneg h0 hd.le]
  · rw [Int.floor_lt]; nlinarith [mul_lt_mul_of_pos_right h1 hd]

/-- Each integer of [low, high) is hit by a `u`-interval of length exactly `1/(high−low)`: the law is uniform. -/
theorem C05_randint_uniform_spec (u : ℝ) (low high k : ℤ) (hlh : low < high) :
    ⌊u * ((high : ℝ) - low) + low⌋ = k ↔
      ((k : ℝ) - low) / ((high : ℝ) - low) ≤ u ∧ u < ((k : ℝ) + 1 - low) / ((high : ℝ) - low) := by
  have hd : (0 : ℝ) < (high : ℝ) - low := by
    have : (low : ℝ) < high := by exact_mod_cast hlh
    linarith
  rw [Int.floor_eq_iff, div_le_iff₀ hd, lt_div_iff₀ hd]
  constructor
  · rintro ⟨a, b⟩; constructor <;> linarith
  · rintro ⟨a, b⟩; constructor <;> linarith

/-- **The code's formula.** The regenerated per-agent quantile function of `randint` stays in [low, high)
    (fails to elaborate if the code goes back to the width `high + 1 − low`). -/
theorem C05_randint_support : RandintSupportOK := by
  intro u low high h0 h1 hlh
  unfold randintPpfRaw
  exact C05_randint_support_spec u low high h0 h1 hlh

/-- … and it floors before the integer cast (a truncating cast alone is wrong for negative values). -/
theorem C05_randint_floors : randintFloors = true := by decide

/-- The formula used before the `fix:` commit (`u·(high+1−low)+low`) reaches `high`: kept as the witness of the
    repaired defect (known_findings.json, kind `fixed`). -/
theorem C05_randint_old_formula_counterexample :
    ∃ (u : ℝ) (low high : ℤ), 0 ≤ u ∧ u < 1 ∧ low < high ∧ ⌊u * ((high : ℝ) + 1 - low) + low⌋ = high := by
  refine ⟨9 / 10, 0, 1, by norm_num, by norm_num, by norm_num, ?_⟩
  rw [Int.floor_eq_iff]; norm_num

example : ∃ (u : ℝ) (low high : ℤ), 0 ≤ u ∧ u < 1 ∧ low < high := ⟨1 / 2, -3, 4, by norm_num, by norm_num, by norm_num⟩

/-! ### Histogram -/
open StarsimModel.DistPars

theorem sumRat_map_div (l : List Rat) (s : Rat) : sumRat (l.map (· / s)) = sumRat l / s := by
  induction l with
  | nil => simp [sumRat]
  | cons x xs ih => simp only [List.map_cons, sumRat, ih]; rw [add_div]

/-- after `normalise` the bin weights sum to one (whenever they do not sum to zero) -/
theorem C05_hist_normalised (values : List Rat) (h : sumRat values ≠ 0) : sumRat (normalise values) = 1 := by
  unfold normalise
  by_cases h1 : sumRat values = 1
  · simp [h1]
  · simp only [ne_eq, h1, not_false_eq_true, ↓reduceIte]
    rw [sumRat_map_div, div_self h]

/-- normalisation keeps the ratios between bins (it is a division by one common positive number) -/
theorem C05_hist_ratios (values : List Rat) (i : Nat) (x : Rat) (h : values[i]? = some x) :
    (normalise values)[i]? = some (if sumRat values ≠ 1 then x / sumRat values else x) := by
  unfold normalise
  by_cases h1 : sumRat values = 1 <;> simp [h1, h]

/-- with as many bins as values one right edge is appended, continuing the last spacing -/
theorem C05_hist_edges (n : Nat) (bins : List Rat) (a b : Rat) (pre : List Rat) (hb : bins = pre ++ [a, b])
    (hn : bins.length = n) :
    completeBins n bins = some (bins ++ [b + (b - a)]) := by
  unfold completeBins
  subst hb
  have hlen : (pre ++ [a, b]).length = n := hn
  simp only [hlen, ↓reduceIte, List.reverse_append, List.reverse_cons, List.reverse_nil, List.nil_append,
    List.cons_append]

/-- otherwise the bins are used as given -/
theorem C05_hist_edges_given (n : Nat) (bins : List Rat) (hn : bins.length ≠ n) : completeBins n bins = some bins := by
  unfold completeBins; simp [hn]

example : normalise [1, 3, 2] = [1/6, 1/2, 1/3] := by decide +kernel
example : completeBins 3 [0, 10, 30] = some [0, 10, 30, 50] := by decide +kernel

/-! ### Empty requests, time scaling, refusals -/

/-- a size-zero request yields nothing, whatever the sampler -/
theorem C05_size_zero_empty {α} (draw : Nat → List α) (h : ∀ n, (draw n).length = n) : emptyRequest draw = [] := by
  unfold emptyRequest; exact List.length_eq_zero_iff.mp (h 0)

/-- a duration-wrapped parameter multiplies the variates by exactly the conversion factor, a rate-wrapped one
    divides them (regenerated from `dur.update_values` / `rate.update_values`, applied by `postprocess_timepar`) -/
theorem C05_timepar_scaling (v factor : ℝ) : durValues v factor = v * factor ∧ rateValues v factor = v / factor :=
  ⟨rfl, rfl⟩

theorem C05_timepar_scaling_linear (a v factor : ℝ) :
    durValues (a * v) factor = a * durValues v factor ∧ rateValues (a * v) factor = a * rateValues v factor := by
  unfold durValues rateValues; constructor <;> ring

/-- families whose values are not times refuse time-wrapped parameters (regenerated table) -/
theorem C05_rejects_timepars :
    timeparRefusals.lookup "lognorm_im" = some "always" ∧ timeparRefusals.lookup "choice" = some "always" ∧
    timeparRefusals.lookup "randint" = some "unless_allowed" := by decide

end StarsimModel.C05
